// C04 — slices select and assign exactly the numpy-designated elements.
// Correspondence cases for the Lean model (Gen.BaseSlice.ctor + Model/Slice) and the property's
// own oracle (Python's slice rule, "copy source first" assignment) on the real code.
//
// Two families of cases:
//  * position-coded (x[i] = i): tags slice / sliceL / copy / asg / asgv — the exhaustive small boxes;
//  * value-carrying (tags asgX / asgXL / asgvX / asgvXL, keys *-bits): array cells are arbitrary IEEE bit
//    patterns (signed zeros, denormals, NaNs, infinities, 1e-300 … 1e100, runs of zeros) and everything is
//    compared BIT FOR BIT (NaN payload-agnostic).  They also carry the LARGE scenarios: same-array
//    overlapping (dst, src) pairs with 10^2 … 10^5 elements in every stride-sign combination and overlap
//    geometry (forced collisions "destination cell j is source cell k" with j<k, j>k at gaps from 1 to
//    count-1), random assignments of every right-hand-side kind on arrays up to 10^5, value-category
//    variants (named slice objects, copies of them, temporaries) and histories with failed calls.
#include "common.hpp"
using namespace dsplib;
using vh::Out;

static Out out;

// ---------------------------------------------------------------- Python reference
static long py_adjust(long n, long i, long step) {
    if (i < 0) { i += n; if (i < 0) i = (step < 0) ? -1 : 0; }
    else if (i >= n) i = (step < 0) ? n - 1 : n;
    return i;
}
static std::vector<int> py_indices(long n, long i1, long i2, long step) {
    long start = py_adjust(n, i1, step), stop = py_adjust(n, i2, step);
    std::vector<int> r;
    if (step > 0) for (long i = start; i < stop; i += step) r.push_back(int(i));
    else for (long i = start; i > stop; i += step) r.push_back(int(i));
    return r;
}
// may the call throw?  (the five situations of the statement)
static bool may_throw(long n, long i1, long i2, long step) {
    if (n == 0 || step == 0) return true;
    if (i1 < -n || i1 > n - 1) return true;
    if (i2 < -n || i2 > n) return true;
    long r1 = i1 < 0 ? i1 + n : i1, r2 = i2 < 0 ? i2 + n : i2;
    if (step < 0 && r1 < r2) return true;
    if (step > 0 && r1 > r2) return true;
    return false;
}

template<class T> T mk(int i);
template<> real_t mk<real_t>(int i) { return real_t(i); }
template<> cmplx_t mk<cmplx_t>(int i) { return cmplx_t(i, -i); }
static int idx_of(real_t v) { return int(v); }
static int idx_of(cmplx_t v) { return (v.im == -v.re) ? int(v.re) : -999; }

template<class T> base_array<T> iota(int n) {
    base_array<T> x(n);
    for (int i = 0; i < n; ++i) x[i] = mk<T>(i);
    return x;
}

static std::string spec(const char* op, std::initializer_list<long> v) {
    std::string s = std::string("{\"op\":\"") + op + "\",\"args\":[";
    bool f = true;
    for (auto x : v) { if (!f) s += ","; f = false; s += std::to_string(x); }
    return s + "]}";
}

// ---------------------------------------------------------------- slice read
// kind: 0 real const, 1 real mutable, 2 cmplx const, 3 cmplx mutable
// spelling (end_ph): 0 slice(i1, i2, m); 1 slice(i1, indexing::end, m); and, for m == 1 only, the spellings that
// rely on the DEFAULT step: 2 slice(i1, indexing::end); 3 slice(i1, i2)
template<class T, bool Const>
static bool read_slice(int n, int i1, int i2, int m, int end_ph, std::vector<int>& got) {
    base_array<T> x = iota<T>(n);
    const base_array<T>& cx = x;
    try {
        base_array<T> y;
        if constexpr (Const) {
            switch (end_ph) {
            case 0: y = base_array<T>(cx.slice(i1, i2, m)); break;
            case 1: y = base_array<T>(cx.slice(i1, indexing::end, m)); break;
            case 2: y = base_array<T>(cx.slice(i1, indexing::end)); break;
            default: y = base_array<T>(cx.slice(i1, i2)); break;
            }
        } else {
            switch (end_ph) {
            case 0: y = base_array<T>(x.slice(i1, i2, m)); break;
            case 1: y = base_array<T>(x.slice(i1, indexing::end, m)); break;
            case 2: y = base_array<T>(x.slice(i1, indexing::end)); break;
            default: y = base_array<T>(x.slice(i1, i2)); break;
            }
        }
        got.clear();
        for (int i = 0; i < y.size(); ++i) got.push_back(idx_of(y[i]));
        return true;
    } catch (const std::exception&) {
        return false;
    }
}

static void case_slice(int kind, int n, int i1, int i2, int m, int end_ph) {
    std::vector<int> got;
    const bool ph = (end_ph == 1 || end_ph == 2);
    const int e2 = ph ? n : i2;
    static const char* const opname[] = {"slice", "slice_end", "slice_end_default_step", "slice_default_step"};
    const std::string js = spec(opname[end_ph], {kind, n, i1, e2, m});
    vh::set_current("C04:crash:slice", js);
    bool ok;
    switch (kind) {
    case 0: ok = read_slice<real_t, true>(n, i1, i2, m, end_ph, got); break;
    case 1: ok = read_slice<real_t, false>(n, i1, i2, m, end_ph, got); break;
    case 2: ok = read_slice<cmplx_t, true>(n, i1, i2, m, end_ph, got); break;
    default: ok = read_slice<cmplx_t, false>(n, i1, i2, m, end_ph, got); break;
    }
    vh::clear_current();
    const bool big = ok && got.size() > 64;   // large slices: digest instead of the full list
    std::string lhs = std::string(big ? "sliceL " : "slice ") + std::to_string(n) + " " + std::to_string(i1) + " " + std::to_string(e2) + " " + std::to_string(m);
    if (big) {
        unsigned long long cs = 0;
        for (size_t j = 0; j < got.size(); ++j) cs = (cs + (unsigned long long)(got[j] + 1) * (j + 1)) % 1000000007ULL;
        out.corr(lhs, std::to_string(got.size()) + " " + std::to_string(got.front()) + " " + std::to_string(got.back()) + " " + std::to_string(cs));
    } else
        out.corr(lhs, ok ? std::to_string(got.size()) + vh::join_ints(got) : "ERR");
    out.n_oracle++;
    if (end_ph) out.stat(std::string("slice_spelling_") + opname[end_ph] + ((kind & 1) ? "_mutable" : "_const") + (m < 0 ? "_negstep" : m > 1 ? "_posstep" : ""));
    if (ok) {
        out.stat("slice_ok");
        out.stat("slice_count_" + std::to_string(got.size() > 4 ? 5 : got.size()) + (got.size() > 4 ? "plus" : ""));
        if (m == 0 || got != py_indices(n, i1, e2, m)) out.fail("C04:slice-denotes", js);
    } else {
        out.stat("slice_throws");
        if (!may_throw(n, i1, e2, m)) out.fail("C04:slice-throws-valid", js);
    }
    if (out.n_cases % 4001 == 0) out.sample(js);
}

// ---------------------------------------------------------------- copies of slice objects
template<class T>
static void case_copy(int n, int i1, int i2, int m) {
    if (may_throw(n, i1, i2, m)) return;
    const auto want = py_indices(n, i1, i2, m);
    base_array<T> x = iota<T>(n);
    const base_array<T>& cx = x;
    const bool cplx = is_complex_v<T>;
    for (int which = 0; which < 3; ++which) {
        const std::string js = spec("copy", {cplx ? 1 : 0, which, n, i1, i2, m});
        vh::set_current("C04:crash:copy", js);
        std::vector<int> got;
        bool ok = true;
        try {
            base_array<T> y;
            if (which == 0) { auto s = cx.slice(i1, i2, m); const_slice_t<T> c(s); y = base_array<T>(c); }
            else if (which == 1) { auto s = x.slice(i1, i2, m); slice_t<T> c(s); y = base_array<T>(c); }
            else { auto s = x.slice(i1, i2, m); const_slice_t<T> c(s); y = base_array<T>(c); }
            for (int i = 0; i < y.size(); ++i) got.push_back(idx_of(y[i]));
        } catch (const std::exception&) { ok = false; }
        vh::clear_current();
        out.corr("copy " + std::to_string(which) + " " + std::to_string(n) + " " + std::to_string(i1) + " " + std::to_string(i2) + " " + std::to_string(m),
                 ok ? std::to_string(got.size()) + vh::join_ints(got) : "ERR");
        out.n_oracle++;
        out.stat("copy_cases");
        if (!ok || got != want) out.fail("C04:copy-same", js);
    }
}

// ---------------------------------------------------------------- the count rule of assignment (EXACT)
// dc: element count of the destination slice; sc: element count of the right-hand side (array length, list length,
// count of the source slice).  A scalar right-hand side has no count and is not judged here.
//   dc != sc        the call MUST throw and MUST leave the array untouched — whatever the two numbers are, in particular
//                   sc == 0 < dc (nothing to copy is NOT "nothing to check") and dc == 0 < sc;
//                   accepted silently -> C04:count-mismatch-accepted, array modified -> C04:assign-count-mismatch
//   dc == sc == 0   nothing designated, nothing to write: the array must be untouched.  For an ARRAY right-hand side the
//                   implementation slices the (empty) array itself, "empty array" is one of the listed throwing
//                   situations of slice(), so throwing and returning are both accepted there (`empty_may_throw`);
//                   an empty list / an empty source slice of a non-empty array must be accepted (equal counts)
//   dc == sc  > 0   must succeed and write exactly the designated cells (judged by the caller: `return false`)
// form: the spelling of the right-hand side (statistics only)
static bool judge_count(long dc, long sc, bool ok, bool untouched, bool empty_may_throw, const char* form, const std::string& js, const char* key_equal) {
    if (dc != sc) {
        out.stat(std::string("count_rel_") + (sc == 0 ? "src0_dst_pos" : dc == 0 ? "dst0_src_pos" : sc < dc ? "shorter" : "longer") + "_" + form);
        if (ok) out.fail("C04:count-mismatch-accepted", js);
        if (!untouched) out.fail("C04:assign-count-mismatch", js);
        return true;
    }
    if (dc == 0) {
        out.stat(std::string("count_rel_both_empty_") + (ok ? "noop_" : "threw_") + form);
        if (!untouched) out.fail(key_equal, js);
        if (!ok && !empty_may_throw) out.fail(key_equal, js);
        return true;
    }
    return false;
}

// ---------------------------------------------------------------- assignment
template<class T>
static std::string dump(const base_array<T>& x) {
    std::string s = std::to_string(x.size());
    for (int i = 0; i < x.size(); ++i) s += " " + std::to_string(idx_of(x[i]));
    return s;
}

// destination slice (d1,d2,dm) of an n-array; source = slice (s1,s2,sm) of the same array
// (same = 1) or of another array of length n2 holding 100,101,...
template<class T>
static void case_assign_slice(int n, int d1, int d2, int dm, int same, int n2, int s1, int s2, int sm, int src_const) {
    const bool cplx = is_complex_v<T>;
    const std::string js = spec("assign_slice", {cplx ? 1 : 0, n, d1, d2, dm, same, n2, s1, s2, sm, src_const});
    base_array<T> x = iota<T>(n);
    base_array<T> other(n2);
    for (int i = 0; i < n2; ++i) other[i] = mk<T>(100 + i);
    const base_array<T> before = x;
    const base_array<T>& srcarr = same ? x : other;
    const int ns = same ? n : n2;
    if (may_throw(n, d1, d2, dm) || may_throw(ns, s1, s2, sm)) return;
    const auto di = py_indices(n, d1, d2, dm), si = py_indices(ns, s1, s2, sm);
    vh::set_current("C04:crash:assign_slice", js);
    bool ok = true;
    try {
        // a stop index equal to the length is spelled with the end placeholder (const / mutable overload, with step)
        if (src_const) { const base_array<T>& cs = srcarr; if (s2 == ns) x.slice(d1, d2, dm) = cs.slice(s1, indexing::end, sm); else x.slice(d1, d2, dm) = cs.slice(s1, s2, sm); }
        else if (same) { if (s2 == ns) x.slice(d1, d2, dm) = x.slice(s1, indexing::end, sm); else x.slice(d1, d2, dm) = x.slice(s1, s2, sm); }
        else x.slice(d1, d2, dm) = other.slice(s1, s2, sm);
    } catch (const std::exception&) { ok = false; }
    vh::clear_current();
    out.corr("asg " + std::to_string(n) + " " + std::to_string(d1) + " " + std::to_string(d2) + " " + std::to_string(dm) + " " + std::to_string(same) + " " +
                 std::to_string(n2) + " " + std::to_string(s1) + " " + std::to_string(s2) + " " + std::to_string(sm),
             ok ? dump(x) : "ERR");
    out.n_oracle++;
    // oracle: copy source first
    {
        bool unchanged = true;
        for (int i = 0; i < n; ++i) unchanged = unchanged && (x[i] == before[i]);
        if (di.size() != si.size()) out.stat("assign_slice_count_mismatch");
        if (judge_count(long(di.size()), long(si.size()), ok, unchanged, false, same ? "same_slice" : "other_slice", js, "C04:assign-slice")) return;
    }
    out.stat(same ? "assign_slice_same_array" : "assign_slice_other_array");
    bool overlap = false;
    if (same) for (int a : di) for (int b : si) overlap = overlap || (a == b);
    if (overlap) out.stat("assign_slice_overlapping");
    base_array<T> want = before;
    std::vector<T> vals;
    for (int j : si) vals.push_back(same ? before[j] : other[j]);
    for (size_t j = 0; j < di.size(); ++j) want[di[j]] = vals[j];
    bool eq = ok;
    for (int i = 0; ok && i < n; ++i) eq = eq && (x[i] == want[i]);
    if (!eq) out.fail("C04:assign-slice", js);
    if (out.n_cases % 5003 == 0) out.sample(js);
}

template<class T>
static void apply_list(slice_t<T> s, const std::vector<T>& w) {
    auto v = [&](int i) { return w[size_t(i)]; };
    switch (int(w.size())) {
    case 0: s = std::initializer_list<T>{}; break;
    case 1: s = {v(0)}; break;
    case 2: s = {v(0), v(1)}; break;
    case 3: s = {v(0), v(1), v(2)}; break;
    case 4: s = {v(0), v(1), v(2), v(3)}; break;
    case 5: s = {v(0), v(1), v(2), v(3), v(4)}; break;
    case 6: s = {v(0), v(1), v(2), v(3), v(4), v(5)}; break;
    case 7: s = {v(0), v(1), v(2), v(3), v(4), v(5), v(6)}; break;
    case 8: s = {v(0), v(1), v(2), v(3), v(4), v(5), v(6), v(7)}; break;
    case 9: s = {v(0), v(1), v(2), v(3), v(4), v(5), v(6), v(7), v(8)}; break;
    case 10: s = {v(0), v(1), v(2), v(3), v(4), v(5), v(6), v(7), v(8), v(9)}; break;
    case 11: s = {v(0), v(1), v(2), v(3), v(4), v(5), v(6), v(7), v(8), v(9), v(10)}; break;
    case 12: s = {v(0), v(1), v(2), v(3), v(4), v(5), v(6), v(7), v(8), v(9), v(10), v(11)}; break;
    case 13: s = {v(0), v(1), v(2), v(3), v(4), v(5), v(6), v(7), v(8), v(9), v(10), v(11), v(12)}; break;
    default: s = {v(0), v(1), v(2), v(3), v(4), v(5), v(6), v(7), v(8), v(9), v(10), v(11), v(12), v(13)}; break;
    }
}
template<class T>
static void apply_list(slice_t<T> s, int len) {
    std::vector<T> w;
    for (int i = 0; i < std::min(len, 14); ++i) w.push_back(mk<T>(200 + i));
    apply_list<T>(s, w);
}

// rhs kind: 0 scalar, 1 array of length len, 2 initializer list of length len (0..14)
template<class T>
static void case_assign_value(int n, int d1, int d2, int dm, int kind, int len) {
    const bool cplx = is_complex_v<T>;
    if (may_throw(n, d1, d2, dm)) return;
    if (kind == 2 && len > 14) return;
    const std::string js = spec("assign_value", {cplx ? 1 : 0, n, d1, d2, dm, kind, len});
    base_array<T> x = iota<T>(n);
    const base_array<T> before = x;
    const auto di = py_indices(n, d1, d2, dm);
    vh::set_current("C04:crash:assign_value", js);
    bool ok = true;
    try {
        // a stop index equal to the length is spelled with the end placeholder (mutable overload, with step)
        if (kind == 0) { if (d2 == n) x.slice(d1, indexing::end, dm) = mk<T>(200); else x.slice(d1, d2, dm) = mk<T>(200); }
        else if (kind == 1) {
            base_array<T> r(len);
            for (int i = 0; i < len; ++i) r[i] = mk<T>(200 + i);
            if (d2 == n) x.slice(d1, indexing::end, dm) = r; else x.slice(d1, d2, dm) = r;
        } else apply_list<T>(d2 == n ? x.slice(d1, indexing::end, dm) : x.slice(d1, d2, dm), len);
    } catch (const std::exception&) { ok = false; }
    vh::clear_current();
    out.corr("asgv " + std::to_string(n) + " " + std::to_string(d1) + " " + std::to_string(d2) + " " + std::to_string(dm) + " " + std::to_string(kind) + " " + std::to_string(len),
             ok ? dump(x) : "ERR");
    out.n_oracle++;
    out.stat(std::string("assign_value_kind") + std::to_string(kind));
    const bool count_ok = (kind == 0) || (int(di.size()) == len);
    base_array<T> want = before;
    if (count_ok) for (size_t j = 0; j < di.size(); ++j) want[di[j]] = mk<T>(kind == 0 ? 200 : 200 + int(j));
    bool eq = true;
    for (int i = 0; i < n; ++i) eq = eq && (x[i] == want[i]);
    // the count rule is exact (judge_count): an EMPTY array on the right-hand side of a NON-empty slice is a count
    // mismatch like any other and must throw; only (empty slice) = (empty array) may either throw or do nothing
    if (!count_ok) out.stat("assign_value_count_mismatch");
    if (kind != 0 && judge_count(long(di.size()), len, ok, eq, kind == 1, kind == 1 ? "array" : "list", js, "C04:assign-value")) return;
    if (!ok || !eq) out.fail("C04:assign-value", js);
}

// ================================================================ value-carrying cases (bit for bit)
static const uint64_t POOL[32] = {
    0x0000000000000000ULL, 0x8000000000000000ULL, 0x0000000000000001ULL, 0x8000000000000001ULL,   // +0 -0 +-min denormal
    0x000fffffffffffffULL, 0x800fffffffffffffULL, 0x0010000000000000ULL, 0x8010000000000000ULL,   // +-max denormal, +-DBL_MIN
    0x7fefffffffffffffULL, 0xffefffffffffffffULL, 0x7ff0000000000000ULL, 0xfff0000000000000ULL,   // +-DBL_MAX, +-inf
    0x7ff8000000000000ULL, 0xfff8000000000001ULL, 0x7ff0000000000001ULL, 0x7ff4000000abcdefULL,   // quiet / signalling NaNs with payloads
    0x3ff0000000000000ULL, 0xbff0000000000000ULL, 0x3ff0000000000001ULL, 0x3fefffffffffffffULL,   // +-1, 1+ulp, 1-ulp
    0x01a56e1fc2f8f359ULL, 0x3c670ef54646d497ULL, 0x3e45798ee2308c3aULL, 0x4197d78400000000ULL,   // 1e-300 1e-17 1e-8 1e8
    0x54b249ad2594c37dULL, 0xd4b249ad2594c37dULL, 0x4330000000000000ULL, 0x4340000000000001ULL,   // +-1e100, 2^52, 2^53+2
    0x3fb999999999999aULL, 0x401e000000000000ULL, 0xc059000000000000ULL, 0x0008000000000000ULL};  // 0.1 7.5 -100 denormal 2^-1023
static const int RPOOL[8] = {0, 1, 2, 16, 12, 11, 15, 25};   // reduced pool for complex component pairs

static uint64_t mix64(uint64_t z) {
    z = (z ^ (z >> 30)) * 0xbf58476d1ce4e5b9ULL;
    z = (z ^ (z >> 27)) * 0x94d049bb133111ebULL;
    return z ^ (z >> 31);
}
static uint64_t hash2(uint64_t seed, uint64_t i) { return mix64(seed * 0x9e3779b97f4a7c15ULL + i * 0xd1b54a32d192ed03ULL + 0x632be59bd9b4e019ULL); }
// 1/4 special values, 3/4 arbitrary 64-bit patterns
static uint64_t valbits(uint64_t seed, uint64_t i) {
    const uint64_t h = hash2(seed, i);
    return (h & 3) == 0 ? POOL[(h >> 2) % 32] : h;
}
// runs of +0 / -0 (37 cells each, longer than any staging buffer's alignment unit) with 1/16 other values
static uint64_t zerorun(uint64_t seed, uint64_t i) {
    const uint64_t h = hash2(seed, i);
    if ((h & 15) == 0) return valbits(seed + 77, i);
    return ((i / 37 + seed) & 1) ? 0x8000000000000000ULL : 0;
}
static uint64_t cellbits(int mode, uint64_t seed, uint64_t i) { return mode == 2 ? zerorun(seed, i) : valbits(seed, i); }
static double fb(uint64_t b) { double d; std::memcpy(&d, &b, 8); return d; }
static uint64_t bf(double d) { uint64_t b; std::memcpy(&b, &d, 8); return b; }
static uint64_t canon(uint64_t b) {
    return ((b & 0x7ff0000000000000ULL) == 0x7ff0000000000000ULL && (b & 0x000fffffffffffffULL)) ? 0x7ff8000000000000ULL : b;
}
static bool beq(real_t a, real_t b) { return canon(bf(a)) == canon(bf(b)); }
static bool beq(const cmplx_t& a, const cmplx_t& b) { return beq(a.re, b.re) && beq(a.im, b.im); }

// cell i of array `which` (0: the array that is sliced/assigned, 1: the other array / right-hand side)
// mode 0: position-coded, 1: arbitrary bit patterns, 2: zero runs
template<class T> T content(int mode, uint64_t seed, int which, int i);
template<> real_t content<real_t>(int mode, uint64_t seed, int which, int i) {
    if (mode == 0) return which == 0 ? real_t(i) : real_t(-1 - i);
    return fb(cellbits(mode, seed * 2 + uint64_t(which), uint64_t(i)));
}
template<> cmplx_t content<cmplx_t>(int mode, uint64_t seed, int which, int i) {
    if (mode == 0) return which == 0 ? cmplx_t(double(i), double(-i)) : cmplx_t(double(-1 - i), double(1 + i));
    const uint64_t s = seed * 2 + uint64_t(which);
    return cmplx_t(fb(cellbits(mode, s, 2 * uint64_t(i))), fb(cellbits(mode, s, 2 * uint64_t(i) + 1)));
}
template<class T> base_array<T> mkarr(int mode, uint64_t seed, int which, int n) {
    base_array<T> x(n);
    for (int i = 0; i < n; ++i) x[i] = content<T>(mode, seed, which, i);
    return x;
}
static std::string btok(uint64_t b) {
    char s[24];
    std::snprintf(s, sizeof s, "b%016llx", (unsigned long long)canon(b));
    return s;
}
static std::string btok(real_t v) { return btok(bf(v)); }
static std::string btoks(real_t v) { return btok(bf(v)) + " " + btok(uint64_t(0)); }
static std::string btoks(const cmplx_t& v) { return btok(bf(v.re)) + " " + btok(bf(v.im)); }
static void feed(uint64_t& cs, real_t v) { cs = cs * 0x100000001b3ULL + canon(bf(v)) + 1; }
static void feed(uint64_t& cs, const cmplx_t& v) { feed(cs, v.re); feed(cs, v.im); }
static void tok(std::string& s, real_t v) { s += " " + btok(v); }
static void tok(std::string& s, const cmplx_t& v) { s += " " + btok(v.re) + " " + btok(v.im); }
static const int XSMALL = 24;   // arrays up to this length are written out cell by cell, longer ones as a digest
template<class T> std::string bdump(const base_array<T>& x) {
    std::string s = std::to_string(x.size());
    if (x.size() <= XSMALL) { for (int i = 0; i < x.size(); ++i) tok(s, x[i]); return s; }
    uint64_t cs = 0xcbf29ce484222325ULL;
    for (int i = 0; i < x.size(); ++i) feed(cs, x[i]);
    return s + " " + std::to_string((unsigned long long)cs);
}
template<class T> bool same_cells(const base_array<T>& a, const base_array<T>& b) {
    if (a.size() != b.size()) return false;
    for (int i = 0; i < a.size(); ++i) if (!beq(a[i], b[i])) return false;
    return true;
}

static uint64_t re_bits(real_t v) { return bf(v); }
static uint64_t re_bits(const cmplx_t& v) { return bf(v.re); }
template<class T> T pool_value(int a, int b);
template<> real_t pool_value<real_t>(int a, int) { return fb(POOL[a & 31]); }
template<> cmplx_t pool_value<cmplx_t>(int a, int b) { return cmplx_t(fb(POOL[a & 31]), fb(POOL[b & 31])); }

struct Tri { int i1, i2, m; };

// a spelling (i1, i2, m) of the slice of an n-array that starts at `first`, has `c` >= 1 elements and stride m
// (precondition: all positions in [0, n), and last >= 1 for m < 0); stop and signs of the indices are varied
static Tri tri_of(long first, long c, long m, long n, vh::Rng& rng) {
    const long last = first + (c - 1) * m;
    long i2;
    if (m > 0) { const long hi = std::min(last + m, n); i2 = (rng.next() % 3 == 0) ? rng.range(int(last + 1), int(hi)) : (rng.coin() ? last + 1 : hi); }
    else { const long lo = std::max(last + m, 0L); i2 = (rng.next() % 3 == 0) ? rng.range(int(lo), int(last - 1)) : (rng.coin() ? last - 1 : lo); }
    long i1 = first;
    if (rng.next() % 4 == 0) i1 -= n;
    if (i2 < n && rng.next() % 4 == 0) i2 -= n;
    return Tri{int(i1), int(i2), int(m)};
}
// random slice with c elements and stride m inside an n-array; false if it does not fit
static bool make_fit(long n, long c, long m, vh::Rng& rng, Tri& out_) {
    if (n <= 0 || m == 0) return false;
    if (c == 0) { const int a = rng.range(0, int(n - 1)); out_ = Tri{a, a, int(m)}; return true; }
    const long span = (c - 1) * std::labs(m);   // last - first in absolute value
    if (m > 0) {
        if (span > n - 1) return false;
        const long lo = (rng.next() % 3 == 0) ? 0 : ((rng.next() % 3 == 0) ? n - 1 - span : rng.range(0, int(n - 1 - span)));
        out_ = tri_of(lo, c, m, n, rng);
    } else {
        if (span + 1 > n - 1) return false;       // the last position must be >= 1 (the stop index cannot be "-1")
        const long lastp = (rng.next() % 3 == 0) ? 1 : ((rng.next() % 3 == 0) ? n - 1 - span : rng.range(1, int(n - 1 - span)));
        out_ = tri_of(lastp + span, c, m, n, rng);
    }
    return true;
}

// ---------------------------------------------------------------- slice = slice, value-carrying
// via: 0 mutable source slice (operator=(const slice_t&)), 1 const source slice, 2 named slice objects and copies of
//      them (lvalues), 3 source materialised into a temporary array first, 4 source materialised through operator*
template<class T>
static void case_assign_slice_x(int mode, uint64_t seed, int n, Tri d, int same, int n2, Tri s, int via) {
    const bool cplx = is_complex_v<T>;
    const int ns = same ? n : n2;
    if (may_throw(n, d.i1, d.i2, d.m) || may_throw(ns, s.i1, s.i2, s.m)) return;
    const auto di = py_indices(n, d.i1, d.i2, d.m), si = py_indices(ns, s.i1, s.i2, s.m);
    // (empty slice) = (empty temporary array): the array is itself sliced, a listed throwing situation -> spelled as slices;
    // a NON-empty destination with an empty temporary array stays: the count mismatch must throw whatever the spelling
    if (via >= 3 && si.empty() && di.empty()) via = 1;
    const std::string js = spec("assign_slice_x", {cplx ? 1 : 0, mode, long(seed), n, d.i1, d.i2, d.m, same, n2, s.i1, s.i2, s.m, via});
    base_array<T> x = mkarr<T>(mode, seed, 0, n);
    base_array<T> other = mkarr<T>(mode, seed, 1, same ? 0 : n2);
    const base_array<T> before = x;
    base_array<T>& srcarr = same ? x : other;
    const base_array<T>& csrc = srcarr;
    vh::set_current("C04:crash:assign_slice_x", js);
    bool ok = true;
    try {
        switch (via) {
        case 0: x.slice(d.i1, d.i2, d.m) = srcarr.slice(s.i1, s.i2, s.m); break;
        case 1: x.slice(d.i1, d.i2, d.m) = csrc.slice(s.i1, s.i2, s.m); break;
        case 2: {
            slice_t<T> ds = x.slice(d.i1, d.i2, d.m);
            slice_t<T> ds2(ds);
            const_slice_t<T> ss = csrc.slice(s.i1, s.i2, s.m);
            const_slice_t<T> ss2(ss);
            ds2 = ss2;
            break;
        }
        case 3: x.slice(d.i1, d.i2, d.m) = base_array<T>(csrc.slice(s.i1, s.i2, s.m)); break;
        default: x.slice(d.i1, d.i2, d.m) = *srcarr.slice(s.i1, s.i2, s.m); break;
        }
    } catch (const std::exception&) { ok = false; }
    vh::clear_current();
    out.corr(std::string(n > XSMALL ? "asgXL " : "asgX ") + std::to_string(cplx ? 1 : 0) + " " + std::to_string(mode) + " " + std::to_string((unsigned long long)seed) + " " +
                 std::to_string(n) + " " + std::to_string(d.i1) + " " + std::to_string(d.i2) + " " + std::to_string(d.m) + " " + std::to_string(same) + " " +
                 std::to_string(n2) + " " + std::to_string(s.i1) + " " + std::to_string(s.i2) + " " + std::to_string(s.m) + " " + std::to_string(via),
             ok ? bdump(x) : "ERR");
    out.n_oracle++;
    const char* sz = di.size() > 65536 ? "64k_plus" : di.size() > 4096 ? "4k_64k" : di.size() > 512 ? "512_4k" : di.size() > 8 ? "9_512" : "0_8";
    if (di.size() != si.size() || di.empty()) {
        static const char* const forms[] = {"slice_mutable", "slice_const", "slice_named_copies", "slice_to_temporary_array", "slice_deref_temporary"};
        if (di.size() != si.size()) out.stat("x_assign_slice_count_mismatch");
        if (judge_count(long(di.size()), long(si.size()), ok, same_cells(x, before), false, forms[via], js, mode == 0 ? "C04:assign-slice" : "C04:assign-slice-bits")) return;
    }
    out.stat(std::string("x_assign_slice_") + (same ? "same" : "other") + "_count_" + sz);
    out.stat("x_assign_slice_via" + std::to_string(via));
    out.stat("x_assign_slice_strides_" + std::string(d.m == 1 ? "u" : d.m > 0 ? "p" : d.m == -1 ? "r" : "n") + std::string(s.m == 1 ? "u" : s.m > 0 ? "p" : s.m == -1 ? "r" : "n"));
    if (same) {
        // which plain element-by-element orders would be wrong here (destination cell j is source cell k)?
        std::vector<int> rank(size_t(n), -1);
        for (size_t k = 0; k < si.size(); ++k) rank[size_t(si[k])] = int(k);
        bool fwd = false, bwd = false, any = false;
        long maxgap = 0;
        for (size_t j = 0; j < di.size(); ++j) {
            const int k = rank[size_t(di[j])];
            if (k < 0) continue;
            any = true;
            if (k > int(j)) { fwd = true; maxgap = std::max(maxgap, long(k) - long(j)); }
            if (k < int(j)) bwd = true;
        }
        if (any) out.stat("x_overlapping");
        if (fwd) out.stat("x_overlap_hazard_forward_order");
        if (bwd) out.stat("x_overlap_hazard_backward_order");
        if (fwd && bwd) out.stat("x_overlap_hazard_both_orders");
        if (fwd) out.stat(std::string("x_hazard_gap_") + (maxgap > 65536 ? "64k_plus" : maxgap > 4096 ? "4k_64k" : maxgap > 512 ? "512_4k" : maxgap > 8 ? "9_512" : "1_8"));
    }
    base_array<T> want = before;
    {
        std::vector<T> vals;
        vals.reserve(si.size());
        for (int j : si) vals.push_back(same ? before[j] : other[j]);   // copy the source first
        for (size_t j = 0; j < di.size(); ++j) want[di[j]] = vals[j];
    }
    if (!ok || !same_cells(x, want)) out.fail(mode == 0 ? "C04:assign-slice" : "C04:assign-slice-bits", js);
    if (out.n_cases % 5003 == 0) out.sample(js);
}

// ---------------------------------------------------------------- slice = scalar / array / list, value-carrying
// kind: 0 scalar, 1 named array, 2 braced list (len <= 14), 3 temporary array
template<class T>
static void case_assign_value_x(int mode, uint64_t seed, int n, Tri d, int kind, int len, T scalar) {
    const bool cplx = is_complex_v<T>;
    if (may_throw(n, d.i1, d.i2, d.m)) return;
    if (kind == 2 && len > 14) return;
    const std::string js = "{\"op\":\"assign_value_x\",\"args\":[" + std::to_string(cplx ? 1 : 0) + "," + std::to_string(mode) + "," + std::to_string((unsigned long long)seed) + "," +
                           std::to_string(n) + "," + std::to_string(d.i1) + "," + std::to_string(d.i2) + "," + std::to_string(d.m) + "," + std::to_string(kind) + "," + std::to_string(len) +
                           "],\"scalar_bits\":\"" + btoks(scalar) + "\"}";
    base_array<T> x = mkarr<T>(mode, seed, 0, n);
    const base_array<T> before = x;
    const base_array<T> r = mkarr<T>(mode, seed, 1, kind == 0 ? 0 : len);
    const auto di = py_indices(n, d.i1, d.i2, d.m);
    vh::set_current("C04:crash:assign_value_x", js);
    bool ok = true;
    try {
        if (kind == 0) x.slice(d.i1, d.i2, d.m) = scalar;
        else if (kind == 1) x.slice(d.i1, d.i2, d.m) = r;
        else if (kind == 3) x.slice(d.i1, d.i2, d.m) = mkarr<T>(mode, seed, 1, len);
        else {
            std::vector<T> w;
            for (int i = 0; i < len; ++i) w.push_back(r[i]);
            apply_list<T>(x.slice(d.i1, d.i2, d.m), w);
        }
    } catch (const std::exception&) { ok = false; }
    vh::clear_current();
    out.corr(std::string(n > XSMALL ? "asgvXL " : "asgvX ") + std::to_string(cplx ? 1 : 0) + " " + std::to_string(mode) + " " + std::to_string((unsigned long long)seed) + " " +
                 std::to_string(n) + " " + std::to_string(d.i1) + " " + std::to_string(d.i2) + " " + std::to_string(d.m) + " " + std::to_string(kind) + " " + std::to_string(len) + " " + btoks(scalar),
             ok ? bdump(x) : "ERR");
    out.n_oracle++;
    out.stat("x_assign_value_kind" + std::to_string(kind));
    if (kind == 0) {
        const uint64_t b = re_bits(scalar);
        out.stat(b == 0x8000000000000000ULL ? "x_scalar_negzero_re" : b == 0 ? "x_scalar_poszero_re" : canon(b) != b || b == 0x7ff8000000000000ULL ? "x_scalar_nan_re" : "x_scalar_other_re");
        if (std::abs(d.m) == 1) out.stat("x_scalar_unit_stride");
    }
    const bool count_ok = (kind == 0) || (int(di.size()) == len);
    base_array<T> want = before;
    if (count_ok) for (size_t j = 0; j < di.size(); ++j) want[di[j]] = (kind == 0) ? scalar : r[int(j)];
    const bool eq = same_cells(x, want);
    const char* const key_eq = mode == 0 ? "C04:assign-value" : "C04:assign-value-bits";
    if (!count_ok) out.stat("x_assign_value_count_mismatch");
    // exact count rule: an empty array / list on a non-empty slice must throw like every other mismatch
    if (kind != 0 && judge_count(long(di.size()), len, ok, eq, kind != 2, kind == 1 ? "named_array" : kind == 3 ? "temporary_array" : "list", js, key_eq)) {
        if (out.n_cases % 5003 == 0) out.sample(js);
        return;
    }
    if (!ok || !eq) out.fail(key_eq, js);
    if (out.n_cases % 5003 == 0) out.sample(js);
}

// ---------------------------------------------------------------- reading, value-carrying (oracle only)
// conversion to an array, operator*, and iteration over the slice object must deliver the designated cells bit for bit
template<class T>
static void case_read_x(int mode, uint64_t seed, int n, Tri d) {
    if (may_throw(n, d.i1, d.i2, d.m)) return;
    const bool cplx = is_complex_v<T>;
    const std::string js = spec("read_x", {cplx ? 1 : 0, mode, long(seed), n, d.i1, d.i2, d.m});
    base_array<T> x = mkarr<T>(mode, seed, 0, n);
    const base_array<T> before = x;
    const base_array<T>& cx = x;
    const auto di = py_indices(n, d.i1, d.i2, d.m);
    vh::set_current("C04:crash:read_x", js);
    bool ok = true, eq = true;
    try {
        const base_array<T> y1(cx.slice(d.i1, d.i2, d.m));
        const base_array<T> y2 = *x.slice(d.i1, d.i2, d.m);
        std::vector<T> y3, y4;
        for (const auto& v : cx.slice(d.i1, d.i2, d.m)) y3.push_back(v);
        auto sl = x.slice(d.i1, d.i2, d.m);
        const auto sl_end = sl.end();   // (end() walks the whole slice: O(count))
        for (auto it = sl.begin(); it != sl_end; ++it) y4.push_back(*it);
        eq = y1.size() == int(di.size()) && y2.size() == int(di.size()) && y3.size() == di.size() && y4.size() == di.size();
        for (size_t j = 0; eq && j < di.size(); ++j)
            eq = beq(y1[int(j)], before[di[j]]) && beq(y2[int(j)], before[di[j]]) && beq(y3[j], before[di[j]]) && beq(y4[j], before[di[j]]);
    } catch (const std::exception&) { ok = false; }
    vh::clear_current();
    out.n_oracle++;
    out.stat("x_read_cases");
    if (!ok || !eq || !same_cells(x, before)) out.fail("C04:read-bits", js);
}

// ---------------------------------------------------------------- generators of the large scenarios
static int pick_count(vh::Rng& rng, int cmax) {
    int c;
    switch (rng.next() % 8) {
    case 0: c = (1 << rng.range(8, 17)) + rng.range(-1, 1); break;                       // 2^k - 1, 2^k, 2^k + 1
    case 1: c = rng.range(1, 64) * (rng.coin() ? 512 : 1024) + rng.range(-1, 1); break;  // around multiples of typical block sizes
    case 2: c = rng.range(1, 3) * (rng.coin() ? 49152 : 65536) + rng.range(-1, 1); break;
    case 3: c = rng.range(1, 300); break;
    default: c = int(300.0 * std::exp(rng.unit() * std::log(double(cmax) / 300.0))); break;   // log-uniform 300 .. cmax
    }
    return std::max(1, std::min(c, cmax));
}
static int pick_stride(vh::Rng& rng) {
    static const int mags[] = {1, 1, 1, 2, 2, 3, 4, 5, 7, 16, 33};
    const int m = mags[rng.next() % (sizeof mags / sizeof mags[0])];
    return rng.coin() ? m : -m;
}
// same-array pair with a FORCED collision: destination cell j0 is source cell k0 (j0 < k0: an element-by-element copy
// in forward order would read an already overwritten cell; j0 > k0: the same for backward order; gaps at every scale)
template<class T>
static void big_pair(vh::Rng& rng, int cmax, long nmax, long forced_count = 0) {
    for (int attempt = 0; attempt < 100; ++attempt) {
        long c = forced_count ? forced_count : pick_count(rng, cmax);
        const long dm = pick_stride(rng), sm = pick_stride(rng);
        if (forced_count && (c - 1) * std::max(std::labs(dm), std::labs(sm)) * 2 + 32 > nmax) continue;   // other strides
        while (c > 1 && (c - 1) * std::max(std::labs(dm), std::labs(sm)) * 2 + 32 > nmax) c /= 2;
        long g;
        switch (rng.next() % 10) {
        case 0: g = 0; break;
        case 1: g = 1; break;
        case 2: g = rng.range(2, 64); break;
        case 3: g = rng.range(500, 530); break;
        case 4: g = rng.range(1000, 1050); break;
        case 5: g = (1L << rng.range(9, 17)) + rng.range(-2, 2); break;
        case 6: g = c / 2 + rng.range(-2, 2); break;
        case 7: g = c - 1 - rng.range(0, 3); break;
        default: g = rng.range(0, int(c - 1)); break;
        }
        g = std::max(0L, std::min(g, c - 1));
        const long a = rng.range(0, int(c - 1 - g));
        long j0 = a, k0 = a + g;
        if (rng.next() % 3 == 0) std::swap(j0, k0);        // 2/3 forward-order hazards, 1/3 backward-order
        // source positions k*sm (k < c), destination positions D0 + j*dm with D0 + j0*dm == k0*sm
        const long D0 = k0 * sm - j0 * dm;
        const long mn = std::min(std::min(0L, (c - 1) * sm), std::min(D0, D0 + (c - 1) * dm));
        const long mx = std::max(std::max(0L, (c - 1) * sm), std::max(D0, D0 + (c - 1) * dm));
        const long pad = (dm > 0 && sm > 0 && rng.coin()) ? 0 : rng.range(1, 4);
        const long n = mx - mn + 1 + pad + (rng.coin() ? 0 : rng.range(0, 9));
        if (n > nmax) continue;
        const long shift = pad - mn;
        const Tri d = tri_of(D0 + shift, c, dm, n, rng), s = tri_of(shift, c, sm, n, rng);
        const int mode = int(rng.next() % 3);
        static const int vias[] = {0, 1, 1, 2, 0, 1, 2, 3, 4};
        case_assign_slice_x<T>(mode, rng.next() >> 8, int(n), d, 1, int(n), s, vias[rng.next() % 9]);
        return;
    }
}
// assignment through a random valid slice `d` of an n-array: every right-hand-side kind, counts equal (mostly) or off by one
template<class T>
static void random_assign(vh::Rng& rng, int n, Tri d) {
    if (may_throw(n, d.i1, d.i2, d.m)) return;
    const long c = long(py_indices(n, d.i1, d.i2, d.m).size());
    const int mode = 1 + int(rng.next() % 2);
    const uint64_t seed = rng.next() >> 8;
    long cs = (rng.next() % 8 == 0) ? std::max(0L, c + (rng.coin() ? 1 : -1)) : c;   // count of the right-hand side
    if (rng.next() % 24 == 0) cs = (rng.coin() || c == 0) ? 0 : c / 2;                // ... empty / half as long, whatever the destination
    const T sc = rng.coin() ? content<T>(1, seed, 1, int(rng.next() % 1000)) : pool_value<T>(int(rng.next() % 32), rng.next() % 4 ? RPOOL[rng.next() % 8] : int(rng.next() % 32));
    Tri s{0, 0, 1};
    const int sel = int(rng.next() % 6);
    switch (sel) {
    case 0: case_assign_value_x<T>(mode, seed, n, d, 0, 0, sc); break;
    case 1: case_assign_value_x<T>(mode, seed, n, d, rng.coin() ? 1 : 3, int(cs), sc); break;
    case 2: {   // slice of another array
        const int sm = pick_stride(rng);
        const long n2 = (cs == 0 ? 1 : (cs - 1) * std::abs(sm) + 1) + (sm < 0 ? 1 : 0) + rng.range(0, 5);
        if (n2 <= 400000 && make_fit(n2, cs, sm, rng, s)) case_assign_slice_x<T>(mode, seed, n, d, 0, int(n2), s, int(rng.next() % 5));
        break;
    }
    case 3: case_read_x<T>(mode, seed, n, d); break;
    default: {   // slice of the same array with the same count: random overlap
        int sm = pick_stride(rng);
        if (cs > 1 && (cs - 1) * long(std::abs(sm)) + 2 > n) sm = (sm < 0) ? -1 : 1;
        if (make_fit(n, cs, sm, rng, s)) case_assign_slice_x<T>(mode, seed, n, d, 1, n, s, int(rng.next() % 5));
        else case_assign_value_x<T>(mode, seed, n, d, 1, int(cs), sc);
        break;
    }
    }
}

// ---------------------------------------------------------------- histories on ONE array (oracle only)
// a run of assignments, valid ones and ones that throw (bad index, zero step, count mismatch, same array as right-hand
// side): after every step the array must equal the shadow copy on which only the valid steps were replayed
template<class T>
static void history(vh::Rng& rng, int n, int steps) {
    const bool cplx = is_complex_v<T>;
    const uint64_t seed = rng.next() >> 8;
    const uint64_t rng_at_start = rng.s;
    base_array<T> x = mkarr<T>(1, seed, 0, n);
    base_array<T> shadow = x;
    out.stat("history_runs");
    for (int st = 0; st < steps; ++st) {
        const std::string js = "{\"op\":\"history\",\"args\":[" + std::to_string(cplx ? 1 : 0) + "," + std::to_string(n) + "," + std::to_string(steps) + "],\"rng_state\":\"" +
                               std::to_string((unsigned long long)rng_at_start) + "\",\"failed_step\":" + std::to_string(st) + "}";
        vh::set_current("C04:crash:history", js);
        const int op = int(rng.next() % 8);
        Tri d{0, 0, 1}, s{0, 0, 1};
        const long c = (rng.next() % 4 == 0) ? rng.range(0, n) : rng.range(0, std::max(1, n / 3));
        int dm = pick_stride(rng), sm = pick_stride(rng);
        if (c > 1 && (c - 1) * long(std::abs(dm)) + 2 > n) dm = dm < 0 ? -1 : 1;
        if (c > 1 && (c - 1) * long(std::abs(sm)) + 2 > n) sm = sm < 0 ? -1 : 1;
        if (!make_fit(n, c, dm, rng, d) || !make_fit(n, c, sm, rng, s)) { vh::clear_current(); continue; }
        const auto di = py_indices(n, d.i1, d.i2, d.m), si = py_indices(n, s.i1, s.i2, s.m);
        bool threw = false, expect_throw = false;
        try {
            switch (op) {
            case 0: {   // scalar
                const T v = content<T>(1, seed + uint64_t(st), 1, st);
                x.slice(d.i1, d.i2, d.m) = v;
                for (int p : di) shadow[p] = v;
                break;
            }
            case 1: {   // same-array slice
                std::vector<T> vals;
                for (int p : si) vals.push_back(shadow[p]);
                for (size_t j = 0; j < di.size(); ++j) shadow[di[j]] = vals[j];
                if (rng.coin()) x.slice(d.i1, d.i2, d.m) = x.slice(s.i1, s.i2, s.m);
                else { const base_array<T>& cx = x; x.slice(d.i1, d.i2, d.m) = cx.slice(s.i1, s.i2, s.m); }
                break;
            }
            case 2: {   // array of the right length
                if (c == 0) break;
                const base_array<T> r = mkarr<T>(2, seed + uint64_t(st), 1, int(c));
                for (size_t j = 0; j < di.size(); ++j) shadow[di[j]] = r[int(j)];
                x.slice(d.i1, d.i2, d.m) = r;
                break;
            }
            case 3: {   // longer array; shorter array; EMPTY array on a non-empty slice; empty same-array slice on a non-empty slice
                const int sel = int(rng.next() % 4);
                if (sel == 0 || c == 0) { expect_throw = true; x.slice(d.i1, d.i2, d.m) = mkarr<T>(1, seed, 1, int(c) + 1 + int(rng.next() % 3)); }
                else if (sel == 1) { expect_throw = true; x.slice(d.i1, d.i2, d.m) = mkarr<T>(1, seed, 1, int(rng.next() % uint64_t(c))); }
                else if (sel == 2) { expect_throw = true; const base_array<T> e; if (rng.coin()) x.slice(d.i1, d.i2, d.m) = e; else x.slice(d.i1, d.i2, d.m) = base_array<T>(0); }
                else { expect_throw = true; const int p = rng.range(0, n - 1); x.slice(d.i1, d.i2, d.m) = x.slice(p, p, rng.coin() ? 1 : -2); }
                break;
            }
            case 4: {   // same-array slice with one element more or fewer
                Tri s2{0, 0, 1};
                const long c2 = (c > 0 && rng.coin()) ? c - 1 : c + 1;
                if (!make_fit(n, c2, (c2 > 1 && (c2 - 1) * long(std::abs(sm)) + 2 > n) ? 1 : sm, rng, s2)) break;
                expect_throw = true;
                x.slice(d.i1, d.i2, d.m) = x.slice(s2.i1, s2.i2, s2.m);
                break;
            }
            case 5: {   // invalid slice on either side
                expect_throw = true;
                switch (rng.next() % 4) {
                case 0: x.slice(n, n, 1) = content<T>(1, seed, 1, 0); break;
                case 1: x.slice(d.i1, d.i2, 0) = content<T>(1, seed, 1, 0); break;
                case 2: x.slice(d.i1, d.i2, d.m) = x.slice(0, n + 1, 1); break;
                default: x.slice(d.i1, d.i2, d.m) = x.slice(-n - 1, 0, -1); break;
                }
                break;
            }
            case 6: {   // braced list with the wrong / right count
                const T v = content<T>(1, seed + uint64_t(st), 1, st);
                if (c == 2) { shadow[di[0]] = v; shadow[di[1]] = v; } else expect_throw = true;
                x.slice(d.i1, d.i2, d.m) = {v, v};
                break;
            }
            default: {  // other-array slice
                if (c == 0) break;
                const base_array<T> r = mkarr<T>(1, seed + uint64_t(st), 1, int(c) * 2 + 1);
                for (size_t j = 0; j < di.size(); ++j) shadow[di[j]] = r[int(2 * j)];
                x.slice(d.i1, d.i2, d.m) = r.slice(0, int(2 * c), 2);
                break;
            }
            }
        } catch (const std::exception&) { threw = true; }
        vh::clear_current();
        out.n_oracle++;
        out.stat(expect_throw ? "history_steps_throwing" : "history_steps_valid");
        if (threw != expect_throw) { out.fail("C04:history-throw", js); if (threw) shadow = x; }
        if (!same_cells(x, shadow)) { out.fail("C04:history", js); return; }
    }
}

int main(int argc, char** argv) {
    vh::Args a(argc, argv);
    vh::install_guards();
    vh::Rng rng(a.seed);
    const int NB = a.thorough ? 10 : 6;        // exhaustive box for (n, i1, i2, step)
    const int NP = a.thorough ? 8 : 5;         // exhaustive same-array pairs
    for (int n = 0; n <= NB; ++n)
        for (int i1 = -n - 3; i1 <= n + 3; ++i1)
            for (int i2 = -n - 3; i2 <= n + 3; ++i2)
                for (int m = -5; m <= 5; ++m) {
                    for (int kind = 0; kind < 4; ++kind) case_slice(kind, n, i1, i2, m, 0);
                    // the end placeholder: const and mutable overloads, every step of the box (zero and negative steps
                    // must throw: the stop resolves to n, above every valid start) ...
                    if (i2 == n) for (int kind = 0; kind < 4; ++kind) case_slice(kind, n, i1, i2, m, 1);
                    // ... and the spellings that leave the step to the default argument
                    if (m == 1) for (int kind = 0; kind < 4; ++kind) {
                        if (i2 == n) case_slice(kind, n, i1, i2, m, 2);
                        case_slice(kind, n, i1, i2, m, 3);
                    }
                    if (n <= (a.thorough ? 10 : 5)) { case_copy<real_t>(n, i1, i2, m); case_copy<cmplx_t>(n, i1, i2, m); }
                }
    // enumerate valid slices of an n-array once (canonical triples from the box)
    auto valid = [&](int n) {
        std::vector<std::array<int, 3>> v;
        for (int i1 = -n; i1 <= n - 1; ++i1)
            for (int i2 = -n; i2 <= n; ++i2)
                for (int m = -4; m <= 4; ++m)
                    if (!may_throw(n, i1, i2, m)) v.push_back({i1, i2, m});
        return v;
    };
    for (int n = 1; n <= NP; ++n) {
        const auto vs = valid(n);
        for (auto& d : vs) {
            if (d[0] < 0 || d[1] < 0) continue;   // non-negative destination spelling (aliasing depends on positions only)
            const auto dn = py_indices(n, d[0], d[1], d[2]).size();
            for (auto& s : vs) {
                if (s[0] < 0 || s[1] < 0) continue;
                const auto sn = py_indices(n, s[0], s[1], s[2]).size();
                if (dn != sn && (rng.next() % 16)) continue;   // all equal-count pairs, 1/16 of the others
                case_assign_slice<real_t>(n, d[0], d[1], d[2], 1, n, s[0], s[1], s[2], int(rng.next() & 1));
                if (n <= NP - 2) case_assign_slice<cmplx_t>(n, d[0], d[1], d[2], 1, n, s[0], s[1], s[2], int(rng.next() & 1));
            }
        }
    }
    // other-array sources and value right-hand sides of every length relation
    for (int n = 1; n <= (a.thorough ? 8 : 6); ++n) {
        const auto vs = valid(n);
        for (auto& d : vs) {
            const int dn = int(py_indices(n, d[0], d[1], d[2]).size());
            for (int kind = 0; kind < 3; ++kind)
                for (int len : {0, 1, dn - 1, dn, dn + 1, 2 * dn, n + 3}) {
                    if (len < 0) continue;
                    case_assign_value<real_t>(n, d[0], d[1], d[2], kind, len);
                    case_assign_value<cmplx_t>(n, d[0], d[1], d[2], kind, len);
                    if (kind == 0) break;
                }
            const int n2 = 1 + int(rng.next() % 9);
            const auto v2 = valid(n2);
            for (int rep = 0; rep < 6; ++rep) {
                auto& s = v2[rng.next() % v2.size()];
                case_assign_slice<real_t>(n, d[0], d[1], d[2], 0, n2, s[0], s[1], s[2], rep & 1);
                case_assign_slice<cmplx_t>(n, d[0], d[1], d[2], 0, n2, s[0], s[1], s[2], rep & 1);
            }
        }
    }
    // random triples on large arrays
    const int NR = a.thorough ? 200000 : 20000;
    for (int r = 0; r < NR; ++r) {
        const int n = (r % 3 == 0) ? rng.range(0, 40) : (r % 3 == 1 ? rng.range(41, 2000) : rng.range(2001, 100000));
        auto pick = [&](int lo, int hi) {   // boundary-biased
            switch (rng.next() % 6) {
            case 0: return lo; case 1: return hi; case 2: return 0; case 3: return rng.range(lo - 2, lo + 2);
            case 4: return rng.range(hi - 2, hi + 2); default: return rng.range(lo, hi);
            }
        };
        int i1 = pick(-n, n - 1), i2 = pick(-n, n);
        int m = (rng.next() % 4 == 0) ? rng.range(-n - 2, n + 2) : rng.range(-7, 7);
        // extreme arguments inside the box |i1|, |i2| <= 2^30 of theorem no_overflow: huge strides (count <= 1), far-out indices (throw)
        if (rng.next() % 40 == 0) {
            static const int xm[] = {2147483647, -2147483647, 2147483646, 1 << 30, -(1 << 30), (1 << 30) - 1, 65536, -65537, 46341, -46341};
            m = xm[rng.next() % 10];
            out.stat("slice_extreme_stride");
        }
        if (rng.next() % 80 == 0) { (rng.coin() ? i1 : i2) = rng.coin() ? (1 << 30) : -(1 << 30); out.stat("slice_extreme_index"); }
        case_slice(int(rng.next() % 4), n, i1, i2, m, 0);
        if (i2 == n && rng.coin()) case_slice(int(rng.next() % 4), n, i1, i2, m, m == 1 && rng.coin() ? 2 : 1);   // end placeholder on large arrays
        // ... and assignment through the same random slice (every right-hand-side kind, bit for bit)
        if (r % 2 == 0 && n > 0 && m != 0 && (a.thorough || n <= 20000 || r % 3 == 0)) {
            if (rng.next() % 3) random_assign<real_t>(rng, n, Tri{i1, i2, m});
            else random_assign<cmplx_t>(rng, n, Tri{i1, i2, m});
        }
    }

    // ================= value-carrying families (bit for bit)
    // (a) all same-array pairs again with arbitrary bit patterns as contents and every way of spelling the assignment
    const int NPX = a.thorough ? 7 : 5;
    for (int n = 1; n <= NPX; ++n) {
        const auto vs = valid(n);
        for (auto& d : vs) {
            if (d[0] < 0 || d[1] < 0) continue;
            const auto dn = py_indices(n, d[0], d[1], d[2]).size();
            for (auto& s : vs) {
                if (s[0] < 0 || s[1] < 0) continue;
                const auto sn = py_indices(n, s[0], s[1], s[2]).size();
                if (dn != sn && (rng.next() % 32)) continue;
                const uint64_t seed = rng.next() >> 8;
                case_assign_slice_x<real_t>(1 + int(seed & 1), seed, n, Tri{d[0], d[1], d[2]}, 1, n, Tri{s[0], s[1], s[2]}, int(rng.next() % 5));
                if (n <= NPX - 1) case_assign_slice_x<cmplx_t>(1 + int(seed & 1), seed, n, Tri{d[0], d[1], d[2]}, 1, n, Tri{s[0], s[1], s[2]}, int(rng.next() % 5));
            }
        }
    }
    // (b) EVERY special scalar through every destination slice: small arrays exhaustively ...
    for (int n = 1; n <= (a.thorough ? 7 : 5); ++n) {
        for (auto& d : valid(n)) {
            if (n > 3 && (d[0] < 0 || d[1] < 0)) continue;
            const uint64_t seed = rng.next() >> 8;
            for (int k = 0; k < 32; ++k) case_assign_value_x<real_t>(1 + (k & 1), seed, n, Tri{d[0], d[1], d[2]}, 0, 0, pool_value<real_t>(k, 0));
            for (int ka : RPOOL) for (int kb : RPOOL) case_assign_value_x<cmplx_t>(1 + (ka & 1), seed, n, Tri{d[0], d[1], d[2]}, 0, 0, pool_value<cmplx_t>(ka, kb));
        }
    }
    //     ... and longer ones (fill fast paths may depend on the length and on the stride)
    for (int n : {9, 16, 17, 31, 32, 33, 64, 100, 1000, 4096, 65537, 131075}) {
        if (!a.thorough && n == 131075) continue;
        std::vector<Tri> ds = {Tri{0, n, 1}, Tri{1, n - 1, 1}, Tri{n - 1, 0, -1}, Tri{0, n, 2}, Tri{n - 2, 1, -3}};
        for (int rep = 0; rep < 2; ++rep) {
            Tri e{0, 0, 1};
            if (make_fit(n, rng.range(1, n / 2), pick_stride(rng) > 0 ? 1 : -1, rng, e)) ds.push_back(e);
        }
        for (const Tri& d : ds) {
            const uint64_t seed = rng.next() >> 8;
            for (int k = 0; k < 32; ++k) {
                if (n > 4096 && k != 0 && k != 1 && k != 2 && k != 12 && k != 16) continue;
                case_assign_value_x<real_t>(1 + (k & 1), seed, n, d, 0, 0, pool_value<real_t>(k, 0));
            }
            for (int ka : RPOOL) for (int kb : RPOOL) {
                if (n > 4096 && (ka > 2 || kb > 2)) continue;
                case_assign_value_x<cmplx_t>(1 + (kb & 1), seed, n, d, 0, 0, pool_value<cmplx_t>(ka, kb));
            }
        }
    }
    // (c) array / list / temporary-array / other-array-slice right-hand sides of every length relation
    for (int n = 1; n <= (a.thorough ? 8 : 6); ++n) {
        const auto vs = valid(n);
        for (auto& d : vs) {
            const int dn = int(py_indices(n, d[0], d[1], d[2]).size());
            const Tri dt{d[0], d[1], d[2]};
            for (int kind = 1; kind <= 3; ++kind)
                for (int len : {0, 1, dn - 1, dn, dn + 1, 2 * dn, n + 3}) {
                    if (len < 0) continue;
                    const uint64_t seed = rng.next() >> 8;
                    if (seed & 2) case_assign_value_x<real_t>(1 + int(seed & 1), seed, n, dt, kind, len, real_t(0));
                    else case_assign_value_x<cmplx_t>(1 + int(seed & 1), seed, n, dt, kind, len, cmplx_t(0, 0));
                }
            const int n2 = 1 + int(rng.next() % 9);
            const auto v2 = valid(n2);
            for (int rep = 0; rep < 3; ++rep) {
                auto& s = v2[rng.next() % v2.size()];
                const uint64_t seed = rng.next() >> 8;
                if (seed & 2) case_assign_slice_x<real_t>(1 + int(seed & 1), seed, n, dt, 0, n2, Tri{s[0], s[1], s[2]}, int(rng.next() % 5));
                else case_assign_slice_x<cmplx_t>(1 + int(seed & 1), seed, n, dt, 0, n2, Tri{s[0], s[1], s[2]}, int(rng.next() % 5));
            }
        }
    }
    // (c0) the ZERO-count relations, systematically: every destination slice of a small array x EVERY spelling of a
    //      right-hand side that has a count (named / temporary array, braced list, slice of another array and of the same
    //      array through mutable / const slices, named slice objects and copies, slices materialised into temporaries):
    //        destination count > 0, source count 0   -> must throw, nothing written
    //        destination count 0, source count 1, 2, n -> must throw, nothing written
    //        both 0                                   -> nothing written (arrays: may throw)
    for (int n = 1; n <= (a.thorough ? 8 : 5); ++n) {
        const auto vs = valid(n);
        for (auto& d : vs) {
            const int dn = int(py_indices(n, d[0], d[1], d[2]).size());
            const Tri dt{d[0], d[1], d[2]};
            std::vector<int> lens = {0};
            if (dn == 0) { lens.push_back(1); if (n >= 2) lens.push_back(2); if (n > 2) lens.push_back(n); }
            for (int len : lens) {
                for (int ty = 0; ty < 2; ++ty) {
                    if (!a.thorough && n > 3 && (d[0] < 0 || d[1] < 0) && ty == 0) continue;   // quick: negative spellings of n = 4, 5 complex only
                    const uint64_t seed = rng.next() >> 8;
                    const int mode = 1 + int(seed & 1);
                    for (int kind = 1; kind <= 3; ++kind) {
                        if (ty == 0) case_assign_value_x<real_t>(mode, seed, n, dt, kind, len, real_t(0));
                        else case_assign_value_x<cmplx_t>(mode, seed, n, dt, kind, len, cmplx_t(0, 0));
                    }
                    for (int via = 0; via < 5; ++via) {
                        // slice of another array (length len + 0..2, at least 1) and of the same array, count `len`
                        Tri so{0, 0, 1}, ss{0, 0, 1};
                        const int n2 = std::max(1, len + int(rng.next() % 3));
                        const int sm = rng.coin() ? 1 : -1;
                        if (make_fit(n2, len, (len > 1 && len + 1 > n2) ? 1 : sm, rng, so)) {
                            if (ty == 0) case_assign_slice_x<real_t>(mode, seed, n, dt, 0, n2, so, via);
                            else case_assign_slice_x<cmplx_t>(mode, seed, n, dt, 0, n2, so, via);
                        }
                        if (make_fit(n, len, (len > 1 && len + 1 > n) ? 1 : sm, rng, ss)) {
                            if (ty == 0) case_assign_slice_x<real_t>(mode, seed, n, dt, 1, n, ss, via);
                            else case_assign_slice_x<cmplx_t>(mode, seed, n, dt, 1, n, ss, via);
                        }
                    }
                }
            }
        }
    }
    //      ... and on long arrays (a fast path may look at the count of one side only): unit / reversed / strided destinations
    for (int n : {64, 1000, 4096, 65537, 131075}) {
        if (!a.thorough && n == 131075) continue;
        const std::vector<Tri> ds = {Tri{0, n, 1}, Tri{1, n - 1, 1}, Tri{n - 1, 0, -1}, Tri{0, n, 2}, Tri{n - 2, 1, -3}, Tri{5, 5, 1}, Tri{n - 1, n - 1, -1}, Tri{0, 0, 7}};
        for (const Tri& d : ds) {
            const bool dempty = (d.i1 == d.i2);
            for (int len : {0, 1, n / 2, n}) {
                if (!dempty && len != 0) continue;
                const uint64_t seed = rng.next() >> 8;
                const int mode = 1 + int(seed & 1);
                for (int kind = 1; kind <= 3; ++kind) {
                    if (kind == 2 && len > 14) continue;
                    case_assign_value_x<real_t>(mode, seed, n, d, kind, len, real_t(0));
                    if (n <= 4096 || a.thorough) case_assign_value_x<cmplx_t>(mode, seed, n, d, kind, len, cmplx_t(0, 0));
                }
                for (int via = 0; via < 5; ++via) {
                    Tri ss{0, 0, 1};
                    if (!make_fit(n, len, rng.coin() ? 1 : -1, rng, ss)) continue;
                    if ((via + n) & 1) case_assign_slice_x<real_t>(mode, seed, n, d, 1, n, ss, via);
                    else case_assign_slice_x<cmplx_t>(mode, seed, n, d, 1, n, ss, via);
                    Tri so{0, 0, 1};
                    const int n2 = std::max(2, len + 1);
                    if (!make_fit(n2, len, 1, rng, so)) continue;
                    if ((via + n) & 1) case_assign_slice_x<cmplx_t>(mode, seed, n, d, 0, n2, so, via);
                    else case_assign_slice_x<real_t>(mode, seed, n, d, 0, n2, so, via);
                }
            }
        }
    }
    // (d) LARGE same-array overlapping pairs (counts 10^2 .. 10^5, all stride sign combinations, forced collisions)
    {
        // one pair in ten (thorough: in six) may be huge (up to 140000 / 300000 elements, arrays up to 600000 / 2000000 cells), the others stay below 20000 elements
        const int NBP = a.thorough ? 6000 : 500;
        // frames above 2^16 and 2^17 elements and multiples of 49152 / 65536 are always present
        for (long c : {65537L, 131073L, 98304L, 65536L, 131072L}) {
            for (int rep = 0; rep < (a.thorough ? 6 : 2); ++rep) {
                big_pair<real_t>(rng, 140000, 600000, c);
                if (c < 100000 || a.thorough) big_pair<cmplx_t>(rng, 140000, 600000, c);
            }
        }
        for (int r = 0; r < NBP; ++r) {
            const bool huge = a.thorough ? (r % 6 == 0) : (r % 10 == 0);
            const int cmax = huge ? (a.thorough ? 300000 : 140000) : 20000;
            const long nmax = huge ? (a.thorough ? 2000000 : 600000) : 150000;
            if (r % 7 < 4) big_pair<real_t>(rng, cmax, nmax);
            else big_pair<cmplx_t>(rng, cmax, nmax);
        }
    }
    // (e) histories with failed calls on one array
    for (int n : {7, 40, 1500, 70000}) {
        const int runs = (n < 100 ? 12 : n < 10000 ? 6 : 2) * (a.thorough ? 10 : 1);
        for (int r = 0; r < runs; ++r) {
            history<real_t>(rng, n, n < 10000 ? 30 : 16);
            history<cmplx_t>(rng, n, n < 10000 ? 30 : 16);
        }
    }
    out.finish();
    return 0;
}
