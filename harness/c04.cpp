// C04 — slices select and assign exactly the numpy-designated elements.
// Correspondence cases for the Lean model (Gen.BaseSlice.ctor + Model/Slice) and the property's
// own oracle (Python's slice rule, "copy source first" assignment) on the real code.
#include "common.hpp"
using namespace dsplib;
using vh::Out;

static Out out;

// ---------------------------------------------------------------- Python reference
static long py_adjust(long n, long i, long step) {
    if (i < 0) { i += n; if (i < 0) i = (step < 0) ? -1 : 0; }
    else if (i >= n) i = (step < 0) ? n - 1 : n;
    return i;
}
static std::vector<int> py_indices(long n, long i1, long i2, long step) {
    long start = py_adjust(n, i1, step), stop = py_adjust(n, i2, step);
    std::vector<int> r;
    if (step > 0) for (long i = start; i < stop; i += step) r.push_back(int(i));
    else for (long i = start; i > stop; i += step) r.push_back(int(i));
    return r;
}
// may the call throw?  (the five situations of the statement)
static bool may_throw(long n, long i1, long i2, long step) {
    if (n == 0 || step == 0) return true;
    if (i1 < -n || i1 > n - 1) return true;
    if (i2 < -n || i2 > n) return true;
    long r1 = i1 < 0 ? i1 + n : i1, r2 = i2 < 0 ? i2 + n : i2;
    if (step < 0 && r1 < r2) return true;
    if (step > 0 && r1 > r2) return true;
    return false;
}

template<class T> T mk(int i);
template<> real_t mk<real_t>(int i) { return real_t(i); }
template<> cmplx_t mk<cmplx_t>(int i) { return cmplx_t(i, -i); }
static int idx_of(real_t v) { return int(v); }
static int idx_of(cmplx_t v) { return (v.im == -v.re) ? int(v.re) : -999; }

template<class T> base_array<T> iota(int n) {
    base_array<T> x(n);
    for (int i = 0; i < n; ++i) x[i] = mk<T>(i);
    return x;
}

static std::string spec(const char* op, std::initializer_list<long> v) {
    std::string s = std::string("{\"op\":\"") + op + "\",\"args\":[";
    bool f = true;
    for (auto x : v) { if (!f) s += ","; f = false; s += std::to_string(x); }
    return s + "]}";
}

// ---------------------------------------------------------------- slice read
// kind: 0 real const, 1 real mutable, 2 cmplx const, 3 cmplx mutable; end_ph: use indexing::end
template<class T, bool Const>
static bool read_slice(int n, int i1, int i2, int m, bool end_ph, std::vector<int>& got) {
    base_array<T> x = iota<T>(n);
    const base_array<T>& cx = x;
    try {
        base_array<T> y;
        if constexpr (Const) y = end_ph ? base_array<T>(cx.slice(i1, indexing::end, m)) : base_array<T>(cx.slice(i1, i2, m));
        else y = end_ph ? base_array<T>(x.slice(i1, indexing::end, m)) : base_array<T>(x.slice(i1, i2, m));
        got.clear();
        for (int i = 0; i < y.size(); ++i) got.push_back(idx_of(y[i]));
        return true;
    } catch (const std::exception&) {
        return false;
    }
}

static void case_slice(int kind, int n, int i1, int i2, int m, bool end_ph) {
    std::vector<int> got;
    const int e2 = end_ph ? n : i2;
    const std::string js = spec(end_ph ? "slice_end" : "slice", {kind, n, i1, e2, m});
    vh::set_current("C04:crash:slice", js);
    bool ok;
    switch (kind) {
    case 0: ok = read_slice<real_t, true>(n, i1, i2, m, end_ph, got); break;
    case 1: ok = read_slice<real_t, false>(n, i1, i2, m, end_ph, got); break;
    case 2: ok = read_slice<cmplx_t, true>(n, i1, i2, m, end_ph, got); break;
    default: ok = read_slice<cmplx_t, false>(n, i1, i2, m, end_ph, got); break;
    }
    vh::clear_current();
    const bool big = ok && got.size() > 64;   // large slices: digest instead of the full list
    std::string lhs = std::string(big ? "sliceL " : "slice ") + std::to_string(n) + " " + std::to_string(i1) + " " + std::to_string(e2) + " " + std::to_string(m);
    if (big) {
        unsigned long long cs = 0;
        for (size_t j = 0; j < got.size(); ++j) cs = (cs + (unsigned long long)(got[j] + 1) * (j + 1)) % 1000000007ULL;
        out.corr(lhs, std::to_string(got.size()) + " " + std::to_string(got.front()) + " " + std::to_string(got.back()) + " " + std::to_string(cs));
    } else
        out.corr(lhs, ok ? std::to_string(got.size()) + vh::join_ints(got) : "ERR");
    out.n_oracle++;
    if (ok) {
        out.stat("slice_ok");
        out.stat("slice_count_" + std::to_string(got.size() > 4 ? 5 : got.size()) + (got.size() > 4 ? "plus" : ""));
        if (m == 0 || got != py_indices(n, i1, e2, m)) out.fail("C04:slice-denotes", js);
    } else {
        out.stat("slice_throws");
        if (!may_throw(n, i1, e2, m)) out.fail("C04:slice-throws-valid", js);
    }
    if (out.n_cases % 4001 == 0) out.sample(js);
}

// ---------------------------------------------------------------- copies of slice objects
template<class T>
static void case_copy(int n, int i1, int i2, int m) {
    if (may_throw(n, i1, i2, m)) return;
    const auto want = py_indices(n, i1, i2, m);
    base_array<T> x = iota<T>(n);
    const base_array<T>& cx = x;
    const bool cplx = is_complex_v<T>;
    for (int which = 0; which < 3; ++which) {
        const std::string js = spec("copy", {cplx ? 1 : 0, which, n, i1, i2, m});
        vh::set_current("C04:crash:copy", js);
        std::vector<int> got;
        bool ok = true;
        try {
            base_array<T> y;
            if (which == 0) { auto s = cx.slice(i1, i2, m); const_slice_t<T> c(s); y = base_array<T>(c); }
            else if (which == 1) { auto s = x.slice(i1, i2, m); slice_t<T> c(s); y = base_array<T>(c); }
            else { auto s = x.slice(i1, i2, m); const_slice_t<T> c(s); y = base_array<T>(c); }
            for (int i = 0; i < y.size(); ++i) got.push_back(idx_of(y[i]));
        } catch (const std::exception&) { ok = false; }
        vh::clear_current();
        out.corr("copy " + std::to_string(which) + " " + std::to_string(n) + " " + std::to_string(i1) + " " + std::to_string(i2) + " " + std::to_string(m),
                 ok ? std::to_string(got.size()) + vh::join_ints(got) : "ERR");
        out.n_oracle++;
        out.stat("copy_cases");
        if (!ok || got != want) out.fail("C04:copy-same", js);
    }
}

// ---------------------------------------------------------------- assignment
template<class T>
static std::string dump(const base_array<T>& x) {
    std::string s = std::to_string(x.size());
    for (int i = 0; i < x.size(); ++i) s += " " + std::to_string(idx_of(x[i]));
    return s;
}

// destination slice (d1,d2,dm) of an n-array; source = slice (s1,s2,sm) of the same array
// (same = 1) or of another array of length n2 holding 100,101,...
template<class T>
static void case_assign_slice(int n, int d1, int d2, int dm, int same, int n2, int s1, int s2, int sm, int src_const) {
    const bool cplx = is_complex_v<T>;
    const std::string js = spec("assign_slice", {cplx ? 1 : 0, n, d1, d2, dm, same, n2, s1, s2, sm, src_const});
    base_array<T> x = iota<T>(n);
    base_array<T> other(n2);
    for (int i = 0; i < n2; ++i) other[i] = mk<T>(100 + i);
    const base_array<T> before = x;
    const base_array<T>& srcarr = same ? x : other;
    const int ns = same ? n : n2;
    if (may_throw(n, d1, d2, dm) || may_throw(ns, s1, s2, sm)) return;
    const auto di = py_indices(n, d1, d2, dm), si = py_indices(ns, s1, s2, sm);
    vh::set_current("C04:crash:assign_slice", js);
    bool ok = true;
    try {
        if (src_const) { const base_array<T>& cs = srcarr; x.slice(d1, d2, dm) = cs.slice(s1, s2, sm); }
        else if (same) x.slice(d1, d2, dm) = x.slice(s1, s2, sm);
        else x.slice(d1, d2, dm) = other.slice(s1, s2, sm);
    } catch (const std::exception&) { ok = false; }
    vh::clear_current();
    out.corr("asg " + std::to_string(n) + " " + std::to_string(d1) + " " + std::to_string(d2) + " " + std::to_string(dm) + " " + std::to_string(same) + " " +
                 std::to_string(n2) + " " + std::to_string(s1) + " " + std::to_string(s2) + " " + std::to_string(sm),
             ok ? dump(x) : "ERR");
    out.n_oracle++;
    // oracle: copy source first
    if (di.size() != si.size()) {
        out.stat("assign_slice_count_mismatch");
        bool unchanged = true;
        for (int i = 0; i < n; ++i) unchanged = unchanged && (x[i] == before[i]);
        if (ok || !unchanged) out.fail("C04:assign-count-mismatch", js);
        return;
    }
    out.stat(same ? "assign_slice_same_array" : "assign_slice_other_array");
    bool overlap = false;
    if (same) for (int a : di) for (int b : si) overlap = overlap || (a == b);
    if (overlap) out.stat("assign_slice_overlapping");
    base_array<T> want = before;
    std::vector<T> vals;
    for (int j : si) vals.push_back(same ? before[j] : other[j]);
    for (size_t j = 0; j < di.size(); ++j) want[di[j]] = vals[j];
    bool eq = ok;
    for (int i = 0; ok && i < n; ++i) eq = eq && (x[i] == want[i]);
    if (!eq) out.fail("C04:assign-slice", js);
    if (out.n_cases % 5003 == 0) out.sample(js);
}

template<class T>
static void apply_list(slice_t<T> s, int len) {
    auto v = [](int i) { return mk<T>(200 + i); };
    switch (len) {
    case 0: s = std::initializer_list<T>{}; break;
    case 1: s = {v(0)}; break;
    case 2: s = {v(0), v(1)}; break;
    case 3: s = {v(0), v(1), v(2)}; break;
    case 4: s = {v(0), v(1), v(2), v(3)}; break;
    case 5: s = {v(0), v(1), v(2), v(3), v(4)}; break;
    case 6: s = {v(0), v(1), v(2), v(3), v(4), v(5)}; break;
    case 7: s = {v(0), v(1), v(2), v(3), v(4), v(5), v(6)}; break;
    case 8: s = {v(0), v(1), v(2), v(3), v(4), v(5), v(6), v(7)}; break;
    case 9: s = {v(0), v(1), v(2), v(3), v(4), v(5), v(6), v(7), v(8)}; break;
    case 10: s = {v(0), v(1), v(2), v(3), v(4), v(5), v(6), v(7), v(8), v(9)}; break;
    case 11: s = {v(0), v(1), v(2), v(3), v(4), v(5), v(6), v(7), v(8), v(9), v(10)}; break;
    case 12: s = {v(0), v(1), v(2), v(3), v(4), v(5), v(6), v(7), v(8), v(9), v(10), v(11)}; break;
    case 13: s = {v(0), v(1), v(2), v(3), v(4), v(5), v(6), v(7), v(8), v(9), v(10), v(11), v(12)}; break;
    default: s = {v(0), v(1), v(2), v(3), v(4), v(5), v(6), v(7), v(8), v(9), v(10), v(11), v(12), v(13)}; break;
    }
}

// rhs kind: 0 scalar, 1 array of length len, 2 initializer list of length len (0..14)
template<class T>
static void case_assign_value(int n, int d1, int d2, int dm, int kind, int len) {
    const bool cplx = is_complex_v<T>;
    if (may_throw(n, d1, d2, dm)) return;
    if (kind == 2 && len > 14) return;
    const std::string js = spec("assign_value", {cplx ? 1 : 0, n, d1, d2, dm, kind, len});
    base_array<T> x = iota<T>(n);
    const base_array<T> before = x;
    const auto di = py_indices(n, d1, d2, dm);
    vh::set_current("C04:crash:assign_value", js);
    bool ok = true;
    try {
        if (kind == 0) x.slice(d1, d2, dm) = mk<T>(200);
        else if (kind == 1) {
            base_array<T> r(len);
            for (int i = 0; i < len; ++i) r[i] = mk<T>(200 + i);
            x.slice(d1, d2, dm) = r;
        } else apply_list<T>(x.slice(d1, d2, dm), len);
    } catch (const std::exception&) { ok = false; }
    vh::clear_current();
    out.corr("asgv " + std::to_string(n) + " " + std::to_string(d1) + " " + std::to_string(d2) + " " + std::to_string(dm) + " " + std::to_string(kind) + " " + std::to_string(len),
             ok ? dump(x) : "ERR");
    out.n_oracle++;
    out.stat(std::string("assign_value_kind") + std::to_string(kind));
    const bool count_ok = (kind == 0) || (int(di.size()) == len);
    base_array<T> want = before;
    if (count_ok) for (size_t j = 0; j < di.size(); ++j) want[di[j]] = mk<T>(kind == 0 ? 200 : 200 + int(j));
    bool eq = true;
    for (int i = 0; i < n; ++i) eq = eq && (x[i] == want[i]);
    // corner: an EMPTY array on the right-hand side is itself sliced (`rhs.slice(0, 0)`), which is one of
    // the listed throwing situations ("empty array"); throwing is then allowed, writing is not
    if (kind == 1 && len == 0) { if (!eq) out.fail("C04:assign-value", js); }
    else if (count_ok) { if (!ok || !eq) out.fail("C04:assign-value", js); }
    else {
        out.stat("assign_value_count_mismatch");
        if (ok || !eq) out.fail("C04:assign-count-mismatch", js);
    }
}

int main(int argc, char** argv) {
    vh::Args a(argc, argv);
    vh::install_guards();
    vh::Rng rng(a.seed);
    const int NB = a.thorough ? 10 : 6;        // exhaustive box for (n, i1, i2, step)
    const int NP = a.thorough ? 8 : 5;         // exhaustive same-array pairs
    for (int n = 0; n <= NB; ++n)
        for (int i1 = -n - 3; i1 <= n + 3; ++i1)
            for (int i2 = -n - 3; i2 <= n + 3; ++i2)
                for (int m = -5; m <= 5; ++m) {
                    for (int kind = 0; kind < 4; ++kind) case_slice(kind, n, i1, i2, m, false);
                    if (i2 == n) for (int kind = 0; kind < 4; ++kind) case_slice(kind, n, i1, i2, m, true);
                    if (n <= (a.thorough ? 10 : 5)) { case_copy<real_t>(n, i1, i2, m); case_copy<cmplx_t>(n, i1, i2, m); }
                }
    // enumerate valid slices of an n-array once (canonical triples from the box)
    auto valid = [&](int n) {
        std::vector<std::array<int, 3>> v;
        for (int i1 = -n; i1 <= n - 1; ++i1)
            for (int i2 = -n; i2 <= n; ++i2)
                for (int m = -4; m <= 4; ++m)
                    if (!may_throw(n, i1, i2, m)) v.push_back({i1, i2, m});
        return v;
    };
    for (int n = 1; n <= NP; ++n) {
        const auto vs = valid(n);
        for (auto& d : vs) {
            if (d[0] < 0 || d[1] < 0) continue;   // non-negative destination spelling (aliasing depends on positions only)
            const auto dn = py_indices(n, d[0], d[1], d[2]).size();
            for (auto& s : vs) {
                if (s[0] < 0 || s[1] < 0) continue;
                const auto sn = py_indices(n, s[0], s[1], s[2]).size();
                if (dn != sn && (rng.next() % 16)) continue;   // all equal-count pairs, 1/16 of the others
                case_assign_slice<real_t>(n, d[0], d[1], d[2], 1, n, s[0], s[1], s[2], int(rng.next() & 1));
                if (n <= NP - 2) case_assign_slice<cmplx_t>(n, d[0], d[1], d[2], 1, n, s[0], s[1], s[2], int(rng.next() & 1));
            }
        }
    }
    // other-array sources and value right-hand sides of every length relation
    for (int n = 1; n <= (a.thorough ? 8 : 6); ++n) {
        const auto vs = valid(n);
        for (auto& d : vs) {
            const int dn = int(py_indices(n, d[0], d[1], d[2]).size());
            for (int kind = 0; kind < 3; ++kind)
                for (int len : {0, 1, dn - 1, dn, dn + 1, 2 * dn, n + 3}) {
                    if (len < 0) continue;
                    case_assign_value<real_t>(n, d[0], d[1], d[2], kind, len);
                    case_assign_value<cmplx_t>(n, d[0], d[1], d[2], kind, len);
                    if (kind == 0) break;
                }
            const int n2 = 1 + int(rng.next() % 9);
            const auto v2 = valid(n2);
            for (int rep = 0; rep < 6; ++rep) {
                auto& s = v2[rng.next() % v2.size()];
                case_assign_slice<real_t>(n, d[0], d[1], d[2], 0, n2, s[0], s[1], s[2], rep & 1);
                case_assign_slice<cmplx_t>(n, d[0], d[1], d[2], 0, n2, s[0], s[1], s[2], rep & 1);
            }
        }
    }
    // random triples on large arrays
    const int NR = a.thorough ? 200000 : 20000;
    for (int r = 0; r < NR; ++r) {
        const int n = (r % 3 == 0) ? rng.range(0, 40) : (r % 3 == 1 ? rng.range(41, 2000) : rng.range(2001, 100000));
        auto pick = [&](int lo, int hi) {   // boundary-biased
            switch (rng.next() % 6) {
            case 0: return lo; case 1: return hi; case 2: return 0; case 3: return rng.range(lo - 2, lo + 2);
            case 4: return rng.range(hi - 2, hi + 2); default: return rng.range(lo, hi);
            }
        };
        const int i1 = pick(-n, n - 1), i2 = pick(-n, n);
        int m = (rng.next() % 4 == 0) ? rng.range(-n - 2, n + 2) : rng.range(-7, 7);
        case_slice(int(rng.next() % 4), n, i1, i2, m, false);
    }
    out.finish();
    return 0;
}
