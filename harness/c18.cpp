// C18 — delay estimators and the preamble detector recover the true offset.
//   delayseq / peakloc / finddelay (lib/utils.cpp, include/dsplib/utils.h), gccphat (lib/gccphat.cpp),
//   PreambleDetector (lib/detector.cpp) on the real library.
//   ORACLE (the property's own clauses, evaluated on the implementation):
//     delayseq : r[i] = x[i-d] for 0 <= i-d < N, else 0 — exactly; |d| >= N gives zeros        (C18:delayseq)
//     peakloc  : (real overload) the vertex of the parabola through (idx-1,x[ml]) (idx,x[mk]) (idx+1,x[mr])
//                (cyclic neighbours), long double, conditioned tolerance                           (C18:peakloc)
//     finddelay: finddelay(x, delayseq(x,d) [+ noise <= -30 dB]) == d, white x, len 128..5000,
//                every |d| <= len/4 for the shortest, sampled for long, real and complex           (C18:finddelay)
//     gccphat  : |gccphat(delayseq(x,d), x, fs).tau * fs - d| <= 0.5, fs 1..48000, single and multi channel (C18:gccphat)
//     detector : one preamble (Zadoff-Chu / chirp / PN, length 16..512) in a stream, every end offset modulo
//                frame_len incl. straddling, amplitude over 60 dB, threshold 0.3..0.9: exactly one detection, in the call
//                where the preamble completes, offset = index of its last sample in that call, returned samples =
//                the aligned stream samples (bit-exact), |score-1| <= 0.05; a stream without the preamble
//                reports nothing                                                                   (C18:detector-*)
//                The hypothesis "single-sample correlation peak" is decided by a long-double brute-force evaluation of
//                the normalised metric  |sum_j conj(p[j]) x[t-nh+1+j]|^2 / (nh^2 rms(p)^2) / (mean_{j<nh}|x[t-j]|^2 + eps):
//                a stream is IN the hypothesis for a threshold thr iff the metric exceeds thr^2 (with 1e-3 margin) at the
//                alignment index only (resp. nowhere, for streams without preamble).  Streams outside the hypothesis
//                are counted (S lines) and still go through CORR.
//   CORR: the same calls are replayed by the Lean model (`Model/Detect.lean`) through `dspdriver_c18`.
#include "common.hpp"
#include <dsplib/gccphat.h>
#include <dsplib/detector.h>
#include <algorithm>
#include <set>
using namespace dsplib;
typedef long double ld;
static vh::Out out;
static const ld EPSD = 2.220446049250313e-16L;
static bool THOROUGH = false;

// (`delayseq(arr_cmplx, int)` was ill-formed before /repo commit f2acd20: the template converted `zeros(N)`, an arr_real,
// to base_array<cmplx_t>.  The harness instantiates both overloads, so a regression is a build failure of this file.)
static arr_real dseq(const arr_real& x, int d) { return delayseq(x, d); }
static arr_cmplx dseq(const arr_cmplx& x, int d) { return delayseq(x, d); }

struct CL {
    ld re, im;
};

// ------------------------------------------------------------------ helpers
static std::string jstr(const std::string& k, const std::string& v, bool last = false) { return "\"" + k + "\":" + v + (last ? "" : ","); }
static std::string I(long long v) { return std::to_string(v); }

static arr_real white_r(vh::Rng& r, int n, int kind) {
    arr_real x(n);
    for (int i = 0; i < n; ++i) x[i] = kind == 0 ? r.gauss() : kind == 1 ? r.sym() : (r.coin() ? 1.0 : -1.0);
    return x;
}
static arr_cmplx white_c(vh::Rng& r, int n, int kind) {
    arr_cmplx x(n);
    for (int i = 0; i < n; ++i) {
        if (kind == 0) x[i] = cmplx_t{r.gauss(), r.gauss()};
        else if (kind == 1) x[i] = cmplx_t{r.sym(), r.sym()};
        else x[i] = cmplx_t{r.coin() ? 1.0 : -1.0, r.coin() ? 1.0 : -1.0};
    }
    return x;
}
static double rms_of(const arr_real& x) {
    ld s = 0;
    for (int i = 0; i < x.size(); ++i) s += (ld)x[i] * x[i];
    return x.size() ? (double)sqrtl(s / x.size()) : 0;
}
static double rms_of(const arr_cmplx& x) {
    ld s = 0;
    for (int i = 0; i < x.size(); ++i) s += (ld)x[i].re * x[i].re + (ld)x[i].im * x[i].im;
    return x.size() ? (double)sqrtl(s / x.size()) : 0;
}
static void add_noise(vh::Rng& r, arr_real& x, double sigma) {
    for (int i = 0; i < x.size(); ++i) x[i] += sigma * r.gauss();
}
static void add_noise(vh::Rng& r, arr_cmplx& x, double sigma) {   // total noise power sigma^2
    const double s = sigma * 0.7071067811865476;
    for (int i = 0; i < x.size(); ++i) { x[i].re += s * r.gauss(); x[i].im += s * r.gauss(); }
}
static bool same(real_t a, real_t b) { return a == b; }
static bool same(cmplx_t a, cmplx_t b) { return a.re == b.re && a.im == b.im; }

// ================================================================== A. delayseq
template<class T> static void delayseq_case(const base_array<T>& x, int d, bool corr, const char* tag) {
    const int N = x.size();
    const std::string js = "{" + jstr("fn", "\"delayseq\"") + jstr("type", std::string("\"") + tag + "\"") + jstr("d", I(d)) + jstr("x", vh::jarr(x), true) + "}";
    vh::set_current("C18:delayseq", js);
    base_array<T> y;
    bool threw = false;
    try {
        y = dseq(x, d);
    } catch (const std::exception&) { threw = true; }
    vh::clear_current();
    ++out.n_oracle;
    bool ok = !threw && y.size() == N;
    for (int i = 0; ok && i < N; ++i) {
        const long long s = (long long)i - d;
        const T want = (s >= 0 && s < N) ? x[(int)s] : T(0);
        if (!same(y[i], want)) ok = false;
    }
    if (!ok) out.fail("C18:delayseq", js);
    out.stat(d == 0 ? "ds_zero_shift" : (std::llabs((long long)d) >= N ? "ds_shift_ge_len" : (d > 0 ? "ds_delay" : "ds_advance")));
    if (corr) out.corr(std::string(tag) + " " + I(d) + " " + vh::hxs(x), threw ? std::string("ERR") : vh::hxs(y));
}

static void run_delayseq(vh::Rng& r) {
    // every shift -N-2..N+2 for every N <= 9 (12 thorough); sampled shifts for longer arrays
    const int NEX = THOROUGH ? 12 : 9;
    for (int N = 0; N <= NEX; ++N)
        for (int d = -N - 2; d <= N + 2; ++d) {
            delayseq_case(white_r(r, N, 0), d, true, "dsR");
            delayseq_case(white_c(r, N, 0), d, true, "dsC");
        }
    const int lens[] = {16, 31, 64, 128, 129, 500, 1000, 5000};
    for (int N : lens) {
        std::vector<int> ds = {0, 1, -1, N / 4, -N / 4, N - 1, -(N - 1), N, -N, N + 1, -N - 1, 1000000, -1000000, 2147483647, -2147483647};
        for (int k = 0; k < (THOROUGH ? 40 : 8); ++k) ds.push_back(r.range(-N - 3, N + 3));
        for (int d : ds) {
            const bool corr = N <= 129;
            delayseq_case(white_r(r, N, 1), d, corr, "dsR");
            delayseq_case(white_c(r, N, 1), d, corr && N <= 64, "dsC");
        }
    }
}

// ================================================================== B. peakloc
static void peakloc_real_case(const arr_real& x, int idx, bool cyclic, bool corr) {
    const int n = x.size();
    const std::string js = "{" + jstr("fn", "\"peakloc\"") + jstr("idx", I(idx)) + jstr("cyclic", cyclic ? "true" : "false") + jstr("x", vh::jarr(x), true) + "}";
    vh::set_current("C18:peakloc", js);
    const real_t got = peakloc(x, idx, cyclic);
    vh::clear_current();
    if (corr) out.corr(std::string("plR ") + I(idx) + " " + (cyclic ? "1" : "0") + " " + vh::hxs(x), vh::hx(got));
    if (!cyclic && (idx == 0 || idx == n - 1)) {
        ++out.n_oracle;
        out.stat("pl_edge_noncyclic");
        if (got != (real_t)idx) out.fail("C18:peakloc", js);
        return;
    }
    const ld yl = x[(idx - 1 + n) % n], yk = x[idx], yr = x[(idx + 1) % n];
    const ld curv = yl - 2 * yk + yr;   // 2a
    if (curv == 0) {   // excluded point of T18.2 (a = 0: the three samples are collinear): no vertex; only CORR
        out.stat("pl_collinear_excluded");
        return;
    }
    // vertex of the parabola through (idx-1,yl) (idx,yk) (idx+1,yr), centred form (different arrangement from the code)
    const ld want = (ld)idx + (yl - yr) / (2 * curv);
    ++out.n_oracle;
    const ld mag = fabsl(yl) + fabsl(yk) + fabsl(yr);
    const ld tol = 16 * EPSD * (mag / fabsl(curv)) * (1 + fabsl(want - idx)) + 8 * EPSD * (fabsl(want) + idx + 2);
    out.stat(idx == 0 || idx == n - 1 ? "pl_cyclic_wrap" : "pl_interior");
    out.stat((yk > yl && yk > yr) ? "pl_is_peak" : ((yk < yl && yk < yr) ? "pl_is_valley" : "pl_monotone"));
    if (!(fabsl((ld)got - want) <= tol)) out.fail("C18:peakloc", js);
}

static void peakloc_cmplx_case(const arr_cmplx& x, int idx, bool cyclic, bool corr) {
    const real_t got = peakloc(x, idx, cyclic);
    if (corr) out.corr(std::string("plC ") + I(idx) + " " + (cyclic ? "1" : "0") + " " + vh::hxs(x), vh::hx(got));
    out.stat("pl_complex_overload_corr_only");
}

static void run_peakloc(vh::Rng& r) {
    const int reps = THOROUGH ? 40 : 6;
    const int lens[] = {1, 2, 3, 4, 5, 8, 17, 64, 500};
    for (int n : lens)
        for (int rep = 0; rep < reps; ++rep) {
            const int kind = rep % 6;
            arr_real x(n);
            for (int i = 0; i < n; ++i) x[i] = r.gauss();
            if (kind == 1) for (int i = 0; i < n; ++i) x[i] = std::ldexp(x[i], r.range(-30, 30));   // wide dynamic range
            if (kind == 2) { const double c = r.gauss() * 100; for (int i = 0; i < n; ++i) x[i] = c + 1e-6 * x[i]; }   // nearly flat (ill conditioned)
            if (kind == 3) for (int i = 0; i < n; ++i) x[i] = std::floor(4 * x[i]);   // small integers: collinear triples occur
            if (kind == 4) for (int i = 0; i < n; ++i) x[i] = -std::fabs(x[i]) - (i * 0.01) * (i * 0.01);   // smooth-ish bump
            if (kind == 5) { ld c = r.unit() * n; for (int i = 0; i < n; ++i) x[i] = (double)(3 - 0.7L * (i - c) * (i - c)); }   // exact parabola: vertex = c
            std::vector<int> idxs;
            if (n <= 8) for (int i = 0; i < n; ++i) idxs.push_back(i);
            else { idxs = {0, 1, n - 2, n - 1, argmax(x)}; for (int k = 0; k < 4; ++k) idxs.push_back(r.range(0, n - 1)); }
            for (int idx : idxs)
                for (int cyc = 0; cyc < 2; ++cyc) peakloc_real_case(x, idx, cyc, n <= 64);
            arr_cmplx z = white_c(r, n, 0);
            if (kind == 3) for (int i = 0; i < n; ++i) z[i].im = 0;   // real-valued complex data
            for (int idx : idxs)
                for (int cyc = 0; cyc < 2; ++cyc) peakloc_cmplx_case(z, idx, cyc, n <= 64);
        }
}

// ================================================================== C. finddelay
template<class T> static void finddelay_case(const base_array<T>& x1, const base_array<T>& x2, int d_true, bool oracle, bool corr, const char* tag,
                                             const std::string& what) {
    const std::string js = "{" + jstr("fn", "\"finddelay\"") + jstr("type", std::string("\"") + tag + "\"") + jstr("case", "\"" + what + "\"") +
                           jstr("len", I(x1.size())) + jstr("d", I(d_true)) + jstr("seed_note", "\"regenerate with --seed\"", true) + "}";
    vh::set_current("C18:finddelay", js);
    vh::watch(60);
    int got = 0;
    bool threw = false;
    try {
        got = finddelay(x1, x2);
    } catch (const std::exception&) { threw = true; }
    vh::unwatch();
    vh::clear_current();
    if (oracle) {
        ++out.n_oracle;
        if (threw || got != d_true) {
            std::string w = "{" + jstr("fn", "\"finddelay\"") + jstr("type", std::string("\"") + tag + "\"") + jstr("case", "\"" + what + "\"") + jstr("d", I(d_true)) +
                            jstr("got", threw ? "\"ERR\"" : I(got));
            if (x1.size() <= 160) w += jstr("x1", vh::jarr(x1)) + jstr("x2", vh::jarr(x2));
            w += jstr("len", I(x1.size()), true) + "}";
            out.fail("C18:finddelay", w);
        }
    }
    if (corr) out.corr(std::string(tag) + " " + vh::hxs(x1) + " " + vh::hxs(x2), threw ? "ERR" : I(got));
}

// ================================================================== D. gccphat
static void gcc_case(const arr_real& sig, const arr_real& ref, int fs, int d_true, bool oracle, bool corr, const std::string& what) {
    const std::string js0 = "{" + jstr("fn", "\"gccphat\"") + jstr("case", "\"" + what + "\"") + jstr("len", I(ref.size())) + jstr("fs", I(fs)) + jstr("d", I(d_true), true) + "}";
    vh::set_current("C18:gccphat", js0);
    vh::watch(60);
    bool threw = false;
    gccphat_res_t res;
    try {
        res = gccphat(sig, ref, fs);
    } catch (const std::exception&) { threw = true; }
    vh::unwatch();
    vh::clear_current();
    if (oracle) {
        ++out.n_oracle;
        const ld samples = threw ? 0 : (ld)res.tau * (ld)fs;
        if (threw || !(fabsl(samples - d_true) <= 0.5L) || res.corr.size() != ref.size()) {
            std::string w = "{" + jstr("fn", "\"gccphat\"") + jstr("case", "\"" + what + "\"") + jstr("fs", I(fs)) + jstr("d", I(d_true)) +
                            jstr("tau_times_fs", threw ? "\"ERR\"" : vh::jnum((double)samples));
            if (ref.size() <= 160) w += jstr("sig", vh::jarr(sig)) + jstr("ref", vh::jarr(ref));
            w += jstr("len", I(ref.size()), true) + "}";
            // a NaN result gets its own key (before /repo commit 86d0c65 the PHAT weighting Y / abs(Y) was 0/0 at a cross-spectrum bin that is
            // exactly zero, e.g. the DC bin of a +-1 sequence with zero sum)
            out.fail(!threw && std::isnan(res.tau) ? "C18:gccphat-nan" : "C18:gccphat", w);
        }
        if (!threw) {
            const long long dev = llroundl(fabsl(samples - d_true) * 1e6L);   // micro-samples
            if (dev > out.stats["gcc_max_dev_microsamples"]) out.stats["gcc_max_dev_microsamples"] = dev;
        }
    }
    if (corr) {
        if (threw) out.corr("gcc " + I(fs) + " " + vh::hxs(sig) + " " + vh::hxs(ref), "ERR");
        else out.corr("gcc " + I(fs) + " " + vh::hxs(sig) + " " + vh::hxs(ref), I(argmax(res.corr)) + " " + vh::hx(res.tau * fs));
    }
}

static void gcc_multi_case(vh::Rng& r, const arr_real& ref, int fs, const std::vector<int>& ds, double snr_db, bool corr) {
    std::vector<arr_real> sig;
    const double sg = rms_of(ref) * std::pow(10.0, -snr_db / 20);
    for (int d : ds) {
        arr_real s = delayseq(ref, d);
        if (snr_db < 900) add_noise(r, s, sg);
        sig.push_back(s);
    }
    const std::string js0 = "{" + jstr("fn", "\"gccphat-multi\"") + jstr("len", I(ref.size())) + jstr("fs", I(fs)) + jstr("ds", vh::jints(ds), true) + "}";
    vh::set_current("C18:gccphat", js0);
    vh::watch(60);
    gccphat_res_ch_t res = gccphat(sig, ref, fs);
    vh::unwatch();
    vh::clear_current();
    for (size_t i = 0; i < ds.size(); ++i) {
        ++out.n_oracle;
        const ld samples = (ld)res.tau[i] * (ld)fs;
        if (!(fabsl(samples - ds[i]) <= 0.5L)) out.fail("C18:gccphat", js0);
    }
    out.stat("gcc_multi_channels", ds.size());
    if (corr) {
        std::string lhs = "gccm " + I(fs) + " " + I(ds.size());
        std::string rhs;
        for (size_t i = 0; i < ds.size(); ++i) {
            lhs += " " + vh::hxs(sig[i]);
            rhs += (i ? " " : "") + I(argmax(res.corr[i])) + " " + vh::hx(res.tau[i] * fs);
        }
        out.corr(lhs + " " + vh::hxs(ref), rhs);
    }
}

static std::vector<int> shifts_for(vh::Rng& r, int n, bool every, int nsample) {
    std::vector<int> ds;
    const int q = n / 4;
    if (every) { for (int d = -q; d <= q; ++d) ds.push_back(d); return ds; }
    std::set<int> s = {0, 1, -1, 2, -2, q, -q, q - 1, -(q - 1)};
    while ((int)s.size() < nsample + 9) s.insert(r.range(-q, q));
    return std::vector<int>(s.begin(), s.end());
}

static const int FS_LIST[] = {1, 2, 3, 7, 10, 100, 1000, 8000, 16000, 22050, 44100, 47999, 48000};

static void run_delay_estimators(vh::Rng& r) {
    // lengths: the shortest signals get EVERY shift, long ones sampled shifts
    std::vector<int> every_len, sampled_len;
    if (THOROUGH) {
        for (int n = 128; n <= 160; ++n) every_len.push_back(n);
        for (int n : {192, 255, 256, 257}) every_len.push_back(n);
        for (int n : {161, 200, 300, 383, 384, 500, 511, 512, 513, 640, 777, 1000, 1023, 1024, 1025, 1500, 2000, 2047, 2048, 2049, 2500, 3000, 3571, 4000, 4095, 4096, 4097, 4999, 5000})
            sampled_len.push_back(n);
        for (int k = 0; k < 40; ++k) sampled_len.push_back(r.range(128, 5000));
    } else {
        for (int n : {128, 129, 131}) every_len.push_back(n);
        for (int n : {160, 255, 256, 257, 500, 512, 1000, 1024, 1025, 2048, 4096, 4097, 5000}) sampled_len.push_back(n);
        for (int k = 0; k < 6; ++k) sampled_len.push_back(r.range(128, 5000));
    }
    auto one_len = [&](int n, bool every) {
        const std::vector<int> ds = shifts_for(r, n, every, THOROUGH ? 24 : 8);
        out.stat(every ? "fd_lengths_every_shift" : "fd_lengths_sampled_shift");
        int k = 0;
        for (int d : ds) {
            ++k;
            const int wk = r.range(0, 2);
            // noise: none, or 30..60 dB below the signal, on the delayed copy or on both
            const int nmode = (k % 3);
            const double snr = nmode == 0 ? 1000 : (nmode == 1 ? 30.0 : 30.0 + 30.0 * r.unit());
            const bool corr_ok = n <= 513 && (every ? (k % 16 == 1 || d == n / 4 || d == -(n / 4)) : (k % 4 == 1));
            {   // real
                arr_real x = white_r(r, n, wk);
                arr_real y = delayseq(x, d);
                arr_real x1 = x;
                const double sg = rms_of(x) * std::pow(10.0, -snr / 20);
                if (nmode != 0) add_noise(r, y, sg);
                if (nmode == 2 && r.coin()) add_noise(r, x1, sg);
                const std::string wn = std::string(nmode == 0 ? "noiseless" : "noisy") + (wk == 0 ? "-gauss" : wk == 1 ? "-uniform" : "-binary");
                finddelay_case(x1, y, d, true, corr_ok, "fdR", wn);
                out.stat(nmode == 0 ? "fd_real_noiseless" : "fd_real_noisy");
                const int fs = (k % 2) ? FS_LIST[r.range(0, 12)] : r.range(1, 48000);
                // CORR only for continuous-valued signals: a +-1 sequence can have an exactly-zero DC / Nyquist bin, whose PHAT weight
                // Y/(|Y|+eps) then amplifies the rounding noise of that bin (an ill-conditioned comparison; the oracle still covers it)
                gcc_case(y, x1, fs, d, true, corr_ok && n <= 400 && wk != 2, wn);
                out.stat(nmode == 0 ? "gcc_noiseless" : "gcc_noisy");
            }
            {   // complex
                arr_cmplx x = white_c(r, n, wk);
                arr_cmplx y = dseq(x, d);
                arr_cmplx x1 = x;
                const double sg = rms_of(x) * std::pow(10.0, -snr / 20);
                if (nmode != 0) add_noise(r, y, sg);
                if (nmode == 2 && r.coin()) add_noise(r, x1, sg);
                const std::string wn = std::string(nmode == 0 ? "noiseless" : "noisy") + (wk == 0 ? "-gauss" : wk == 1 ? "-uniform" : "-binary");
                finddelay_case(x1, y, d, true, corr_ok && n <= 260, "fdC", wn);
                out.stat(nmode == 0 ? "fd_cmplx_noiseless" : "fd_cmplx_noisy");
            }
        }
        // multi-channel gccphat
        std::vector<int> mds = {n / 4, -(n / 4)};   // the ends of the shift range every time
        mds.push_back(r.range(-(n / 4), n / 4));
        gcc_multi_case(r, white_r(r, n, 0), FS_LIST[r.range(0, 12)], mds, r.coin() ? 1000 : 30 + 20 * r.unit(), n <= 300);
    };
    for (int n : every_len) one_len(n, true);
    for (int n : sampled_len) one_len(n, false);

    // CORR-only: the lag-unwrapping / padding logic on operands outside the property's quantifier
    // (different lengths, tiny lengths, shift beyond len/4, unrelated signals)
    {
        arr_real a = {1, 2, 3}, b = {0, 0, 1, 2, 3};
        finddelay_case(a, b, 2, true, true, "fdR", "pinned-test");
        arr_real c = {0, 0, 0, 1, 2, 3, 0, 0}, e = {1, 2, 3, 0};
        finddelay_case(c, e, -3, true, true, "fdR", "pinned-test");
    }
    for (int k = 0; k < (THOROUGH ? 120 : 30); ++k) {
        const int n1 = r.range(1, 70), n2 = r.range(1, 70);
        arr_real a = white_r(r, n1, 0), b = white_r(r, n2, 0);
        finddelay_case(a, b, 0, false, true, "fdR", "unrelated");
        arr_cmplx ac = white_c(r, n1, 0), bc = white_c(r, n2, 0);
        finddelay_case(ac, bc, 0, false, true, "fdC", "unrelated");
        out.stat("fd_corr_only_unrelated", 2);
        // embedded copy: b = a shifted inside a longer / shorter frame (all lags up to the unwrap boundary nfft/2)
        const int n = r.range(4, 64), m = r.range(n, 2 * n), s = r.range(0, m - n);
        arr_real p = white_r(r, n, 0), q(m);
        for (int i = 0; i < m; ++i) q[i] = 0;
        for (int i = 0; i < n; ++i) q[s + i] = p[i];
        finddelay_case(p, q, s, false, true, "fdR", "embedded");
        finddelay_case(q, p, -s, false, true, "fdR", "embedded");
        out.stat("fd_corr_only_embedded", 2);
        // gccphat on short unrelated / equal-length signals incl. odd, prime and composite lengths
        const int ng = r.range(3, 90);
        arr_real g1 = white_r(r, ng, 0), g2 = white_r(r, ng, 0);
        gcc_case(g1, g2, r.range(1, 48000), 0, false, true, "unrelated");
        arr_real g3 = delayseq(g2, r.range(-ng + 1, ng - 1));   // any shift, also beyond len/4 and beyond len/2 (unwrap branch)
        gcc_case(g3, g2, r.range(1, 48000), 0, false, true, "any-shift");
        out.stat("gcc_corr_only", 2);
        // multi-channel overload, any shift (both branches of its own unwrapping), CORR only
        {
            std::vector<arr_real> sg;
            const int nch = r.range(1, 3);
            for (int c = 0; c < nch; ++c) sg.push_back(delayseq(g2, r.range(-ng + 1, ng - 1)));
            const int fs = r.range(1, 48000);
            gccphat_res_ch_t res = gccphat(sg, g2, fs);
            std::string lhs = "gccm " + I(fs) + " " + I(nch), rhs;
            for (int c = 0; c < nch; ++c) {
                lhs += " " + vh::hxs(sg[c]);
                rhs += (c ? " " : "") + I(argmax(res.corr[c])) + " " + vh::hx(res.tau[c] * fs);
            }
            out.corr(lhs + " " + vh::hxs(g2), rhs);
            out.stat("gcc_multi_corr_only");
        }
        // finddelay at the unwrap boundary: a short burst p inside a frame q of power-of-two length, every position around nfft/2
        {
            const int lg = r.range(3, 6), nf = 1 << lg, np = r.range(1, 3);
            for (int sft = nf / 2 - 2; sft <= nf / 2 + 2 && sft + np <= nf; ++sft) {
                arr_real pb = white_r(r, np, 0), qf(nf);
                for (int i = 0; i < nf; ++i) qf[i] = 0;
                for (int i = 0; i < np; ++i) qf[sft + i] = pb[i];
                finddelay_case(qf, pb, 0, false, true, "fdR", "unwrap-boundary");
                finddelay_case(pb, qf, 0, false, true, "fdR", "unwrap-boundary");
                out.stat("fd_corr_only_unwrap_boundary", 2);
            }
        }
    }
}

// ================================================================== E. PreambleDetector
static arr_cmplx zadoff_chu_seq(int u, int N) {
    arr_cmplx p(N);
    for (int n = 0; n < N; ++n) {
        const ld ph = -3.14159265358979323846264338327950288L * u * (ld)n * (ld)(n + (N % 2)) / N;
        p[n] = cmplx_t{(double)cosl(ph), (double)sinl(ph)};
    }
    return p;
}
static arr_cmplx chirp_seq(vh::Rng& r, int N) {   // linear FM sweep over a random fraction of the band
    const ld bw = 0.9L + 0.1L * r.unit();
    arr_cmplx p(N);
    for (int n = 0; n < N; ++n) {
        const ld t = (ld)n - (N - 1) / 2.0L;
        const ld ph = 3.14159265358979323846264338327950288L * bw * t * t / N;
        p[n] = cmplx_t{(double)cosl(ph), (double)sinl(ph)};
    }
    return p;
}
static arr_cmplx pn_seq(vh::Rng& r, int N, bool qpsk) {   // LFSR m-sequence when N = 2^k - 1, otherwise a truncated longer one
    // new bit a[n+k] = XOR of a[n+i], i in mask: x^k + sum x^i primitive (x^5+x^2+1, x^6+x+1, x^7+x+1, x^8+x^4+x^3+x^2+1, x^9+x^4+1, x^10+x^3+1)
    static const unsigned taps[] = {0, 0, 0x3, 0x3, 0x3, 0x5, 0x3, 0x3, 0x1D, 0x11, 0x9, 0x5};
    int k = 2;
    while ((1 << k) - 1 < N) ++k;
    auto gen = [&](unsigned seed) {
        std::vector<int> b;
        unsigned s = seed ? seed : 1;
        for (int i = 0; i < N; ++i) {
            b.push_back(s & 1);
            const unsigned fb = __builtin_parity(s & taps[k]);
            s = (s >> 1) | (fb << (k - 1));
        }
        return b;
    };
    const std::vector<int> bi = gen(1 + r.range(0, (1 << k) - 2)), bq = gen(1 + r.range(0, (1 << k) - 2));
    arr_cmplx p(N);
    for (int n = 0; n < N; ++n) p[n] = qpsk ? cmplx_t{(bi[n] ? 1.0 : -1.0) * 0.7071067811865476, (bq[n] ? 1.0 : -1.0) * 0.7071067811865476} : cmplx_t{bi[n] ? 1.0 : -1.0, 0.0};
    return p;
}
static int gcd_i(int a, int b) { return b ? gcd_i(b, a % b) : a; }

static const char* PK[] = {"zadoff-chu", "chirp", "pn-bpsk", "pn-qpsk"};
static arr_cmplx gen_preamble(vh::Rng& r, int N, int kind) {
    switch (kind) {
    case 0: {   // root 1 / N-1 (low aperiodic sidelobes) most of the time, any coprime root otherwise
        int u;
        const int m = r.range(0, 9);
        do { u = m < 4 ? 1 : (m < 7 ? N - 1 : r.range(1, N - 1)); } while (gcd_i(u, N) != 1);
        return zadoff_chu_seq(u, N);
    }
    case 1: return chirp_seq(r, N);
    case 2: return pn_seq(r, N, false);
    default: return pn_seq(r, N, true);
    }
}

// long-double brute-force normalised metric of the detector at every stream index
static std::vector<ld> ref_metric(const arr_cmplx& p, const arr_cmplx& x) {
    const int nh = p.size(), n = x.size();
    ld e = 0;
    for (int j = 0; j < nh; ++j) e += (ld)p[j].re * p[j].re + (ld)p[j].im * p[j].im;
    const ld rms2 = e / nh;   // rms(p)^2
    std::vector<ld> a2(n), M(n);
    for (int t = 0; t < n; ++t) a2[t] = (ld)x[t].re * x[t].re + (ld)x[t].im * x[t].im;
    for (int t = 0; t < n; ++t) {
        ld cr = 0, ci = 0, pw = 0;
        for (int j = std::max(0, nh - 1 - t); j < nh; ++j) {
            const int s = t - nh + 1 + j;
            const ld xr = x[s].re, xi = x[s].im, pr = p[j].re, pi_ = -(ld)p[j].im;   // conj(p[j]) * x[s]
            cr += pr * xr - pi_ * xi;
            ci += pr * xi + pi_ * xr;
            pw += a2[s];
        }
        M[t] = (cr * cr + ci * ci) / ((ld)nh * nh * rms2) / (pw / nh + EPSD);
    }
    return M;
}

struct DetRun {
    bool threw = false;
    std::vector<int> call_start, call_len;
    std::vector<int> det_call;   // index of every call that reported
    std::vector<PreambleDetector::Result> res;
    int frame_len = 0;
    std::string rhs;
};

static DetRun run_detector(const arr_cmplx& p, double thr, const arr_cmplx& x, const std::vector<int>& frames_per_call, const std::string& js) {
    DetRun d;
    vh::set_current("C18:detector-crash", js);
    vh::watch(120);
    PreambleDetector det(p, thr);
    d.frame_len = det.frame_len();
    d.rhs = I(d.frame_len);
    int pos = 0;
    for (int fc : frames_per_call) {
        const int len = fc * d.frame_len;
        arr_cmplx fr(len);
        for (int i = 0; i < len; ++i) fr[i] = x[pos + i];
        d.call_start.push_back(pos);
        d.call_len.push_back(len);
        auto r = det.process(fr);
        if (r.has_value()) {
            d.det_call.push_back((int)d.call_start.size() - 1);
            d.res.push_back(*r);
            d.rhs += " 1 " + I(r->offset) + " " + vh::hx(r->score) + " " + vh::hxs(r->preamble);
        } else d.rhs += " 0";
        pos += len;
    }
    vh::unwatch();
    vh::clear_current();
    return d;
}

static std::string det_lhs(const arr_cmplx& p, double thr, const arr_cmplx& x, const std::vector<int>& fpc) {
    return "det " + vh::hx(thr) + " " + vh::hxs(p) + " " + I(fpc.size()) + vh::join_ints(fpc) + " " + vh::hxs(x);
}

static long long g_det_corr = 0;

// one stream, several thresholds.  e < 0: stream without preamble.
static void detector_stream(vh::Rng& r, const arr_cmplx& p, int pkind, const arr_cmplx& x, int e, const std::vector<double>& thrs, int F, int corr_budget,
                            const std::string& bg) {
    const int nh = p.size(), n = x.size();
    const std::vector<ld> M = ref_metric(p, x);
    for (double thr : thrs) {
        // framing: single frames, or calls of 1..3 frames
        std::vector<int> fpc;
        {
            int left = n / F;
            const bool multi = r.range(0, 3) == 0;
            while (left > 0) { const int c = multi ? std::min(left, r.range(1, 3)) : 1; fpc.push_back(c); left -= c; }
        }
        const ld t2 = (ld)thr * thr;
        // hypothesis: the metric crosses thr^2 at the alignment index only (margin 1e-3)
        int ncross = 0, nmargin = 0, first_cross = -1;
        for (int t = 0; t < n; ++t) {
            if (M[t] > t2) { ++ncross; if (first_cross < 0) first_cross = t; }
            if (fabsl(M[t] - t2) <= 1e-3L * t2) ++nmargin;
        }
        const bool in_hyp = nmargin == 0 && (e >= 0 ? (ncross == 1 && first_cross == e) : ncross == 0);
        const std::string js = "{" + jstr("fn", "\"PreambleDetector\"") + jstr("preamble", std::string("\"") + PK[pkind] + "\"") + jstr("nh", I(nh)) +
                               jstr("threshold", vh::jnum(thr)) + jstr("frame_len", I(F)) + jstr("end_index", I(e)) + jstr("end_mod_frame", I(e < 0 ? -1 : e % F)) +
                               jstr("background", "\"" + bg + "\"") + jstr("frames_per_call", vh::jints(fpc)) +
                               (nh <= 32 ? jstr("p", vh::jarr(p)) + jstr("x", vh::jarr(x)) : std::string()) + jstr("stream_len", I(n), true) + "}";
        const DetRun d = run_detector(p, thr, x, fpc, js);
        if (d.frame_len != F) out.fail("C18:detector-framelen", js);
        const bool do_corr = g_det_corr < corr_budget && (nh <= 128 || r.range(0, 3) == 0);
        if (do_corr) { ++g_det_corr; out.corr(det_lhs(p, thr, x, fpc), d.rhs); }
        if (!in_hyp) {
            out.stat(e >= 0 ? "det_outside_hypothesis_with_preamble" : "det_outside_hypothesis_no_preamble");
            if (nh <= 32) out.stat(e >= 0 ? "det_outside_hypothesis_with_preamble_nh_le_32" : "det_outside_hypothesis_no_preamble_nh_le_32");
            // not part of the property: first report vs first crossing of the reference metric (statistics only)
            if (nmargin == 0) {
                int want_call = -1, want_off = -1;
                if (first_cross >= 0)
                    for (size_t c = 0; c < d.call_start.size(); ++c)
                        if (first_cross >= d.call_start[c] && first_cross < d.call_start[c] + d.call_len[c]) { want_call = (int)c; want_off = first_cross - d.call_start[c]; }
                const bool agree = d.det_call.empty() ? want_call < 0 : (d.det_call[0] == want_call && d.res[0].offset == want_off);
                out.stat(agree ? "det_outside_hypothesis_first_crossing_agrees" : "det_outside_hypothesis_first_crossing_DISAGREES");
            }
            continue;
        }
        ++out.n_oracle;
        if (e < 0) {
            out.stat("det_no_preamble_in_hypothesis");
            if (!d.det_call.empty()) out.fail("C18:detector-false", js);
            continue;
        }
        out.stat("det_with_preamble_in_hypothesis");
        out.stat(e % F < nh - 1 ? "det_straddles_frame_boundary" : "det_inside_one_frame");
        int want_call = -1;
        for (size_t c = 0; c < d.call_start.size(); ++c)
            if (e >= d.call_start[c] && e < d.call_start[c] + d.call_len[c]) want_call = (int)c;
        if (d.det_call.empty()) { out.fail("C18:detector-missed", js); continue; }
        if (d.det_call.size() > 1) { out.fail("C18:detector-false", js); continue; }
        const PreambleDetector::Result& res = d.res[0];
        if (d.det_call[0] != want_call || res.offset != e - d.call_start[want_call]) { out.fail("C18:detector-offset", js); continue; }
        bool pre_ok = res.preamble.size() == nh;
        for (int j = 0; pre_ok && j < nh; ++j) pre_ok = same(res.preamble[j], x[e - nh + 1 + j]);
        if (!pre_ok) out.fail("C18:detector-preamble", js);
        if (!(std::fabs(res.score - 1.0) <= 0.05) || !(res.score >= thr)) out.fail("C18:detector-score", js);
        const long long dev = llround(std::fabs(res.score - 1.0) * 1e9);
        if (dev > out.stats["det_max_score_dev_e9"]) out.stats["det_max_score_dev_e9"] = dev;
        out.sample("{" + jstr("nh", I(nh)) + jstr("kind", std::string("\"") + PK[pkind] + "\"") + jstr("thr", vh::jnum(thr)) + jstr("end_mod_frame", I(e % F)) +
                   jstr("offset", I(res.offset)) + jstr("score", vh::jnum(res.score), true) + "}");
    }
}

static int frame_len_of(int nh) {
    int p = 0;
    while ((1L << p) < 2 * nh) ++p;
    return (1 << p) - nh + 1;
}

static void run_detector_all(vh::Rng& r) {
    std::vector<int> all_res_len, some_res_len;
    if (THOROUGH) {
        all_res_len = {16, 17, 24, 31, 32, 33, 48, 63, 64, 65, 100, 127, 128, 129, 199, 255, 256, 257, 400, 511, 512};
        for (int k = 0; k < 6; ++k) some_res_len.push_back(r.range(16, 512));
    } else {
        all_res_len = {16, 31, 64};
        some_res_len = {17, 32, 100, 127, 199, 256, 511, 512};
    }
    const int corr_budget = THOROUGH ? 900 : 260;
    auto one_len = [&](int nh, bool every) {
        const int F = frame_len_of(nh);
        std::vector<int> residues;
        if (every) for (int q = 0; q < F; ++q) residues.push_back(q);
        else {
            std::set<int> s = {0, 1, nh - 3, nh - 2, nh - 1, nh, F - 2, F - 1, F / 2};
            while ((int)s.size() < 9 + (THOROUGH ? 40 : 12)) s.insert(r.range(0, F - 1));
            residues.assign(s.begin(), s.end());
        }
        out.stat(every ? "det_lengths_every_offset" : "det_lengths_sampled_offset");
        for (int q : residues) {
            const int pkind = r.range(0, 3);
            const arr_cmplx p0 = gen_preamble(r, nh, pkind);
            // preamble coefficients may carry any gain: the detector normalises by rms(p)
            const double pg = std::pow(10.0, r.range(-2, 2) * 0.5);
            arr_cmplx p(nh);
            for (int j = 0; j < nh; ++j) p[j] = cmplx_t{p0[j].re * pg, p0[j].im * pg};
            const int K = r.range(3, 4);
            const int n = K * F;
            // frame in which the preamble completes: its last sample has index e = f*F + q, start e-nh+1 >= 0
            int f = r.range(q >= nh - 1 ? 0 : 1, K - 1);
            if (q >= nh - 1 && r.range(0, 5) == 0) f = 0;
            const int e = f * F + q;
            // amplitude of the received preamble: 60 dB range
            const double A = std::pow(10.0, -2.0 + 3.0 * r.unit());
            // a random carrier phase on the received copy
            const double ph = 6.283185307179586 * r.unit();
            const cmplx_t rot{std::cos(ph), std::sin(ph)};
            arr_cmplx x(n);
            for (int i = 0; i < n; ++i) x[i] = cmplx_t{0, 0};
            const int bgm = r.range(0, 3);
            std::string bg;
            const double prms = rms_of(p0);
            if (bgm == 0) bg = "silence";
            else if (bgm == 1) { bg = "additive-noise<=-30dB"; add_noise(r, x, A * prms * std::pow(10.0, -(30 + 30 * r.unit()) / 20)); }
            else if (bgm == 2) { bg = "other-traffic-not-overlapping"; add_noise(r, x, A * prms * std::pow(10.0, -(20 * r.unit()) / 20)); for (int j = 0; j < nh; ++j) x[e - nh + 1 + j] = cmplx_t{0, 0}; }
            else { bg = "noise-floor-not-overlapping"; add_noise(r, x, A * prms * std::pow(10.0, -(20 + 40 * r.unit()) / 20)); for (int j = 0; j < nh; ++j) x[e - nh + 1 + j] = cmplx_t{0, 0}; }
            for (int j = 0; j < nh; ++j) {
                const cmplx_t v = p0[j] * rot;
                x[e - nh + 1 + j].re += A * v.re;
                x[e - nh + 1 + j].im += A * v.im;
            }
            std::vector<double> thrs = {0.3 + 0.6 * r.unit()};
            thrs.push_back((q % 3 == 0) ? 0.3 : ((q % 3 == 1) ? 0.9 : 0.5));
            out.stat(std::string("det_preamble_") + PK[pkind]);
            out.stat("det_background_" + bg);
            detector_stream(r, p, pkind, x, e, thrs, F, corr_budget, bg);
            // a stream WITHOUT the preamble: silence / white noise of some amplitude / the same traffic with the preamble removed
            if (q % 2 == 0) {
                arr_cmplx y(n);
                for (int i = 0; i < n; ++i) y[i] = cmplx_t{0, 0};
                const int nm = r.range(0, 3);
                std::string nb = "silence";
                if (nm == 1) { nb = "white-noise"; add_noise(r, y, A); }
                else if (nm == 2) { nb = "stream-with-preamble-removed"; y = x; for (int j = 0; j < nh; ++j) y[e - nh + 1 + j] = cmplx_t{0, 0}; }
                else if (nm == 3) { nb = "white-noise-bursts"; add_noise(r, y, A); const int a = r.range(0, n - 1), b = r.range(0, n - 1); for (int i = std::min(a, b); i < std::max(a, b); ++i) y[i] = cmplx_t{0, 0}; }
                out.stat("det_absent_" + nb);
                detector_stream(r, p, pkind, y, -1, thrs, F, corr_budget, nb);
            }
        }
    };
    for (int nh : all_res_len) one_len(nh, true);
    for (int nh : some_res_len) one_len(nh, false);
    // frame length must be a multiple of frame_len(): exception (CORR)
    {
        const arr_cmplx p = zadoff_chu_seq(1, 16);
        PreambleDetector det(p, 0.5);
        arr_cmplx x(det.frame_len() + 1);
        for (int i = 0; i < x.size(); ++i) x[i] = cmplx_t{0, 0};
        bool threw = false;
        try { det.process(x); } catch (const std::exception&) { threw = true; }
        ++out.n_oracle;
        if (!threw) out.fail("C18:detector-framelen", "{\"fn\":\"PreambleDetector\",\"case\":\"length not a multiple of frame_len accepted\"}");
    }
}

int main(int argc, char** argv) {
    vh::Args args(argc, argv);
    vh::install_guards();
    THOROUGH = args.thorough;
    vh::Rng r(args.seed * 0x9e3779b97f4a7c15ULL + 18);
    out.max_samples = 8;
    run_delayseq(r);
    run_peakloc(r);
    run_delay_estimators(r);
    run_detector_all(r);
    out.stat("det_corr_cases", g_det_corr);
    out.finish();
    return 0;
}
