// C18 — delay estimators and the preamble detector recover the true offset.
//   delayseq / peakloc / finddelay (lib/utils.cpp, include/dsplib/utils.h), gccphat (lib/gccphat.cpp),
//   PreambleDetector (lib/detector.cpp) on the real library.
//   ORACLE (the property's own clauses, evaluated on the implementation):
//     delayseq : r[i] = x[i-d] for 0 <= i-d < N, else 0 — exactly; |d| >= N gives zeros        (C18:delayseq)
//     peakloc  : (real overload) the vertex of the parabola through (idx-1,x[ml]) (idx,x[mk]) (idx+1,x[mr])
//                (cyclic neighbours), long double, conditioned tolerance                           (C18:peakloc)
//     finddelay: finddelay(x, delayseq(x,d) [+ noise <= -30 dB]) == d, white x, len 128..5000,
//                every |d| <= len/4 for the shortest, sampled for long, real and complex           (C18:finddelay)
//     gccphat  : |gccphat(delayseq(x,d), x, fs).tau * fs - d| <= 0.5, fs 1..48000, single and multi channel (C18:gccphat)
//     detector : one preamble (Zadoff-Chu / chirp / PN, length 16..512) in a stream, every end offset modulo
//                frame_len incl. straddling, amplitude over 60 dB, threshold 0.3..0.9: exactly one detection, in the call
//                where the preamble completes, offset = index of its last sample in that call, returned samples =
//                the aligned stream samples (bit-exact), |score-1| <= 0.05; a stream without the preamble
//                reports nothing                                                                   (C18:detector-*)
//                The hypothesis "single-sample correlation peak" is decided by a long-double brute-force evaluation of
//                the normalised metric  |sum_j conj(p[j]) x[t-nh+1+j]|^2 / (nh^2 rms(p)^2) / (mean_{j<nh}|x[t-j]|^2 + eps):
//                a stream is IN the hypothesis for a threshold thr iff the metric exceeds thr^2 (with 1e-3 margin) at the
//                alignment index only (resp. nowhere, for streams without preamble).  Streams outside the hypothesis
//                are counted (S lines) and still go through CORR.
//     round 2 (classes added after the second round of seeded defects):
//       preamble FAMILIES: besides the constant-envelope ones (Zadoff-Chu, full-band complex chirp, m-sequence BPSK / QPSK) real linear chirps,
//                amplitude-windowed chirps (Hann, Hamming, Tukey, Gauss), ternary PN (an m-sequence gated by a second one), multi-level PN
//                (PAM-4/8, 16/64-QAM chips), amplitude-tapered PN: the matched filter's gain 1/(nh rms(p)) differs from 1/sum|p| and the like
//                only when |p[k]| is not constant; the score is compared with sqrt(reference metric) to 1e-9 besides |score-1| <= 0.05
//       SCALE classes, independently for the reference coefficients (1e-100 .. 1e100, 2^+-300, 2^-7, 2^9) and the stream (1e-5 .. 1e100, 2^-9, 2^40,
//                2^300; 1e-7 .. denorm_min = below the eps() floor: the reference metric decides whether anything may be reported); scales whose
//                square leaves the double range are CORR only; a stream louder than 1e4 with windows of exact silence is counted but not judged
//                (eps() is an absolute regulariser: the rounding noise of the block correlator over pwx + eps() = eps() reaches the threshold)
//       HISTORIES (C18:detector-history-*): rejected calls (length not a multiple of frame_len(): 1, F-1, F+1, 2F+1, nh, 3F-1, 7F+3, > 2^16, filled with
//                noise / a full preamble / the head of a preamble) before the first frame, between the frame where the preamble starts and the one
//                where it completes, between all frames, empty calls, reset() after other material / after a report / in the middle of a preamble /
//                on a fresh detector / twice: the valid frames must give what a fresh detector gives on them (bit-exact; after reset() score to 1e-9)
//       LONG streams (C18:detector-long-*): one preamble after N = 3*2^14, 2^16, .., 2^18 (thorough .. 2^20) samples through ONE detector, its end at EVERY
//                sample position in a window of 1..3 frames on both sides of N, single frames / the history in one call (> 2^16, 2^17 samples) /
//                everything in one call / calls of 1..3 frames / small calls and then a giant one; every returned sample compared bit for bit
//       SOAK (C18:detector-soak-*): a preamble every 2F+1 samples over 2^17 (thorough 2^18, 2^20) samples, every start phase: every (frame index, end offset)
//                pair is visited; one report per copy, in its frame, offset, samples, score (T18.4 "every state, every call"; one copy per frame)
//       estimators: both operands of finddelay / gccphat independently at 1e-100 .. 1e100, 2^+-300 (pairs whose correlation squared leaves the double
//                range are skipped and counted), temporaries as arguments / results bound to const& / range-for, valid calls after a call that threw
//   CORR: the same calls are replayed by the Lean model (`Model/Detect.lean`) through `dspdriver_c18`; tag det2 = scripts of process / rejected process /
//         empty process / reset() on explicit (X) or generated (G: splitmix64 background + inserted samples, evaluated exactly on both sides) streams.
#include "common.hpp"
#include <dsplib/gccphat.h>
#include <dsplib/detector.h>
#include <algorithm>
#include <optional>
#include <set>
using namespace dsplib;
typedef long double ld;
static vh::Out out;
static const ld EPSD = 2.220446049250313e-16L;
static bool THOROUGH = false;

// (`delayseq(arr_cmplx, int)` was ill-formed before /repo commit f2acd20: the template converted `zeros(N)`, an arr_real,
// to base_array<cmplx_t>.  The harness instantiates both overloads, so a regression is a build failure of this file.)
static arr_real dseq(const arr_real& x, int d) { return delayseq(x, d); }
static arr_cmplx dseq(const arr_cmplx& x, int d) { return delayseq(x, d); }

struct CL {
    ld re, im;
};

// ------------------------------------------------------------------ helpers
static std::string jstr(const std::string& k, const std::string& v, bool last = false) { return "\"" + k + "\":" + v + (last ? "" : ","); }
static std::string I(long long v) { return std::to_string(v); }

static arr_real white_r(vh::Rng& r, int n, int kind) {
    arr_real x(n);
    for (int i = 0; i < n; ++i) x[i] = kind == 0 ? r.gauss() : kind == 1 ? r.sym() : (r.coin() ? 1.0 : -1.0);
    return x;
}
static arr_cmplx white_c(vh::Rng& r, int n, int kind) {
    arr_cmplx x(n);
    for (int i = 0; i < n; ++i) {
        if (kind == 0) x[i] = cmplx_t{r.gauss(), r.gauss()};
        else if (kind == 1) x[i] = cmplx_t{r.sym(), r.sym()};
        else x[i] = cmplx_t{r.coin() ? 1.0 : -1.0, r.coin() ? 1.0 : -1.0};
    }
    return x;
}
static double rms_of(const arr_real& x) {
    ld s = 0;
    for (int i = 0; i < x.size(); ++i) s += (ld)x[i] * x[i];
    return x.size() ? (double)sqrtl(s / x.size()) : 0;
}
static double rms_of(const arr_cmplx& x) {
    ld s = 0;
    for (int i = 0; i < x.size(); ++i) s += (ld)x[i].re * x[i].re + (ld)x[i].im * x[i].im;
    return x.size() ? (double)sqrtl(s / x.size()) : 0;
}
static void add_noise(vh::Rng& r, arr_real& x, double sigma) {
    for (int i = 0; i < x.size(); ++i) x[i] += sigma * r.gauss();
}
static void add_noise(vh::Rng& r, arr_cmplx& x, double sigma) {   // total noise power sigma^2
    const double s = sigma * 0.7071067811865476;
    for (int i = 0; i < x.size(); ++i) { x[i].re += s * r.gauss(); x[i].im += s * r.gauss(); }
}
static bool same(real_t a, real_t b) { return a == b; }
static bool same(cmplx_t a, cmplx_t b) { return a.re == b.re && a.im == b.im; }

// ================================================================== A. delayseq
template<class T> static void delayseq_case(const base_array<T>& x, int d, bool corr, const char* tag) {
    const int N = x.size();
    const std::string js = "{" + jstr("fn", "\"delayseq\"") + jstr("type", std::string("\"") + tag + "\"") + jstr("d", I(d)) + jstr("x", vh::jarr(x), true) + "}";
    vh::set_current("C18:delayseq", js);
    base_array<T> y;
    bool threw = false;
    try {
        y = dseq(x, d);
    } catch (const std::exception&) { threw = true; }
    vh::clear_current();
    ++out.n_oracle;
    bool ok = !threw && y.size() == N;
    for (int i = 0; ok && i < N; ++i) {
        const long long s = (long long)i - d;
        const T want = (s >= 0 && s < N) ? x[(int)s] : T(0);
        if (!same(y[i], want)) ok = false;
    }
    if (!ok) out.fail("C18:delayseq", js);
    out.stat(d == 0 ? "ds_zero_shift" : (std::llabs((long long)d) >= N ? "ds_shift_ge_len" : (d > 0 ? "ds_delay" : "ds_advance")));
    if (corr) out.corr(std::string(tag) + " " + I(d) + " " + vh::hxs(x), threw ? std::string("ERR") : vh::hxs(y));
}

static void run_delayseq(vh::Rng& r) {
    // every shift -N-2..N+2 for every N <= 9 (12 thorough); sampled shifts for longer arrays
    const int NEX = THOROUGH ? 12 : 9;
    for (int N = 0; N <= NEX; ++N)
        for (int d = -N - 2; d <= N + 2; ++d) {
            delayseq_case(white_r(r, N, 0), d, true, "dsR");
            delayseq_case(white_c(r, N, 0), d, true, "dsC");
        }
    const int lens[] = {16, 31, 64, 128, 129, 500, 1000, 5000};
    for (int N : lens) {
        std::vector<int> ds = {0, 1, -1, N / 4, -N / 4, N - 1, -(N - 1), N, -N, N + 1, -N - 1, 1000000, -1000000, 2147483647, -2147483647};
        for (int k = 0; k < (THOROUGH ? 40 : 8); ++k) ds.push_back(r.range(-N - 3, N + 3));
        for (int d : ds) {
            const bool corr = N <= 129;
            delayseq_case(white_r(r, N, 1), d, corr, "dsR");
            delayseq_case(white_c(r, N, 1), d, corr && N <= 64, "dsC");
        }
    }
}

// ================================================================== B. peakloc
static void peakloc_real_case(const arr_real& x, int idx, bool cyclic, bool corr) {
    const int n = x.size();
    const std::string js = "{" + jstr("fn", "\"peakloc\"") + jstr("idx", I(idx)) + jstr("cyclic", cyclic ? "true" : "false") + jstr("x", vh::jarr(x), true) + "}";
    vh::set_current("C18:peakloc", js);
    const real_t got = peakloc(x, idx, cyclic);
    vh::clear_current();
    if (corr) out.corr(std::string("plR ") + I(idx) + " " + (cyclic ? "1" : "0") + " " + vh::hxs(x), vh::hx(got));
    if (!cyclic && (idx == 0 || idx == n - 1)) {
        ++out.n_oracle;
        out.stat("pl_edge_noncyclic");
        if (got != (real_t)idx) out.fail("C18:peakloc", js);
        return;
    }
    const ld yl = x[(idx - 1 + n) % n], yk = x[idx], yr = x[(idx + 1) % n];
    const ld curv = yl - 2 * yk + yr;   // 2a
    if (curv == 0) {   // excluded point of T18.2 (a = 0: the three samples are collinear): no vertex; only CORR
        out.stat("pl_collinear_excluded");
        return;
    }
    // vertex of the parabola through (idx-1,yl) (idx,yk) (idx+1,yr), centred form (different arrangement from the code)
    const ld want = (ld)idx + (yl - yr) / (2 * curv);
    ++out.n_oracle;
    const ld mag = fabsl(yl) + fabsl(yk) + fabsl(yr);
    const ld tol = 16 * EPSD * (mag / fabsl(curv)) * (1 + fabsl(want - idx)) + 8 * EPSD * (fabsl(want) + idx + 2);
    out.stat(idx == 0 || idx == n - 1 ? "pl_cyclic_wrap" : "pl_interior");
    out.stat((yk > yl && yk > yr) ? "pl_is_peak" : ((yk < yl && yk < yr) ? "pl_is_valley" : "pl_monotone"));
    if (!(fabsl((ld)got - want) <= tol)) out.fail("C18:peakloc", js);
}

static void peakloc_cmplx_case(const arr_cmplx& x, int idx, bool cyclic, bool corr) {
    const real_t got = peakloc(x, idx, cyclic);
    if (corr) out.corr(std::string("plC ") + I(idx) + " " + (cyclic ? "1" : "0") + " " + vh::hxs(x), vh::hx(got));
    out.stat("pl_complex_overload_corr_only");
}

static void run_peakloc(vh::Rng& r) {
    const int reps = THOROUGH ? 40 : 6;
    const int lens[] = {1, 2, 3, 4, 5, 8, 17, 64, 500};
    for (int n : lens)
        for (int rep = 0; rep < reps; ++rep) {
            const int kind = rep % 6;
            arr_real x(n);
            for (int i = 0; i < n; ++i) x[i] = r.gauss();
            if (kind == 1) for (int i = 0; i < n; ++i) x[i] = std::ldexp(x[i], r.range(-30, 30));   // wide dynamic range
            if (kind == 2) { const double c = r.gauss() * 100; for (int i = 0; i < n; ++i) x[i] = c + 1e-6 * x[i]; }   // nearly flat (ill conditioned)
            if (kind == 3) for (int i = 0; i < n; ++i) x[i] = std::floor(4 * x[i]);   // small integers: collinear triples occur
            if (kind == 4) for (int i = 0; i < n; ++i) x[i] = -std::fabs(x[i]) - (i * 0.01) * (i * 0.01);   // smooth-ish bump
            if (kind == 5) { ld c = r.unit() * n; for (int i = 0; i < n; ++i) x[i] = (double)(3 - 0.7L * (i - c) * (i - c)); }   // exact parabola: vertex = c
            std::vector<int> idxs;
            if (n <= 8) for (int i = 0; i < n; ++i) idxs.push_back(i);
            else { idxs = {0, 1, n - 2, n - 1, argmax(x)}; for (int k = 0; k < 4; ++k) idxs.push_back(r.range(0, n - 1)); }
            for (int idx : idxs)
                for (int cyc = 0; cyc < 2; ++cyc) peakloc_real_case(x, idx, cyc, n <= 64);
            arr_cmplx z = white_c(r, n, 0);
            if (kind == 3) for (int i = 0; i < n; ++i) z[i].im = 0;   // real-valued complex data
            for (int idx : idxs)
                for (int cyc = 0; cyc < 2; ++cyc) peakloc_cmplx_case(z, idx, cyc, n <= 64);
        }
}

// ================================================================== C. finddelay
template<class T> static void finddelay_case(const base_array<T>& x1, const base_array<T>& x2, int d_true, bool oracle, bool corr, const char* tag,
                                             const std::string& what) {
    const std::string js = "{" + jstr("fn", "\"finddelay\"") + jstr("type", std::string("\"") + tag + "\"") + jstr("case", "\"" + what + "\"") +
                           jstr("len", I(x1.size())) + jstr("d", I(d_true)) + jstr("seed_note", "\"regenerate with --seed\"", true) + "}";
    vh::set_current("C18:finddelay", js);
    vh::watch(60);
    int got = 0;
    bool threw = false;
    try {
        got = finddelay(x1, x2);
    } catch (const std::exception&) { threw = true; }
    vh::unwatch();
    vh::clear_current();
    if (oracle) {
        ++out.n_oracle;
        if (threw || got != d_true) {
            std::string w = "{" + jstr("fn", "\"finddelay\"") + jstr("type", std::string("\"") + tag + "\"") + jstr("case", "\"" + what + "\"") + jstr("d", I(d_true)) +
                            jstr("got", threw ? "\"ERR\"" : I(got));
            if (x1.size() <= 160) w += jstr("x1", vh::jarr(x1)) + jstr("x2", vh::jarr(x2));
            w += jstr("len", I(x1.size()), true) + "}";
            out.fail("C18:finddelay", w);
        }
    }
    if (corr) out.corr(std::string(tag) + " " + vh::hxs(x1) + " " + vh::hxs(x2), threw ? "ERR" : I(got));
}

// ================================================================== D. gccphat
static void gcc_case(const arr_real& sig, const arr_real& ref, int fs, int d_true, bool oracle, bool corr, const std::string& what) {
    const std::string js0 = "{" + jstr("fn", "\"gccphat\"") + jstr("case", "\"" + what + "\"") + jstr("len", I(ref.size())) + jstr("fs", I(fs)) + jstr("d", I(d_true), true) + "}";
    vh::set_current("C18:gccphat", js0);
    vh::watch(60);
    bool threw = false;
    gccphat_res_t res;
    try {
        res = gccphat(sig, ref, fs);
    } catch (const std::exception&) { threw = true; }
    vh::unwatch();
    vh::clear_current();
    if (oracle) {
        ++out.n_oracle;
        const ld samples = threw ? 0 : (ld)res.tau * (ld)fs;
        if (threw || !(fabsl(samples - d_true) <= 0.5L) || res.corr.size() != ref.size()) {
            std::string w = "{" + jstr("fn", "\"gccphat\"") + jstr("case", "\"" + what + "\"") + jstr("fs", I(fs)) + jstr("d", I(d_true)) +
                            jstr("tau_times_fs", threw ? "\"ERR\"" : vh::jnum((double)samples));
            if (ref.size() <= 160) w += jstr("sig", vh::jarr(sig)) + jstr("ref", vh::jarr(ref));
            w += jstr("len", I(ref.size()), true) + "}";
            // a NaN result gets its own key (before /repo commit 86d0c65 the PHAT weighting Y / abs(Y) was 0/0 at a cross-spectrum bin that is
            // exactly zero, e.g. the DC bin of a +-1 sequence with zero sum)
            out.fail(!threw && std::isnan(res.tau) ? "C18:gccphat-nan" : "C18:gccphat", w);
        }
        if (!threw) {
            const long long dev = llroundl(fabsl(samples - d_true) * 1e6L);   // micro-samples
            if (dev > out.stats["gcc_max_dev_microsamples"]) out.stats["gcc_max_dev_microsamples"] = dev;
        }
    }
    if (corr) {
        if (threw) out.corr("gcc " + I(fs) + " " + vh::hxs(sig) + " " + vh::hxs(ref), "ERR");
        else out.corr("gcc " + I(fs) + " " + vh::hxs(sig) + " " + vh::hxs(ref), I(argmax(res.corr)) + " " + vh::hx(res.tau * fs));
    }
}

static void gcc_multi_case(vh::Rng& r, const arr_real& ref, int fs, const std::vector<int>& ds, double snr_db, bool corr) {
    std::vector<arr_real> sig;
    const double sg = rms_of(ref) * std::pow(10.0, -snr_db / 20);
    for (int d : ds) {
        arr_real s = delayseq(ref, d);
        if (snr_db < 900) add_noise(r, s, sg);
        sig.push_back(s);
    }
    const std::string js0 = "{" + jstr("fn", "\"gccphat-multi\"") + jstr("len", I(ref.size())) + jstr("fs", I(fs)) + jstr("ds", vh::jints(ds), true) + "}";
    vh::set_current("C18:gccphat", js0);
    vh::watch(60);
    gccphat_res_ch_t res = gccphat(sig, ref, fs);
    vh::unwatch();
    vh::clear_current();
    for (size_t i = 0; i < ds.size(); ++i) {
        ++out.n_oracle;
        const ld samples = (ld)res.tau[i] * (ld)fs;
        if (!(fabsl(samples - ds[i]) <= 0.5L)) out.fail("C18:gccphat", js0);
    }
    out.stat("gcc_multi_channels", ds.size());
    if (corr) {
        std::string lhs = "gccm " + I(fs) + " " + I(ds.size());
        std::string rhs;
        for (size_t i = 0; i < ds.size(); ++i) {
            lhs += " " + vh::hxs(sig[i]);
            rhs += (i ? " " : "") + I(argmax(res.corr[i])) + " " + vh::hx(res.tau[i] * fs);
        }
        out.corr(lhs + " " + vh::hxs(ref), rhs);
    }
}

static std::vector<int> shifts_for(vh::Rng& r, int n, bool every, int nsample) {
    std::vector<int> ds;
    const int q = n / 4;
    if (every) { for (int d = -q; d <= q; ++d) ds.push_back(d); return ds; }
    std::set<int> s = {0, 1, -1, 2, -2, q, -q, q - 1, -(q - 1)};
    while ((int)s.size() < std::min(nsample + 9, 2 * q + 1)) s.insert(r.range(-q, q));   // never more distinct shifts than exist
    return std::vector<int>(s.begin(), s.end());
}

static const int FS_LIST[] = {1, 2, 3, 7, 10, 100, 1000, 8000, 16000, 22050, 44100, 47999, 48000};

static void run_delay_estimators(vh::Rng& r) {
    // lengths: the shortest signals get EVERY shift, long ones sampled shifts
    std::vector<int> every_len, sampled_len;
    if (THOROUGH) {
        for (int n = 128; n <= 160; ++n) every_len.push_back(n);
        for (int n : {192, 255, 256, 257}) every_len.push_back(n);
        for (int n : {161, 200, 300, 383, 384, 500, 511, 512, 513, 640, 777, 1000, 1023, 1024, 1025, 1500, 2000, 2047, 2048, 2049, 2500, 3000, 3571, 4000, 4095, 4096, 4097, 4999, 5000})
            sampled_len.push_back(n);
        for (int k = 0; k < 40; ++k) sampled_len.push_back(r.range(128, 5000));
    } else {
        for (int n : {128, 129, 131}) every_len.push_back(n);
        for (int n : {160, 255, 256, 257, 500, 512, 1000, 1024, 1025, 2048, 4096, 4097, 5000}) sampled_len.push_back(n);
        for (int k = 0; k < 6; ++k) sampled_len.push_back(r.range(128, 5000));
    }
    auto one_len = [&](int n, bool every) {
        const std::vector<int> ds = shifts_for(r, n, every, THOROUGH ? 24 : 8);
        out.stat(every ? "fd_lengths_every_shift" : "fd_lengths_sampled_shift");
        int k = 0;
        for (int d : ds) {
            ++k;
            const int wk = r.range(0, 2);
            // noise: none, or 30..60 dB below the signal, on the delayed copy or on both
            const int nmode = (k % 3);
            const double snr = nmode == 0 ? 1000 : (nmode == 1 ? 30.0 : 30.0 + 30.0 * r.unit());
            const bool corr_ok = n <= 513 && (every ? (k % 16 == 1 || d == n / 4 || d == -(n / 4)) : (k % 4 == 1));
            {   // real
                arr_real x = white_r(r, n, wk);
                arr_real y = delayseq(x, d);
                arr_real x1 = x;
                const double sg = rms_of(x) * std::pow(10.0, -snr / 20);
                if (nmode != 0) add_noise(r, y, sg);
                if (nmode == 2 && r.coin()) add_noise(r, x1, sg);
                const std::string wn = std::string(nmode == 0 ? "noiseless" : "noisy") + (wk == 0 ? "-gauss" : wk == 1 ? "-uniform" : "-binary");
                finddelay_case(x1, y, d, true, corr_ok, "fdR", wn);
                out.stat(nmode == 0 ? "fd_real_noiseless" : "fd_real_noisy");
                const int fs = (k % 2) ? FS_LIST[r.range(0, 12)] : r.range(1, 48000);
                // CORR only for continuous-valued signals: a +-1 sequence can have an exactly-zero DC / Nyquist bin, whose PHAT weight
                // Y/(|Y|+eps) then amplifies the rounding noise of that bin (an ill-conditioned comparison; the oracle still covers it)
                gcc_case(y, x1, fs, d, true, corr_ok && n <= 400 && wk != 2, wn);
                out.stat(nmode == 0 ? "gcc_noiseless" : "gcc_noisy");
            }
            {   // complex
                arr_cmplx x = white_c(r, n, wk);
                arr_cmplx y = dseq(x, d);
                arr_cmplx x1 = x;
                const double sg = rms_of(x) * std::pow(10.0, -snr / 20);
                if (nmode != 0) add_noise(r, y, sg);
                if (nmode == 2 && r.coin()) add_noise(r, x1, sg);
                const std::string wn = std::string(nmode == 0 ? "noiseless" : "noisy") + (wk == 0 ? "-gauss" : wk == 1 ? "-uniform" : "-binary");
                finddelay_case(x1, y, d, true, corr_ok && n <= 260, "fdC", wn);
                out.stat(nmode == 0 ? "fd_cmplx_noiseless" : "fd_cmplx_noisy");
            }
        }
        // multi-channel gccphat
        std::vector<int> mds = {n / 4, -(n / 4)};   // the ends of the shift range every time
        mds.push_back(r.range(-(n / 4), n / 4));
        gcc_multi_case(r, white_r(r, n, 0), FS_LIST[r.range(0, 12)], mds, r.coin() ? 1000 : 30 + 20 * r.unit(), n <= 300);
    };
    for (int n : every_len) one_len(n, true);
    for (int n : sampled_len) one_len(n, false);

    // CORR-only: the lag-unwrapping / padding logic on operands outside the property's quantifier
    // (different lengths, tiny lengths, shift beyond len/4, unrelated signals)
    {
        arr_real a = {1, 2, 3}, b = {0, 0, 1, 2, 3};
        finddelay_case(a, b, 2, true, true, "fdR", "pinned-test");
        arr_real c = {0, 0, 0, 1, 2, 3, 0, 0}, e = {1, 2, 3, 0};
        finddelay_case(c, e, -3, true, true, "fdR", "pinned-test");
    }
    for (int k = 0; k < (THOROUGH ? 120 : 30); ++k) {
        const int n1 = r.range(1, 70), n2 = r.range(1, 70);
        arr_real a = white_r(r, n1, 0), b = white_r(r, n2, 0);
        finddelay_case(a, b, 0, false, true, "fdR", "unrelated");
        arr_cmplx ac = white_c(r, n1, 0), bc = white_c(r, n2, 0);
        finddelay_case(ac, bc, 0, false, true, "fdC", "unrelated");
        out.stat("fd_corr_only_unrelated", 2);
        // embedded copy: b = a shifted inside a longer / shorter frame (all lags up to the unwrap boundary nfft/2)
        const int n = r.range(4, 64), m = r.range(n, 2 * n), s = r.range(0, m - n);
        arr_real p = white_r(r, n, 0), q(m);
        for (int i = 0; i < m; ++i) q[i] = 0;
        for (int i = 0; i < n; ++i) q[s + i] = p[i];
        finddelay_case(p, q, s, false, true, "fdR", "embedded");
        finddelay_case(q, p, -s, false, true, "fdR", "embedded");
        out.stat("fd_corr_only_embedded", 2);
        // gccphat on short unrelated / equal-length signals incl. odd, prime and composite lengths
        const int ng = r.range(3, 90);
        arr_real g1 = white_r(r, ng, 0), g2 = white_r(r, ng, 0);
        gcc_case(g1, g2, r.range(1, 48000), 0, false, true, "unrelated");
        arr_real g3 = delayseq(g2, r.range(-ng + 1, ng - 1));   // any shift, also beyond len/4 and beyond len/2 (unwrap branch)
        gcc_case(g3, g2, r.range(1, 48000), 0, false, true, "any-shift");
        out.stat("gcc_corr_only", 2);
        // multi-channel overload, any shift (both branches of its own unwrapping), CORR only
        {
            std::vector<arr_real> sg;
            const int nch = r.range(1, 3);
            for (int c = 0; c < nch; ++c) sg.push_back(delayseq(g2, r.range(-ng + 1, ng - 1)));
            const int fs = r.range(1, 48000);
            gccphat_res_ch_t res = gccphat(sg, g2, fs);
            std::string lhs = "gccm " + I(fs) + " " + I(nch), rhs;
            for (int c = 0; c < nch; ++c) {
                lhs += " " + vh::hxs(sg[c]);
                rhs += (c ? " " : "") + I(argmax(res.corr[c])) + " " + vh::hx(res.tau[c] * fs);
            }
            out.corr(lhs + " " + vh::hxs(g2), rhs);
            out.stat("gcc_multi_corr_only");
        }
        // finddelay at the unwrap boundary: a short burst p inside a frame q of power-of-two length, every position around nfft/2
        {
            const int lg = r.range(3, 6), nf = 1 << lg, np = r.range(1, 3);
            for (int sft = nf / 2 - 2; sft <= nf / 2 + 2 && sft + np <= nf; ++sft) {
                arr_real pb = white_r(r, np, 0), qf(nf);
                for (int i = 0; i < nf; ++i) qf[i] = 0;
                for (int i = 0; i < np; ++i) qf[sft + i] = pb[i];
                finddelay_case(qf, pb, 0, false, true, "fdR", "unwrap-boundary");
                finddelay_case(pb, qf, 0, false, true, "fdR", "unwrap-boundary");
                out.stat("fd_corr_only_unwrap_boundary", 2);
            }
        }
    }
}

// ================================================================== E. PreambleDetector
static arr_cmplx zadoff_chu_seq(int u, int N) {
    arr_cmplx p(N);
    for (int n = 0; n < N; ++n) {
        const ld ph = -3.14159265358979323846264338327950288L * u * (ld)n * (ld)(n + (N % 2)) / N;
        p[n] = cmplx_t{(double)cosl(ph), (double)sinl(ph)};
    }
    return p;
}
static arr_cmplx chirp_seq(vh::Rng& r, int N) {   // linear FM sweep over a random fraction of the band
    const ld bw = 0.9L + 0.1L * r.unit();
    arr_cmplx p(N);
    for (int n = 0; n < N; ++n) {
        const ld t = (ld)n - (N - 1) / 2.0L;
        const ld ph = 3.14159265358979323846264338327950288L * bw * t * t / N;
        p[n] = cmplx_t{(double)cosl(ph), (double)sinl(ph)};
    }
    return p;
}
static arr_cmplx pn_seq(vh::Rng& r, int N, bool qpsk) {   // LFSR m-sequence when N = 2^k - 1, otherwise a truncated longer one
    // new bit a[n+k] = XOR of a[n+i], i in mask: x^k + sum x^i primitive (x^5+x^2+1, x^6+x+1, x^7+x+1, x^8+x^4+x^3+x^2+1, x^9+x^4+1, x^10+x^3+1)
    static const unsigned taps[] = {0, 0, 0x3, 0x3, 0x3, 0x5, 0x3, 0x3, 0x1D, 0x11, 0x9, 0x5};
    int k = 2;
    while ((1 << k) - 1 < N) ++k;
    auto gen = [&](unsigned seed) {
        std::vector<int> b;
        unsigned s = seed ? seed : 1;
        for (int i = 0; i < N; ++i) {
            b.push_back(s & 1);
            const unsigned fb = __builtin_parity(s & taps[k]);
            s = (s >> 1) | (fb << (k - 1));
        }
        return b;
    };
    const std::vector<int> bi = gen(1 + r.range(0, (1 << k) - 2)), bq = gen(1 + r.range(0, (1 << k) - 2));
    arr_cmplx p(N);
    for (int n = 0; n < N; ++n) p[n] = qpsk ? cmplx_t{(bi[n] ? 1.0 : -1.0) * 0.7071067811865476, (bq[n] ? 1.0 : -1.0) * 0.7071067811865476} : cmplx_t{bi[n] ? 1.0 : -1.0, 0.0};
    return p;
}
static int gcd_i(int a, int b) { return b ? gcd_i(b, a % b) : a; }

static const char* PK[] = {"zadoff-chu", "chirp", "pn-bpsk", "pn-qpsk", "real-chirp", "windowed-chirp", "pn-ternary", "pn-multilevel", "pn-tapered"};
static const int NPK = 9;
static const ld PI_L = 3.14159265358979323846264338327950288L;

// --- families whose envelope is NOT constant (the matched filter's gain 1/(rms(p) nh) differs from 1/sum|p| etc. only there)
static arr_cmplx real_chirp_seq(vh::Rng& r, int N) {   // real-valued linear FM sweep (audio / sonar front end): cos(phi0 + 2 pi (f0 t + (f1-f0) t^2 / (2N)))
    const ld f0 = 0.02L * r.unit(), f1 = 0.25L + 0.2L * r.unit(), ph0 = 2 * PI_L * r.unit();
    arr_cmplx p(N);
    for (int n = 0; n < N; ++n) {
        const ld ph = ph0 + 2 * PI_L * (f0 * n + (f1 - f0) * (ld)n * n / (2.0L * N));
        p[n] = cmplx_t{(double)cosl(ph), 0.0};
    }
    return p;
}
static std::vector<double> taper_of(vh::Rng& r, int N, int wk) {   // amplitude tapers, all strictly positive
    std::vector<double> w(N);
    const double a = 0.25 + 0.5 * r.unit();
    for (int n = 0; n < N; ++n) {
        const double u = (n + 1.0) / (N + 1.0);   // (0, 1)
        double v;
        switch (wk) {
        case 0: v = std::sin(3.141592653589793 * u); v = v * v; break;                                           // Hann
        case 1: v = 0.54 - 0.46 * std::cos(6.283185307179586 * u); break;                                        // Hamming
        case 2: v = u < a / 2 ? 0.5 * (1 - std::cos(6.283185307179586 * u / a)) : (u > 1 - a / 2 ? 0.5 * (1 - std::cos(6.283185307179586 * (1 - u) / a)) : 1.0); break;   // Tukey
        case 3: { const double t = (u - 0.5) / 0.2; v = std::exp(-0.5 * t * t); break; }                        // Gaussian
        case 4: v = 0.25 + 0.75 * u; break;                                                                      // linear ramp up
        default: v = 1.0 - 0.7 * u; break;                                                                       // linear ramp down
        }
        w[n] = v;
    }
    return w;
}
static arr_cmplx windowed_chirp_seq(vh::Rng& r, int N) {
    arr_cmplx p = chirp_seq(r, N);
    const std::vector<double> w = taper_of(r, N, r.range(0, 3));
    for (int n = 0; n < N; ++n) p[n] = cmplx_t{p[n].re * w[n], p[n].im * w[n]};
    return p;
}
static arr_cmplx pn_ternary_seq(vh::Rng& r, int N) {   // {-1, 0, +1}: an m-sequence gated by a second one (about half of the chips are zero)
    for (;;) {
        const arr_cmplx a = pn_seq(r, N, false), b = pn_seq(r, N, false);
        arr_cmplx p(N);
        int nz = 0;
        for (int n = 0; n < N; ++n) { const bool on = b[n].re > 0; p[n] = cmplx_t{on ? a[n].re : 0.0, 0.0}; nz += on; }
        if (4 * nz >= N && nz < N) return p;
    }
}
static arr_cmplx pn_multilevel_seq(vh::Rng& r, int N) {   // PAM-4 / PAM-8 chips on I (and, half of the time, on Q: 16/64-QAM)
    const int bits = r.range(2, 3);
    const bool qam = r.coin();
    std::vector<arr_cmplx> bi, bq;
    for (int b = 0; b < bits; ++b) { bi.push_back(pn_seq(r, N, false)); bq.push_back(pn_seq(r, N, false)); }
    arr_cmplx p(N);
    for (int n = 0; n < N; ++n) {
        int li = 0, lq = 0;
        for (int b = 0; b < bits; ++b) { li = 2 * li + (bi[b][n].re > 0); lq = 2 * lq + (bq[b][n].re > 0); }
        const int M = 1 << bits;
        p[n] = cmplx_t{(double)(2 * li - (M - 1)), qam ? (double)(2 * lq - (M - 1)) : 0.0};
    }
    return p;
}
static arr_cmplx pn_tapered_seq(vh::Rng& r, int N) {
    arr_cmplx p = pn_seq(r, N, r.coin());
    const std::vector<double> w = taper_of(r, N, r.range(1, 5));
    for (int n = 0; n < N; ++n) p[n] = cmplx_t{p[n].re * w[n], p[n].im * w[n]};
    return p;
}
// sum|p| / (nh rms(p)) : 1 for a constant envelope, < 1 otherwise (statistics: how far the family is from constant envelope)
static double envelope_flatness(const arr_cmplx& p) {
    ld s1 = 0, s2 = 0;
    for (int j = 0; j < p.size(); ++j) { const ld a2 = (ld)p[j].re * p[j].re + (ld)p[j].im * p[j].im; s1 += sqrtl(a2); s2 += a2; }
    return (double)(s1 / sqrtl(s2 * p.size()));
}
static arr_cmplx gen_preamble(vh::Rng& r, int N, int kind) {
    switch (kind) {
    case 0: {   // root 1 / N-1 (low aperiodic sidelobes) most of the time, any coprime root otherwise
        int u;
        const int m = r.range(0, 9);
        do { u = m < 4 ? 1 : (m < 7 ? N - 1 : r.range(1, N - 1)); } while (gcd_i(u, N) != 1);
        return zadoff_chu_seq(u, N);
    }
    case 1: return chirp_seq(r, N);
    case 2: return pn_seq(r, N, false);
    case 3: return pn_seq(r, N, true);
    case 4: return real_chirp_seq(r, N);
    case 5: return windowed_chirp_seq(r, N);
    case 6: return pn_ternary_seq(r, N);
    case 7: return pn_multilevel_seq(r, N);
    default: return pn_tapered_seq(r, N);
    }
}

// long-double brute-force normalised metric of the detector at every stream index (PW: mean window power |x|^2 without eps)
static std::vector<ld> ref_metric(const arr_cmplx& p, const cmplx_t* x, int n, std::vector<ld>* PW = nullptr) {
    const int nh = p.size();
    ld e = 0;
    for (int j = 0; j < nh; ++j) e += (ld)p[j].re * p[j].re + (ld)p[j].im * p[j].im;
    const ld rms2 = e / nh;   // rms(p)^2
    std::vector<ld> a2(n), M(n);
    if (PW) PW->assign(n, 0);
    for (int t = 0; t < n; ++t) a2[t] = (ld)x[t].re * x[t].re + (ld)x[t].im * x[t].im;
    for (int t = 0; t < n; ++t) {
        ld cr = 0, ci = 0, pw = 0;
        for (int j = std::max(0, nh - 1 - t); j < nh; ++j) {
            const int s = t - nh + 1 + j;
            const ld xr = x[s].re, xi = x[s].im, pr = p[j].re, pi_ = -(ld)p[j].im;   // conj(p[j]) * x[s]
            cr += pr * xr - pi_ * xi;
            ci += pr * xi + pi_ * xr;
            pw += a2[s];
        }
        M[t] = (cr * cr + ci * ci) / ((ld)nh * nh * rms2) / (pw / nh + EPSD);
        if (PW) (*PW)[t] = pw / nh;
    }
    return M;
}
static std::vector<ld> ref_metric(const arr_cmplx& p, const arr_cmplx& x, std::vector<ld>* PW = nullptr) { return ref_metric(p, x.data(), x.size(), PW); }

static bool bits_same(const cmplx_t& a, const cmplx_t& b) { return std::memcmp(&a.re, &b.re, sizeof(double)) == 0 && std::memcmp(&a.im, &b.im, sizeof(double)) == 0; }

struct DetRun {
    bool threw = false;
    std::vector<int> call_start, call_len;
    std::vector<int> det_call;   // index of every call that reported
    std::vector<PreambleDetector::Result> res;
    int frame_len = 0;
    std::string rhs;
};

static DetRun run_detector(const arr_cmplx& p, double thr, const arr_cmplx& x, const std::vector<int>& frames_per_call, const std::string& js) {
    DetRun d;
    vh::set_current("C18:detector-crash", js);
    vh::watch(120);
    PreambleDetector det(p, thr);
    d.frame_len = det.frame_len();
    d.rhs = I(d.frame_len);
    int pos = 0;
    for (int fc : frames_per_call) {
        const int len = fc * d.frame_len;
        arr_cmplx fr(len);
        for (int i = 0; i < len; ++i) fr[i] = x[pos + i];
        d.call_start.push_back(pos);
        d.call_len.push_back(len);
        auto r = det.process(fr);
        if (r.has_value()) {
            d.det_call.push_back((int)d.call_start.size() - 1);
            d.res.push_back(*r);
            d.rhs += " 1 " + I(r->offset) + " " + vh::hx(r->score) + " " + vh::hxs(r->preamble);
        } else d.rhs += " 0";
        pos += len;
    }
    vh::unwatch();
    vh::clear_current();
    return d;
}

static std::string det_lhs(const arr_cmplx& p, double thr, const arr_cmplx& x, const std::vector<int>& fpc) {
    return "det " + vh::hx(thr) + " " + vh::hxs(p) + " " + I(fpc.size()) + vh::join_ints(fpc) + " " + vh::hxs(x);
}

static long long g_det_corr = 0, g_scale_corr = 0;

// the clauses of the property for ONE preamble whose last sample is stream index e (want = the nh aligned stream samples):
// exactly one report, in the call that contains e, offset = e - start of that call, returned samples bit-identical to the stream,
// score >= threshold, score = sqrt(reference metric) to 1e-9, |score - 1| <= 0.05 (when the window power is above the eps() floor)
static const ld SCORE_REL_TOL = 1e-9L;   // measured on the unchanged library: <= 1e-14
static void judge_single(const std::string& js, int nh, double thr, const cmplx_t* want, int e, ld Me, ld PWe, const std::vector<int>& cstart, const std::vector<int>& clen,
                         const std::vector<int>& det_call, const std::vector<PreambleDetector::Result>& res, const std::string& kp = "C18:detector-") {
    int want_call = -1;
    for (size_t c = 0; c < cstart.size(); ++c)
        if (e >= cstart[c] && e < cstart[c] + clen[c]) want_call = (int)c;
    if (det_call.empty()) { out.fail(kp + "missed", js); return; }
    if (det_call.size() > 1) { out.fail(kp + "false", js); return; }
    const PreambleDetector::Result& rs = res[0];
    if (det_call[0] != want_call || rs.offset != e - cstart[want_call]) { out.fail(kp + "offset", js); return; }
    bool pre_ok = rs.preamble.size() == nh;
    for (int j = 0; pre_ok && j < nh; ++j) pre_ok = bits_same(rs.preamble[j], want[j]);
    if (!pre_ok) out.fail(kp + "preamble", js);
    const ld sref = sqrtl(Me);
    const ld sdev = fabsl((ld)rs.score - sref) / sref;
    bool score_ok = rs.score >= thr && sdev <= SCORE_REL_TOL;
    if (PWe >= 1e3L * EPSD) {
        out.stat("det_score_near_one_clause");
        if (!(std::fabs(rs.score - 1.0) <= 0.05)) score_ok = false;
        const long long dev = llround(std::fabs(rs.score - 1.0) * 1e9);
        if (dev > out.stats["det_max_score_dev_e9"]) out.stats["det_max_score_dev_e9"] = dev;
    } else out.stat("det_score_eps_floor_regime_metric_only");   // mean|x|^2 within 1000 eps(): the regulariser eps() in pwx + eps() pulls the score below 1 (by design)
    if (!score_ok) out.fail(kp + "score", js);
    if (std::isfinite((double)sdev)) {
        const long long d15 = llroundl(sdev * 1e15L);
        if (d15 > out.stats["det_max_score_vs_metric_rel_e15"]) out.stats["det_max_score_vs_metric_rel_e15"] = d15;
    }
}

// one stream, several thresholds.  e < 0: stream without preamble.  corr_only: input class outside the range where |.|^2 is finite / normal in double
static void detector_stream(vh::Rng& r, const arr_cmplx& p, int pkind, const arr_cmplx& x, int e, const std::vector<double>& thrs, int F, long long& corr_counter,
                            int corr_budget, const std::string& bg, bool corr_only = false, const std::string& scale_note = "") {
    const int nh = p.size(), n = x.size();
    std::vector<ld> PW;
    const std::vector<ld> M = ref_metric(p, x, &PW);
    ld gmax2 = 0, minPW = PW.empty() ? 0 : PW[0];
    for (int t = 0; t < n; ++t) { gmax2 = std::max(gmax2, (ld)x[t].re * x[t].re + (ld)x[t].im * x[t].im); minPW = std::min(minPW, PW[t]); }
    for (double thr : thrs) {
        // framing: single frames, or calls of 1..3 frames
        std::vector<int> fpc;
        {
            int left = n / F;
            const bool multi = r.range(0, 3) == 0;
            while (left > 0) { const int c = multi ? std::min(left, r.range(1, 3)) : 1; fpc.push_back(c); left -= c; }
        }
        const ld t2 = (ld)thr * thr;
        // hypothesis: the metric crosses thr^2 at the alignment index only (margin 1e-3)
        int ncross = 0, nmargin = 0, first_cross = -1;
        for (int t = 0; t < n; ++t) {
            if (M[t] > t2) { ++ncross; if (first_cross < 0) first_cross = t; }
            if (fabsl(M[t] - t2) <= 1e-3L * t2) ++nmargin;
        }
        const bool in_hyp = nmargin == 0 && (e >= 0 ? (ncross == 1 && first_cross == e) : ncross == 0);
        // conditioning: the rounding noise of the block FFT correlator (relative 64 eps of the loudest sample) divided by the smallest regularised window power
        // must stay far below the threshold, otherwise the reference metric does not decide what an implementation in double may report
        // (|x| > 1e4 next to windows of exact silence: eps() in pwx + eps() is an ABSOLUTE regulariser)
        const bool ill = gmax2 * (64 * EPSD) * (64 * EPSD) > 1e-3L * t2 * (minPW + EPSD);
        const bool below_floor = e >= 0 && nmargin == 0 && ncross == 0;   // the preamble is there but (eps() floor) the metric never reaches the threshold
        const std::string js = "{" + jstr("fn", "\"PreambleDetector\"") + jstr("preamble", std::string("\"") + PK[pkind] + "\"") + jstr("nh", I(nh)) +
                               jstr("threshold", vh::jnum(thr)) + jstr("frame_len", I(F)) + jstr("end_index", I(e)) + jstr("end_mod_frame", I(e < 0 ? -1 : e % F)) +
                               jstr("background", "\"" + bg + "\"") + (scale_note.empty() ? std::string() : jstr("scale", "\"" + scale_note + "\"")) + jstr("frames_per_call", vh::jints(fpc)) +
                               (nh <= 32 ? jstr("p", vh::jarr(p)) + jstr("x", vh::jarr(x)) : std::string()) + jstr("stream_len", I(n), true) + "}";
        const DetRun d = run_detector(p, thr, x, fpc, js);
        if (d.frame_len != F) out.fail("C18:detector-framelen", js);
        const bool do_corr = !ill && ((corr_only && nh <= 256) || (corr_counter < corr_budget && (nh <= 128 || r.range(0, 3) == 0)));
        if (do_corr) { ++corr_counter; out.corr(det_lhs(p, thr, x, fpc), d.rhs); }
        if (corr_only) { out.stat("det_scale_outside_double_range_corr_only"); continue; }
        if (ill) {   // statistics only
            out.stat("det_illconditioned_loud_stream_with_silent_windows_not_judged");
            const bool as_ref = e >= 0 && in_hyp ? (d.det_call.size() == 1 && d.call_start[d.det_call[0]] + d.res[0].offset == e) : (in_hyp || below_floor ? d.det_call.empty() : true);
            out.stat(as_ref ? "det_illconditioned_report_as_reference_metric" : "det_illconditioned_report_DEVIATES_from_reference_metric");
            continue;
        }
        if (below_floor) {
            ++out.n_oracle;
            out.stat("det_preamble_below_eps_floor_nothing_reported");
            if (!d.det_call.empty()) out.fail("C18:detector-false", js);
            continue;
        }
        if (!in_hyp) {
            out.stat(e >= 0 ? "det_outside_hypothesis_with_preamble" : "det_outside_hypothesis_no_preamble");
            if (nh <= 32) out.stat(e >= 0 ? "det_outside_hypothesis_with_preamble_nh_le_32" : "det_outside_hypothesis_no_preamble_nh_le_32");
            if (e >= 0) out.stat(std::string("det_outside_hypothesis_kind_") + PK[pkind]);
            // not part of the property: first report vs first crossing of the reference metric (statistics only)
            if (nmargin == 0) {
                int want_call = -1, want_off = -1;
                if (first_cross >= 0)
                    for (size_t c = 0; c < d.call_start.size(); ++c)
                        if (first_cross >= d.call_start[c] && first_cross < d.call_start[c] + d.call_len[c]) { want_call = (int)c; want_off = first_cross - d.call_start[c]; }
                const bool agree = d.det_call.empty() ? want_call < 0 : (d.det_call[0] == want_call && d.res[0].offset == want_off);
                out.stat(agree ? "det_outside_hypothesis_first_crossing_agrees" : "det_outside_hypothesis_first_crossing_DISAGREES");
            }
            continue;
        }
        ++out.n_oracle;
        if (e < 0) {
            out.stat("det_no_preamble_in_hypothesis");
            if (!d.det_call.empty()) out.fail("C18:detector-false", js);
            continue;
        }
        out.stat("det_with_preamble_in_hypothesis");
        out.stat(std::string("det_in_hypothesis_kind_") + PK[pkind]);
        out.stat(e % F < nh - 1 ? "det_straddles_frame_boundary" : "det_inside_one_frame");
        judge_single(js, nh, thr, x.data() + (e - nh + 1), e, M[e], PW[e], d.call_start, d.call_len, d.det_call, d.res);
        if (!d.res.empty())
            out.sample("{" + jstr("nh", I(nh)) + jstr("kind", std::string("\"") + PK[pkind] + "\"") + jstr("thr", vh::jnum(thr)) + jstr("end_mod_frame", I(e % F)) +
                       jstr("offset", I(d.res[0].offset)) + jstr("score", vh::jnum(d.res[0].score), true) + "}");
    }
}

static int frame_len_of(int nh) {
    int p = 0;
    while ((1L << p) < 2 * nh) ++p;
    return (1 << p) - nh + 1;
}

// amplitude scale classes (lesson: every numeric input at absolute scales far from 1, independently for the reference and the stream)
struct ScaleClass { double v; const char* name; int regime; };   // regime 0: |v|^2 finite and normal, 1: stream below the eps() floor, 2: |v|^2 over/underflows (CORR only)
static const ScaleClass PG_CLASSES[] = {{1e-100, "1e-100", 0}, {1e-17, "1e-17", 0}, {1e-8, "1e-8", 0}, {1.0, "1", 0}, {1e8, "1e8", 0}, {1e100, "1e100", 0},
                                        {0x1p-300, "2^-300", 0}, {0x1p300, "2^300", 0}, {0x1p-7, "2^-7", 0}, {0x1p9, "2^9", 0},
                                        {1e-160, "1e-160", 2}, {1e-300, "1e-300", 2}, {1e160, "1e160", 2}, {1e300, "1e300", 2}};
static const ScaleClass A_CLASSES[] = {{1e-5, "1e-5", 0}, {1e-3, "1e-3", 0}, {1.0, "1", 0}, {1e8, "1e8", 0}, {1e100, "1e100", 0}, {0x1p-9, "2^-9", 0}, {0x1p40, "2^40", 0}, {0x1p300, "2^300", 0},
                                       {1e-7, "1e-7", 1}, {1e-8, "1e-8", 1}, {1e-17, "1e-17", 1}, {1e-100, "1e-100", 1}, {1e-300, "1e-300", 1}, {4.9406564584124654e-324, "denorm_min", 1},
                                       {1e160, "1e160", 2}, {1e300, "1e300", 2}};

static arr_cmplx scaled(const arr_cmplx& p0, double g) {
    arr_cmplx p(p0.size());
    for (int j = 0; j < p0.size(); ++j) p[j] = cmplx_t{p0[j].re * g, p0[j].im * g};
    return p;
}

// a stream of n samples with the preamble A * rot * p0 ending at index e over one of the four backgrounds
static arr_cmplx build_stream(vh::Rng& r, const arr_cmplx& p0, double A, int n, int e, int bgm, std::string& bg) {
    const int nh = p0.size();
    const double ph = 6.283185307179586 * r.unit();   // a random carrier phase on the received copy
    const cmplx_t rot{std::cos(ph), std::sin(ph)};
    arr_cmplx x(n);
    for (int i = 0; i < n; ++i) x[i] = cmplx_t{0, 0};
    const double prms = rms_of(p0);
    if (bgm == 0) bg = "silence";
    else if (bgm == 1) { bg = "additive-noise<=-30dB"; add_noise(r, x, A * prms * std::pow(10.0, -(30 + 30 * r.unit()) / 20)); }
    else if (bgm == 2) { bg = "other-traffic-not-overlapping"; add_noise(r, x, A * prms * std::pow(10.0, -(20 * r.unit()) / 20)); for (int j = 0; j < nh; ++j) x[e - nh + 1 + j] = cmplx_t{0, 0}; }
    else if (bgm == 3) { bg = "noise-floor-not-overlapping"; add_noise(r, x, A * prms * std::pow(10.0, -(20 + 40 * r.unit()) / 20)); for (int j = 0; j < nh; ++j) x[e - nh + 1 + j] = cmplx_t{0, 0}; }
    else { bg = "negative-zero-silence"; for (int i = 0; i < n; ++i) x[i] = cmplx_t{-0.0, -0.0}; }
    for (int j = 0; j < nh; ++j) {
        const cmplx_t v = p0[j] * rot;
        x[e - nh + 1 + j].re += A * v.re;
        x[e - nh + 1 + j].im += A * v.im;
    }
    return x;
}

static void run_detector_all(vh::Rng& r) {
    std::vector<int> all_res_len, some_res_len;
    if (THOROUGH) {
        all_res_len = {16, 17, 24, 31, 32, 33, 48, 63, 64, 65, 100, 127, 128, 129, 199, 255, 256, 257, 400, 511, 512};
        for (int k = 0; k < 6; ++k) some_res_len.push_back(r.range(16, 512));
    } else {
        all_res_len = {16, 31, 64};
        some_res_len = {17, 32, 100, 127, 199, 256, 511, 512};
    }
    const int corr_budget = THOROUGH ? 900 : 260;
    int iter = 0;
    auto one_len = [&](int nh, bool every) {
        const int F = frame_len_of(nh);
        std::vector<int> residues;
        if (every) for (int q = 0; q < F; ++q) residues.push_back(q);
        else {
            std::set<int> s = {0, 1, nh - 3, nh - 2, nh - 1, nh, F - 2, F - 1, F / 2};
            // (a short preamble has fewer than 9 + 40 frame offsets: never ask for more distinct residues than exist)
            while ((int)s.size() < std::min(9 + (THOROUGH ? 40 : 12), F)) s.insert(r.range(0, F - 1));
            residues.assign(s.begin(), s.end());
        }
        out.stat(every ? "det_lengths_every_offset" : "det_lengths_sampled_offset");
        for (int q : residues) {
            ++iter;
            // all nine families; the non-constant-envelope ones (4..8) at least every second time
            const int pkind = (iter % 2) ? r.range(4, NPK - 1) : r.range(0, NPK - 1);
            const arr_cmplx p0 = gen_preamble(r, nh, pkind);
            out.stats["det_min_envelope_flatness_e3"] = std::min<long long>(out.stats.count("det_min_envelope_flatness_e3") ? out.stats["det_min_envelope_flatness_e3"] : 1000, llround(envelope_flatness(p0) * 1000));
            // preamble coefficients may carry any gain: the detector normalises by rms(p)
            const double pg = std::pow(10.0, r.range(-2, 2) * 0.5);
            const arr_cmplx p = scaled(p0, pg);
            const int K = r.range(3, 4);
            const int n = K * F;
            // frame in which the preamble completes: its last sample has index e = f*F + q, start e-nh+1 >= 0
            int f = r.range(q >= nh - 1 ? 0 : 1, K - 1);
            if (q >= nh - 1 && r.range(0, 5) == 0) f = 0;
            const int e = f * F + q;
            // amplitude of the received preamble: 60 dB range
            const double A = std::pow(10.0, -2.0 + 3.0 * r.unit());
            std::string bg;
            const arr_cmplx x = build_stream(r, p0, A, n, e, r.range(0, 3), bg);
            std::vector<double> thrs = {0.3 + 0.6 * r.unit()};
            // the documented ends of the threshold range, exactly and one ulp inside
            switch (q % 5) {
            case 0: thrs.push_back(0.3); break;
            case 1: thrs.push_back(0.9); break;
            case 2: thrs.push_back(0.5); break;
            case 3: thrs.push_back(std::nextafter(0.3, 1.0)); break;
            default: thrs.push_back(std::nextafter(0.9, 0.0)); break;
            }
            out.stat(std::string("det_preamble_") + PK[pkind]);
            out.stat("det_background_" + bg);
            detector_stream(r, p, pkind, x, e, thrs, F, g_det_corr, corr_budget, bg);
            // a stream WITHOUT the preamble: silence / white noise of some amplitude / the same traffic with the preamble removed
            if (q % 2 == 0) {
                arr_cmplx y(n);
                for (int i = 0; i < n; ++i) y[i] = cmplx_t{0, 0};
                const int nm = r.range(0, 3);
                std::string nb = "silence";
                if (nm == 1) { nb = "white-noise"; add_noise(r, y, A); }
                else if (nm == 2) { nb = "stream-with-preamble-removed"; y = x; for (int j = 0; j < nh; ++j) y[e - nh + 1 + j] = cmplx_t{0, 0}; }
                else if (nm == 3) { nb = "white-noise-bursts"; add_noise(r, y, A); const int a = r.range(0, n - 1), b = r.range(0, n - 1); for (int i = std::min(a, b); i < std::max(a, b); ++i) y[i] = cmplx_t{0, 0}; }
                out.stat("det_absent_" + nb);
                detector_stream(r, p, pkind, y, -1, thrs, F, g_det_corr, corr_budget, nb);
            }
            // amplitude SCALE CLASSES, independently for the reference coefficients and for the stream
            if (q % 4 == 1 || (THOROUGH && q % 2 == 1)) {
                const bool extreme = r.range(0, 5) == 0;
                ScaleClass cp = PG_CLASSES[r.range(0, 9)], ca = A_CLASSES[r.range(0, 13)];
                if (extreme) { if (r.coin()) cp = PG_CLASSES[r.range(10, 13)]; else ca = A_CLASSES[r.range(14, 15)]; }
                const arr_cmplx ps = scaled(p0, cp.v);
                std::string sbg;
                const int sb = r.range(0, 5);
                const arr_cmplx xs = build_stream(r, p0, ca.v, n, e, sb >= 4 ? 4 : sb, sbg);
                const std::string note = std::string("coefficients*") + cp.name + " stream*" + ca.name;
                out.stat(std::string("det_scale_coeff_") + cp.name);
                out.stat(std::string("det_scale_stream_") + ca.name);
                const std::vector<double> st = {thrs[0], 0.5};
                detector_stream(r, ps, pkind, xs, e, st, F, g_scale_corr, THOROUGH ? 500 : 160, sbg, cp.regime == 2 || ca.regime == 2, note);
            }
        }
    };
    for (int nh : all_res_len) one_len(nh, true);
    for (int nh : some_res_len) one_len(nh, false);
    // frame length must be a multiple of frame_len(): exception (CORR)
    {
        const arr_cmplx p = zadoff_chu_seq(1, 16);
        PreambleDetector det(p, 0.5);
        arr_cmplx x(det.frame_len() + 1);
        for (int i = 0; i < x.size(); ++i) x[i] = cmplx_t{0, 0};
        bool threw = false;
        try { det.process(x); } catch (const std::exception&) { threw = true; }
        ++out.n_oracle;
        if (!threw) out.fail("C18:detector-framelen", "{\"fn\":\"PreambleDetector\",\"case\":\"length not a multiple of frame_len accepted\"}");
    }
}

// ================================================================== F. detector call HISTORIES: scripts of process / rejected process / empty process / reset
// (CORR tag det2; the stream is either explicit (X) or described by a generator both sides evaluate exactly (G))
struct BgSpec {
    int kind = 0;        // 0: +0 silence, 1: uniform noise in [-2^k, 2^k) per component, 2: -0 silence
    uint64_t seed = 0;
    int k = 0;
};
static inline uint64_t mix64(uint64_t z) {
    z = (z ^ (z >> 30)) * 0xbf58476d1ce4e5b9ULL;
    z = (z ^ (z >> 27)) * 0x94d049bb133111ebULL;
    return z ^ (z >> 31);
}
static inline double bg_val(const BgSpec& b, uint64_t idx) {   // exact in double: (53-bit integer - 2^52) * 2^(k-52)
    if (b.kind == 0) return 0.0;
    if (b.kind == 2) return -0.0;
    const uint64_t z = mix64(b.seed + (idx + 1) * 0x9e3779b97f4a7c15ULL);
    return std::ldexp((double)(z >> 11) - 4503599627370496.0, b.k - 52);
}
static void fill_bg(const BgSpec& b, std::vector<cmplx_t>& x, long n) {
    x.resize(n);
    for (long i = 0; i < n; ++i) x[i] = cmplx_t{bg_val(b, 2 * (uint64_t)i), bg_val(b, 2 * (uint64_t)i + 1)};
}
static std::string bg_json(const BgSpec& b) {
    return "{" + jstr("kind", b.kind == 0 ? "\"silence\"" : b.kind == 2 ? "\"negative-zero-silence\"" : "\"uniform-noise\"") + jstr("seed", "\"" + std::to_string(b.seed) + "\"") + jstr("log2_amplitude", I(b.k), true) + "}";
}
static std::string rle_ops(const std::vector<int>& ops) {   // "nrun (cnt L)*"
    std::string s;
    long nrun = 0;
    for (size_t i = 0; i < ops.size();) {
        size_t j = i;
        while (j < ops.size() && ops[j] == ops[i]) ++j;
        s += " " + I((long long)(j - i)) + " " + I(ops[i]);
        ++nrun;
        i = j;
    }
    return I(nrun) + s;
}
struct Insertion { long e; arr_cmplx v; };   // final values of the nh samples ending at e
static std::string det2_lhs_X(const arr_cmplx& p, double thr, const cmplx_t* x, long n, const std::vector<int>& ops) {
    return "det2 " + vh::hx(thr) + " " + vh::hxs(p) + " X " + vh::hxs(arr_cmplx(x, (size_t)n)) + " " + rle_ops(ops);
}
static std::string det2_lhs_G(const arr_cmplx& p, double thr, const BgSpec& b, long n, const std::vector<Insertion>& ins, const std::vector<int>& ops) {
    std::string s = "det2 " + vh::hx(thr) + " " + vh::hxs(p) + " G " + I(b.kind) + " " + std::to_string(b.seed) + " " + I(b.k) + " " + I(n) + " " + I((long long)ins.size());
    for (const Insertion& in : ins) s += " " + I(in.e) + " " + vh::hxs(in.v);
    return s + " " + rle_ops(ops);
}

struct ScriptRun {
    int frame_len = 0;
    std::vector<int> cstart, clen, cop;          // valid process calls since the last reset: start in the effective stream, length, op index
    std::vector<int> det_call;                   // live detections: index into cstart
    std::vector<PreambleDetector::Result> res;
    std::vector<cmplx_t> eff;                    // the effective stream (samples of the valid calls since the last reset), when asked for
    long long n_err = 0, n_reset = 0, n_det_total = 0, n_calls = 0;
    std::string rhs;
};
// ops: L > 0 process the next L samples of x (a length that is not a multiple of frame_len() must throw and leave no trace), 0: process an empty array, -1: reset()
static ScriptRun run_script(const arr_cmplx& p, double thr, const cmplx_t* x, long n, const std::vector<int>& ops, const std::string& js, bool want_rhs, bool keep_eff,
                            bool via_operator = false) {
    ScriptRun d;
    vh::set_current("C18:detector-crash", js);
    vh::watch(600);
    PreambleDetector det(p, thr);
    d.frame_len = det.frame_len();
    if (want_rhs) d.rhs = I(d.frame_len);
    long pos = 0, effpos = 0;
    for (size_t k = 0; k < ops.size(); ++k) {
        const int L = ops[k];
        if (L < 0) {
            det.reset();
            ++d.n_reset;
            d.cstart.clear(); d.clen.clear(); d.cop.clear(); d.det_call.clear(); d.res.clear(); d.eff.clear();
            effpos = 0;
            continue;
        }
        if (pos + L > n) { out.fail("C18:harness-internal", js); break; }
        const arr_cmplx fr(x + pos, (size_t)L);
        pos += L;
        std::optional<PreambleDetector::Result> rr;
        bool threw = false;
        try {
            rr = via_operator ? det(fr) : det.process(fr);
        } catch (const std::exception&) { threw = true; }
        ++d.n_calls;
        const bool must_throw = (L % d.frame_len) != 0;
        if (threw != must_throw) out.fail("C18:detector-framelen", js);
        if (threw) {
            ++d.n_err;
            if (want_rhs) d.rhs += " " + I((long long)k) + " ERR";
            continue;
        }
        d.cstart.push_back((int)effpos);
        d.clen.push_back(L);
        d.cop.push_back((int)k);
        if (keep_eff) d.eff.insert(d.eff.end(), x + pos - L, x + pos);
        effpos += L;
        if (rr.has_value()) {
            ++d.n_det_total;
            d.det_call.push_back((int)d.cstart.size() - 1);
            d.res.push_back(*rr);
            if (want_rhs) d.rhs += " " + I((long long)k) + " D " + I(rr->offset) + " " + vh::hx(rr->score) + " " + vh::hxs(rr->preamble);
        }
    }
    if (want_rhs) d.rhs += " END " + I((long long)ops.size());
    vh::unwatch();
    vh::clear_current();
    return d;
}

// max over every misaligned position of the noiseless normalised metric of p against itself on silence (scale free); aligned value is 1
static ld sidelobe_of(const arr_cmplx& p) {
    const int nh = p.size();
    std::vector<cmplx_t> x(3 * nh, cmplx_t{0, 0});
    for (int j = 0; j < nh; ++j) x[nh + j] = p[j];
    const std::vector<ld> M = ref_metric(scaled(p, 1.0), x.data(), 3 * nh);
    ld s = 0;
    for (int t = 0; t < 3 * nh; ++t)
        if (t != 2 * nh - 1) s = std::max(s, M[t]);
    return s;
}
// a preamble of the family with a threshold in [0.3, 0.9] above its own partial-overlap sidelobes (the property's "single-sample autocorrelation peak")
static arr_cmplx preamble_with_threshold(vh::Rng& r, int nh, int& pkind, double& thr) {
    for (int tries = 0;; ++tries) {
        arr_cmplx p0 = gen_preamble(r, nh, pkind);
        const double lo = std::max(0.3, 1.08 * (double)sqrtl(sidelobe_of(p0)) + 0.01);
        if (lo < 0.88) { thr = lo + (0.9 - lo) * r.unit() * r.unit(); return p0; }
        if (tries % 4 == 3) pkind = r.range(0, NPK - 1);
        out.stat("det_history_preamble_regenerated_sidelobes_too_high");
    }
}

static void script_cases(vh::Rng& r) {
    const std::vector<int> lens = THOROUGH ? std::vector<int>{16, 17, 31, 32, 33, 63, 64, 100, 127, 128, 255, 256, 511, 512} : std::vector<int>{16, 31, 64, 100, 256};
    const int reps = THOROUGH ? 6 : 2;
    for (int nh : lens)
        for (int rep = 0; rep < reps; ++rep) {
            const int F = frame_len_of(nh);
            int pkind = r.range(0, NPK - 1);
            double thr;
            const arr_cmplx p0 = preamble_with_threshold(r, nh, pkind, thr);
            const arr_cmplx p = scaled(p0, std::pow(10.0, r.range(-2, 2) * 0.5));
            const int K = 3;
            // the base stream B: the preamble straddles a frame boundary two times out of three
            const int q = (rep % 3 == 2) ? r.range(nh - 1, F - 1) : r.range(0, nh - 2);
            const int f = r.range(1, K - 1);
            const int e = f * F + q;
            const double A = std::pow(10.0, -2.0 + 3.0 * r.unit());
            std::string bg;
            const arr_cmplx B = build_stream(r, p0, A, K * F, e, r.coin() ? 0 : 1, bg);
            std::vector<ld> PW;
            const std::vector<ld> M = ref_metric(p, B, &PW);
            const ld t2 = (ld)thr * thr;
            bool in_hyp = M[e] > t2 * (1 + 1e-3L);
            for (int t = 0; t < K * F; ++t)
                if (t != e && M[t] >= t2 * (1 - 1e-3L)) in_hyp = false;
            if (!in_hyp) { out.stat("det_history_base_stream_outside_hypothesis"); continue; }
            // reference run: a fresh detector on B, single frames
            const std::vector<int> base_ops(K, F);
            const std::string jb = "{" + jstr("fn", "\"PreambleDetector\"") + jstr("case", "\"history-base\"") + jstr("preamble", std::string("\"") + PK[pkind] + "\"") + jstr("nh", I(nh)) +
                                   jstr("threshold", vh::jnum(thr)) + jstr("end_index", I(e), true) + "}";
            const ScriptRun twin = run_script(p, thr, B.data(), B.size(), base_ops, jb, false, false);
            // junk material: noise at the stream's level, a full copy of the preamble, the head of the preamble
            auto junk = [&](int L, int kind) {
                std::vector<cmplx_t> j(L, cmplx_t{0, 0});
                if (kind >= 1) for (int i = 0; i < L; ++i) j[i] = cmplx_t{A * 0.01 * r.gauss(), A * 0.01 * r.gauss()};
                if (kind == 2 && L >= nh) { const int s = r.range(0, L - nh); for (int i = 0; i < nh; ++i) j[s + i] = cmplx_t{A * p0[i].re, A * p0[i].im}; }
                if (kind == 3) { const int h = std::min(L, std::max(1, nh / 2)); for (int i = 0; i < h; ++i) j[L - h + i] = cmplx_t{A * p0[i].re, A * p0[i].im}; }   // ends with the head of a preamble
                return j;
            };
            const std::vector<int> bad = {1, F - 1, F + 1, 2 * F + 1, nh, 3 * F - 1, 7 * F + 3, (1 << 16) + ((1 << 16) % F == 0 ? 1 : 0)};
            struct Scn { std::string name; std::vector<cmplx_t> x; std::vector<int> ops; bool has_reset; bool via_op; };
            std::vector<Scn> scns;
            auto app = [](std::vector<cmplx_t>& x, const std::vector<cmplx_t>& y) { x.insert(x.end(), y.begin(), y.end()); };
            auto appB = [&](std::vector<cmplx_t>& x, int from_frame, int to_frame) { x.insert(x.end(), B.data() + from_frame * F, B.data() + to_frame * F); };
            {   // a rejected call before the first frame
                Scn s{"reject-first", {}, {}, false, false};
                const int L = bad[r.range(0, 6)];
                app(s.x, junk(L, r.range(1, 2)));
                s.ops.push_back(L);
                appB(s.x, 0, K);
                for (int k = 0; k < K; ++k) s.ops.push_back(F);
                scns.push_back(s);
            }
            {   // a rejected call between the frame where the preamble starts and the frame where it completes
                Scn s{"reject-before-completion-frame", {}, {}, false, true};
                appB(s.x, 0, f);
                for (int k = 0; k < f; ++k) s.ops.push_back(F);
                const int L = bad[r.range(0, 6)];
                app(s.x, junk(L, r.range(1, 3)));
                s.ops.push_back(L);
                appB(s.x, f, K);
                for (int k = f; k < K; ++k) s.ops.push_back(F);
                scns.push_back(s);
            }
            {   // rejected and empty calls everywhere
                Scn s{"rejects-and-empty-calls-between-all-frames", {}, {}, false, false};
                for (int k = 0; k < K; ++k) {
                    const int nb = r.range(1, 3);
                    for (int b = 0; b < nb; ++b) {
                        if (r.range(0, 2) == 0) { s.ops.push_back(0); continue; }
                        const int L = bad[r.range(0, 6)];
                        app(s.x, junk(L, r.range(0, 3)));
                        s.ops.push_back(L);
                    }
                    appB(s.x, k, k + 1);
                    s.ops.push_back(F);
                }
                s.ops.push_back(0);
                scns.push_back(s);
            }
            if (rep == 0 && (nh == 16 || THOROUGH)) {   // a rejected call of more than 2^16 samples
                Scn s{"reject-huge", {}, {}, false, false};
                appB(s.x, 0, f);
                for (int k = 0; k < f; ++k) s.ops.push_back(F);
                const int L = bad[7];
                app(s.x, junk(L, 2));
                s.ops.push_back(L);
                appB(s.x, f, K);
                for (int k = f; k < K; ++k) s.ops.push_back(F);
                scns.push_back(s);
            }
            {   // other material, reset(), then the stream
                Scn s{"reset-after-junk", {}, {}, true, false};
                const int kj = r.range(1, 4);
                app(s.x, junk(kj * F, r.range(1, 3)));
                for (int k = 0; k < kj; ++k) s.ops.push_back(F);
                s.ops.push_back(-1);
                appB(s.x, 0, K);
                for (int k = 0; k < K; ++k) s.ops.push_back(F);
                scns.push_back(s);
            }
            {   // the stream itself up to and including its detection, reset(), the stream again (reuse after a report)
                Scn s{"reset-after-detection-and-reuse", {}, {}, true, true};
                appB(s.x, 0, f + 1);
                for (int k = 0; k <= f; ++k) s.ops.push_back(F);
                s.ops.push_back(-1);
                appB(s.x, 0, K);
                for (int k = 0; k < K; ++k) s.ops.push_back(F);
                scns.push_back(s);
            }
            if (q < nh - 1) {   // the frame with the head of the preamble, reset(), then the stream (the half-received preamble must be forgotten)
                Scn s{"reset-in-the-middle-of-a-preamble", {}, {}, true, false};
                appB(s.x, 0, f);
                for (int k = 0; k < f; ++k) s.ops.push_back(F);
                s.ops.push_back(-1);
                appB(s.x, 0, K);
                for (int k = 0; k < K; ++k) s.ops.push_back(F);
                scns.push_back(s);
            }
            {   // reset() of a fresh detector, double reset, rejected calls around the reset
                Scn s{"fresh-reset-rejects-double-reset", {}, {}, true, false};
                s.ops.push_back(-1);
                int L = bad[r.range(0, 6)];
                app(s.x, junk(L, 2));
                s.ops.push_back(L);
                app(s.x, junk(2 * F, 3));
                s.ops.push_back(2 * F);
                s.ops.push_back(-1);
                s.ops.push_back(-1);
                L = bad[r.range(0, 6)];
                app(s.x, junk(L, 1));
                s.ops.push_back(L);
                appB(s.x, 0, K);
                for (int k = 0; k < K; ++k) s.ops.push_back(F);
                scns.push_back(s);
            }
            for (const Scn& s : scns) {
                const std::string js = "{" + jstr("fn", "\"PreambleDetector\"") + jstr("case", "\"history:" + s.name + "\"") + jstr("preamble", std::string("\"") + PK[pkind] + "\"") + jstr("nh", I(nh)) +
                                       jstr("threshold", vh::jnum(thr)) + jstr("frame_len", I(F)) + jstr("end_index_in_stream", I(e)) + jstr("background", "\"" + bg + "\"") +
                                       jstr("ops_runlength", "\"" + rle_ops(s.ops) + "\"") + (nh <= 32 && s.x.size() < 400 ? jstr("p", vh::jarr(p)) + jstr("x", vh::jarr(arr_cmplx(s.x.data(), s.x.size()))) : std::string()) +
                                       jstr("ops_note", "\"L>0: process the next L samples, 0: empty call, -1: reset()\"", true) + "}";
                const bool corr = s.x.size() < 5000 || s.name == "reject-huge";
                const ScriptRun d = run_script(p, thr, s.x.data(), s.x.size(), s.ops, js, corr, true, s.via_op);
                if (corr) out.corr(det2_lhs_X(p, thr, s.x.data(), s.x.size(), s.ops), d.rhs);
                out.stat("det_history_" + s.name);
                out.stat("det_history_rejected_calls", d.n_err);
                out.stat("det_history_resets", d.n_reset);
                ++out.n_oracle;
                // the effective stream must be B
                bool eff_ok = (int)d.eff.size() == B.size();
                for (int i = 0; eff_ok && i < B.size(); ++i) eff_ok = bits_same(d.eff[i], B[i]);
                if (!eff_ok) { out.fail("C18:harness-internal", js); continue; }
                judge_single(js, nh, thr, B.data() + (e - nh + 1), e, M[e], PW[e], d.cstart, d.clen, d.det_call, d.res, "C18:detector-history-");
                // differential twin: a fresh detector that saw only the valid frames (bit-exact; after reset() the score to 1e-9)
                bool same_as_twin = d.res.size() == twin.res.size() && d.det_call.size() == twin.det_call.size();
                for (size_t i = 0; same_as_twin && i < d.det_call.size(); ++i) same_as_twin = d.cstart[d.det_call[i]] == twin.cstart[twin.det_call[i]];
                for (size_t i = 0; same_as_twin && i < d.res.size(); ++i) {
                    same_as_twin = d.res[i].offset == twin.res[i].offset && d.res[i].preamble.size() == twin.res[i].preamble.size();
                    for (int j = 0; same_as_twin && j < d.res[i].preamble.size(); ++j) same_as_twin = bits_same(d.res[i].preamble[j], twin.res[i].preamble[j]);
                    if (same_as_twin) same_as_twin = s.has_reset ? std::fabs(d.res[i].score - twin.res[i].score) <= 1e-9 * twin.res[i].score : d.res[i].score == twin.res[i].score;
                }
                if (!same_as_twin) out.fail(s.has_reset ? "C18:detector-history-reset-differs-from-fresh" : "C18:detector-history-failed-call-left-a-trace", js);
            }
        }
}

// ================================================================== G. LONG streams through one detector
// one preamble after about N samples of history, the preamble end at EVERY sample position in a window of W frames on both sides of N
// (N = 2^16, 2^17, 2^18, 3*2^14, ...: any internal buffer / counter boundary at or near N is crossed with every alignment of the preamble),
// checking offset, score and every returned sample.  Framing modes: single frames; the history in ONE call (> 2^16 / 2^17 samples);
// everything in one call; calls of 1..3 frames; small calls first and then a giant call that contains the preamble.
static long long g_long_corr = 0;
static void long_sweep(vh::Rng& r, int nh, int pkind_in, long N, int W, int bgmode, int stride, int extra_mode_every, int corr_cases) {
    const int F = frame_len_of(nh);
    int pkind = pkind_in;
    double thr;
    const arr_cmplx p0 = preamble_with_threshold(r, nh, pkind, thr);
    static const double gains[] = {1.0, 0.1, 10.0, 0x1p-20, 1e8};
    const arr_cmplx p = scaled(p0, gains[r.range(0, 4)]);
    static const double amps[] = {1.0, 0.03125, 32.0, 0.0173, 7.3, 1e3, 1e-3, 1e8, 0x1p40};   // the last two only over a noise background (conditioning, see detector_stream)
    const double A = amps[r.range(0, bgmode == 3 ? 8 : 6)];
    const double prms = rms_of(p0);
    BgSpec b;
    b.seed = r.next();
    const int lg = (int)std::floor(std::log2(A * prms));
    switch (bgmode) {
    case 0: b.kind = 0; break;
    case 1: b.kind = 2; break;
    case 2: b.kind = 1; b.k = -1030 - r.range(0, 30); break;     // a floor of denormals: |x|^2 = 0 exactly but every history sample is distinct
    case 3: b.kind = 1; b.k = lg - 6 - r.range(0, 3); break;     // uniform noise 38..56 dB below the preamble (needs a long preamble / high threshold: decided below)
    default: b.kind = 1; b.k = -1040; break;                     // denormal floor
    }
    const long e_lo = N - (long)W * F, e_hi = N + (long)W * F + nh;
    const long n_max = (e_hi / F + 2) * F;
    if (bgmode == 3) {   // white noise of n_max samples stays below thr^2 with probability > 0.999 when exp(-thr^2 nh) n_max < 1e-3
        const double need = std::sqrt(std::log(n_max * 1e3) / nh) + 0.02;
        if (need > 0.88) { b.kind = 1; b.k = -1035; out.stat("det_long_noise_background_replaced_preamble_too_short"); }
        else if (thr < need) thr = need + (0.9 - need) * r.unit();
    }
    std::vector<cmplx_t> x;
    fill_bg(b, x, n_max);
    // the background alone must stay below the threshold everywhere
    ld max_bg = 0;
    if (b.kind == 1) {
        const std::vector<ld> Mb = ref_metric(p, x.data(), (int)n_max);
        for (ld v : Mb) max_bg = std::max(max_bg, v);
    }
    const ld t2 = (ld)thr * thr;
    const std::string tagN = "N" + I(N);
    if (!(max_bg < t2 * (1 - 1e-3L))) { out.stat("det_long_sweep_background_crosses_threshold_skipped"); return; }
    out.stat("det_long_sweeps");
    out.stat("det_long_sweeps_" + tagN);
    out.stat(std::string("det_long_kind_") + PK[pkind]);
    const double ph = 6.283185307179586 * r.unit();
    const cmplx_t rot{std::cos(ph), std::sin(ph)};
    int count = 0, sweep_corr = 0;
    for (long e = e_lo; e <= e_hi; e += stride) {
        ++count;
        const long s0 = e - nh + 1;
        const long n_e = (e / F + 2) * F;
        // insert (additively), remember the background to restore it afterwards
        std::vector<cmplx_t> saved(x.begin() + s0, x.begin() + s0 + nh);
        Insertion ins{e, arr_cmplx(nh)};
        for (int j = 0; j < nh; ++j) {
            const cmplx_t v = p0[j] * rot;
            x[s0 + j].re += A * v.re;
            x[s0 + j].im += A * v.im;
            ins.v[j] = x[s0 + j];
        }
        // hypothesis near the preamble: every window that overlaps it
        const long c0 = s0 - (nh - 1), c1 = std::min(n_e - 1, e + nh - 1);
        std::vector<ld> PWl;
        const std::vector<ld> Ml = ref_metric(p, x.data() + c0, (int)(c1 - c0 + 1), &PWl);
        bool in_hyp = Ml[e - c0] > t2 * (1 + 1e-3L);
        for (long t = s0; t <= c1; ++t)
            if (t != e && Ml[t - c0] >= t2 * (1 - 1e-3L)) in_hyp = false;
        std::vector<int> modes = {0};
        if (extra_mode_every > 0 && count % extra_mode_every == 0) modes.push_back(1 + (count / extra_mode_every) % 5);
        for (int mode : modes) {
            std::vector<int> ops;
            const long nfr = n_e / F, fe = e / F, fs = s0 / F;
            if (mode == 0) ops.assign(nfr, F);
            else if (mode == 1) { ops.push_back((int)((fs - 1) * F)); for (long k = fs - 1; k < nfr; ++k) ops.push_back(F); }                 // the whole history in ONE call, then single frames
            else if (mode == 2) ops.push_back((int)n_e);                                                                               // everything in one call: offset = e
            else if (mode == 3) { long left = nfr; while (left > 0) { const int c = (int)std::min<long>(left, r.range(1, 3)); ops.push_back(c * F); left -= c; } }
            else if (mode == 4) { const long h = fe / 2; for (long k = 0; k < h; ++k) ops.push_back(F); ops.push_back((int)((nfr - h) * F)); }   // small calls, then a giant call with the preamble inside
            else { for (int k = 0; k < 3; ++k) ops.push_back(F); ops.push_back((int)((fs - 4) * F)); for (long k = fs - 1; k < nfr; ++k) ops.push_back(F); }   // small, then a giant history call, then single frames
            const std::string js = "{" + jstr("fn", "\"PreambleDetector\"") + jstr("case", "\"long-stream\"") + jstr("preamble", std::string("\"") + PK[pkind] + "\"") + jstr("nh", I(nh)) +
                                   jstr("threshold", vh::jnum(thr)) + jstr("frame_len", I(F)) + jstr("end_index", I(e)) + jstr("end_mod_frame", I(e % F)) + jstr("history_target", I(N)) +
                                   jstr("framing_mode", I(mode)) + jstr("ops_runlength", "\"" + rle_ops(ops) + "\"") + jstr("background", bg_json(b)) + jstr("amplitude", vh::jnum(A)) +
                                   jstr("phase", vh::jnum(ph)) + (nh <= 64 ? jstr("p", vh::jarr(p)) + jstr("inserted_samples", vh::jarr(ins.v)) : std::string()) + jstr("stream_len", I(n_e), true) + "}";
            const bool corr = sweep_corr < corr_cases && in_hyp && (mode != 0 || count % 9 == 2);
            const ScriptRun d = run_script(p, thr, x.data(), n_e, ops, js, corr, false, mode == 3);
            if (corr) { ++g_long_corr; ++sweep_corr; out.corr(det2_lhs_G(p, thr, b, n_e, {ins}, ops), d.rhs); }
            out.stat("det_long_streams");
            out.stat("det_long_calls", d.n_calls);
            out.stat("det_long_framing_mode_" + I(mode));
            if (!in_hyp) { out.stat("det_long_outside_hypothesis"); continue; }
            ++out.n_oracle;
            out.stat((e % F) < nh - 1 ? "det_long_straddles_frame_boundary" : "det_long_inside_one_frame");
            judge_single(js, nh, thr, x.data() + s0, (int)e, Ml[e - c0], PWl[e - c0], d.cstart, d.clen, d.det_call, d.res, "C18:detector-long-");
        }
        for (int j = 0; j < nh; ++j) x[s0 + j] = saved[j];
    }
}

// SOAK (beyond the single-preamble clause, justified by T18.4 "for every state and every call"): a stream of `total` samples with a preamble every
// P = 2 F + 1 samples (each starts in a later frame than the one where the previous report happened, so the early return of process() cannot
// touch it), amplitude and phase different from copy to copy, fed frame by frame through ONE detector: every frame index up to total / F
// receives a preamble, and over the P start phases every (frame index, end offset) pair is visited.
static void soak(vh::Rng& r, int nh, int pkind_in, long total, int phase_lo, int phase_hi, int bgmode, bool corr_first) {
    const int F = frame_len_of(nh), P = 2 * F + 1;
    int pkind = pkind_in;
    double thr;
    const arr_cmplx p0 = preamble_with_threshold(r, nh, pkind, thr);
    const arr_cmplx p = scaled(p0, r.coin() ? 1.0 : 0x1p-3);
    const ld t2 = (ld)thr * thr;
    const long nfr = total / F + 2, n = nfr * F;
    BgSpec b;
    b.seed = r.next();
    b.kind = bgmode == 0 ? 0 : (bgmode == 1 ? 2 : 1);
    b.k = -1035;   // denormal floor: |x|^2 = 0 exactly, every history sample distinct
    std::vector<cmplx_t> bgv;
    fill_bg(b, bgv, n);
    if (b.kind == 1) {
        ld mx = 0;
        const std::vector<ld> Mb = ref_metric(p, bgv.data(), (int)n);
        for (ld v : Mb) mx = std::max(mx, v);
        if (!(mx < t2 * (1 - 1e-3L))) { out.stat("det_soak_background_crosses_threshold_skipped"); return; }
    }
    static const double amps[] = {1.0, 0.5, 2.0};
    for (int phase = phase_lo; phase <= phase_hi; ++phase) {
        std::vector<cmplx_t> x = bgv;
        std::vector<long> ends;
        std::vector<Insertion> inss;
        std::vector<char> hyp;
        std::vector<ld> Me, PWe;
        const bool corr = corr_first && phase == phase_lo;
        for (long k = 0;; ++k) {
            const long e = (long)F + nh - 1 + phase + k * P;
            if (e + nh >= n - F) break;
            const long s0 = e - nh + 1;
            const double ph = 2.399963229728653 * k, Ak = amps[k % 3];
            const cmplx_t rot{std::cos(ph), std::sin(ph)};
            for (int j = 0; j < nh; ++j) { const cmplx_t v = p0[j] * rot; x[s0 + j].re += Ak * v.re; x[s0 + j].im += Ak * v.im; }
            ends.push_back(e);
            if (corr) { Insertion in{e, arr_cmplx(nh)}; for (int j = 0; j < nh; ++j) in.v[j] = x[s0 + j]; inss.push_back(in); }
        }
        for (long e : ends) {   // windows overlapping copy k do not overlap its neighbours (P > 2 nh)
            const long s0 = e - nh + 1, c0 = s0 - (nh - 1), c1 = e + nh - 1;
            std::vector<ld> PWl;
            const std::vector<ld> Ml = ref_metric(p, x.data() + c0, (int)(c1 - c0 + 1), &PWl);
            bool ok = Ml[e - c0] > t2 * (1 + 1e-3L);
            for (long t = s0; t <= c1; ++t)
                if (t != e && Ml[t - c0] >= t2 * (1 - 1e-3L)) ok = false;
            hyp.push_back(ok);
            Me.push_back(Ml[e - c0]);
            PWe.push_back(PWl[e - c0]);
        }
        const std::string js0 = jstr("fn", "\"PreambleDetector\"") + jstr("case", "\"soak: a preamble every 2*frame_len+1 samples, single frames\"") + jstr("preamble", std::string("\"") + PK[pkind] + "\"") +
                                jstr("nh", I(nh)) + jstr("threshold", vh::jnum(thr)) + jstr("frame_len", I(F)) + jstr("first_end_index", I(F + nh - 1 + phase)) + jstr("period", I(P)) +
                                jstr("background", bg_json(b)) + jstr("copy_k_amplitude", "\"1, 0.5, 2 cyclic\"") + jstr("copy_k_phase_rad", "\"2.399963229728653*k\"") +
                                (nh <= 64 ? jstr("p", vh::jarr(p)) : std::string()) + jstr("stream_len", I(n));
        if (corr) {
            const std::vector<int> ops(nfr, F);
            const ScriptRun d = run_script(p, thr, x.data(), n, ops, "{" + js0 + jstr("note", "\"corr run\"", true) + "}", true, false);
            out.corr(det2_lhs_G(p, thr, b, n, inss, ops), d.rhs);
        }
        vh::set_current("C18:detector-crash", "{" + js0 + jstr("note", "\"in flight\"", true) + "}");
        vh::watch(600);
        PreambleDetector det(p, thr);
        size_t next = 0;
        out.stat("det_soak_streams");
        for (long c = 0; c < nfr; ++c) {
            const arr_cmplx fr(x.data() + c * F, (size_t)F);
            const auto rr = det.process(fr);
            while (next < ends.size() && ends[next] < c * F) ++next;
            const bool expect = next < ends.size() && ends[next] < (c + 1) * F;
            if (expect && !hyp[next]) { out.stat("det_soak_copy_outside_hypothesis"); continue; }
            auto wit = [&](const char* what) {
                return "{" + js0 + jstr("frame_index", I(c)) + jstr("samples_before_this_frame", I(c * F)) + jstr("expected_offset", expect ? I(ends[next] - c * F) : std::string("null")) +
                       jstr("got", rr.has_value() ? "{\"offset\":" + I(rr->offset) + ",\"score\":" + vh::jnum(rr->score) + "}" : std::string("null")) + jstr("violation", std::string("\"") + what + "\"", true) + "}";
            };
            if (!expect) {
                if (rr.has_value()) out.fail("C18:detector-soak-false", wit("report in a frame where no preamble completes"));
                continue;
            }
            ++out.n_oracle;
            out.stat("det_soak_preambles");
            const long e = ends[next], s0 = e - nh + 1;
            if (!rr.has_value()) { out.fail("C18:detector-soak-missed", wit("no report")); continue; }
            if (rr->offset != e - c * F) { out.fail("C18:detector-soak-offset", wit("offset")); continue; }
            bool pre_ok = rr->preamble.size() == nh;
            for (int j = 0; pre_ok && j < nh; ++j) pre_ok = bits_same(rr->preamble[j], x[s0 + j]);
            if (!pre_ok) out.fail("C18:detector-soak-preamble", wit("returned samples differ from the aligned stream samples"));
            const ld sref = sqrtl(Me[next]);
            if (!(rr->score >= thr) || !(fabsl((ld)rr->score - sref) <= SCORE_REL_TOL * sref) || (PWe[next] >= 1e3L * EPSD && !(std::fabs(rr->score - 1.0) <= 0.05)))
                out.fail("C18:detector-soak-score", wit("score"));
        }
        vh::unwatch();
        vh::clear_current();
    }
}

static void run_long(vh::Rng& r) {
    if (!THOROUGH) {
        // quick: nh = 16 (frame 17) dense around 2^16 with all framing modes, coarser around 2^17 and 2^18; nh = 63 (frame 66) with noise around 2^16;
        // a denormal floor (slow arithmetic) only on a coarse sweep
        long_sweep(r, 16, r.range(0, NPK - 1), 1L << 16, 3, r.range(0, 1), 1, 6, 12);
        long_sweep(r, 16, r.range(4, NPK - 1), 1L << 17, 2, r.range(0, 1), 1, 9, 4);
        long_sweep(r, 17, r.range(0, NPK - 1), 1L << 18, 1, r.range(0, 1), 1, 0, 1);
        long_sweep(r, 63, r.range(0, NPK - 1), 1L << 16, 1, 3, 1, 25, 3);
        long_sweep(r, 32, r.range(0, NPK - 1), 3L << 14, 1, 4, 5, 0, 1);
        soak(r, 16, r.range(0, NPK - 1), (1L << 17) + 4096, 0, 34, r.range(0, 1), false);
        soak(r, 16, r.range(0, NPK - 1), (1L << 16) + 2048, 3, 3, 2, true);
    } else {
        // backgrounds: silence / negative-zero silence (and noise for the long preambles); denormal floors (slow arithmetic) on two coarse sweeps only
        const long Ns[] = {3L << 14, 1L << 16, 3L << 15, 1L << 17, 3L << 16, 1L << 18};
        for (long N : Ns) {
            const bool pow2 = (N & (N - 1)) == 0;
            for (int nh : {16, 17, 31, 32, 33}) long_sweep(r, nh, r.range(0, NPK - 1), N, 3, r.range(0, 1), 1, 5, N <= (1L << 17) ? 4 : 1);
            for (int nh : {63, 64, 65, 100, 127, 128}) long_sweep(r, nh, r.range(0, NPK - 1), N, pow2 ? 2 : 1, r.coin() ? 3 : r.range(0, 1), 1, 7, N <= (1L << 16) ? 2 : 0);
            if (pow2)
                for (int nh : {255, 256, 511, 512}) long_sweep(r, nh, r.range(0, NPK - 1), N, 1, r.coin() ? 3 : r.range(0, 1), 3, 11, 0);
        }
        long_sweep(r, 16, r.range(0, NPK - 1), 1L << 19, 2, 0, 1, 5, 0);
        long_sweep(r, 16, r.range(0, NPK - 1), 1L << 20, 1, 1, 1, 0, 0);
        long_sweep(r, 16, r.range(0, NPK - 1), 1L << 16, 1, 2, 3, 4, 0);
        long_sweep(r, 64, r.range(0, NPK - 1), 1L << 16, 1, 4, 7, 0, 0);
        for (int nh : {16, 17, 31, 32}) { const int F = frame_len_of(nh); soak(r, nh, r.range(0, NPK - 1), (1L << 18) + 4096, 0, 2 * F, r.range(0, 1), false); }
        soak(r, 16, r.range(0, NPK - 1), (1L << 20) + 4096, 0, 6, 0, false);
        soak(r, 63, r.range(0, NPK - 1), (1L << 18) + 4096, 0, 132, 0, false);
        soak(r, 16, r.range(0, NPK - 1), (1L << 16) + 2048, 3, 3, 2, true);
    }
    out.stat("det_long_corr_cases", g_long_corr);
}

// ================================================================== H. delay estimators: scale classes, temporaries, failed calls in the history
static void run_estimator_extras(vh::Rng& r) {
    // --- scale classes: both operands independently at absolute scales far from 1 (the estimators are scale invariant; |corr|^2 must stay finite: |log10(s1 s2)| <= 140)
    static const double SC[] = {1e-100, 1e-17, 1e-8, 1.0, 1e8, 1e100, 0x1p-300, 0x1p300};
    static const char* SCN[] = {"1e-100", "1e-17", "1e-8", "1", "1e8", "1e100", "2^-300", "2^300"};
    const std::vector<int> lens = THOROUGH ? std::vector<int>{128, 129, 255, 256, 500, 1000, 1024, 4097, 5000} : std::vector<int>{128, 131, 256, 1000};
    for (int n : lens)
        for (int a = 0; a < 8; ++a)
            for (int b = 0; b < 8; ++b) {
                const double lg = std::log10(SC[a]) + std::log10(SC[b]);
                if (std::fabs(lg) > 140) { out.stat("fd_scale_pair_skipped_corr_squared_not_finite"); continue; }
                if (!THOROUGH && ((a * 8 + b + n) % 3) != 0) continue;
                const int d = r.range(-(n / 4), n / 4);
                const int wk = r.range(0, 2);
                arr_real x = white_r(r, n, wk);
                arr_real y = delayseq(x, d);
                const bool noisy = r.coin();
                if (noisy) add_noise(r, y, rms_of(x) * std::pow(10.0, -(30 + 30 * r.unit()) / 20));
                const std::string what = std::string("scale x1*") + SCN[a] + " x2*" + SCN[b] + (noisy ? " noisy" : " noiseless");
                finddelay_case(arr_real(x * SC[a]), arr_real(y * SC[b]), d, true, n <= 131 && wk != 2, "fdR", what);
                out.stat("fd_scale_classes");
                arr_cmplx xc = white_c(r, n, wk);
                arr_cmplx yc = dseq(xc, d);
                finddelay_case(arr_cmplx(xc * SC[a]), arr_cmplx(yc * SC[b]), d, true, false, "fdC", what);
                // gccphat: Y / (|Y| + eps) is scale invariant only while |Y| >> eps: the small classes are CORR only
                const bool above_eps = lg > -8;
                gcc_case(arr_real(y * SC[b]), arr_real(x * SC[a]), FS_LIST[r.range(0, 12)], d, above_eps, n <= 131 && wk != 2 && above_eps, what);
                out.stat(above_eps ? "gcc_scale_classes" : "gcc_scale_below_eps_not_judged");
            }
    // --- temporaries and failed calls: results built from rvalue operands equal those from named operands bit for bit; a call that throws leaves no trace
    for (int rep = 0; rep < (THOROUGH ? 40 : 8); ++rep) {
        const int n = r.range(128, 600), d = r.range(-(n / 4), n / 4);
        const arr_real x = white_r(r, n, 0);
        const arr_real y = delayseq(x, d);
        const arr_real twice = x * 2.0;
        const arr_real named = delayseq(twice, d);
        const arr_real& tmp = delayseq(x * 2.0, d);                 // temporary argument, result bound to a const reference
        const arr_real nested = delayseq(delayseq(x * 2.0, d), 0);   // nested temporaries
        ++out.n_oracle;
        bool ok = tmp.size() == n && nested.size() == n;
        for (int i = 0; ok && i < n; ++i) ok = std::memcmp(&tmp[i], &named[i], 8) == 0 && std::memcmp(&nested[i], &named[i], 8) == 0;
        int k = 0;
        for (const auto& v : delayseq(x * 2.0, d)) { if (std::memcmp(&v, &named[k], 8) != 0) ok = false; ++k; }   // range-for over a temporary result
        if (k != n) ok = false;
        if (!ok) out.fail("C18:delayseq", "{\"fn\":\"delayseq\",\"case\":\"temporary operands differ from named operands\",\"len\":" + I(n) + ",\"d\":" + I(d) + "}");
        out.stat("ds_temporaries");
        // finddelay / gccphat with temporaries, before and after a failed call
        const int fs = FS_LIST[r.range(0, 12)];
        const int fd0 = finddelay(x, y);
        const gccphat_res_t g0 = gccphat(y, x, fs);
        bool threw = false;
        try { (void)gccphat(arr_real(r.range(1, n - 1)), x, fs); } catch (const std::exception&) { threw = true; }   // size mismatch
        bool threw_multi = false;
        try { std::vector<arr_real> sg = {y, arr_real(n + 1)}; (void)gccphat(sg, x, fs); } catch (const std::exception&) { threw_multi = true; }
        const int fd1 = finddelay(x + 0.0, delayseq(x, d));
        const gccphat_res_t g1 = gccphat(delayseq(x, d), x * 1.0, fs);
        ++out.n_oracle;
        bool same_g = g0.tau == g1.tau && g0.corr.size() == g1.corr.size();
        for (int i = 0; same_g && i < g0.corr.size(); ++i) same_g = bits_same(g0.corr[i], g1.corr[i]);
        if (!threw || !threw_multi || fd0 != d || fd1 != d || !same_g)
            out.fail("C18:gccphat-history", "{\"fn\":\"gccphat/finddelay\",\"case\":\"valid call after a call that threw (size mismatch), temporaries as arguments\",\"len\":" + I(n) + ",\"d\":" + I(d) +
                                                ",\"fs\":" + I(fs) + ",\"mismatch_threw\":" + (threw && threw_multi ? "true" : "false") + ",\"finddelay_before\":" + I(fd0) + ",\"finddelay_after\":" + I(fd1) +
                                                ",\"tau_before\":" + vh::jnum(g0.tau) + ",\"tau_after\":" + vh::jnum(g1.tau) + "}");
        out.stat("gcc_after_failed_call");
    }
}

int main(int argc, char** argv) {
    vh::Args args(argc, argv);
    vh::install_guards();
    THOROUGH = args.thorough;
    vh::Rng r(args.seed * 0x9e3779b97f4a7c15ULL + 18);
    out.max_samples = 8;
    run_delayseq(r);
    run_peakloc(r);
    run_delay_estimators(r);
    run_estimator_extras(r);
    run_detector_all(r);
    script_cases(r);
    run_long(r);
    out.stat("det_corr_cases", g_det_corr);
    out.stat("det_scale_corr_cases", g_scale_corr);
    out.finish();
    return 0;
}
