// C06 — Streaming processors are invariant to how the stream is framed.
//
// ORACLE : the implementation compared WITH ITSELF, bit for bit (memcmp of the doubles): for every stateful block
//          processor and a grid of its parameters, one `process` call on the whole stream against
//            (a) EVERY composition of a short stream: all 2^(k-1) framings of k granules, k = 1..K (K = 12 thorough,
//                8 quick) at granule scale 1, and all 2^7 framings of 8 "coarse granules" whose size is matched to the
//                memory of the processor (frames shorter than, equal to and longer than its history);
//            (b) heavy-tailed random framings (frame sizes 1..4096 granules, log-uniform + sizes around the memory
//                length) of streams up to 1e5 samples;
//            (c) several separately constructed instances used interleaved (instance independence): every instance
//                must produce what it produces alone.
//          granule = 1 sample; `decim` samples for FIRDecimator / FIRRateConverter / FIRResampler; FftFilter is fed
//          arbitrary frames and its (block-wise) outputs are compared as concatenations.  After the last frame the
//          observable state (`coeffs()` of LMS/RLS) is appended to both sides.
//            (d) COPIES of every processor (object lifetime): copy-construction, copy-assignment over a live object, an element
//                of std::vector<P>(n, obj), pass-by-value + move, a copy that is destroyed -- taken from a fresh prototype or
//                mid-stream, then used interleaved with their source: each copy must emit what a separately constructed
//                object emits after the same prefix, and the source must continue as if never copied;
//            (e) LARGE frames arriving after smaller ones on the same object: 20000, 70000, 140000 samples (thorough: also
//                2^14, 2^14+1, 2^15+1, 2^16, 2^16+1, 2^17, 2^17+1, 49152, 98304, 147456, decreasing orders);
//            (f) inputs and coefficient vectors at the absolute scale classes 1e-300, 1e-17, 2^-60, 1e-8, 1, 1e8, 2^60, 1e100,
//                and inputs with runs of exact zeros (+0 / -0) longer than the memory of the processor;
//            (g) REJECTED calls between the frames (frame not a multiple of decim_rate(); len(x) != len(d)): a call that
//                throws must leave no trace in the later outputs.
//          keys  C06:<processor>:framing   C06:<processor>:independence   C06:<processor>:copy   C06:<processor>:failed-call
// CORR   : `C frame|frameF|frameR <proc> <params…> <k> <sizes…> <N> <input…> | <N'> <concatenated output…>` — the Lean
//          driver runs the MODEL's `process` frame by frame (Model/Fir, Resample, Dynamics, Adaptive, Order, Framing).
#include "common.hpp"
#include "ma-filter.h"
#include <algorithm>
#include <memory>
#include <numeric>
using namespace dsplib;
typedef std::vector<double> VD;
static vh::Out out;
static uint64_t g_seed = 1;
static long long g_case = 0;
static long long g_corr_bytes = 0;

// ------------------------------------------------------------------------------------ sample-type helpers
template<class T> struct TW;
template<> struct TW<real_t> {
    enum { W = 1 };
    static real_t get(const double* p) { return p[0]; }
    static void put(VD& o, const real_t& v) { o.push_back(v); }
};
template<> struct TW<cmplx_t> {
    enum { W = 2 };
    static cmplx_t get(const double* p) { return cmplx_t{p[0], p[1]}; }
    static void put(VD& o, const cmplx_t& v) { o.push_back(v.re); o.push_back(v.im); }
};
template<class T> static base_array<T> mk(const double* p, int n, int stride = TW<T>::W, int off = 0) {
    base_array<T> a(n);
    for (int i = 0; i < n; ++i) a[i] = TW<T>::get(p + (long long)i * stride + off);
    return a;
}
template<class T> static void put(VD& o, const base_array<T>& a) {
    for (int i = 0; i < a.size(); ++i) TW<T>::put(o, a[i]);
}
template<class T> static std::string toks(const base_array<T>& a) { return vh::hxs(a); }

// ------------------------------------------------------------------------------------ processor adapters
struct Inst {
    std::function<void(const double*, int, VD&)> run;   // one `process` call on `nitems` input items; appends the output
    std::function<void(VD&)> fin;                        // observable state after the last call (may be empty)
    // a COPY of the underlying object (with its current state): mode 0 copy-construction, 1 copy-assignment over a separately
    // constructed object that has already processed `njunk` items (falls back to 0 if the class is not assignable), 2 an element
    // of std::vector<P>(2, obj) (the vector is destroyed), 3 passed by value and moved
    std::function<Inst(int, const double*, int)> clone;
    std::function<bool(const double*, int)> bad;         // an INVALID call on `n` items (may be empty): true if it threw
};
// how to drive an object of class P
template<class P> struct Kit {
    std::function<std::shared_ptr<P>()> fresh;                    // a newly constructed object with the same parameters
    std::function<void(P&, const double*, int, VD&)> run;
    std::function<void(P&, VD&)> fin;
    std::function<void(P&, const double*, int)> bad;
};
template<class P> static Inst wrap(std::shared_ptr<P> f, std::shared_ptr<Kit<P>> k) {
    Inst I;
    I.run = [f, k](const double* p, int n, VD& o) { k->run(*f, p, n, o); };
    if (k->fin) I.fin = [f, k](VD& o) { k->fin(*f, o); };
    I.clone = [f, k](int mode, const double* junk, int njunk) -> Inst {
        std::shared_ptr<P> g;
        if (mode == 1) {
            if constexpr (std::is_copy_assignable<P>::value) {
                g = k->fresh();
                VD tmp;
                if (njunk > 0) k->run(*g, junk, njunk, tmp);
                *g = *f;
            }
        }
        if (mode == 2) {
            std::vector<P> v(2, *f);
            g = std::make_shared<P>(v[1]);
        }
        if (mode == 3) {
            auto byval = [](P q) { return q; };
            g = std::make_shared<P>(byval(*f));
        }
        if (!g) g = std::make_shared<P>(*f);
        return wrap<P>(g, k);
    };
    if (k->bad)
        I.bad = [f, k](const double* p, int n) {
            try { k->bad(*f, p, n); } catch (const std::exception&) { return true; }
            return false;
        };
    return I;
}
template<class P, class FR, class RN> static Inst build(FR fresh, RN run, std::function<void(P&, VD&)> fin = nullptr,
                                                      std::function<void(P&, const double*, int)> bad = nullptr) {
    auto k = std::make_shared<Kit<P>>();
    k->fresh = fresh; k->run = run; k->fin = fin; k->bad = bad;
    return wrap<P>(k->fresh(), k);
}
struct Spec {
    std::string proc;    // C06:<proc>:framing
    std::string js;      // json fragment: parameters
    std::string corr;    // "<tag> <proc> <params…>" for CORR lines ("" = not sent to the model)
    int win = 1;         // doubles per input item
    int gran = 1;        // items per granule
    int mem = 1;         // memory of the processor in granules
    int sig = 0;         // input generator
    int fineq = 1;       // granule scale of the exhaustive fine enumeration (FftFilter: a fraction of the block)
    int cstride = 1;     // every cstride-th parameter point of this processor is also sent to the model
    double ratio = 1;    // output items per input item (bounds the stream length of interpolating converters)
    std::function<Inst()> make;
};
enum { SIG_GEN, SIG_DYN, SIG_MED, SIG_SYS };

template<class T> static Spec spec_fir(const base_array<T>& h) {
    Spec s;
    const bool cx = TW<T>::W == 2;
    s.proc = cx ? "FirFilterC" : "FirFilterR";
    s.js = "\"nh\":" + std::to_string(h.size()) + (h.size() <= 24 ? ",\"h\":" + vh::jarr(h) : "");
    s.corr = std::string("frame ") + (cx ? "firC " : "firR ") + toks(h);
    s.win = TW<T>::W; s.mem = std::max(1, h.size() - 1); s.cstride = -1;
    s.make = [h]() {
        return build<FirFilter<T>>([h]() { return std::make_shared<FirFilter<T>>(h); },
                                   [](FirFilter<T>& f, const double* p, int n, VD& o) { put<T>(o, f.process(mk<T>(p, n))); });
    };
    return s;
}
template<class T> static Spec spec_fft(const base_array<T>& h) {
    Spec s;
    const bool cx = TW<T>::W == 2;
    s.proc = cx ? "FftFilterC" : "FftFilterR";
    s.js = "\"nh\":" + std::to_string(h.size()) + (h.size() <= 24 ? ",\"h\":" + vh::jarr(h) : "");
    s.corr = std::string("frameF ") + (cx ? "fftC " : "fftR ") + toks(h);
    s.win = TW<T>::W;
    s.mem = FftFilter(h).block_size();
    s.fineq = 2; s.cstride = -1;   // > 1: the fine enumeration uses coarse granules spanning ~3.4 blocks (see sweep)
    s.make = [h]() {
        return build<FftFilter>([h]() { return std::make_shared<FftFilter>(h); },
                                [](FftFilter& f, const double* p, int n, VD& o) { put<T>(o, f.process(mk<T>(p, n))); });
    };
    return s;
}
template<class T> static Spec spec_ma(int n) {
    Spec s;
    const bool cx = TW<T>::W == 2;
    s.proc = cx ? "MAFilterC" : "MAFilterR";
    s.js = "\"n\":" + std::to_string(n);
    s.corr = std::string("frame ") + (cx ? "maC " : "maR ") + std::to_string(n);
    s.win = TW<T>::W; s.mem = n; s.cstride = -1;
    s.make = [n]() {
        return build<MAFilter<T>>([n]() { return std::make_shared<MAFilter<T>>(n); },
                                  [](MAFilter<T>& f, const double* p, int k, VD& o) { put<T>(o, f.process(mk<T>(p, k))); });
    };
    return s;
}
template<class T> static Spec spec_delay(int n) {
    Spec s;
    const bool cx = TW<T>::W == 2;
    s.proc = cx ? "DelayC" : "DelayR";
    s.js = "\"n\":" + std::to_string(n);
    s.win = TW<T>::W; s.mem = std::max(1, n); s.cstride = -1;
    s.corr = std::string("frame ") + (cx ? "delayC " : "delayR ") + toks(base_array<T>(n));
    s.make = [n]() {
        return build<Delay<T>>([n]() { return std::make_shared<Delay<T>>(n); },
                               [](Delay<T>& f, const double* p, int k, VD& o) { put<T>(o, f.process(mk<T>(p, k))); });
    };
    return s;
}
// Delay(const base_array<T>& initial): only instantiable for T = real_t (`_buffer{initial}` is ill-formed for cmplx_t)
static Spec spec_delay_init(const arr_real& b) {
    Spec s;
    s.proc = "DelayR";
    s.js = "\"n\":" + std::to_string(b.size()) + ",\"initial\":true";
    s.mem = std::max(1, b.size()); s.cstride = -1;
    s.corr = "frame delayR " + toks(b);
    s.make = [b]() {
        return build<Delay<real_t>>([b]() { return std::make_shared<Delay<real_t>>(b); },
                                    [](Delay<real_t>& f, const double* p, int k, VD& o) { put<real_t>(o, f.process(mk<real_t>(p, k))); });
    };
    return s;
}
static Spec spec_median(int n, double init) {
    Spec s;
    s.proc = "MedianFilter";
    s.js = "\"order\":" + std::to_string(n) + ",\"init\":" + vh::jnum(init);
    s.corr = "frame median " + std::to_string(n) + " " + vh::hx(init);
    s.mem = n; s.sig = SIG_MED;
    s.make = [n, init]() {
        return build<MedianFilter>([n, init]() { return std::make_shared<MedianFilter>(n, init); },
                                   [](MedianFilter& f, const double* p, int k, VD& o) { put<real_t>(o, f.process(mk<real_t>(p, k))); });
    };
    return s;
}
// kind 0: HilbertFilter(h) with explicit type-3 taps; kind 1: HilbertFilter(flen, tw) (default design; the model gets impz())
static Spec spec_hilbert(int kind, const arr_real& h, int flen, double tw) {
    Spec s;
    s.proc = "HilbertFilter";
    arr_real taps = h;
    if (kind == 1) taps = HilbertFilter(flen, tw).impz();
    s.js = kind ? ("\"flen\":" + std::to_string(flen) + ",\"tw\":" + vh::jnum(tw)) : ("\"nh\":" + std::to_string(h.size()));
    s.corr = "frame hilb " + toks(taps);
    s.mem = std::max(1, taps.size() - 1); s.cstride = -1;
    s.make = [kind, h, flen, tw]() {
        return build<HilbertFilter>([kind, h, flen, tw]() { return kind ? std::make_shared<HilbertFilter>(flen, tw) : std::make_shared<HilbertFilter>(h); },
                                    [](HilbertFilter& f, const double* p, int k, VD& o) { put<cmplx_t>(o, f.process(mk<real_t>(p, k))); });
    };
    return s;
}
static Spec spec_tuner(int fs, double freq) {
    Spec s;
    s.proc = "Tuner";
    s.js = "\"fs\":" + std::to_string(fs) + ",\"freq\":" + vh::jnum(freq);
    s.corr = "frame tuner " + std::to_string(fs) + " " + vh::hx(freq);
    s.win = 2; s.mem = fs <= 64 ? fs : 1;
    s.make = [fs, freq]() {
        return build<Tuner>([fs, freq]() { return std::make_shared<Tuner>(fs, freq); },
                            [](Tuner& f, const double* p, int k, VD& o) { put<cmplx_t>(o, f.process(mk<cmplx_t>(p, k))); });
    };
    return s;
}
template<class P> struct TagT { using type = P; };
// resamplers: kind 0 interp, 1 decim, 2 rateconv, 3 resampler wrapper; custom taps `h` or (h empty) the default design
static int padded_sub(int nh, int m) { return (nh + m - 1) / m; }
static Spec spec_rs(int kind, int L, int M, const arr_real& h) {
    static const char* nm[] = {"FIRInterpolator", "FIRDecimator", "FIRRateConverter", "FIRResampler"};
    static const char* tg[] = {"interp", "decim", "rateconv", "resampler"};
    Spec s;
    const bool custom = h.size() > 0;
    s.proc = nm[kind];
    s.js = "\"L\":" + std::to_string(L) + ",\"M\":" + std::to_string(M) + ",\"nh\":" + std::to_string(h.size()) +
           (custom && h.size() <= 24 ? ",\"h\":" + vh::jarr(h) : "") + (custom ? "" : ",\"default_design\":true");
    arr_real taps = h;
    if (!custom) taps = (kind == 0) ? design_multirate_fir(L, 1) : (kind == 1) ? design_multirate_fir(1, M) : design_multirate_fir(L, M);
    s.corr = std::string("frame ") + tg[kind] + " " + std::to_string(L) + " " + std::to_string(M) + " " + toks(taps);
    auto mkr = [kind, L, M, h, custom]() -> std::shared_ptr<IResampler> {
        switch (kind) {
        case 0: return custom ? std::make_shared<FIRInterpolator>(L, h) : std::make_shared<FIRInterpolator>(L);
        case 1: return custom ? std::make_shared<FIRDecimator>(M, h) : std::make_shared<FIRDecimator>(M);
        case 2: return custom ? std::make_shared<FIRRateConverter>(L, M, h) : std::make_shared<FIRRateConverter>(L, M);
        default: return custom ? std::make_shared<FIRResampler>(L, M, h) : std::make_shared<FIRResampler>(L, M);
        }
    };
    auto probe = mkr();
    s.gran = probe->decim_rate();
    const int li = probe->interp_rate(), mi = probe->decim_rate();
    const bool byp = (kind == 3 && li == 1 && mi == 1);
    const int branches = (kind == 1) ? M : (kind == 3 && li == 1) ? mi : (kind == 3) ? li : L;
    const int sub = byp ? 1 : padded_sub(taps.size(), branches);
    s.mem = std::max(1, (kind == 2 || (kind == 3 && mi > 1 && li > 1)) ? (sub - 1 + mi - 1) / mi + 1 : sub - 1);
    s.ratio = double(li) / mi; s.cstride = -2;
    // a frame that is not a multiple of decim_rate() must be rejected before any state change (C08.decim_reject)
    const int gran = s.gran;
    auto mk_inst = [=](auto tag) {
        using P = typename decltype(tag)::type;
        std::function<void(P&, const double*, int)> bad = nullptr;
        if (gran > 1) bad = [gran](P& f, const double* p, int k) { f.process(mk<real_t>(p, (k / gran) * gran + 1 + (k % (gran - 1)))); };
        return build<P>([mkr]() { return std::static_pointer_cast<P>(mkr()); },
                        [](P& f, const double* p, int k, VD& o) { put<real_t>(o, f.process(mk<real_t>(p, k))); }, nullptr, bad);
    };
    s.make = [=]() -> Inst {
        switch (kind) {
        case 0: return mk_inst(TagT<FIRInterpolator>());
        case 1: return mk_inst(TagT<FIRDecimator>());
        case 2: return mk_inst(TagT<FIRRateConverter>());
        default: return mk_inst(TagT<FIRResampler>());
        }
    };
    return s;
}
struct AgcP { double tg, mg; int n; double tr, tf; };
template<class T> static Spec spec_agc(const AgcP& q) {
    Spec s;
    const bool cx = TW<T>::W == 2;
    s.proc = cx ? "AgcC" : "AgcR";
    s.js = "\"target\":" + vh::jnum(q.tg) + ",\"max_gain\":" + vh::jnum(q.mg) + ",\"average_len\":" + std::to_string(q.n) +
           ",\"t_rise\":" + vh::jnum(q.tr) + ",\"t_fall\":" + vh::jnum(q.tf);
    s.corr = std::string("frame ") + (cx ? "agcc " : "agcr ") + vh::hx(q.tg) + " " + vh::hx(q.mg) + " " + std::to_string(q.n) + " " +
             vh::hx(q.tr) + " " + vh::hx(q.tf);
    s.win = TW<T>::W; s.mem = q.n; s.sig = SIG_DYN;
    s.make = [q]() {
        return build<Agc>([q]() { return std::make_shared<Agc>(q.tg, q.mg, q.n, q.tr, q.tf); },
                          [](Agc& f, const double* p, int k, VD& o) {
                              auto r = f.process(mk<T>(p, k));
                              for (int i = 0; i < k; ++i) { TW<T>::put(o, r.out[i]); o.push_back(r.gain[i]); }
                          });
    };
    return s;
}
struct DynP { int fs; double T; int R; double W, ta, tr, th; };
// kind 0 compressor, 1 limiter, 2 noise gate
static Spec spec_dyn(int kind, const DynP& q) {
    static const char* nm[] = {"Compressor", "Limiter", "NoiseGate"};
    Spec s;
    s.proc = nm[kind];
    s.js = "\"fs\":" + std::to_string(q.fs) + ",\"threshold\":" + vh::jnum(q.T) + ",\"ratio\":" + std::to_string(q.R) + ",\"knee\":" + vh::jnum(q.W) +
           ",\"attack\":" + vh::jnum(q.ta) + ",\"release\":" + vh::jnum(q.tr) + ",\"hold\":" + vh::jnum(q.th);
    s.sig = SIG_DYN;
    if (kind == 0) {
        s.corr = "frame comp " + std::to_string(q.fs) + " " + vh::hx(q.T) + " " + std::to_string(q.R) + " " + vh::hx(q.W) + " " + vh::hx(q.ta) + " " + vh::hx(q.tr);
        s.mem = 8;
        s.make = [q]() {
            return build<Compressor>([q]() { return std::make_shared<Compressor>(q.fs, q.T, q.R, q.W, q.ta, q.tr); },
                                     [](Compressor& f, const double* p, int k, VD& o) {
                                         auto r = f.process(mk<real_t>(p, k));
                                         for (int i = 0; i < k; ++i) { o.push_back(r.out[i]); o.push_back(r.gain[i]); }
                                     });
        };
    } else if (kind == 1) {
        s.corr = "frame lim " + std::to_string(q.fs) + " " + vh::hx(q.T) + " " + vh::hx(q.W) + " " + vh::hx(q.ta) + " " + vh::hx(q.tr);
        s.mem = 8;
        s.make = [q]() {
            return build<Limiter>([q]() { return std::make_shared<Limiter>(q.fs, q.T, q.W, q.ta, q.tr); },
                                  [](Limiter& f, const double* p, int k, VD& o) {
                                      auto r = f.process(mk<real_t>(p, k));
                                      for (int i = 0; i < k; ++i) { o.push_back(r.out[i]); o.push_back(r.gain[i]); }
                                  });
        };
    } else {
        s.corr = "frame gate " + std::to_string(q.fs) + " " + vh::hx(q.T) + " " + vh::hx(q.ta) + " " + vh::hx(q.tr) + " " + vh::hx(q.th);
        s.mem = (int)std::min(64.0, std::max(1.0, std::floor(q.th * q.fs)));
        s.make = [q]() {
            return build<NoiseGate>([q]() { return std::make_shared<NoiseGate>(q.fs, q.T, q.ta, q.tr, q.th); },
                                    [](NoiseGate& f, const double* p, int k, VD& o) {
                                        auto r = f.process(mk<real_t>(p, k));
                                        for (int i = 0; i < k; ++i) { o.push_back(r.out[i]); o.push_back(r.gain[i]); }
                                    });
        };
    }
    return s;
}
// adaptive filters: an input item is the pair (x, d); output per sample (y, e); final state: coeffs()
template<class T> static Spec spec_lms(int len, double mu, bool nlms, double leak) {
    Spec s;
    const bool cx = TW<T>::W == 2;
    const int W = TW<T>::W;
    s.proc = std::string(nlms ? "NlmsFilter" : "LmsFilter") + (cx ? "C" : "R");
    s.js = "\"len\":" + std::to_string(len) + ",\"step\":" + vh::jnum(mu) + ",\"leak\":" + vh::jnum(leak);
    s.corr = std::string("frame lms ") + (cx ? "1 " : "0 ") + (nlms ? "1 " : "0 ") + std::to_string(len) + " " + vh::hx(mu) + " " + vh::hx(leak);
    s.win = 2 * W; s.mem = len; s.sig = SIG_SYS;
    s.make = [=]() {
        using P = LmsFilter<T>;
        return build<P>([=]() { return std::make_shared<P>(len, mu, nlms ? LmsType::NLMS : LmsType::LMS, leak); },
                        [W](P& f, const double* p, int k, VD& o) {
                            auto r = f.process(mk<T>(p, k, 2 * W, 0), mk<T>(p, k, 2 * W, W));
                            for (int i = 0; i < k; ++i) { TW<T>::put(o, r.y[i]); TW<T>::put(o, r.e[i]); }
                        },
                        [](P& f, VD& o) { put<T>(o, f.coeffs()); },
                        // len(x) != len(d): rejected before any state change
                        [W](P& f, const double* p, int k) { f.process(mk<T>(p, k, 2 * W, 0), mk<T>(p, k > 1 ? k - 1 : k + 1, 2 * W, W)); });
    };
    return s;
}
template<class T> static Spec spec_rls(int len, double lam, double dl) {
    Spec s;
    const bool cx = TW<T>::W == 2;
    const int W = TW<T>::W;
    s.proc = std::string("RlsFilter") + (cx ? "C" : "R");
    s.js = "\"len\":" + std::to_string(len) + ",\"forget\":" + vh::jnum(lam) + ",\"diag_load\":" + vh::jnum(dl);
    s.corr = std::string("frameR rls ") + (cx ? "1 " : "0 ") + std::to_string(len) + " " + vh::hx(lam) + " " + vh::hx(dl);
    s.win = 2 * W; s.mem = len; s.sig = SIG_SYS;
    s.make = [=]() {
        using P = RlsFilter<T>;
        return build<P>([=]() { return std::make_shared<P>(len, lam, dl); },
                        [W](P& f, const double* p, int k, VD& o) {
                            auto r = f.process(mk<T>(p, k, 2 * W, 0), mk<T>(p, k, 2 * W, W));
                            for (int i = 0; i < k; ++i) { TW<T>::put(o, r.y[i]); TW<T>::put(o, r.e[i]); }
                        },
                        [](P& f, VD& o) { put<T>(o, f.coeffs()); },
                        [W](P& f, const double* p, int k) { f.process(mk<T>(p, k, 2 * W, 0), mk<T>(p, k > 1 ? k - 1 : k + 1, 2 * W, W)); });
    };
    return s;
}

// ------------------------------------------------------------------------------------ inputs
static double g_in_scale = 1.0;   // absolute scale class of the inputs of the scenario in flight
static int g_zero_runs = 0;       // > 0: every other segment is a run of exact zeros (+0 / -0) of more than this many items
static VD gen_input(vh::Rng& r, const Spec& s, int nitems) {
    VD v((size_t)nitems * s.win);
    const int w = s.win;
    int i = 0;
    int segno = 0;
    while (i < nitems) {
        int seg = std::min(nitems - i, r.range(0, 3) == 0 ? r.range(1, 8) : r.range(1, std::max(2, nitems / 3 + 1)));
        int kind = r.range(0, 9);
        if (g_zero_runs > 0) {
            ++segno;
            if (segno % 2 == 0) { kind = 0; seg = std::min(nitems - i, g_zero_runs + r.range(1, g_zero_runs + 3)); }
            else { if (kind == 0) kind = 5; seg = std::min(nitems - i, r.range(1, g_zero_runs + 2)); }
        }
        const double zero = (g_zero_runs > 0 && r.coin()) ? -0.0 : 0.0;
        double sc = 1.0;
        switch (s.sig) {
        case SIG_DYN: sc = std::pow(10.0, (-70 + 80 * r.unit()) / 20); break;
        case SIG_MED: sc = 1.0; break;
        case SIG_SYS: sc = std::pow(10.0, -0.5 + r.unit()); break;
        default: sc = std::pow(10.0, -1.5 + 3 * r.unit()); break;
        }
        for (int k = 0; k < seg; ++k, ++i) {
            for (int c = 0; c < w; ++c) {
                double x;
                if (kind == 0) x = zero;                                  // silence
                else if (kind == 1) x = sc;                               // DC / plateau (ties for the median)
                else if (kind == 2 && s.sig == SIG_MED) x = std::round(2 * r.gauss()) / 2;   // quantised: many equal values
                else if (kind == 3) x = (k == 0) ? 8 * sc : 0.0;          // impulse
                else x = sc * r.gauss();
                v[(size_t)i * w + c] = x * g_in_scale;
            }
            if (s.sig == SIG_SYS) {
                // desired = a short FIR of the input + a little noise (keeps LMS/RLS in their working range)
                const int W = w / 2;
                for (int c = 0; c < W; ++c) {
                    const double x0 = v[(size_t)i * w + c], x1 = i > 0 ? v[(size_t)(i - 1) * w + c] : 0.0;
                    v[(size_t)i * w + W + c] = 0.7 * x0 - 0.3 * x1 + 0.01 * sc * g_in_scale * r.gauss();
                }
            }
        }
    }
    return v;
}

// ------------------------------------------------------------------------------------ running
struct RunRes { VD y; bool threw = false; std::string what; };
static RunRes run_frames(const Spec& s, const VD& in, const std::vector<int>& sizes) {
    RunRes rr;
    try {
        Inst p = s.make();
        size_t pos = 0;
        for (int sz : sizes) {
            p.run(in.data() + pos * s.win, sz, rr.y);
            pos += sz;
        }
        if (p.fin) p.fin(rr.y);
    } catch (const std::exception& e) {
        rr.threw = true;
        rr.what = e.what();
    }
    return rr;
}
static bool same(const VD& a, const VD& b) {
    return a.size() == b.size() && (a.empty() || std::memcmp(a.data(), b.data(), a.size() * sizeof(double)) == 0);
}
static long long first_diff(const VD& a, const VD& b) {
    const size_t n = std::min(a.size(), b.size());
    for (size_t i = 0; i < n; ++i)
        if (std::memcmp(&a[i], &b[i], 8) != 0) return (long long)i;
    return (long long)n;
}
static std::string jvd(const VD& v) {
    std::string s = "[";
    for (size_t i = 0; i < v.size(); ++i) { if (i) s += ","; s += vh::jnum(v[i]); }
    return s + "]";
}
static std::string witness(const Spec& s, const VD& in, const std::vector<int>& sizes, const RunRes& whole, const RunRes& fr, const char* mode) {
    std::string j = "{\"processor\":\"" + s.proc + "\"," + s.js + ",\"mode\":\"" + mode + "\",\"seed\":" + std::to_string(g_seed) +
                    ",\"case\":" + std::to_string(g_case) + ",\"items\":" + std::to_string(in.size() / s.win) +
                    ",\"frames\":" + (sizes.size() <= 64 ? vh::jints(sizes) : "\"" + std::to_string(sizes.size()) + " frames\"");
    if (in.size() <= 48) j += ",\"input\":" + jvd(in);
    if (whole.threw) j += ",\"whole_threw\":\"" + whole.what + "\"";
    if (fr.threw) j += ",\"framed_threw\":\"" + fr.what + "\"";
    if (!whole.threw && !fr.threw) {
        const long long d = first_diff(whole.y, fr.y);
        j += ",\"len_whole\":" + std::to_string(whole.y.size()) + ",\"len_framed\":" + std::to_string(fr.y.size()) + ",\"first_diff\":" + std::to_string(d);
        if (d < (long long)whole.y.size()) j += ",\"whole_at\":" + vh::jnum(whole.y[d]);
        if (d < (long long)fr.y.size()) j += ",\"framed_at\":" + vh::jnum(fr.y[d]);
    }
    return j + "}";
}
static void emit_corr(const Spec& s, const VD& in, const std::vector<int>& sizes, const VD& y) {
    if (s.corr.empty()) return;
    std::string l = s.corr + " " + std::to_string(sizes.size()) + vh::join_ints(sizes) + " " + std::to_string(in.size());
    for (double d : in) { l += " "; l += vh::hx(d); }
    std::string r = std::to_string(y.size());
    for (double d : y) { r += " "; r += vh::hx(d); }
    g_corr_bytes += (long long)l.size() + (long long)r.size();
    out.corr(l, r);
    out.stat("corr_" + s.proc);
}
// compare one framing with the whole-stream result
static bool check_framing(const Spec& s, const VD& in, const RunRes& whole, const std::vector<int>& sizes, const char* mode) {
    if (whole.threw) {   // no whole-stream result to compare with: outside the domain of the property (counted, not a framing failure)
        out.stat("whole_stream_call_threw_" + s.proc);
        return true;
    }
    ++out.n_oracle;
    const RunRes fr = run_frames(s, in, sizes);
    if (fr.threw || !same(whole.y, fr.y)) {
        out.fail("C06:" + s.proc + ":framing", witness(s, in, sizes, whole, fr, mode));
        return false;
    }
    return true;
}

// all 2^(k-1) compositions of k coarse granules (each = q granules = q*gran items)
static void compositions(vh::Rng& r, const Spec& s, int k, int q, int ncorr) {
    ++g_case;
    const int unit = q * s.gran;
    const int nitems = k * unit;
    const VD in = gen_input(r, s, nitems);
    vh::set_current("C06:" + s.proc + ":framing", "{\"processor\":\"" + s.proc + "\"," + s.js + ",\"mode\":\"compositions\",\"k\":" + std::to_string(k) +
                                                      ",\"q\":" + std::to_string(q) + ",\"seed\":" + std::to_string(g_seed) + ",\"case\":" + std::to_string(g_case) + "}");
    const RunRes whole = run_frames(s, in, {nitems});
    const unsigned nmask = 1u << (k - 1);
    std::vector<int> sizes;
    for (unsigned m = 0; m < nmask; ++m) {
        sizes.clear();
        int cur = unit;
        for (int b = 0; b < k - 1; ++b) {
            if (m & (1u << b)) { sizes.push_back(cur); cur = unit; }
            else cur += unit;
        }
        sizes.push_back(cur);
        check_framing(s, in, whole, sizes, "compositions");
    }
    out.stat("compositions_" + s.proc, nmask);
    out.stat("framings_k" + std::to_string(k), nmask);
    // correspondence: a few of these framings through the model
    for (int c = 0; c < ncorr && !whole.threw; ++c) {
        const unsigned m = (c == 0) ? (nmask - 1) : (unsigned)(r.next() % nmask);
        sizes.clear();
        int cur = unit;
        for (int b = 0; b < k - 1; ++b) {
            if (m & (1u << b)) { sizes.push_back(cur); cur = unit; }
            else cur += unit;
        }
        sizes.push_back(cur);
        const RunRes fr = run_frames(s, in, sizes);   // what the implementation returns for THIS framing
        if (!fr.threw) emit_corr(s, in, sizes, fr.y);
    }
    vh::clear_current();
}

// heavy-tailed random framing of `ngran` granules: sizes log-uniform in 1..4096 granules, plus sizes around the memory length
static std::vector<int> random_framing(vh::Rng& r, const Spec& s, int ngran, int maxg = 4096) {
    std::vector<int> sizes;
    int left = ngran;
    while (left > 0) {
        int g;
        const int c = r.range(0, 19);
        if (c == 0) g = 1;
        else if (c == 1) g = std::max(1, s.mem - 1);
        else if (c == 2) g = s.mem;
        else if (c == 3) g = s.mem + 1;
        else if (c == 4) g = 2 * s.mem + r.range(-1, 1);
        else if (c == 5) g = maxg;
        else g = (int)std::floor(std::exp(r.unit() * std::log((double)maxg + 0.999)));
        g = std::max(1, std::min(std::min(g, maxg), left));
        sizes.push_back(g * s.gran);
        left -= g;
    }
    return sizes;
}
static void frame_stats(const std::vector<int>& sizes, int gran) {
    for (int sz : sizes) {
        const int g = sz / gran;
        const char* b = g == 1 ? "1" : g < 8 ? "2-7" : g < 64 ? "8-63" : g < 512 ? "64-511" : g < 4096 ? "512-4095" : "4096";
        out.stat(std::string("frame_granules_") + b);
    }
}
static void random_framings(vh::Rng& r, const Spec& s, int ngran, int reps, bool corr) {
    ++g_case;
    const int nitems = ngran * s.gran;
    const VD in = gen_input(r, s, nitems);
    vh::set_current("C06:" + s.proc + ":framing", "{\"processor\":\"" + s.proc + "\"," + s.js + ",\"mode\":\"random\",\"items\":" + std::to_string(nitems) +
                                                      ",\"seed\":" + std::to_string(g_seed) + ",\"case\":" + std::to_string(g_case) + "}");
    const RunRes whole = run_frames(s, in, {nitems});
    for (int c = 0; c < reps; ++c) {
        const std::vector<int> sizes = random_framing(r, s, ngran);
        frame_stats(sizes, s.gran);
        check_framing(s, in, whole, sizes, "random");
        if (corr && c == 0 && !whole.threw) {
            const RunRes fr = run_frames(s, in, sizes);
            if (!fr.threw) emit_corr(s, in, sizes, fr.y);
        }
    }
    out.stat("random_" + s.proc, reps);
    out.stat("random_stream_items", nitems);
    vh::clear_current();
}

// several separately constructed instances, used interleaved: each must produce what it produces alone
static void interleaved(vh::Rng& r, const std::vector<Spec>& specs, int ngran_each) {
    ++g_case;
    const int n = (int)specs.size();
    std::vector<VD> ins(n);
    std::vector<RunRes> solo(n);
    std::vector<std::vector<int>> fr(n);
    std::string names;
    for (int i = 0; i < n; ++i) {
        const int ng = std::max(1, ngran_each + r.range(-ngran_each / 4, ngran_each / 4));
        ins[i] = gen_input(r, specs[i], ng * specs[i].gran);
        solo[i] = run_frames(specs[i], ins[i], {ng * specs[i].gran});
        fr[i] = random_framing(r, specs[i], ng, 512);
        names += (i ? "+" : "") + specs[i].proc;
    }
    vh::set_current("C06:" + specs[0].proc + ":independence", "{\"processors\":\"" + names + "\",\"seed\":" + std::to_string(g_seed) + ",\"case\":" + std::to_string(g_case) + "}");
    std::vector<RunRes> got(n);
    std::vector<Inst> inst;
    std::vector<size_t> pos(n, 0), fi(n, 0);
    bool ctor_ok = true;
    try {
        for (int i = 0; i < n; ++i) inst.push_back(specs[i].make());   // all constructed before any is used
    } catch (const std::exception& e) { ctor_ok = false; }
    if (ctor_ok) {
        int live = n;
        while (live > 0) {
            const int i = r.range(0, n - 1);
            if (fi[i] >= fr[i].size()) continue;
            const int sz = fr[i][fi[i]++];
            try {
                inst[i].run(ins[i].data() + pos[i] * specs[i].win, sz, got[i].y);
            } catch (const std::exception& e) { got[i].threw = true; got[i].what = e.what(); }
            pos[i] += sz;
            if (fi[i] >= fr[i].size()) {
                if (inst[i].fin && !got[i].threw) inst[i].fin(got[i].y);
                --live;
            }
        }
    }
    for (int i = 0; i < n; ++i) {
        if (solo[i].threw) { out.stat("whole_stream_call_threw_" + specs[i].proc); continue; }
        ++out.n_oracle;
        if (!ctor_ok || got[i].threw || !same(solo[i].y, got[i].y)) {
            std::string w = witness(specs[i], ins[i], fr[i], solo[i], got[i], "interleaved");
            w.insert(1, "\"with\":\"" + names + "\",");
            out.fail("C06:" + specs[i].proc + ":independence", w);
        }
    }
    out.stat("interleaved_groups");
    out.stat("interleaved_instances", n);
    vh::clear_current();
}

// ---- object lifetime.  A copy of a processor object (taken from a fresh prototype or mid-stream; by copy-construction, by
// copy-assignment over another live object, as an element of std::vector<P>(n, obj), by value) is an independent instance that
// starts from the copied state: it must emit exactly what a separately constructed object emits after the same prefix, whatever
// its source and its siblings are fed meanwhile, and the source must continue as if it had never been copied.
static const char* CLONE_MODE[] = {"copy-constructed", "copy-assigned over a live object", "element of vector(n, obj)", "passed by value and moved"};
static void copies(vh::Rng& r, const Spec& s, int ngran, bool fresh_proto) {
    ++g_case;
    const int NC = 4, w = s.win;
    const int npre = fresh_proto ? 0 : r.range(1, std::max(1, ngran / 2));
    const VD in = gen_input(r, s, ngran * s.gran);
    std::vector<VD> z(NC);
    std::vector<std::vector<int>> zf(NC);
    for (int m = 0; m < NC; ++m) {
        const int ng = std::max(1, ngran / 2 + r.range(-ngran / 4, ngran / 4));
        z[m] = gen_input(r, s, ng * s.gran);
        zf[m] = random_framing(r, s, ng, 512);
    }
    const int njunk = std::min(ngran, 3 * s.mem + 2) * s.gran;
    const VD junk = gen_input(r, s, njunk);
    std::vector<int> pre, post = random_framing(r, s, ngran - npre, 512);
    if (npre > 0) pre = random_framing(r, s, npre, 512);
    std::vector<int> all = pre;
    all.insert(all.end(), post.begin(), post.end());
    const std::string head = "{\"processor\":\"" + s.proc + "\"," + s.js + ",\"mode\":\"copies\",\"copied\":\"" + (fresh_proto ? "fresh prototype" : "mid-stream") +
                             "\",\"prefix_items\":" + std::to_string(npre * s.gran) + ",\"seed\":" + std::to_string(g_seed) + ",\"case\":" + std::to_string(g_case);
    vh::set_current("C06:" + s.proc + ":copy", head + "}");
    RunRes ga;
    std::vector<RunRes> gb(NC);
    try {
        Inst A = s.make();
        size_t pos = 0;
        VD dump;
        for (int sz : pre) { A.run(in.data() + pos * w, sz, ga.y); pos += sz; }
        std::vector<Inst> B;
        for (int m = 0; m < NC; ++m) B.push_back(A.clone(m, junk.data(), njunk));
        {   // a copy that processes other data and is destroyed
            Inst D = A.clone(r.range(0, 3), junk.data(), njunk);
            D.run(junk.data(), njunk, dump);
        }
        std::vector<size_t> fi(NC + 1, 0), ps(NC + 1, 0);
        int live = NC + 1;
        while (live > 0) {
            const int i = r.range(0, NC);
            const std::vector<int>& fr = i == NC ? post : zf[i];
            if (fi[i] >= fr.size()) continue;
            const int sz = fr[fi[i]++];
            if (i == NC) { A.run(in.data() + pos * w, sz, ga.y); pos += sz; }
            else {
                try { B[i].run(z[i].data() + ps[i] * w, sz, gb[i].y); } catch (const std::exception& e) { gb[i].threw = true; gb[i].what = e.what(); }
                ps[i] += sz;
            }
            if (fi[i] >= fr.size()) --live;
        }
        if (A.fin) A.fin(ga.y);
        for (int m = 0; m < NC; ++m) if (B[m].fin && !gb[m].threw) B[m].fin(gb[m].y);
    } catch (const std::exception& e) { ga.threw = true; ga.what = e.what(); }
    vh::clear_current();
    out.stat("copies_" + s.proc);
    // the original: one separately constructed object on the same framing
    const RunRes ea = run_frames(s, in, all);
    if (ea.threw) { out.stat("whole_stream_call_threw_" + s.proc); return; }
    ++out.n_oracle;
    if (ga.threw || !same(ea.y, ga.y)) {
        std::string wj = witness(s, in, all, ea, ga, "copies");
        wj.insert(1, "\"object\":\"the original, after " + std::string(fresh_proto ? "being used as prototype" : "being copied mid-stream") + "\",\"prefix_items\":" + std::to_string(npre * s.gran) + ",");
        out.fail("C06:" + s.proc + ":copy", wj);
    }
    // the copies: a separately constructed object fed the same prefix, then the copy's own frames
    for (int m = 0; m < NC && !ga.threw; ++m) {
        RunRes eb;
        try {
            Inst S = s.make();
            VD dump;
            size_t pos = 0;
            for (int sz : pre) { S.run(in.data() + pos * w, sz, dump); pos += sz; }
            pos = 0;
            for (int sz : zf[m]) { S.run(z[m].data() + pos * w, sz, eb.y); pos += sz; }
            if (S.fin) S.fin(eb.y);
        } catch (const std::exception& e) { eb.threw = true; eb.what = e.what(); }
        if (eb.threw) { out.stat("whole_stream_call_threw_" + s.proc); continue; }
        ++out.n_oracle;
        if (gb[m].threw || !same(eb.y, gb[m].y)) {
            std::string wj = witness(s, z[m], zf[m], eb, gb[m], "copies");
            wj.insert(1, "\"object\":\"the copy (" + std::string(CLONE_MODE[m]) + (fresh_proto ? ") of a fresh prototype" : ") taken mid-stream") + "\",\"prefix_items\":" +
                             std::to_string(npre * s.gran) + ",\"prefix_frames\":" + (pre.size() <= 32 ? vh::jints(pre) : "\"" + std::to_string(pre.size()) + " frames\"") + ",");
            out.fail("C06:" + s.proc + ":copy", wj);
        }
    }
}

// ---- large single calls after smaller ones (internal buffers that grow, block sizes of 2^14 / 2^16 / 2^17 / 49152)
static void large_frames(vh::Rng& r, const Spec& s0, const std::vector<int>& pattern, bool corr) {
    ++g_case;
    Spec s = s0;
    s.js += ",\"scenario\":\"large frames after small ones\"";
    std::vector<int> sizes;
    long long nitems = 0;
    for (int pz : pattern) { const int g = std::max(1, pz / s.gran); sizes.push_back(g * s.gran); nitems += g * s.gran; }
    const VD in = gen_input(r, s, (int)nitems);
    vh::set_current("C06:" + s.proc + ":framing", "{\"processor\":\"" + s.proc + "\"," + s.js + ",\"mode\":\"large-frames\",\"frames\":" + vh::jints(sizes) +
                                                      ",\"seed\":" + std::to_string(g_seed) + ",\"case\":" + std::to_string(g_case) + "}");
    const RunRes whole = run_frames(s, in, {(int)nitems});
    check_framing(s, in, whole, sizes, "large-frames");
    if (corr && !whole.threw) {
        const RunRes fr = run_frames(s, in, sizes);
        if (!fr.threw) emit_corr(s, in, sizes, fr.y);
    }
    out.stat("large_frames_" + s.proc);
    for (int sz : sizes) out.stat(sz > 131072 ? "frame_items_gt_2^17" : sz > 65536 ? "frame_items_gt_2^16" : sz > 16384 ? "frame_items_gt_2^14" : "frame_items_le_2^14");
    vh::clear_current();
}

// ---- inputs at an absolute scale class and / or with runs of exact zeros longer than the memory of the processor
static void special_inputs(vh::Rng& r, const Spec& s0, double scale, bool zero_runs, int ngran, bool corr) {
    Spec s = s0;
    char b[64];
    std::snprintf(b, sizeof b, "%g", scale);
    s.js += std::string(",\"input_scale\":") + b + ",\"zero_runs_longer_than_memory\":" + (zero_runs ? "true" : "false");
    g_in_scale = scale;
    g_zero_runs = zero_runs ? (s.mem + 1) * s.gran + 1 : 0;
    random_framings(r, s, ngran, 2, corr);
    g_in_scale = 1.0;
    g_zero_runs = 0;
    out.stat(std::string("special_inputs_scale_") + b);
    if (zero_runs) out.stat("special_inputs_zero_runs");
}

// ---- rejected calls inside a history: a call that throws must leave no trace
static void failed_calls(vh::Rng& r, const Spec& s0, int ngran) {
    Spec s = s0;
    s.js += ",\"scenario\":\"rejected calls between the frames\"";
    const int nitems = ngran * s.gran, w = s.win;
    if (nitems < s.gran + 3) return;
    ++g_case;
    const VD in = gen_input(r, s, nitems);
    const std::vector<int> sizes = random_framing(r, s, ngran, 64);
    vh::set_current("C06:" + s.proc + ":failed-call", "{\"processor\":\"" + s.proc + "\"," + s.js + ",\"seed\":" + std::to_string(g_seed) + ",\"case\":" + std::to_string(g_case) + "}");
    const RunRes whole = run_frames(s, in, {nitems});
    RunRes fr;
    int nbad = 0, accepted = 0;
    try {
        Inst p = s.make();
        if (!p.bad) { vh::clear_current(); return; }
        size_t pos = 0;
        auto bad = [&]() {
            const int k = r.range(0, std::min(nitems - s.gran - 1, 3 * s.gran + 5));
            ++nbad;
            if (!p.bad(in.data(), k)) ++accepted;
        };
        bad();
        for (int sz : sizes) {
            p.run(in.data() + pos * w, sz, fr.y);
            pos += sz;
            if (r.coin()) bad();
        }
        bad();
        if (p.fin) p.fin(fr.y);
    } catch (const std::exception& e) { fr.threw = true; fr.what = e.what(); }
    vh::clear_current();
    out.stat("failed_calls_" + s.proc, nbad);
    if (accepted) out.stat("invalid_call_accepted_" + s.proc, accepted);
    if (whole.threw) { out.stat("whole_stream_call_threw_" + s.proc); return; }
    ++out.n_oracle;
    if (fr.threw || !same(whole.y, fr.y)) {
        std::string wj = witness(s, in, sizes, whole, fr, "failed-calls");
        wj.insert(1, "\"rejected_calls\":" + std::to_string(nbad) + ",\"invalid_calls_accepted\":" + std::to_string(accepted) + ",");
        out.fail("C06:" + s.proc + ":failed-call", wj);
    }
}

// ------------------------------------------------------------------------------------ parameter generators
static arr_real taps_real(vh::Rng& r, int nh) {
    arr_real h(nh);
    const int kind = r.range(0, 4);
    for (int i = 0; i < nh; ++i) {
        switch (kind) {
        case 0: h[i] = r.gauss(); break;
        case 1: h[i] = r.gauss() * std::exp(-3.0 * i / nh); break;
        case 2: h[i] = (r.range(0, 3) == 0) ? r.gauss() : 0.0; break;   // sparse
        case 3: h[i] = (i == nh - 1 || i == 0) ? 1.0 + r.unit() : 0.01 * r.gauss(); break;   // weight on the first / last tap
        default: h[i] = r.sym(); break;
        }
    }
    if (std::abs(h[nh - 1]) < 1e-3) h[nh - 1] = 0.5 + r.unit();   // the oldest history sample always matters
    if (std::abs(h[0]) < 1e-3) h[0] = 0.5 + r.unit();
    return h;
}
static arr_cmplx taps_cmplx(vh::Rng& r, int nh) {
    const arr_real a = taps_real(r, nh), b = taps_real(r, nh);
    arr_cmplx h(nh);
    for (int i = 0; i < nh; ++i) h[i] = cmplx_t{a[i], b[i]};
    return h;
}
// multirate taps with a non-zero sum (polyphase() divides by it) and weight on the last tap
static arr_real taps_multirate(vh::Rng& r, int nh) {
    arr_real h(nh);
    double sum = 0;
    for (int i = 0; i < nh; ++i) { h[i] = 0.2 * r.gauss() + std::exp(-4.0 * std::abs(i - nh / 2.0) / nh); sum += h[i]; }
    if (std::abs(sum) < 0.1) h[0] += 1.0;
    return h;
}
static arr_real taps_type3(vh::Rng& r, int nh) {   // odd length, antisymmetric, zero centre
    arr_real h(nh);
    for (int i = 0; i < nh / 2; ++i) { h[i] = r.gauss() + (i == 0 ? 2.0 : 0.0); h[nh - 1 - i] = -h[i]; }
    h[nh / 2] = 0.0;
    return h;
}
static DynP rnd_dyn(vh::Rng& r) {
    static const int fss[] = {10, 50, 200, 1000, 8000, 16000, 44100, 48000, 96000};
    DynP q;
    q.fs = fss[r.range(0, 8)];
    q.T = r.range(0, 6) == 0 ? (r.coin() ? 0.0 : -50.0) : -50 * r.unit();
    q.R = r.range(0, 5) == 0 ? (r.coin() ? 1 : 50) : r.range(1, 50);
    q.W = r.range(0, 3) == 0 ? 0.0 : 20 * r.unit();
    auto tm = [&]() { const int k = r.range(0, 7); return k == 0 ? 0.0 : k == 1 ? 4.0 : std::pow(10.0, -4 + 4.6 * r.unit()); };
    q.ta = tm(); q.tr = tm();
    // hold time: a few samples to a few hundred (the hold counter must survive frame boundaries)
    q.th = r.range(0, 3) == 0 ? 0.0 : std::min(4.0, (double)r.range(1, 300) / q.fs + 0.25 / q.fs);
    return q;
}
static AgcP rnd_agc(vh::Rng& r, int n) {
    AgcP q;
    q.tg = std::pow(10.0, -2 + 3 * r.unit());
    q.mg = r.range(0, 3) == 0 ? 6.0 : 10 + 70 * r.unit();
    q.n = n;
    q.tr = std::pow(10.0, -3 + 2.5 * r.unit());
    q.tf = std::pow(10.0, -3 + 2.5 * r.unit());
    return q;
}

// ------------------------------------------------------------------------------------ driver of the sweeps
static bool TH = false;
static int KFINE = 8;
static long long CORR_BUDGET = 0;

// exhaustive part for one parameter point
static std::map<std::string, long long> g_points, g_bytes;
static void sweep(vh::Rng& r, const Spec& s, bool allk = true) {
    const long long idx = g_points[s.proc]++;
    const int stride = s.cstride == -1 ? (TH ? 8 : 2) : s.cstride == -2 ? (TH ? 3 : 1) : s.cstride;
    const long long before = g_corr_bytes;
    const bool corr_ok = g_bytes[s.proc] < CORR_BUDGET && (idx + (long long)g_seed) % stride == 0;
    // fine scale: every composition of k granules, k = 1..K
    const int K = (s.fineq > 1 && !allk) ? std::min(KFINE, 10) : KFINE;
    if (s.fineq == 1) {
        for (int k = 1; k < K; ++k) compositions(r, s, k, 1, 0);
    }
    // FftFilter: granules of a fraction of the block so that the K granules span ~3.4 blocks (the overlap of a block
    // reaches the output two blocks later)
    const int fq = s.fineq == 1 ? 1 : (34 * s.mem / 10) / K + 1;
    compositions(r, s, K, fq, corr_ok ? 1 : 0);
    // coarse scale: 8 chunks spanning ~2.5x the memory of the processor
    const int qb = (5 * s.mem + 15) / 16;
    if (qb > 1 && s.fineq == 1) compositions(r, s, 8, qb, (corr_ok && (long long)qb * 8 * s.gran * s.mem <= 400000) ? 2 : 0);
    out.stat("param_points_" + s.proc);
    g_bytes[s.proc] += g_corr_bytes - before;
}

int main(int argc, char** argv) {
    vh::Args a(argc, argv);
    vh::install_guards();
    g_seed = a.seed;
    TH = a.thorough;
    KFINE = TH ? 12 : 8;
    CORR_BUDGET = TH ? 1600000LL : 450000LL;   // per processor
    vh::Rng rng(a.seed * 0x9e3779b97f4a7c15ULL + 606);
    vh::watch(TH ? 3400 : 900);
    const int sd = int(a.seed % 1000);

    auto pick = [&](int i, int stride) { return TH || ((i + sd) % stride == 0); };
    static const int edge[] = {2, 3, 4, 5, 7, 8, 9, 15, 16, 17, 31, 32, 33, 63, 64, 65, 100, 127, 128, 129, 200, 255, 256, 257, 299, 300};
    auto is_edge = [&](int n) { return std::find(std::begin(edge), std::end(edge), n) != std::end(edge); };

    // ---------------- FIR filters: lengths 2..300
    for (int nh = 2; nh <= 300; ++nh) {
        if (!(TH || is_edge(nh) || (nh + sd) % 9 == 0)) continue;
        sweep(rng, spec_fir<real_t>(taps_real(rng, nh)));
        sweep(rng, spec_fir<cmplx_t>(taps_cmplx(rng, nh)));
        const bool full = (nh + sd) % 6 == 0 || nh <= 8;
        sweep(rng, spec_fft<real_t>(taps_real(rng, nh)), full);
        sweep(rng, spec_fft<cmplx_t>(taps_cmplx(rng, nh)), full);
    }
    // ---------------- moving average, delay: lengths 1..300
    for (int n = 1; n <= 300; ++n) {
        if (!(TH || n == 1 || is_edge(n) || (n + sd) % 11 == 0)) continue;
        sweep(rng, spec_ma<real_t>(n));
        sweep(rng, spec_ma<cmplx_t>(n));
        sweep(rng, spec_delay<real_t>(n));
        sweep(rng, spec_delay<cmplx_t>(n));
        if (n % 3 == sd % 3) sweep(rng, spec_delay_init(taps_real(rng, n)));
    }
    // ---------------- median filter: orders 3..33 (+ a few larger)
    for (int n = 3; n <= 40; ++n) {
        if (n > 33 && n != 40) continue;
        sweep(rng, spec_median(n, 0.0));
        sweep(rng, spec_median(n, (n & 1) ? 1.5 : -0.25));
    }
    // ---------------- Hilbert filter: explicit type-3 taps and the default design
    for (int nh = 3; nh <= 301; nh += 2) {
        if (!(TH || nh <= 9 || is_edge(nh) || is_edge(nh - 1) || (nh + sd) % 13 == 0)) continue;
        sweep(rng, spec_hilbert(0, taps_type3(rng, nh), 0, 0));
    }
    for (int flen = 3; flen <= 301; ++flen) {
        if (!(TH ? (flen % 2 == 1 || flen % 10 == 0) : (flen == 3 || flen == 4 || flen == 51 || flen == 100 || flen == 301 || (flen + sd) % 17 == 0))) continue;
        try {
            sweep(rng, spec_hilbert(1, arr_real(), flen, (flen % 3 == 0) ? 0.05 : 0.01));
        } catch (const std::exception& e) { out.stat("hilbert_default_ctor_threw"); }
    }
    // ---------------- tuner
    {
        static const int fss[] = {2, 3, 4, 5, 7, 8, 11, 16, 100, 8000, 44100};
        for (int fs : fss) {
            std::vector<double> fr = {0.0, 1.0, -1.0, double(fs / 2), -double(fs / 2), 0.5, -0.25, fs / 4.0, fs / 3.0, (fs / 2) * rng.sym()};
            for (double f : fr) {
                if (std::abs(f) > fs / 2) continue;
                sweep(rng, spec_tuner(fs, f));
            }
        }
    }
    // ---------------- multirate converters: L, M in 1..12 plus 160/441 and 147/160
    {
        std::vector<std::pair<int, int>> pairs;
        for (int L = 1; L <= 12; ++L)
            for (int M = 1; M <= 12; ++M) pairs.push_back({L, M});
        const std::vector<std::pair<int, int>> audio = {{160, 441}, {147, 160}, {441, 160}, {160, 147}};
        for (auto p : audio) pairs.push_back(p);
        int idx = 0;
        for (auto [L, M] : pairs) {
            ++idx;
            const bool big = L > 12 || M > 12;
            if (!(TH || big || (L <= 4 && M <= 4) || (idx + sd) % 3 == 0)) continue;
            const int mx = std::max(L, M);
            // custom taps: lengths not a multiple of the branch count included (zero padding inside polyphase)
            const int nh1 = big ? mx * rng.range(3, 6) + rng.range(0, mx - 1) : std::max(1, mx * rng.range(1, 8) + rng.range(-1, mx - 1));
            const arr_real h = taps_multirate(rng, nh1);
            if (M == 1 || big || L == M) sweep(rng, spec_rs(0, L, 1, h));             // interpolator (every L once)
            if (L == 1 || big || L == M) sweep(rng, spec_rs(1, 1, M, h));             // decimator
            sweep(rng, spec_rs(2, L, M, h));                                            // rate converter, reduced or not
            sweep(rng, spec_rs(3, L, M, h));                                            // wrapper (bypass / decim / interp / rateconv)
            if ((idx + sd) % 3 == 0 || big) {                                           // default designs
                if (M == 1 && L > 1) sweep(rng, spec_rs(0, L, 1, arr_real()));
                if (L == 1 && M > 1) sweep(rng, spec_rs(1, 1, M, arr_real()));
                if (L != M) sweep(rng, spec_rs(2, L, M, arr_real()));
                sweep(rng, spec_rs(3, L, M, arr_real()));
            }
        }
    }
    // ---------------- AGC and dynamics
    {
        static const int lens[] = {1, 2, 3, 7, 10, 33, 100, 300};
        for (int n : lens) {
            for (int rep = 0; rep < (TH ? 4 : 1); ++rep) {
                sweep(rng, spec_agc<real_t>(rnd_agc(rng, n)));
                sweep(rng, spec_agc<cmplx_t>(rnd_agc(rng, n)));
            }
        }
        const int nd = TH ? 60 : 20;
        for (int i = 0; i < nd; ++i)
            for (int kind = 0; kind < 3; ++kind) sweep(rng, spec_dyn(kind, rnd_dyn(rng)));
    }
    // ---------------- adaptive filters: lengths 2..33 (LmsFilter(1, ..) cannot process at all: `tu.slice(nx, nx)` throws on every
    // call, whole stream or framed; RlsFilter also at length 1)
    for (int len = 1; len <= 33; ++len) {
        if (len == 1) {
            sweep(rng, spec_rls<real_t>(1, 0.97, 2.0));
            sweep(rng, spec_rls<cmplx_t>(1, 0.97, 2.0));
            continue;
        }
        if (!(TH || len <= 5 || is_edge(len) || (len + sd) % 2 == 0)) continue;
        const double mu_l = 0.05 / len, mu_n = 0.1 + 1.2 * rng.unit();
        const double leak = (len % 3 == 0) ? 0.999 : 1.0;
        sweep(rng, spec_lms<real_t>(len, mu_l, false, leak));
        sweep(rng, spec_lms<cmplx_t>(len, mu_l, false, leak));
        sweep(rng, spec_lms<real_t>(len, mu_n, true, leak));
        sweep(rng, spec_lms<cmplx_t>(len, mu_n, true, leak));
        const double lam = (len % 4 == 0) ? 1.0 : 0.9 + 0.099 * rng.unit(), dl = std::pow(10.0, -1 + 3 * rng.unit());
        sweep(rng, spec_rls<real_t>(len, lam, dl));
        sweep(rng, spec_rls<cmplx_t>(len, lam, dl));
    }
    out.stat("corr_bytes_exhaustive", g_corr_bytes);

    // ---------------- heavy-tailed random framings of long streams (to 1e5 samples) + interleaved instances
    {
        auto rnd_spec = [&](int which) -> Spec {
            const int nh = rng.range(0, 2) == 0 ? edge[rng.range(0, 25)] : rng.range(2, 300);
            const int L = rng.range(0, 5) == 0 ? 160 : rng.range(1, 12), M = (L == 160) ? 441 : rng.range(1, 12);
            const int L2 = rng.range(0, 5) == 0 ? 147 : rng.range(1, 12), M2 = (L2 == 147) ? 160 : rng.range(1, 12);
            const int len = rng.range(2, 33);
            switch (which) {
            case 0: return spec_fir<real_t>(taps_real(rng, nh));
            case 1: return spec_fir<cmplx_t>(taps_cmplx(rng, nh));
            case 2: return spec_fft<real_t>(taps_real(rng, nh));
            case 3: return spec_fft<cmplx_t>(taps_cmplx(rng, nh));
            case 4: return spec_ma<real_t>(rng.range(1, 300));
            case 5: return spec_ma<cmplx_t>(rng.range(1, 300));
            case 6: return spec_delay<real_t>(rng.range(1, 300));
            case 7: return spec_delay<cmplx_t>(rng.range(1, 300));
            case 8: return spec_median(rng.range(3, 33), 0.0);
            case 9: return spec_hilbert(0, taps_type3(rng, 2 * rng.range(1, 150) + 1), 0, 0);
            case 10: return spec_hilbert(1, arr_real(), rng.range(3, 301) | 1, 0.01);
            case 11: { const int fs = rng.coin() ? rng.range(2, 64) : 44100; return spec_tuner(fs, rng.coin() ? double(rng.range(-(fs / 2), fs / 2)) : (fs / 2) * rng.sym()); }
            case 12: return spec_rs(0, L, 1, taps_multirate(rng, L * rng.range(1, 8) + rng.range(0, L - 1)));
            case 13: return spec_rs(1, 1, M, taps_multirate(rng, M * rng.range(1, 8) + rng.range(0, M - 1)));
            case 14: return spec_rs(2, L, M, taps_multirate(rng, std::max(L, M) * rng.range(2, 8) + rng.range(0, L - 1)));
            case 15: return spec_rs(3, L2, M2, taps_multirate(rng, std::max(L2, M2) * rng.range(2, 8) + rng.range(0, L2 - 1)));
            case 16: return spec_rs(3, L2, M2, arr_real());
            case 17: return spec_agc<real_t>(rnd_agc(rng, rng.range(1, 300)));
            case 18: return spec_agc<cmplx_t>(rnd_agc(rng, rng.range(1, 300)));
            case 19: return spec_dyn(0, rnd_dyn(rng));
            case 20: return spec_dyn(1, rnd_dyn(rng));
            case 21: return spec_dyn(2, rnd_dyn(rng));
            case 22: return spec_lms<real_t>(len, 0.05 / len, false, 1.0);
            case 23: return spec_lms<cmplx_t>(len, 0.05 / len, false, 0.9999);
            case 24: return spec_lms<real_t>(len, 0.2 + rng.unit(), true, 1.0);
            case 25: return spec_lms<cmplx_t>(len, 0.2 + rng.unit(), true, 1.0);
            case 26: return spec_rls<real_t>(len, 0.95 + 0.05 * rng.unit(), 10.0);
            default: return spec_rls<cmplx_t>(len, 0.95 + 0.05 * rng.unit(), 10.0);
            }
        };
        const int NK = 28;
        const int reps = TH ? 10 : 3;
        for (int rep = 0; rep < reps; ++rep) {
            for (int w = 0; w < NK; ++w) {
                const Spec s = rnd_spec(w);
                // stream length in samples: up to 1e5 (RLS of high order: bounded work)
                int nsamp = (rep % 2 == 0) ? 100000 : rng.range(5000, 100000);
                if (w >= 26) nsamp = std::min(nsamp, 3000000 / (s.mem * s.mem + 20));
                if (w == 8) nsamp = std::min(nsamp, 60000);
                if (s.ratio > 1) nsamp = std::min(nsamp, std::max(2000, int(2500000 / s.ratio)));
                const int ngran = std::max(1, nsamp / s.gran);
                random_framings(rng, s, ngran, TH ? 3 : 2, false);
                // a medium stream of the same processor through the model
                if (rep < (TH ? 3 : 1)) {
                    const int g2 = std::max(2, std::min(ngran, std::min(600, 60000 / std::max(1, s.mem)) / s.gran + 3 * s.mem / 2 + 2));
                    if ((long long)g2 * s.gran * s.mem <= 600000 && (w < 26 || s.mem <= 12)) random_framings(rng, s, g2, 1, true);
                }
            }
        }
        // interleaved instances: same type with different parameters, and mixed types (FFT based filters of different
        // sizes share the per-thread plan cache; AGCs hold their state behind a shared_ptr)
        const int ngroups = TH ? 120 : 40;
        for (int g = 0; g < ngroups; ++g) {
            std::vector<Spec> grp;
            const int n = rng.range(2, 4);
            const int base = rng.range(0, NK - 1);
            for (int i = 0; i < n; ++i) grp.push_back(rnd_spec((g % 2 == 0) ? base : rng.range(0, NK - 1)));
            int ng = rng.range(200, TH ? 6000 : 2500);
            for (auto& s : grp)
                if (s.proc.rfind("Rls", 0) == 0) ng = std::min(ng, 200000 / (s.mem * s.mem + 20) + 50);
            interleaved(rng, grp, ng);
        }
        // two instances of the SAME parameters fed different data, and a copy-constructed instance
        for (int w = 0; w < NK; ++w) {
            const Spec s = rnd_spec(w);
            int ng = rng.range(100, 1500);
            if (w >= 26) ng = std::min(ng, 200000 / (s.mem * s.mem + 20) + 50);
            interleaved(rng, {s, s, s}, ng);
        }
        // ---------------- object lifetime: copies of every processor, from a fresh prototype and mid-stream
        {
            const int reps = TH ? 8 : 2;
            for (int rep = 0; rep < reps; ++rep)
                for (int w = 0; w < NK; ++w) {
                    const Spec s = rnd_spec(w);
                    int ng = rng.range(40, TH ? 3000 : 700);
                    if (rep % 2 == 1) ng = std::min(ng, 4 * s.mem + rng.range(3, 40));   // streams of a few memory lengths: the copied history matters everywhere
                    if (w >= 26) ng = std::min(ng, 100000 / (s.mem * s.mem + 20) + 30);
                    if (s.ratio > 1) ng = std::min(ng, std::max(20, int(200000 / s.ratio)));
                    copies(rng, s, std::max(4, ng), (w + rep + sd) % 2 == 0);
                }
        }
        // ---------------- large frames after small ones: 20000, 70000, 140000 samples (and 2^k, 2^k + 1, k * 49152 in the thorough tier)
        {
            auto bounded_spec = [&](int w) {
                for (int t = 0; t < 50; ++t) {
                    const Spec s = rnd_spec(w);
                    if (s.ratio <= 12 && !(w >= 26 && s.mem > 6) && !(w == 8 && s.mem > 15)) return s;
                }
                return rnd_spec(w);
            };
            std::vector<std::vector<int>> pats = {{137, 20000, 1, 70000, 513, 140000, 7}};
            if (TH) {
                pats.push_back({5000, 30000, 25000});
                pats.push_back({100, 20000, 39900});
                pats.push_back({1, 16385, 32769, 65537, 131073});
                pats.push_back({64, 65536, 3, 131072, 65536});
                pats.push_back({1000, 49152, 98304, 5, 147456});
                pats.push_back({140000, 70000, 20000, 33});
                pats.push_back({3, 16384, 16385, 2, 140000});
            }
            for (size_t pi = 0; pi < pats.size(); ++pi)
                for (int w = 0; w < NK; ++w) large_frames(rng, bounded_spec(w), pats[pi], false);
            // the same class through the model (bounded volume): a 20000-sample frame after a short one
            static const int cw[] = {0, 12, 4, 13, 6, 14, 2};
            for (int j = 0; j < (TH ? 7 : 3); ++j) {
                for (int t = 0; t < 50; ++t) {
                    const Spec s = rnd_spec(cw[(j + sd) % 7]);
                    if (s.ratio > 3 || s.mem > 40) continue;
                    large_frames(rng, s, {300, 20000, 700}, true);
                    break;
                }
            }
        }
        // ---------------- absolute scale classes of inputs and coefficients, exact-zero runs longer than the memory
        {
            static const double SC[] = {1e-300, 1e-17, 0x1p-60, 1e-8, 1.0, 1e8, 0x1p60, 1e100};
            auto scaled = [](arr_real h, double f) { for (int i = 0; i < h.size(); ++i) h[i] *= f; return h; };
            auto scaledc = [](arr_cmplx h, double f) { for (int i = 0; i < h.size(); ++i) { h[i].re *= f; h[i].im *= f; } return h; };
            int c = sd;
            const int reps = TH ? 4 : 1;
            for (int rep = 0; rep < reps; ++rep)
                for (int i = 0; i < 8; ++i, ++c) {
                    const double sc = SC[i];
                    // coefficient vectors at the class scale, inputs at a class that keeps the products inside the double range
                    double sx = SC[(c * 3 + rep) % 8];
                    if (std::log10(sc) + std::log10(sx) < -300.5 || std::log10(sc) + std::log10(sx) > 250) sx = 1.0;
                    const int nh = rng.range(0, 1) ? edge[rng.range(0, 20)] : rng.range(2, 200);
                    const int ng = rng.range(200, TH ? 20000 : 3000);
                    const bool corr = !TH || rep == 0;
                    const bool zr = (c % 2) == 0;
                    special_inputs(rng, spec_fir<real_t>(scaled(taps_real(rng, nh), sc)), sx, zr, ng, corr && nh <= 64);
                    special_inputs(rng, spec_fir<cmplx_t>(scaledc(taps_cmplx(rng, nh), sc)), sx, !zr, ng, false);
                    special_inputs(rng, spec_fft<real_t>(scaled(taps_real(rng, nh), sc)), sx, !zr, ng, false);
                    special_inputs(rng, spec_fft<cmplx_t>(scaledc(taps_cmplx(rng, nh), sc)), sx, zr, ng, corr && nh <= 32);
                    const int L = rng.range(1, 8), M = rng.range(1, 8);
                    const arr_real hm = scaled(taps_multirate(rng, std::max(L, M) * rng.range(2, 6) + rng.range(0, 3)), sc);
                    special_inputs(rng, spec_rs(0, L, 1, hm), sx, zr, ng, corr && i % 2 == 0);
                    special_inputs(rng, spec_rs(1, 1, M, hm), sx, !zr, ng, corr && i % 2 == 1);
                    special_inputs(rng, spec_rs(2, L, M, hm), sx, zr, ng, false);
                    special_inputs(rng, spec_rs(3, L, M, hm), sx, !zr, ng, false);
                    // processors without coefficient vectors: the input at the class scale
                    for (int w : {4, 5, 6, 7, 8, 9, 10, 11, 17, 18, 19, 20, 21, 22, 23, 24, 25, 26, 27}) {
                        if (!TH && (w + c) % 3 != 0) continue;
                        const Spec s = rnd_spec(w);
                        int g2 = ng;
                        if (w >= 26) g2 = std::min(g2, 100000 / (s.mem * s.mem + 20) + 30);
                        special_inputs(rng, s, sc, (w + c) % 2 == 0, g2, false);
                    }
                }
        }
        // ---------------- rejected calls inside a history (frame not a multiple of decim_rate(); len(x) != len(d))
        {
            const int reps = TH ? 10 : 2;
            for (int rep = 0; rep < reps; ++rep)
                for (int w : {13, 14, 15, 16, 22, 23, 24, 25, 26, 27}) {
                    const Spec s = rnd_spec(w);
                    int ng = rng.range(5, TH ? 2000 : 400);
                    if (w >= 26) ng = std::min(ng, 100000 / (s.mem * s.mem + 20) + 30);
                    failed_calls(rng, s, ng);
                }
        }
    }
    out.stat("distinct_nontrivial", out.n_oracle);
    vh::unwatch();
    out.finish();
    return 0;
}
