// C02 — inverse transforms invert the forward transforms.
//
// ORACLE (on the implementation, references in long double):
//   * ifft: every n in 1..512 (quick) / 1..2048 (thorough) + sampled larger n (to 2^17):
//       ||ifft(fft(x)) - x||_2 <= 64 n eps ||x||_2,  ||fft(ifft(X)) - X||_2 <= 64 n eps ||X||_2,
//       ||ifft(X) - idft_ld(X)||_2 <= 32 n eps ||idft(X)||_2   (direct long-double inverse DFT, all samples for n <= 2048),
//       free function and IfftPlan object (object reused across calls: stale state);
//   * irfft: every even n in 2..N both input forms (n bins / n/2+1 bins) against the long-double inverse real DFT
//       of the given bins, the two forms bit-identical, irfft(rfft(x)) = x, irfft(X) one-argument overload,
//       every odd n (and n <= 0) rejected with an exception; sampled larger even n (2p, 4q, 2^k, 2 x odd composite);
//   * stft/istft: nfft in {8..1024 powers of two} + other multiples of 4 (+ a few even non-multiples of 4), windows
//       {hann, hamming, blackman, cosine, kaiser, rectangular} symmetric and periodic, nwin = nfft and nwin < nfft,
//       EVERY overlap in 0..nwin-1 for which iscola(win, overlap, method) holds, ranges {onesided, twosided, centered},
//       methods {ola, wola}, signal lengths not aligned to the hop:
//       output length nwin + (nseg-1) hop, ALL values finite, and on every sample whose accumulated window weight
//       W[t] = sum_i win^(a+1)[t - i hop] (own long-double evaluation) exceeds the code's guard nseg*eps (`norm <= nseg*eps ? 1 : norm`):
//          |istft(stft(x))[t] - x[t]| <= 4 eps nfft ||x||_2 * A[t],   A[t] = sum_i |win^a[t - i hop]| / W[t] >= 1
//       (A[t] is the condition number of the code's normalisation x = sum_i y_i win^a / W: an error e in a
//        re-synthesised frame sample reaches the output multiplied by win^a / W);
//       frame layout of the three ranges against each other; overlap >= nwin rejected by iscola and stft;
//       a signal shorter than one window (zero frames).
//   * histories with REJECTED calls (section 4): every result above must also hold when calls that throw (odd irfft lengths by every
//       entry point, wrong bin counts, plan objects applied to the wrong length, istft with an odd nfft / frames of the wrong length,
//       stft with overlap >= nwin, empty inputs, n <= 0) precede it on the same thread: all histories of length <= 3 (thorough 4) over a
//       20-letter alphabet of valid and rejected calls around a base length (n, n-2, n+2 valid; n+1, n-1 rejected), random longer
//       histories over several base lengths; each valid result is compared BIT-EXACTLY with the same call in a fresh thread and
//       against the round-trip bound; each rejected call must throw.  The sweeps 1-3 issue rejected calls for the neighbouring
//       lengths before half of their lengths as well (worker threads live across many lengths).
// CORR: ifft / irfft / iscola / stft / istft calls replayed by the Lean model (Model/Ifft.lean) at Float (the model is stateless:
//       results obtained after rejected calls go through the same correspondence).
#include "common.hpp"
#include <limits>
#include <thread>
#include <atomic>
#include <algorithm>
#include <set>
#include <mutex>
using namespace dsplib;
typedef long double ld;

static const ld TWO_PI = 6.283185307179586476925286766559005768L;
static const ld EPSD = 2.220446049250313080847263336181640625e-16L;

struct C { ld re, im; };
static inline C operator+(C a, C b) { return {a.re + b.re, a.im + b.im}; }
static inline C operator-(C a, C b) { return {a.re - b.re, a.im - b.im}; }
static inline C operator*(C a, C b) { return {a.re * b.re - a.im * b.im, a.re * b.im + a.im * b.re}; }
static inline C cj(C a) { return {a.re, -a.im}; }
static inline ld n2(C a) { return a.re * a.re + a.im * a.im; }
typedef std::vector<C> CV;

// ---------------------------------------------------------------- per-task result (threads)
struct Res {
    std::vector<std::pair<std::string, std::string>> corr;
    std::vector<std::pair<std::string, std::string>> hcorr;   // correspondence cases from histories: printed once per distinct (call, result)
    std::vector<std::pair<std::string, std::string>> fails;
    std::map<std::string, long long> stats;
    std::map<std::string, double> worst;   // max err/bound per category
    std::vector<std::string> samples;
    long long n_oracle = 0;
};

static vh::Out out;
static std::map<std::string, double> g_worst;

static std::set<std::string> g_hcorr_seen;

static void merge(const Res& r) {
    for (auto& c : r.corr) out.corr(c.first, c.second);
    for (auto& c : r.hcorr)
        if (g_hcorr_seen.insert(c.first + "|" + c.second).second) { out.corr(c.first, c.second); out.stat("corr_cases_from_histories"); }
    for (auto& f : r.fails) out.fail(f.first, f.second);
    for (auto& s : r.stats) out.stat(s.first, s.second);
    for (auto& w : r.worst) g_worst[w.first] = std::max(g_worst[w.first], w.second);
    for (auto& s : r.samples) out.sample(s);
    out.n_oracle += r.n_oracle;
}

template<class F>
static void parallel_for(int ntasks, const std::vector<int>& order, F fn) {
    std::vector<Res> results(ntasks);
    std::atomic<int> next{0};
    int nt = int(std::thread::hardware_concurrency());
    if (nt < 1) nt = 1;
    if (nt > 12) nt = 12;
    if (const char* e = std::getenv("VERIF_THREADS")) nt = std::max(1, std::atoi(e));
    std::vector<std::thread> th;
    for (int t = 0; t < nt; ++t)
        th.emplace_back([&] {
            for (;;) {
                const int i = next.fetch_add(1);
                if (i >= ntasks) break;
                const int id = order.empty() ? i : order[i];
                fn(id, results[id]);
            }
        });
    for (auto& t : th) t.join();
    for (auto& r : results) merge(r);
}

static void note(Res& R, const std::string& cat, double ratio) {
    auto& w = R.worst[cat];
    if (ratio > w) w = ratio;
}

// ---------------------------------------------------------------- reference tables
struct Table {
    int n;
    std::vector<C> w;   // w[r] = exp(+2 pi i r / n)   (inverse direction)
    explicit Table(int n_) : n(n_), w(n_) {
        for (int r = 0; r < n; ++r) {
            const ld t = TWO_PI * ld(r) / ld(n);
            w[r] = {cosl(t), sinl(t)};
        }
    }
};

// x[t] = (1/n) sum_k X[k] exp(+2 pi i k t / n)
static C idft_at(const CV& X, const Table& T, int t) {
    C acc{0, 0};
    const int n = T.n;
    int idx = 0;
    for (int k = 0; k < n; ++k) {
        acc = acc + X[k] * T.w[idx];
        idx += t;
        if (idx >= n) idx -= n;
    }
    return {acc.re / n, acc.im / n};
}
// forward bin (for the fft(ifft(X)) direction nothing but X itself is needed)

// the real signal whose n-point transform has the bins X[0..n/2] (n even): only Re of bins 0 and n/2 enter
static ld irdft_at(const CV& X, const Table& T, int t) {
    const int n = T.n, h = n / 2;
    ld acc = X[0].re + ((t % 2) ? -X[h].re : X[h].re);
    int idx = t % n;
    for (int k = 1; k < h; ++k) {
        acc += 2 * (X[k].re * T.w[idx].re - X[k].im * T.w[idx].im);
        idx += t;
        if (idx >= n) idx -= n;
    }
    return acc / n;
}

static CV to_cv(const arr_cmplx& a) {
    CV v(a.size());
    for (int i = 0; i < a.size(); ++i) v[i] = {a[i].re, a[i].im};
    return v;
}
static ld l2(const CV& x) {
    ld s = 0;
    for (auto& v : x) s += n2(v);
    return sqrtl(s);
}
static ld l2(const arr_real& x) {
    ld s = 0;
    for (int i = 0; i < x.size(); ++i) s += ld(x[i]) * x[i];
    return sqrtl(s);
}
static ld l2(const arr_cmplx& x) {
    ld s = 0;
    for (int i = 0; i < x.size(); ++i) s += ld(x[i].re) * x[i].re + ld(x[i].im) * x[i].im;
    return sqrtl(s);
}
static bool all_finite(const arr_real& x) {
    for (int i = 0; i < x.size(); ++i) if (!std::isfinite(x[i])) return false;
    return true;
}
static bool all_finite(const arr_cmplx& x) {
    for (int i = 0; i < x.size(); ++i) if (!std::isfinite(x[i].re) || !std::isfinite(x[i].im)) return false;
    return true;
}
static ld diff_l2(const arr_cmplx& a, const arr_cmplx& b) {
    ld s = 0;
    for (int i = 0; i < a.size(); ++i) {
        const ld dr = ld(a[i].re) - b[i].re, di = ld(a[i].im) - b[i].im;
        s += dr * dr + di * di;
    }
    return sqrtl(s);
}
static ld diff_l2(const arr_real& a, const arr_real& b) {
    ld s = 0;
    for (int i = 0; i < a.size(); ++i) {
        const ld d = ld(a[i]) - b[i];
        s += d * d;
    }
    return sqrtl(s);
}
static bool same_bits(const arr_real& a, const arr_real& b) {
    if (a.size() != b.size()) return false;
    for (int i = 0; i < a.size(); ++i) if (std::memcmp(&a[i], &b[i], 8) != 0) return false;
    return true;
}

// ---------------------------------------------------------------- input classes
enum Cls { GAUSS = 0, IMPULSE, CONST, TONE, ALT, DYN, NCLS };
static const char* CLS_NAME[] = {"gauss", "impulse", "constant", "tone", "alternating", "dynrange"};

static arr_cmplx make_cx(int cls, int n, vh::Rng& rng) {
    arr_cmplx x(n);
    switch (cls) {
    case GAUSS:
        for (int i = 0; i < n; ++i) x[i] = cmplx_t{rng.gauss(), rng.gauss()};
        break;
    case IMPULSE: {
        const int p = (rng.next() % 3 == 0) ? n - 1 : rng.range(0, n - 1);
        x[p] = cmplx_t{rng.gauss() + 1.5, rng.gauss()};
        break;
    }
    case CONST: {
        const cmplx_t a{0.75 + rng.unit(), rng.sym()};
        for (int i = 0; i < n; ++i) x[i] = a;
        break;
    }
    case TONE: {
        const int p = rng.range(0, n - 1);
        const double A = 0.5 + rng.unit();
        for (int m = 0; m < n; ++m) {
            const double t = 6.283185307179586 * double((long long)p * m % n) / n;
            x[m] = cmplx_t{A * std::cos(t), A * std::sin(t)};
        }
        break;
    }
    case ALT:
        for (int m = 0; m < n; ++m) x[m] = cmplx_t{(m % 2) ? -1.0 : 1.0, (m % 3) ? 0.5 : -0.25};
        break;
    case DYN:
        for (int m = 0; m < n; ++m) x[m] = cmplx_t{rng.gauss() * std::pow(10.0, 100 * rng.sym()), rng.gauss() * std::pow(10.0, 100 * rng.sym())};
        x[rng.range(0, n - 1)] = cmplx_t{1e100 * (rng.coin() ? 1 : -1), 1e100 * rng.sym()};
        break;
    }
    return x;
}
static arr_real make_re(int cls, int n, vh::Rng& rng) {
    const arr_cmplx c = make_cx(cls, n, rng);
    arr_real x(n);
    for (int i = 0; i < n; ++i) x[i] = c[i].re;
    return x;
}

static std::string jcx(const arr_cmplx& x) { return vh::jarr(x); }

static std::string wit(const char* entry, int n, int cls, uint64_t seed, ld err, ld bound, const std::string& extra = "") {
    return std::string("{\"entry\":\"") + entry + "\",\"n\":" + std::to_string(n) + ",\"class\":\"" + CLS_NAME[cls] + "\",\"seed\":" + std::to_string(seed) +
           ",\"err\":" + vh::jnum(double(err)) + ",\"bound\":" + vh::jnum(double(bound)) + extra + "}";
}

// record  err <= bound  (relative to `norm`)
static void judge(Res& R, const char* key, const char* cat, ld err, ld norm, ld relbound, bool finite, const std::string& w) {
    R.n_oracle++;
    R.stats["oracle_configs"]++;
    ld rel = norm == 0 ? (err == 0 ? 0 : 1e30L) : err / norm;
    if (!finite || !(rel == rel)) rel = 1e30L;
    note(R, cat, double(rel / relbound));
    if (!(rel <= relbound)) R.fails.push_back({key, w});
}

// ---------------------------------------------------------------- generated inputs for digest cases (mirrored by the driver)
static inline uint64_t mix(uint64_t m, uint64_t s) {
    uint64_t z = (m + 1) * 0x9e3779b97f4a7c15ULL + s * 0xbf58476d1ce4e5b9ULL;
    z ^= z >> 29;
    z *= 0x94d049bb133111ebULL;
    z ^= z >> 32;
    return z;
}
static inline double gen_re(uint64_t m, uint64_t s) { return (double(mix(m, s) % 4001) - 2000.0) / 2048.0; }
static inline double gen_im(uint64_t m, uint64_t s) { return (double((mix(m, s) >> 20) % 4001) - 2000.0) / 2048.0; }

// digest of a long output: 8 cells + 2 weighted sums per component (sequential accumulation, mirrored by the driver)
static std::string digest(const arr_cmplx& y) {
    const int n = y.size();
    std::string s = std::to_string(n);
    for (int i = 0; i < 8; ++i) {
        const int k = int(((long long)i * n) / 8 + (i % 3)) % n;
        s += " " + vh::hx(y[k].re) + " " + vh::hx(y[k].im);
    }
    double a[2][2] = {{0, 0}, {0, 0}};
    for (int k = 0; k < n; ++k) {
        const double g[2] = {(k % 2) ? -1.0 : 1.0, double(k % 7) - 3.0};
        for (int j = 0; j < 2; ++j) { a[j][0] += y[k].re * g[j]; a[j][1] += y[k].im * g[j]; }
    }
    for (int j = 0; j < 2; ++j) s += " " + vh::hx(a[j][0]) + " " + vh::hx(a[j][1]);
    return s;
}
static std::string digest(const arr_real& y) {
    const int n = y.size();
    std::string s = std::to_string(n);
    for (int i = 0; i < 8; ++i) {
        const int k = int(((long long)i * n) / 8 + (i % 3)) % n;
        s += " " + vh::hx(y[k]);
    }
    double a[2] = {0, 0};
    for (int k = 0; k < n; ++k) {
        a[0] += y[k] * ((k % 2) ? -1.0 : 1.0);
        a[1] += y[k] * (double(k % 7) - 3.0);
    }
    return s + " " + vh::hx(a[0]) + " " + vh::hx(a[1]);
}

static void reject_neighbours(int n, uint64_t seed, Res& R);   // section 4
template<class F>
static bool hthrows_fwd(F f) {
    try { f(); } catch (const std::exception&) { return true; }
    return false;
}

// ================================================================ 1. ifft
struct IfftCfg { bool corr_all; bool corr_gauss; bool corr_digest; };

static void ifft_sweep_body(int n, uint64_t seed, const IfftCfg& cfg, Res& R);
static void ifft_sweep(int n, uint64_t seed, const IfftCfg& cfg, Res& R) {
    try { ifft_sweep_body(n, seed, cfg, R); } catch (const std::exception& e) {
        R.fails.push_back({"C02:ifft-threw", "{\"n\":" + std::to_string(n) + ",\"seed\":" + std::to_string(seed) + ",\"what\":\"" + e.what() + "\"}"});
    }
}
static void ifft_sweep_body(int n, uint64_t seed, const IfftCfg& cfg, Res& R) {
    vh::Rng rng(seed * 0x100000001b3ULL + uint64_t(n) * 0x9e3779b97f4a7c15ULL + 23);
    const bool full = n <= 2048;
    Table T(full ? n : 1);
    IfftPlan plan(n);
    FftPlan fplan(n);
    if (plan.size() != n) R.fails.push_back({"C02:ifft-size", wit("IfftPlan::size", n, 0, seed, plan.size(), n)});
    if ((n + seed) % 2 == 0 && n <= 4096) {   // the plan objects used below have rejected inputs of the wrong length first (n+1, n-1, empty)
        for (int m : {n + 1, n - 1, 0}) {
            arr_cmplx Z(m);
            for (int i = 0; i < m; ++i) Z[i] = cmplx_t{gen_re(i, seed + n), gen_im(i, seed + n)};
            const bool t1 = hthrows_fwd([&] { (void)plan(Z); }), t2 = hthrows_fwd([&] { (void)fplan(Z); });
            R.n_oracle += 2;
            if (!t1 || !t2) R.fails.push_back({"C02:ifft-wrong-size-accepted", "{\"entry\":\"IfftPlan(n)(X) / FftPlan(n)(X)\",\"n\":" + std::to_string(n) + ",\"X_size\":" + std::to_string(m) + "}"});
        }
        R.stats["ifft_lengths_after_rejected_calls"]++;
    }
    R.stats[full ? "ifft_lengths_all_samples" : "ifft_lengths_sampled"]++;
    for (int cls = 0; cls < NCLS; ++cls) {
        if (!full && cls != GAUSS && cls != IMPULSE && cls != TONE) continue;
        const arr_cmplx x = make_cx(cls, n, rng);
        const ld nx = l2(x);
        const bool use_plan = (n + cls) % 2 == 1;
        // (a) ifft(fft(x)) = x
        const arr_cmplx X = use_plan ? fplan(x) : fft(x);
        const arr_cmplx y = use_plan ? plan(X) : ifft(X);
        const std::string small = n <= 12 ? ",\"x\":" + jcx(x) : std::string();
        if (y.size() != n) { R.fails.push_back({"C02:ifft-size", wit("ifft(fft(x))", n, cls, seed, y.size(), n, small)}); continue; }
        judge(R, "C02:ifft-roundtrip", "ifft_fft", diff_l2(y, x), nx, 64 * ld(n) * EPSD, all_finite(y),
              wit(use_plan ? "IfftPlan(n)(FftPlan(n)(x))" : "ifft(fft(x))", n, cls, seed, diff_l2(y, x), 64 * ld(n) * EPSD * nx, small));
        // (b) ifft(X) = inverse DFT of X (X as given, in long double)
        {
            const CV Xc = to_cv(X);
            ld e2 = 0, r2 = 0;
            if (full) {
                for (int t = 0; t < n; ++t) {
                    const C r = idft_at(Xc, T, t);
                    e2 += n2(C{y[t].re, y[t].im} - r);
                    r2 += n2(r);
                }
            } else {
                Table Tb(n);
                for (int j = 0; j < 48; ++j) {
                    const int t = j < 4 ? (j == 0 ? 0 : j == 1 ? n - 1 : j == 2 ? n / 2 : 1) : rng.range(0, n - 1);
                    const C r = idft_at(Xc, Tb, t);
                    e2 += n2(C{y[t].re, y[t].im} - r);
                }
                r2 = l2(Xc) * l2(Xc) / n;   // Parseval: ||x||^2 = ||X||^2 / n   (e2 over a subset is a lower bound of the error)
            }
            judge(R, "C02:ifft-vs-idft", "ifft_vs_idft", sqrtl(e2), sqrtl(r2), 32 * ld(n) * EPSD, all_finite(y),
                  wit(use_plan ? "IfftPlan(n)(X) vs long-double inverse DFT" : "ifft(X) vs long-double inverse DFT", n, cls, seed, sqrtl(e2), 32 * ld(n) * EPSD * sqrtl(r2),
                      n <= 12 ? ",\"X\":" + jcx(X) : std::string()));
        }
        // (c) fft(ifft(x)) = x
        {
            const arr_cmplx v = use_plan ? ifft(x) : plan(x);
            const arr_cmplx z = fft(v);
            judge(R, "C02:fft-ifft-roundtrip", "fft_ifft", diff_l2(z, x), nx, 64 * ld(n) * EPSD, all_finite(z),
                  wit("fft(ifft(x))", n, cls, seed, diff_l2(z, x), 64 * ld(n) * EPSD * nx, small));
            if ((cfg.corr_gauss && cls == GAUSS) || cfg.corr_all) R.corr.push_back({"ifft " + vh::hxs(x), vh::hxs(v)});
        }
        if ((cfg.corr_gauss && cls == GAUSS) || cfg.corr_all) {
            R.corr.push_back({"ifft " + vh::hxs(X), vh::hxs(y)});
            R.stats[use_plan ? "corr_ifft_via_plan_object" : "corr_ifft_via_free_function"]++;
        }
        R.stats[std::string("ifft_class_") + CLS_NAME[cls]]++;
        if (cls == GAUSS && n <= 6) R.samples.push_back(wit("ifft(fft(x))", n, cls, seed, diff_l2(y, x), 64 * ld(n) * EPSD * nx, small));
    }
    // top of the double range (seed C02-G: the 1/n scaling moved behind the forward transform overflows for n |X| > DBL_MAX):
    // an impulse of amplitude DBL_MAX/64 has a finite spectrum (|X[k]| = |A|) and a finite inverse, so ifft(fft(x)) must
    // reproduce it. Lengths with a prime factor > 41 go through the Bluestein leaf, whose top-of-range behaviour is the
    // KNOWN FINDING of C01 (cztleaf-top-of-range-nonfinite): they are counted, not judged here.
    {
        int m = n, maxp = 1;
        for (int q = 2; (long long)q * q <= m; ++q) while (m % q == 0) { maxp = std::max(maxp, q); m /= q; }
        if (m > 1) maxp = std::max(maxp, m);
        if (maxp <= 41) {
            vh::Rng r3(seed * 0x9e3779b97f4a7c15ULL + uint64_t(n) * 977 + 5);
            const double A = std::numeric_limits<double>::max() / 64;
            arr_cmplx x(n);
            const int p = (n % 3 == 0) ? n - 1 : r3.range(0, n - 1);
            x[p] = cmplx_t{r3.coin() ? A : -A, A * r3.sym()};
            const bool use_plan = n % 2 == 0;
            const arr_cmplx X = use_plan ? fplan(x) : fft(x);
            if (all_finite(X)) {
                const arr_cmplx y = use_plan ? plan(X) : ifft(X);
                judge(R, "C02:ifft-roundtrip", "ifft_fft_top_of_range", diff_l2(y, x), l2(x), 64 * ld(n) * EPSD, all_finite(y),
                      wit(use_plan ? "IfftPlan(n)(FftPlan(n)(x)), impulse of amplitude DBL_MAX/64" : "ifft(fft(x)), impulse of amplitude DBL_MAX/64", n, IMPULSE, seed,
                          diff_l2(y, x), 64 * ld(n) * EPSD * l2(x), ",\"position\":" + std::to_string(p) + ",\"re\":" + vh::jnum(x[p].re) + ",\"im\":" + vh::jnum(x[p].im)));
                R.stats["ifft_top_of_range_impulse"]++;
            } else R.stats["ifft_top_of_range_forward_nonfinite"]++;
        } else R.stats["ifft_top_of_range_skipped_bluestein_leaf"]++;
    }
    // plan object reused after other inputs: an earlier input again (stale state across calls)
    {
        vh::Rng r2(seed ^ (uint64_t(n) << 21));
        const arr_cmplx x = make_cx(GAUSS, n, r2);
        const arr_cmplx y1 = plan(fplan(x));
        judge(R, "C02:ifft-roundtrip", "ifft_fft", diff_l2(y1, x), l2(x), 64 * ld(n) * EPSD, all_finite(y1),
              wit("IfftPlan(n)(FftPlan(n)(x)), reused plan objects", n, GAUSS, seed, diff_l2(y1, x), 64 * ld(n) * EPSD * l2(x)));
    }
    if (cfg.corr_digest) {
        arr_cmplx gx(n);
        const uint64_t s = seed * 1000003ULL + uint64_t(n);
        for (int m = 0; m < n; ++m) gx[m] = cmplx_t{gen_re(m, s), gen_im(m, s)};
        R.corr.push_back({"ifftg " + std::to_string(n) + " " + std::to_string(s), digest(ifft(gx))});
    }
}

// ================================================================ 2. irfft
static std::string thrown(const std::function<void()>& f) {
    try { f(); } catch (const std::exception&) { return "ERR"; } catch (...) { return "ERR?"; }
    return "";
}

static void irfft_sweep_body(int n, uint64_t seed, const IfftCfg& cfg, Res& R);
static void irfft_sweep(int n, uint64_t seed, const IfftCfg& cfg, Res& R) {
    try { irfft_sweep_body(n, seed, cfg, R); } catch (const std::exception& e) {
        R.fails.push_back({"C02:irfft-threw", "{\"n\":" + std::to_string(n) + ",\"seed\":" + std::to_string(seed) + ",\"what\":\"" + e.what() + "\"}"});
    }
}
static void irfft_sweep_body(int n, uint64_t seed, const IfftCfg& cfg, Res& R) {   // n even, >= 2
    vh::Rng rng(seed * 0x2545f4914f6cdd1dULL + uint64_t(n) * 0x9e3779b97f4a7c15ULL + 41);
    const int h = n / 2;
    const bool full = n <= 2048;
    Table T(n);
    // half of the lengths are used right after their odd neighbours (and a wrong bin count) were rejected on this thread, the others before
    const bool rejected_first = ((h + seed) % 2 == 0) && n <= 4096;
    if (rejected_first) reject_neighbours(n, seed, R);
    IfftPlanR plan(n);
    if (plan.size() != n) R.fails.push_back({"C02:irfft-size", wit("IfftPlanR::size", n, 0, seed, plan.size(), n)});
    R.stats[full ? "irfft_lengths_all_samples" : "irfft_lengths_sampled"]++;
    R.stats[n % 4 == 0 ? "irfft_table_quarter_wave" : "irfft_table_direct"]++;
    for (int cls = 0; cls < NCLS; ++cls) {
        if (!full && cls != GAUSS && cls != IMPULSE && cls != TONE) continue;
        const arr_real x = make_re(cls, n, rng);
        const ld nx = l2(x);
        const bool use_plan = (n / 2 + cls) % 2 == 1;
        arr_cmplx X = rfft(x);
        arr_cmplx Xh = X.slice(0, h + 1);
        // a second kind of input: synthetic bins (exactly real DC / Nyquist), upper half of the n-form filled with
        // unrelated values: the n-form must not depend on bins above n/2 beyond what conjugate symmetry fixes
        const bool synthetic = cls == GAUSS || cls == DYN;
        arr_cmplx Xs = X;
        if (synthetic) {
            for (int k = 0; k <= h; ++k) Xs[k] = cmplx_t{rng.gauss(), (k == 0 || k == h) ? 0.0 : rng.gauss()};
            for (int k = h + 1; k < n; ++k) Xs[k] = Xs[n - k].conj();
        }
        const std::string small = std::string(rejected_first ? ",\"history\":\"after irfft / IfftPlanR calls for n+1 and n-1 and a wrong bin count were rejected on this thread\"" : "") +
                                  (n <= 12 ? ",\"x\":" + vh::jarr(x) : std::string());
        const arr_real y = use_plan ? plan(X) : irfft(X, n);
        const arr_real yh = use_plan ? irfft(Xh, n) : plan(Xh);
        if (y.size() != n || yh.size() != n) { R.fails.push_back({"C02:irfft-size", wit("irfft(X, n)", n, cls, seed, y.size(), n, small)}); continue; }
        // (a) round trip
        judge(R, "C02:irfft-roundtrip", "irfft_rfft", diff_l2(y, x), nx, 64 * ld(n) * EPSD, all_finite(y),
              wit(use_plan ? "IfftPlanR(n)(rfft(x))" : "irfft(rfft(x), n)", n, cls, seed, diff_l2(y, x), 64 * ld(n) * EPSD * nx, small));
        judge(R, "C02:irfft-roundtrip-half", "irfft_rfft_half", diff_l2(yh, x), nx, 64 * ld(n) * EPSD, all_finite(yh),
              wit("irfft(rfft(x)[0..n/2], n)", n, cls, seed, diff_l2(yh, x), 64 * ld(n) * EPSD * nx, small));
        // (b) both forms give the same signal (the code reads bins 0..n/2 only: bit-identical)
        R.n_oracle++;
        if (!same_bits(y, yh)) R.fails.push_back({"C02:irfft-forms-differ", wit("irfft(X, n) vs irfft(X[0..n/2], n)", n, cls, seed, diff_l2(y, yh), 0, small)});
        // (c) against the long-double inverse real DFT of the given bins
        for (int form = 0; form < (synthetic ? 4 : 2); ++form) {
            const bool syn = form >= 2;
            const arr_cmplx& Xin = syn ? Xs : X;
            const bool half = form % 2 == 1;
            arr_real r = syn ? (half ? irfft(arr_cmplx(Xin.slice(0, h + 1)), n) : plan(Xin)) : (half ? yh : y);
            if (syn && !half && n <= 2048) {
                // one-argument overload irfft(X) (n = X.size())
                const arr_real r1 = irfft(Xin);
                R.n_oracle++;
                if (!same_bits(r, r1)) R.fails.push_back({"C02:irfft-forms-differ", wit("irfft(X) vs IfftPlanR(n)(X)", n, cls, seed, 0, 0, small)});
            }
            const CV Xc = to_cv(Xin);
            ld e2 = 0, r2 = 0;
            if (full) {
                for (int t = 0; t < n; ++t) {
                    const ld v = irdft_at(Xc, T, t);
                    e2 += (r[t] - v) * (r[t] - v);
                    r2 += v * v;
                }
            } else {
                for (int j = 0; j < 48; ++j) {
                    const int t = j < 4 ? (j == 0 ? 0 : j == 1 ? n - 1 : j == 2 ? h : 1) : rng.range(0, n - 1);
                    const ld v = irdft_at(Xc, T, t);
                    e2 += (r[t] - v) * (r[t] - v);
                }
                ld s = Xc[0].re * Xc[0].re + Xc[h].re * Xc[h].re;
                for (int k = 1; k < h; ++k) s += 2 * n2(Xc[k]);
                r2 = s / n;
            }
            const char* key = half ? "C02:irfft-vs-idft-half" : "C02:irfft-vs-idft-full";
            judge(R, key, half ? "irfft_vs_idft_half" : "irfft_vs_idft_full", sqrtl(e2), sqrtl(r2), 32 * ld(n) * EPSD, all_finite(r),
                  wit(half ? "irfft(X[0..n/2], n) vs long-double inverse real DFT" : "irfft(X[0..n-1], n) vs long-double inverse real DFT", n, cls, seed, sqrtl(e2),
                      32 * ld(n) * EPSD * sqrtl(r2), std::string(",\"bins\":\"") + (syn ? "synthetic" : "rfft(x)") + "\"" + (n <= 12 ? ",\"X\":" + jcx(Xin) : std::string())));
            if (((cfg.corr_gauss && cls == GAUSS) || cfg.corr_all) && (syn || cls != GAUSS)) {
                const arr_cmplx Xarg = half ? arr_cmplx(Xin.slice(0, h + 1)) : Xin;
                R.corr.push_back({"irfft " + std::to_string(n) + " " + vh::hxs(Xarg), vh::hxs(r)});
                R.stats[half ? "corr_irfft_half_form" : "corr_irfft_full_form"]++;
            }
        }
        R.stats[std::string("irfft_class_") + CLS_NAME[cls]]++;
        if (cls == GAUSS && n <= 6) R.samples.push_back(wit("irfft(rfft(x), n)", n, cls, seed, diff_l2(y, x), 64 * ld(n) * EPSD * nx, small));
    }
    if (!rejected_first && n <= 4096) reject_neighbours(n, seed, R);
    // plan reuse (the plan object has also seen the rejected calls above)
    {
        vh::Rng r2(seed ^ (uint64_t(n) << 22));
        const arr_real x = make_re(GAUSS, n, r2);
        const arr_real y1 = plan(rfft(x));
        judge(R, "C02:irfft-roundtrip", "irfft_rfft", diff_l2(y1, x), l2(x), 64 * ld(n) * EPSD, all_finite(y1),
              wit("IfftPlanR(n)(rfft(x)), reused plan object", n, GAUSS, seed, diff_l2(y1, x), 64 * ld(n) * EPSD * l2(x)));
    }
    // wrong input sizes are rejected (not n and not n/2+1)
    if (n <= 64 || n % 64 == 0) {
        for (int sz : {h, h + 2, n - 1, n + 1, 1, 2 * n}) {
            if (sz == n || sz == h + 1 || sz < 1) continue;
            arr_cmplx Z(sz);
            for (int i = 0; i < sz; ++i) Z[i] = cmplx_t{1.0 + i, 0.5};
            const std::string e = thrown([&] { (void)irfft(Z, n); });
            R.n_oracle++;
            if (e != "ERR") R.fails.push_back({"C02:irfft-wrong-size-accepted", "{\"entry\":\"irfft(X, n)\",\"n\":" + std::to_string(n) + ",\"X_size\":" + std::to_string(sz) + "}"});
            if (n <= 16) R.corr.push_back({"irfft " + std::to_string(n) + " " + vh::hxs(Z), e.empty() ? "OK" : "ERR"});
        }
    }
    // top of the double range (as for ifft, seed C02-G): a real impulse of amplitude DBL_MAX/64 at lengths without a Bluestein leaf
    // (n and n/2: the packed real transform runs a complex plan of half the length)
    {
        int maxp = 1;
        for (int m0 : {n, h}) {
            int m = m0;
            for (int q = 2; (long long)q * q <= m; ++q) while (m % q == 0) { maxp = std::max(maxp, q); m /= q; }
            if (m > 1) maxp = std::max(maxp, m);
        }
        if (maxp <= 41) {
            vh::Rng r3(seed * 0x9e3779b97f4a7c15ULL + uint64_t(n) * 991 + 7);
            const double A = std::numeric_limits<double>::max() / 64;
            arr_real x(n);
            const int p = (n % 3 == 0) ? n - 1 : r3.range(0, n - 1);
            x[p] = r3.coin() ? A : -A;
            const arr_cmplx X = rfft(x);
            if (all_finite(X)) {
                const bool use_plan = h % 2 == 0;
                const arr_real y = use_plan ? plan(X) : irfft(X, n);
                const arr_real yh = use_plan ? irfft(arr_cmplx(X.slice(0, h + 1)), n) : plan(arr_cmplx(X.slice(0, h + 1)));
                const std::string ex = ",\"position\":" + std::to_string(p) + ",\"value\":" + vh::jnum(x[p]);
                if (y.size() == n && yh.size() == n) {
                    judge(R, "C02:irfft-roundtrip", "irfft_rfft_top_of_range", diff_l2(y, x), l2(x), 64 * ld(n) * EPSD, all_finite(y),
                          wit(use_plan ? "IfftPlanR(n)(rfft(x)), impulse of amplitude DBL_MAX/64" : "irfft(rfft(x), n), impulse of amplitude DBL_MAX/64", n, IMPULSE, seed,
                              diff_l2(y, x), 64 * ld(n) * EPSD * l2(x), ex));
                    judge(R, "C02:irfft-roundtrip-half", "irfft_rfft_top_of_range", diff_l2(yh, x), l2(x), 64 * ld(n) * EPSD, all_finite(yh),
                          wit("irfft(rfft(x)[0..n/2], n), impulse of amplitude DBL_MAX/64", n, IMPULSE, seed, diff_l2(yh, x), 64 * ld(n) * EPSD * l2(x), ex));
                } else R.fails.push_back({"C02:irfft-size", wit("irfft(X, n)", n, IMPULSE, seed, y.size(), n, ex)});
                R.stats["irfft_top_of_range_impulse"]++;
            } else R.stats["irfft_top_of_range_forward_nonfinite"]++;
        } else R.stats["irfft_top_of_range_skipped_bluestein_leaf"]++;
    }
    if (cfg.corr_digest) {
        const uint64_t s = seed * 1000003ULL + uint64_t(n) + 11;
        for (int form = 0; form < 2; ++form) {
            const int sz = form ? h + 1 : n;
            arr_cmplx gx(sz);
            for (int m = 0; m < sz; ++m) gx[m] = cmplx_t{gen_re(m, s), gen_im(m, s)};
            R.corr.push_back({"irfftg " + std::to_string(n) + " " + std::to_string(sz) + " " + std::to_string(s), digest(irfft(gx, n))});
        }
    }
}

static void irfft_odd(int n, uint64_t seed, bool corr, Res& R) {   // n odd or <= 0: must throw for every input size
    std::vector<int> sizes = {n, n / 2 + 1, (n + 1) / 2, n + 1};
    for (int sz : sizes) {
        if (sz < 1) sz = 1;
        arr_cmplx Z(sz);
        for (int i = 0; i < sz; ++i) Z[i] = cmplx_t{gen_re(i, seed + n), gen_im(i, seed + n)};
        const std::string js = "{\"entry\":\"irfft(X, n)\",\"n\":" + std::to_string(n) + ",\"X_size\":" + std::to_string(sz) + "}";
        vh::set_current("C02:irfft-odd-crash", js);
        const std::string e1 = thrown([&] { (void)irfft(Z, n); });
        const std::string e2 = thrown([&] { IfftPlanR p(n); (void)p(Z); });
        vh::clear_current();
        R.n_oracle += 2;
        R.stats["oracle_configs"] += 2;
        if (e1 != "ERR" || e2 != "ERR") R.fails.push_back({"C02:irfft-odd-accepted", js});
        if (corr && n >= 1) R.corr.push_back({"irfft " + std::to_string(n) + " " + vh::hxs(Z), e1.empty() ? "OK" : "ERR"});
    }
    if (n >= 1) {   // one-argument overload with an odd number of bins
        arr_cmplx Z(n);
        const std::string e = thrown([&] { (void)irfft(Z); });
        R.n_oracle++;
        if (e != "ERR") R.fails.push_back({"C02:irfft-odd-accepted", "{\"entry\":\"irfft(X)\",\"n\":" + std::to_string(n) + "}"});
    }
    R.stats["irfft_odd_lengths"]++;
}

// ================================================================ 3. stft / istft
enum Fam { HANN = 0, HAMMING, BLACKMAN, COSINE, KAISER_LO, KAISER_HI, RECT, NFAM };
static const char* FAM_NAME[] = {"hann", "hamming", "blackman", "cosine", "kaiser0.5", "kaiser5", "rectangular"};
static const char* RANGE_NAME[] = {"centered", "twosided", "onesided"};
static const char* METHOD_NAME[] = {"ola", "wola"};

static arr_real make_win(int fam, int n, bool sym) {
    switch (fam) {
    case HANN: return window::hann(n, sym);
    case HAMMING: return window::hamming(n, sym);
    case BLACKMAN: return window::blackman(n, sym);
    case COSINE: return window::cosine(n, sym);
    case KAISER_LO: return sym ? window::kaiser(n, 0.5) : arr_real(window::kaiser(n + 1, 0.5).slice(0, n));
    case KAISER_HI: return sym ? window::kaiser(n, 5.0) : arr_real(window::kaiser(n + 1, 5.0).slice(0, n));
    default: return ones(n);
    }
}

enum Sig { S_GAUSS = 0, S_CONST, S_RAMP, S_SINE, S_IMPULSES, NSIGK };
static const char* SIG_NAME[] = {"gauss", "constant", "ramp", "sine", "impulses"};
static arr_real make_sig(int kind, int nx, int hop, int nwin, vh::Rng& rng) {
    arr_real x(nx);
    switch (kind) {
    case S_GAUSS: for (int i = 0; i < nx; ++i) x[i] = rng.gauss(); break;
    case S_CONST: { const double c = 0.5 + rng.unit(); for (int i = 0; i < nx; ++i) x[i] = c; break; }
    case S_RAMP: for (int i = 0; i < nx; ++i) x[i] = double(i + 1) / nx - 0.3; break;
    case S_SINE: { const double f = 0.05 + 0.4 * rng.unit(); for (int i = 0; i < nx; ++i) x[i] = std::sin(6.283185307179586 * f * i + 0.3); break; }
    default:   // impulses at frame boundaries: first/last sample of frames, first/last sample of the signal
        for (int i = 0; i < nx; i += hop) x[i] = 1.0 + 0.25 * rng.unit();
        for (int i = nwin - 1; i < nx; i += hop) x[i] = -1.0 - 0.25 * rng.unit();
        x[0] += 2; x[nx - 1] -= 3;
        break;
    }
    return x;
}

static std::string flat(const std::vector<arr_cmplx>& S) {
    std::string s = std::to_string(S.size()) + " " + std::to_string(S.empty() ? 0 : S[0].size());
    for (auto& f : S) for (int i = 0; i < f.size(); ++i) { s += " "; s += vh::hx(f[i].re); s += " "; s += vh::hx(f[i].im); }
    return s;
}

struct StftCase {
    int nfft, nwin, fam; bool sym; int overlap, range, method, nx, sig; uint64_t seed; bool dflt;
};
static std::string sjson(const StftCase& c) {
    return "{\"nfft\":" + std::to_string(c.nfft) + ",\"nwin\":" + std::to_string(c.nwin) + ",\"window\":\"" + FAM_NAME[c.fam] + "\",\"sym\":" + (c.sym ? "true" : "false") +
           ",\"overlap\":" + std::to_string(c.overlap) + ",\"range\":\"" + RANGE_NAME[c.range] + "\",\"method\":\"" + METHOD_NAME[c.method] + "\",\"nx\":" +
           std::to_string(c.nx) + ",\"signal\":\"" + SIG_NAME[c.sig] + "\",\"seed\":" + std::to_string(c.seed) + (c.dflt ? ",\"overload\":\"default window\"" : "") + "}";
}

// one round trip; `T2` = frames of the twosided range for the same signal (layout check), may be null
static void stft_roundtrip(const StftCase& c, const arr_real& win, const arr_real& x, bool corr, Res& R) {
    const std::string js = sjson(c);
    const StftRange range = StftRange(c.range);
    const OverlapMethod method = OverlapMethod(c.method);
    const int hop = c.nwin - c.overlap;
    const int nseg = (c.nx - c.overlap) / hop;
    std::vector<arr_cmplx> S;
    arr_real y;
    try {
        S = c.dflt ? stft(x, c.nfft, range) : stft(x, win, c.overlap, c.nfft, range);
        y = c.dflt ? istft(S, c.nfft, range, method) : istft(S, win, c.overlap, c.nfft, range, method);
    } catch (const std::exception& e) {
        R.fails.push_back({"C02:stft-istft-threw", js.substr(0, js.size() - 1) + ",\"what\":\"" + e.what() + "\"}"});
        return;
    }
    R.n_oracle++;
    R.stats["oracle_configs"]++;
    const int flen = c.range == 2 ? c.nfft / 2 + 1 : c.nfft;
    bool shape = int(S.size()) == nseg;
    for (auto& f : S) shape = shape && f.size() == flen;
    const int xlen = c.nwin + (nseg - 1) * hop;
    if (!shape || y.size() != xlen) {
        R.fails.push_back({"C02:istft-length", js.substr(0, js.size() - 1) + ",\"frames\":" + std::to_string(S.size()) + ",\"out_len\":" + std::to_string(y.size()) +
                                                   ",\"expected_len\":" + std::to_string(xlen) + "}"});
        return;
    }
    // finite everywhere
    int bad = -1;
    for (int t = 0; t < xlen; ++t) if (!std::isfinite(y[t])) { bad = t; break; }
    if (bad >= 0) {
        R.fails.push_back({"C02:istft-nonfinite", js.substr(0, js.size() - 1) + ",\"t\":" + std::to_string(bad) + ",\"value\":" + vh::jnum(y[bad]) + "}"});
    }
    // accumulated weight (own evaluation) and the conditioning of the normalisation
    std::vector<ld> W(xlen, 0), A(xlen, 0);
    for (int i = 0; i < nseg; ++i)
        for (int j = 0; j < c.nwin; ++j) {
            const ld w = win[j];
            W[i * hop + j] += c.method == 0 ? w : w * w;
            A[i * hop + j] += c.method == 0 ? 1 : fabsl(w);
        }
    ld nx2 = 0;
    for (int t = 0; t < xlen; ++t) nx2 += ld(x[t]) * x[t];
    const ld xn = sqrtl(nx2);
    const ld thr = ld(nseg) * EPSD;
    double worst = 0;
    int wt = -1, nchecked = 0, nzero = 0;
    for (int t = 0; t < xlen; ++t) {
        if (W[t] < thr * (1 - 1e-3L)) { ++nzero; continue; }   // zero weight by the code's own definition: nothing claimed beyond finiteness
        if (W[t] <= thr * (1 + 1e-3L)) continue;              // within rounding of the guard
        ++nchecked;
        const ld tol = 4 * EPSD * ld(c.nfft) * xn * (A[t] / W[t]);
        const ld err = fabsl(ld(y[t]) - x[t]);
        double ratio = tol > 0 ? double(err / tol) : (err == 0 ? 0 : 1e30);
        if (!std::isfinite(y[t])) ratio = 1e30;
        if (ratio > worst) { worst = ratio; wt = t; }
    }
    R.n_oracle += nchecked;
    R.stats["stft_samples_checked"] += nchecked;
    R.stats["stft_samples_zero_weight"] += nzero;
    note(R, std::string("istft_stft_") + METHOD_NAME[c.method], worst);
    if (worst > 1)
        R.fails.push_back({"C02:istft-reconstruction", js.substr(0, js.size() - 1) + ",\"t\":" + std::to_string(wt) + ",\"got\":" + vh::jnum(y[wt]) + ",\"expected\":" +
                                                           vh::jnum(x[wt]) + ",\"weight\":" + vh::jnum(double(W[wt])) + ",\"err_over_tol\":" + vh::jnum(worst) + "}"});
    if (corr) {
        const std::string pre = std::to_string(c.range) + " ";
        if (c.method == 1 || c.range != 1)   // the stft call does not depend on the method: once per range is enough
            R.corr.push_back({"stft " + pre + std::to_string(c.nfft) + " " + std::to_string(c.overlap) + " " + vh::hxs(win) + " " + vh::hxs(x), flat(S)});
        R.corr.push_back({"istft " + pre + std::to_string(c.method) + " " + std::to_string(c.nfft) + " " + std::to_string(c.overlap) + " " + vh::hxs(win) + " " + flat(S), vh::hxs(y)});
        R.stats["corr_stft_roundtrips"]++;
    }
}

// frames of the three ranges are re-arrangements of the same transform
static void stft_layout(const StftCase& c0, const arr_real& win, const arr_real& x, Res& R) {
    StftCase c = c0;
    const auto T = stft(x, win, c.overlap, c.nfft, StftRange::Twosided);
    const auto O = stft(x, win, c.overlap, c.nfft, StftRange::Onesided);
    const auto Ce = stft(x, win, c.overlap, c.nfft, StftRange::Centered);
    R.n_oracle++;
    const int n = c.nfft, h = n / 2;
    bool ok = T.size() == O.size() && T.size() == Ce.size();
    for (size_t i = 0; ok && i < T.size(); ++i) {
        ok = T[i].size() == n && O[i].size() == h + 1 && Ce[i].size() == n;
        for (int k = 0; ok && k <= h; ++k) ok = T[i][k] == O[i][k];
        // centered: frequencies -(h-1) .. -1, 0, 1 .. h   (bin k of the two-sided frame at position (k + h - 1) mod n)
        for (int k = 0; ok && k < n; ++k) ok = Ce[i][(k + h - 1) % n] == T[i][k];
    }
    if (!ok) R.fails.push_back({"C02:stft-range-layout", sjson(c)});
}

struct WinSpec { int fam; bool sym; };

static void stft_grid_task(int nfft, int nwin, WinSpec ws, uint64_t seed, bool thorough, int corr_budget, Res& R) {
    vh::Rng rng(seed * 0x9e3779b97f4a7c15ULL + uint64_t(nfft) * 1000003ULL + uint64_t(nwin) * 7919ULL + uint64_t(ws.fam) * 131 + (ws.sym ? 1 : 0));
    const arr_real win = make_win(ws.fam, nwin, ws.sym);
    if (win.size() != nwin) { R.fails.push_back({"C02:harness-selfcheck", "{\"what\":\"window length\"}"}); return; }
    if (ws.sym || nwin != nfft) {   // this configuration is used right after rejected stft / istft calls for the neighbouring sizes on this thread
        const std::vector<arr_cmplx> F(2, arr_cmplx(nfft / 2 + 1));
        const std::vector<arr_cmplx> F1(2, arr_cmplx(nfft / 2 + 2));
        const bool t1 = hthrows_fwd([&] { (void)istft(F, win, nwin / 2, nfft + 1, StftRange::Onesided, OverlapMethod::Wola); });
        const bool t2 = hthrows_fwd([&] { (void)istft(F, win, nwin / 2, nfft - 1, StftRange::Onesided, OverlapMethod::Ola); });
        const bool t3 = hthrows_fwd([&] { (void)istft(F1, win, nwin / 2, nfft, StftRange::Onesided, OverlapMethod::Ola); });
        const bool t4 = hthrows_fwd([&] { (void)stft(arr_real(4 * nwin), win, nwin, nfft, StftRange::Onesided); });
        R.n_oracle += 4;
        if (!t1 || !t2 || !t3 || !t4)
            R.fails.push_back({"C02:stft-rejected-call-accepted", "{\"nfft\":" + std::to_string(nfft) + ",\"nwin\":" + std::to_string(nwin) + ",\"threw\":[" + std::to_string(t1) + "," + std::to_string(t2) + "," +
                                                                   std::to_string(t3) + "," + std::to_string(t4) + "],\"calls\":\"istft nfft+1, istft nfft-1, istft frames of nfft/2+2 bins, stft overlap = nwin\"}"});
        R.stats["stft_configs_after_rejected_calls"]++;
    }
    for (int method = 0; method < 2; ++method) {
        std::vector<int> cola;
        for (int ov = 0; ov < nwin; ++ov) {
            bool ok = false;
            try { ok = iscola(win, ov, OverlapMethod(method)); } catch (const std::exception&) {
                R.fails.push_back({"C02:iscola-threw", "{\"nwin\":" + std::to_string(nwin) + ",\"overlap\":" + std::to_string(ov) + "}"});
            }
            if (ok) cola.push_back(ov);
            // iscola correspondence on a slice of the overlaps (both outcomes)
            if (corr_budget > 0 && nwin <= 64 && (ov % 3 == 0 || ok))
                R.corr.push_back({"iscola " + std::to_string(method) + " " + std::to_string(ov) + " " + vh::hxs(win), ok ? "1" : "0"});
        }
        R.stats["cola_pairs"] += (long long)cola.size();
        R.stats["noncola_pairs"] += nwin - (long long)cola.size();
        R.stats[std::string("cola_pairs_") + FAM_NAME[ws.fam]] += (long long)cola.size();
        if (cola.empty() || cola.back() != nwin - 1)   // hop = 1 sums a single cell: always COLA
            R.fails.push_back({"C02:harness-selfcheck", "{\"what\":\"iscola(win, nwin-1) is false\",\"nwin\":" + std::to_string(nwin) + ",\"window\":\"" + FAM_NAME[ws.fam] + "\"}"});
        for (int ov : cola) {
            const int hop = nwin - ov;
            // number of frames: short, and (for sizes where it is cheap) long enough that every window position overlaps
            std::vector<int> nsegs = {rng.range(1, 3), rng.range(4, 9)};
            const int steady = (nwin + hop - 1) / hop + 2;
            if ((long long)steady * nfft <= (thorough ? 1 << 17 : 1 << 14)) nsegs.push_back(steady + rng.range(0, 2));
            for (size_t q = 0; q < nsegs.size(); ++q) {
                const int nseg = nsegs[q];
                const int extra = hop > 1 ? rng.range(1, hop - 1) : 0;   // not aligned to the hop
                const int nx = nwin + (nseg - 1) * hop + extra;
                const int sig = q == 0 ? int(rng.next() % NSIGK) : S_GAUSS;
                const arr_real x = make_sig(sig, nx, hop, nwin, rng);
                R.stats[extra ? "stft_len_unaligned" : "stft_len_aligned_hop1"]++;
                for (int range = 0; range < 3; ++range) {
                    StftCase c{nfft, nwin, ws.fam, ws.sym, ov, range, method, nx, sig, seed, false};
                    const bool corr = corr_budget > 0 && q == 0 && (nfft <= 32 || (ov == cola[cola.size() / 2]));
                    vh::set_current("C02:stft-crash", sjson(c));
                    stft_roundtrip(c, win, x, corr, R);
                    vh::clear_current();
                    R.stats[std::string("stft_range_") + RANGE_NAME[range]]++;
                    R.stats[std::string("stft_method_") + METHOD_NAME[method]]++;
                }
                if (q == 0) { StftCase c{nfft, nwin, ws.fam, ws.sym, ov, 1, method, nx, sig, seed, false}; stft_layout(c, win, x, R); }
                if (R.samples.size() < 2 && q == 0) R.samples.push_back(sjson(StftCase{nfft, nwin, ws.fam, ws.sym, ov, 2, method, nx, sig, seed, false}));
            }
        }
    }
    R.stats[std::string("stft_window_") + FAM_NAME[ws.fam] + (ws.sym ? "_sym" : "_periodic")]++;
    R.stats[nwin == nfft ? "stft_nwin_eq_nfft" : "stft_nwin_lt_nfft"]++;
}

static void stft_misc(uint64_t seed, bool thorough, Res& R) {
    vh::Rng rng(seed * 77 + 5);
    // default overloads: hann(nfft, periodic), overlap nfft/2
    for (int nfft : {8, 12, 16, 64, 100, 256, 1024}) {
        for (int range = 0; range < 3; ++range)
            for (int method = 0; method < 2; ++method) {
                const int nx = nfft * 3 + nfft / 2 + rng.range(1, nfft / 2 - 1);
                const arr_real x = make_sig(S_GAUSS, nx, nfft / 2, nfft, rng);
                const arr_real win = window::hann(nfft, false);
                StftCase c{nfft, nfft, HANN, false, nfft / 2, range, method, nx, S_GAUSS, seed, true};
                stft_roundtrip(c, win, x, nfft <= 16, R);
                R.stats["stft_default_overloads"]++;
            }
    }
    // hop <= 0 is rejected (no division by zero)
    for (int nwin : {4, 8, 16}) {
        const arr_real win = window::hann(nwin, false);
        const arr_real x = make_sig(S_GAUSS, 5 * nwin, 1, nwin, rng);
        for (int ov : {nwin, nwin + 1, 2 * nwin}) {
            const std::string js = "{\"nwin\":" + std::to_string(nwin) + ",\"overlap\":" + std::to_string(ov) + "}";
            vh::set_current("C02:hop-nonpositive-crash", js);
            const std::string e1 = thrown([&] { (void)iscola(win, ov, OverlapMethod::Ola); });
            const std::string e2 = thrown([&] { (void)iscola(win, ov, OverlapMethod::Wola); });
            const std::string e3 = thrown([&] { (void)stft(x, win, ov, nwin, StftRange::Onesided); });
            vh::clear_current();
            R.n_oracle += 3;
            if (e1 != "ERR" || e2 != "ERR" || e3 != "ERR") R.fails.push_back({"C02:hop-nonpositive-accepted", js});
            R.corr.push_back({"iscola 0 " + std::to_string(ov) + " " + vh::hxs(win), e1.empty() ? "OK" : "ERR"});
            R.corr.push_back({"stft 2 " + std::to_string(nwin) + " " + std::to_string(ov) + " " + vh::hxs(win) + " " + vh::hxs(x), e3.empty() ? "OK" : "ERR"});
        }
    }
    // a signal shorter than one window: no frame at all; the inverse of nothing must still be finite
    for (int nwin : {8, 16}) {
        for (int ov : {nwin / 2, nwin - 1, 0}) {
            const arr_real win = window::hann(nwin, false);
            const int nx = rng.range(ov, nwin - 1);
            const arr_real x = make_sig(S_GAUSS, std::max(nx, 1), 1, nwin, rng);
            for (int method = 0; method < 2; ++method) {
                const std::string js = "{\"nx\":" + std::to_string(x.size()) + ",\"nwin\":" + std::to_string(nwin) + ",\"overlap\":" + std::to_string(ov) + ",\"nfft\":" +
                                       std::to_string(nwin) + ",\"window\":\"hann periodic\",\"method\":\"" + METHOD_NAME[method] + "\"}";
                vh::set_current("C02:istft-zero-frames-crash", js);
                try {
                    const auto S = stft(x, win, ov, nwin, StftRange::Onesided);
                    const arr_real y = istft(S, win, ov, nwin, StftRange::Onesided, OverlapMethod(method));
                    R.n_oracle++;
                    if (!S.empty()) R.fails.push_back({"C02:harness-selfcheck", js});
                    if (!all_finite(y)) R.fails.push_back({"C02:istft-zero-frames-nonfinite", js.substr(0, js.size() - 1) + ",\"out_len\":" + std::to_string(y.size()) + ",\"first\":" + vh::jnum(y[0]) + "}"});
                    R.corr.push_back({"istft 2 " + std::to_string(method) + " " + std::to_string(nwin) + " " + std::to_string(ov) + " " + vh::hxs(win) + " " + flat(S), vh::hxs(y)});
                } catch (const std::exception&) {
                    // rejecting the empty list would also be acceptable for the property
                    R.corr.push_back({"istft 2 " + std::to_string(method) + " " + std::to_string(nwin) + " " + std::to_string(ov) + " " + vh::hxs(win) + " 0 0", "ERR"});
                }
                vh::clear_current();
                R.stats["stft_zero_frame_cases"]++;
            }
        }
    }
    // correspondence only: istft of ARBITRARY spectra (not produced by stft) with arbitrary windows (negative taps: the
    // guard's `norm < nseg*eps -> 1` branch) and arbitrary overlaps: here the result depends on every operation of istft
    // (method exponents, frame placement, guard), which a self-consistent round trip cannot distinguish
    for (int rep = 0; rep < (thorough ? 160 : 48); ++rep) {
        static const int NF[] = {8, 12, 16, 10, 20, 30, 32, 64};
        const int nfft = NF[rep % 8];
        const int nwin = (rep % 3 == 0) ? nfft : rng.range(2, nfft);
        const int ov = (rep % 5 == 0) ? 0 : rng.range(0, nwin - 1);
        const int nseg = rng.range(1, 5);
        arr_real win(nwin);
        for (int j = 0; j < nwin; ++j) win[j] = (rep % 2) ? rng.sym() * 0.75 + 0.25 : 0.5 - 0.5 * std::cos(6.283185307179586 * j / nwin);
        if (rep % 4 == 1) win[rng.range(0, nwin - 1)] = 0;
        for (int range = 0; range < 3; ++range) {
            const int flen = range == 2 ? nfft / 2 + 1 : nfft;
            std::vector<arr_cmplx> S;
            for (int i = 0; i < nseg; ++i) { arr_cmplx f(flen); for (int k = 0; k < flen; ++k) f[k] = cmplx_t{rng.gauss(), rng.gauss()}; S.push_back(f); }
            for (int method = 0; method < 2; ++method) {
                std::string res;
                try { res = vh::hxs(istft(S, win, ov, nfft, StftRange(range), OverlapMethod(method))); } catch (const std::exception&) { res = "ERR"; }
                R.corr.push_back({"istft " + std::to_string(range) + " " + std::to_string(method) + " " + std::to_string(nfft) + " " + std::to_string(ov) + " " + vh::hxs(win) + " " + flat(S), res});
                R.stats["corr_istft_arbitrary_frames"]++;
            }
            // frames of the wrong length for the range are rejected
            if (rep % 8 == 0) {
                std::vector<arr_cmplx> Sb = S;
                Sb.back() = arr_cmplx(flen + 1);
                std::string res;
                try { res = vh::hxs(istft(Sb, win, ov, nfft, StftRange(range), OverlapMethod::Wola)); } catch (const std::exception&) { res = "ERR"; }
                R.n_oracle++;
                if (res != "ERR") R.fails.push_back({"C02:istft-wrong-frame-size-accepted", "{\"nfft\":" + std::to_string(nfft) + ",\"range\":\"" + RANGE_NAME[range] + "\",\"frame_len\":" + std::to_string(flen + 1) + "}"});
            }
        }
        for (int method = 0; method < 2; ++method) {
            std::string res;
            try { res = iscola(win, ov, OverlapMethod(method)) ? "1" : "0"; } catch (const std::exception&) { res = "ERR"; }
            R.corr.push_back({"iscola " + std::to_string(method) + " " + std::to_string(ov) + " " + vh::hxs(win), res});
        }
    }
    // window longer than nfft: rejected by both directions
    {
        const arr_real win = window::hann(16, false);
        const arr_real x = make_sig(S_GAUSS, 50, 8, 16, rng);
        const std::string e = thrown([&] { (void)stft(x, win, 8, 8, StftRange::Onesided); });
        R.corr.push_back({"stft 2 8 8 " + vh::hxs(win) + " " + vh::hxs(x), e.empty() ? "OK" : "ERR"});
    }
    (void)thorough;
}

// ================================================================ 4. histories that include rejected calls
// A call that throws must leave nothing behind: every later valid call on the same thread / the same objects gives the result it gives
// in a fresh thread (bit for bit) and satisfies the property's bounds.
//   valid:    F irfft(rfft(x), n)   H irfft(first n/2+1 bins, n)   P IfftPlanR(n)(rfft(x))   1 irfft(X) (one argument)   C ifft(fft(x))
//             T istft(stft(x)) with nfft = n (periodic Hann, 50 % overlap, ola, range n mod 3)
//             R one IfftPlanR(n) object: rejects a wrong bin count, then inverts rfft(x)
//   rejected: o irfft(n bins, odd n)   q irfft(n/2+1 bins, odd n)   O IfftPlanR(odd n)   u irfft(X) with an odd number of bins
//             w irfft(n/2 bins, n) and irfft(n+1 bins, n)   S istft with odd nfft   U istft with frames one bin too long   V stft with overlap = nwin
//             j IfftPlan(n)(n+1 samples)   E ifft / irfft of an empty array, irfft(X, 0), irfft(X, -2)
struct HL { char kind; int n; };
static bool hl_rejected(char k) { return std::strchr("oqOuwSUVjE", k) != nullptr; }
static std::string hl_str(const HL& l) { return std::string(1, l.kind) + std::to_string(l.n); }
static const char* hl_entry(char k) {
    switch (k) {
    case 'F': return "irfft(rfft(x), n)";
    case 'H': return "irfft(rfft(x)[0..n/2], n)";
    case 'P': return "IfftPlanR(n)(rfft(x))";
    case '1': return "irfft(rfft(x))";
    case 'C': return "ifft(fft(x))";
    case 'T': return "istft(stft(x)), nfft = n";
    case 'R': return "IfftPlanR(n) object after it rejected a wrong bin count";
    case 'o': return "irfft(X[n], n), n odd";
    case 'q': return "irfft(X[n/2+1], n), n odd";
    case 'O': return "IfftPlanR(n), n odd";
    case 'u': return "irfft(X[n]), n odd";
    case 'w': return "irfft(X[n/2], n) / irfft(X[n+1], n)";
    case 'S': return "istft(frames, nfft = n), n odd";
    case 'U': return "istft(frames of n/2+2 bins, nfft = n, onesided)";
    case 'V': return "stft(x, win, overlap = nwin, nfft = n)";
    case 'j': return "IfftPlan(n)(X[n+1])";
    default: return "ifft(empty) / irfft(empty) / irfft(X, 0) / irfft(X, -2)";
    }
}
static std::string hist_str(const std::vector<HL>& h, int upto) {
    std::string s = "[";
    for (int i = 0; i <= upto && i < int(h.size()); ++i) { if (i) s += ","; s += "\"" + hl_str(h[i]) + "\""; }
    return s + "]";
}
static arr_real hin_r(int n, uint64_t seed) {
    vh::Rng r(seed * 1315423911ULL + uint64_t(n) * 2654435761ULL + 99);
    arr_real x(n);
    for (int i = 0; i < n; ++i) x[i] = r.gauss();
    return x;
}
static arr_cmplx hin_c(int n, uint64_t seed) {
    vh::Rng r(seed * 1315423911ULL + uint64_t(n) * 2654435761ULL + 177);
    arr_cmplx x(n);
    for (int i = 0; i < n; ++i) x[i] = cmplx_t{r.gauss(), r.gauss()};
    return x;
}
static StftCase hl_stft_case(int n, uint64_t seed) {
    return StftCase{n, n, HANN, false, n / 2, n % 3, 0, 3 * n + n / 2 + (n > 2 ? 1 : 0), S_GAUSS, seed, false};
}

struct HVal {
    bool threw = false, inner_accepted = false;
    std::vector<double> v;
    double err = 0, norm = 0;   // valid round trips: ||y - x||, ||x||
};

template<class F>
static bool hthrows(F f) {
    try { f(); } catch (const std::exception&) { return true; }
    return false;
}

static HVal run_letter(const HL& l, uint64_t seed) {
    HVal r;
    const int n = l.n, h = n / 2;
    auto put = [&](const arr_real& y, const arr_real& x) {
        r.v.assign(y.begin(), y.end());
        r.norm = double(l2(x));
        r.err = y.size() == x.size() ? double(diff_l2(y, x)) : 1e300;
    };
    try {
        switch (l.kind) {
        case 'F': { const arr_real x = hin_r(n, seed); put(irfft(rfft(x), n), x); break; }
        case 'H': { const arr_real x = hin_r(n, seed); const arr_cmplx X = rfft(x); put(irfft(arr_cmplx(X.slice(0, h + 1)), n), x); break; }
        case 'P': { const arr_real x = hin_r(n, seed); const IfftPlanR P(n); put(P(rfft(x)), x); break; }
        case '1': { const arr_real x = hin_r(n, seed); put(irfft(rfft(x)), x); break; }
        case 'R': {
            const arr_real x = hin_r(n, seed);
            const IfftPlanR P(n);
            if (!hthrows([&] { (void)P(hin_c(h, seed)); })) r.inner_accepted = true;
            if (!hthrows([&] { (void)P(hin_c(n + 1, seed)); })) r.inner_accepted = true;
            put(P(rfft(x)), x);
            break;
        }
        case 'C': {
            const arr_cmplx x = hin_c(n, seed);
            const arr_cmplx y = ifft(fft(x));
            for (int i = 0; i < y.size(); ++i) { r.v.push_back(y[i].re); r.v.push_back(y[i].im); }
            r.norm = double(l2(x));
            r.err = y.size() == x.size() ? double(diff_l2(y, x)) : 1e300;
            break;
        }
        case 'T': {
            const StftCase c = hl_stft_case(n, seed);
            const arr_real x = hin_r(c.nx, seed);
            const arr_real win = window::hann(n, false);
            const auto S = stft(x, win, c.overlap, n, StftRange(c.range));
            const arr_real y = istft(S, win, c.overlap, n, StftRange(c.range), OverlapMethod::Ola);
            r.v.assign(y.begin(), y.end());
            break;
        }
        // ---- must throw
        case 'o': (void)irfft(hin_c(n, seed), n); break;
        case 'q': (void)irfft(hin_c(h + 1, seed), n); break;
        case 'O': { const IfftPlanR P(n); (void)P.size(); break; }
        case 'u': (void)irfft(hin_c(n, seed)); break;
        case 'w':
            if (!hthrows([&] { (void)irfft(hin_c(h, seed), n); })) { r.inner_accepted = true; break; }
            (void)irfft(hin_c(n + 1, seed), n);
            break;
        case 'S': { const std::vector<arr_cmplx> F(2, hin_c(h + 1, seed)); (void)istft(F, window::hann(n - 1, false), (n - 1) / 2, n, StftRange::Onesided, OverlapMethod::Wola); break; }
        case 'U': { const std::vector<arr_cmplx> F(2, hin_c(h + 2, seed)); (void)istft(F, window::hann(n, false), h, n, StftRange::Onesided, OverlapMethod::Ola); break; }
        case 'V': (void)stft(hin_r(4 * n, seed), window::hann(n, false), n, n, StftRange::Twosided); break;
        case 'j': { const IfftPlan P(n); (void)P(hin_c(n + 1, seed)); break; }
        case 'E': {
            int k = 0;
            k += hthrows([] { (void)ifft(arr_cmplx()); });
            k += hthrows([] { (void)irfft(arr_cmplx()); });
            k += hthrows([&] { (void)irfft(hin_c(3, seed), 0); });
            k += hthrows([&] { (void)irfft(hin_c(3, seed), -2); });
            if (k != 4) { r.inner_accepted = true; break; }
            throw std::runtime_error("rejected");
        }
        }
    } catch (const std::exception&) {
        r.threw = true;
        r.v.clear();
    }
    return r;
}

static std::mutex g_href_mx;
static std::map<std::string, HVal> g_href;

// the result of the call in a fresh thread without any history
static HVal fresh_reference(const HL& l0, uint64_t seed) {
    HL l = l0;
    if (l.kind == 'R') l.kind = 'P';   // the same object without the rejected calls
    const std::string k = hl_str(l);
    {
        std::lock_guard<std::mutex> g(g_href_mx);
        auto it = g_href.find(k);
        if (it != g_href.end()) return it->second;
    }
    HVal r;
    std::thread t([&] { r = run_letter(l, seed); });
    t.join();
    std::lock_guard<std::mutex> g(g_href_mx);
    g_href[k] = r;
    return r;
}

static bool hsame(const HVal& a, const HVal& b) {
    return a.threw == b.threw && a.v.size() == b.v.size() && (a.v.empty() || std::memcmp(a.v.data(), b.v.data(), a.v.size() * 8) == 0);
}

// one history in a fresh thread
static void run_fault_history(const std::vector<HL>& h, uint64_t seed, bool corr, Res& R) {
    std::vector<HVal> refs;
    for (auto& l : h) refs.push_back(fresh_reference(l, seed));
    std::thread t([&] {
        bool after_reject = false;
        for (size_t i = 0; i < h.size(); ++i) {
            const HL& l = h[i];
            const std::string js = "{\"history\":" + hist_str(h, int(i)) + ",\"step\":" + std::to_string(i) + ",\"entry\":\"" + hl_entry(l.kind) + "\",\"n\":" + std::to_string(l.n) +
                                   ",\"seed\":" + std::to_string(seed);
            const HVal got = run_letter(l, seed);
            R.n_oracle++;
            if (hl_rejected(l.kind)) {
                R.stats["history_rejected_calls"]++;
                if (!got.threw || got.inner_accepted) R.fails.push_back({"C02:rejected-call-accepted", js + "}"});
                after_reject = true;
                continue;
            }
            R.stats["history_valid_calls"]++;
            if (after_reject) R.stats["history_valid_calls_after_a_rejected_call"]++;
            if (got.inner_accepted) R.fails.push_back({"C02:rejected-call-accepted", js + "}"});
            if (got.threw) { R.fails.push_back({"C02:valid-call-threw-in-history", js + "}"}); continue; }
            // (a) the property's bound on the round trip
            if (l.kind == 'T') {
                const StftCase c = hl_stft_case(l.n, seed);
                const size_t nf = R.fails.size();
                stft_roundtrip(c, window::hann(l.n, false), hin_r(c.nx, seed), false, R);
                if (R.fails.size() > nf) R.fails.back().second = js + ",\"stft\":" + R.fails.back().second + "}";
            } else {
                const ld bound = 64 * ld(l.n) * EPSD;
                const ld rel = got.norm > 0 ? ld(got.err) / got.norm : (got.err == 0 ? 0 : 1e30L);
                R.n_oracle++;
                note(R, "roundtrip_in_history", double(rel / bound));
                if (!(rel <= bound))
                    R.fails.push_back({l.kind == 'C' ? "C02:ifft-roundtrip" : (l.kind == 'H' ? "C02:irfft-roundtrip-half" : "C02:irfft-roundtrip"),
                                       js + ",\"err\":" + vh::jnum(got.err) + ",\"bound\":" + vh::jnum(double(bound * got.norm)) + "}"});
            }
            // (b) bit-exact with the fresh thread
            R.n_oracle++;
            if (!hsame(got, refs[i])) {
                double md = 0;
                for (size_t k = 0; k < got.v.size() && k < refs[i].v.size(); ++k) md = std::max(md, std::fabs(got.v[k] - refs[i].v[k]));
                R.fails.push_back({"C02:result-depends-on-history", js + ",\"max_abs_diff_to_fresh_thread\":" + vh::jnum(md) + "}"});
            }
            // (c) correspondence: the stateless model must reproduce what the implementation returns HERE
            if (corr && after_reject && l.n <= 64) {
                const int n = l.n, hh = n / 2;
                arr_real y(int(got.v.size()));
                for (int k = 0; k < y.size(); ++k) y[k] = got.v[k];
                if (l.kind == 'F' || l.kind == 'P' || l.kind == '1' || l.kind == 'R') R.hcorr.push_back({"irfft " + std::to_string(n) + " " + vh::hxs(rfft(hin_r(n, seed))), vh::hxs(y)});
                else if (l.kind == 'H') R.hcorr.push_back({"irfft " + std::to_string(n) + " " + vh::hxs(arr_cmplx(rfft(hin_r(n, seed)).slice(0, hh + 1))), vh::hxs(y)});
                else if (l.kind == 'T' && n <= 16) {
                    const StftCase c = hl_stft_case(n, seed);
                    const arr_real win = window::hann(n, false);
                    const auto S = stft(hin_r(c.nx, seed), win, c.overlap, n, StftRange(c.range));
                    R.hcorr.push_back({"istft " + std::to_string(c.range) + " 0 " + std::to_string(n) + " " + std::to_string(c.overlap) + " " + vh::hxs(win) + " " + flat(S), vh::hxs(y)});
                }
            }
        }
    });
    t.join();
    R.stats["histories_with_rejected_calls"]++;
}

// the alphabet around the even base length n
static std::vector<HL> fault_alphabet(int n) {
    std::vector<HL> A = {{'F', n}, {'H', n}, {'P', n}, {'1', n}, {'R', n}, {'C', n}, {'F', n + 2}, {'o', n + 1}, {'q', n + 1}, {'O', n + 1}, {'u', n + 1},
                         {'w', n}, {'j', n}, {'E', 0}};
    if (n >= 4) { A.push_back({'H', n - 2}); A.push_back({'o', n - 1}); A.push_back({'O', n - 1}); }
    if (n >= 4) { A.push_back({'T', n}); A.push_back({'S', n + 1}); A.push_back({'U', n}); A.push_back({'V', n}); }
    return A;
}

static void fault_enumerate(int base, int maxlen, int first, uint64_t seed, Res& R) {   // all histories starting with letter `first`
    const std::vector<HL> A = fault_alphabet(base);
    if (first < 0) {   // all first letters
        for (int f = 0; f < int(A.size()); ++f) fault_enumerate(base, maxlen, f, seed, R);
        return;
    }
    std::vector<int> idx = {first};
    std::function<void()> rec = [&] {
        std::vector<HL> h;
        bool any_rej = false, valid_after = false;
        for (int i : idx) { h.push_back(A[i]); if (hl_rejected(A[i].kind)) any_rej = true; else if (any_rej) valid_after = true; }
        // histories without a valid call after a rejected one are prefixes of longer ones or covered by the sweeps
        if (valid_after && !hl_rejected(h.back().kind)) run_fault_history(h, seed, maxlen <= 2, R);
        if (int(idx.size()) == maxlen) return;
        for (int i = 0; i < int(A.size()); ++i) { idx.push_back(i); rec(); idx.pop_back(); }
    };
    rec();
}

static void fault_random(int id, int steps, int maxn, uint64_t seed, Res& R) {
    vh::Rng rng(seed * 7919 + uint64_t(id) * 104729 + 3);
    // a few base lengths (more distinct sizes than any small per-thread cache holds), neighbours included
    std::vector<HL> A;
    const int nb = rng.range(1, 4);
    for (int b = 0; b < nb; ++b) {
        int n = 2 * rng.range(1, maxn / 2);
        if (rng.next() % 4 == 0) n = 1 << rng.range(1, 11);
        if (n > maxn) n = maxn;
        for (auto& l : fault_alphabet(n)) A.push_back(l);
    }
    std::vector<HL> h;
    for (int i = 0; i < steps; ++i) {
        const HL l = A[rng.next() % A.size()];
        h.push_back(l);
        // "try n+1, fall back to n": an odd request is mostly followed by one of its even neighbours
        if ((l.kind == 'o' || l.kind == 'q' || l.kind == 'O' || l.kind == 'u' || l.kind == 'S') && rng.next() % 4) {
            static const char V[6] = {'F', 'H', 'P', '1', 'T', 'R'};
            const int m = (rng.next() % 3) ? l.n - 1 : l.n + 1;
            char k = V[rng.next() % 6];
            if (k == 'T' && m < 4) k = 'F';
            if (m >= 2) h.push_back({k, m});
        }
    }
    run_fault_history(h, seed, id % 8 == 0, R);
}

// rejected calls for the neighbours of n, issued by the sweeps on their (long-lived) worker threads
static void reject_neighbours(int n, uint64_t seed, Res& R) {
    for (int m : {n + 1, n - 1}) {
        if (m < 1) continue;
        for (char k : {'o', 'O', 'q'}) {
            const HVal v = run_letter({k, m}, seed);
            R.n_oracle++;
            if (!v.threw) R.fails.push_back({"C02:irfft-odd-accepted", "{\"entry\":\"" + std::string(hl_entry(k)) + "\",\"n\":" + std::to_string(m) + "}"});
        }
    }
    const HVal v = run_letter({'w', n}, seed);
    if (!v.threw || v.inner_accepted) R.fails.push_back({"C02:irfft-wrong-size-accepted", "{\"entry\":\"irfft(X, n)\",\"n\":" + std::to_string(n) + ",\"X_size\":" + std::to_string(n / 2) + "}"});
    R.stats["sweep_lengths_after_rejected_neighbours"]++;
}

// ---------------------------------------------------------------- sampled larger lengths
static bool is_prime(int n) {
    if (n < 2) return false;
    for (long long d = 2; d * d <= n; ++d) if (n % d == 0) return false;
    return true;
}
static std::vector<int> big_lengths(vh::Rng& rng, int per_family, int lo, int hi, bool even_only) {
    std::set<int> s;
    auto rnd_prime = [&](int a, int b) { for (;;) { int p = rng.range(a, b); if (is_prime(p)) return p; } };
    for (int i = 0; i < per_family; ++i) {
        s.insert(2 * rnd_prime(lo / 2 + 1, hi / 2));                               // 2 p        (table: direct path)
        s.insert(4 * (rng.range(lo / 4 + 1, hi / 4) | 1));                          // 4 x odd    (quarter-wave path, half size even non-pow2)
        s.insert(2 * (2 * rng.range(lo / 4 + 1, hi / 4 - 1) + 1));                  // 2 x odd
        s.insert(1 << rng.range(12, 17));                                           // powers of two
        s.insert(rng.range(lo / 2 + 1, hi / 2) * 2);
        if (!even_only) { s.insert(rnd_prime(lo, hi)); s.insert(rng.range(lo, hi) | 1); }
    }
    std::vector<int> v;
    for (int n : s) if (n > lo && n <= hi && (!even_only || n % 2 == 0)) v.push_back(n);
    return v;
}

int main(int argc, char** argv) {
    vh::Args a(argc, argv);
    vh::install_guards();
    vh::Rng rng(a.seed);
    const uint64_t seed = a.seed;
    const char* only = std::getenv("VERIF_PHASE");   // development aid: run a single phase
    const int N = a.thorough ? 2048 : 512;

    // 1. ifft, every n in 1..N
    if (!only || only[0] == '1') {
        vh::set_current("C02:crash-or-hang", "{\"phase\":\"ifft sweep of every length 1..N\",\"seed\":" + std::to_string(seed) + "}");
        vh::watch(a.thorough ? 3000 : 600);
        std::vector<int> order(N);
        for (int i = 0; i < N; ++i) order[i] = N - 1 - i;
        parallel_for(N, order, [&](int id, Res& R) {
            const int n = id + 1;
            ifft_sweep(n, seed, IfftCfg{n <= 24, n <= 256 || n % 16 == 1, n > 256}, R);
        });
        std::vector<int> lens = big_lengths(rng, a.thorough ? 10 : 2, N, 131072, false);
        parallel_for(int(lens.size()), {}, [&](int id, Res& R) { ifft_sweep(lens[id], seed, IfftCfg{false, false, id % 4 == 0 && lens[id] <= 40000}, R); });
        vh::unwatch();
        vh::clear_current();
    }
    // 2. irfft, every even n in 2..N both forms; every odd n rejected
    if (!only || only[0] == '2') {
        vh::set_current("C02:crash-or-hang", "{\"phase\":\"irfft sweep of every even length 2..N\",\"seed\":" + std::to_string(seed) + "}");
        vh::watch(a.thorough ? 3000 : 600);
        const int M = N / 2;
        std::vector<int> order(M);
        for (int i = 0; i < M; ++i) order[i] = M - 1 - i;
        parallel_for(M, order, [&](int id, Res& R) {
            const int n = 2 * (id + 1);
            irfft_sweep(n, seed, IfftCfg{n <= 24, n <= 256 || n % 32 == 2 || n % 32 == 20, n > 256}, R);
        });
        std::vector<int> lens = big_lengths(rng, a.thorough ? 10 : 2, N, 131072, true);
        parallel_for(int(lens.size()), {}, [&](int id, Res& R) { irfft_sweep(lens[id], seed, IfftCfg{false, false, id % 4 == 0 && lens[id] <= 40000}, R); });
        vh::unwatch();
        vh::clear_current();
        Res R;
        for (int n = -3; n <= 0; ++n) irfft_odd(n, seed, false, R);
        for (int n = 1; n <= N + 1; n += 2) irfft_odd(n, seed, n <= 33, R);
        for (int n : {4097, 65537, 99999}) irfft_odd(n, seed, false, R);
        merge(R);
    }
    // 3. stft / istft grid
    if (!only || only[0] == '3') {
        vh::set_current("C02:crash-or-hang", "{\"phase\":\"stft/istft grid\",\"seed\":" + std::to_string(seed) + "}");
        vh::watch(a.thorough ? 3000 : 900);
        std::vector<int> nffts = a.thorough ? std::vector<int>{8, 16, 32, 64, 128, 256, 512, 1024, 12, 20, 24, 28, 36, 40, 48, 60, 72, 96, 100, 120, 144, 200, 240, 360, 500, 1000, 10, 14, 30, 66}
                                            : std::vector<int>{8, 16, 32, 64, 128, 256, 512, 1024, 12, 20, 24, 36, 48, 60, 100, 120, 360, 10, 30};
        struct Task { int nfft, nwin; WinSpec ws; int corr; };
        std::vector<Task> tasks;
        for (int nfft : nffts) {
            std::vector<int> nwins = {nfft};
            if (nfft >= 16 && (a.thorough || nfft <= 128)) nwins.push_back(nfft / 2 + (nfft % 8 == 0 ? 0 : 1));   // zero-padded frames, also odd window lengths
            if (a.thorough && nfft >= 12 && nfft <= 256) nwins.push_back(nfft - 3);
            for (int nwin : nwins)
                for (int fam = 0; fam < NFAM; ++fam)
                    for (int sym = 0; sym < 2; ++sym) {
                        if (fam == RECT && sym == 0) continue;   // same vector
                        if (!a.thorough && nfft > 256 && nwin == nfft && (fam == KAISER_HI || fam == HAMMING) && sym == 1) continue;
                        const int corr = (nfft <= 32 && nwin == nfft) || (nfft <= 128 && fam == int((nfft / 4) % NFAM)) || (fam == HANN && sym == 0 && nfft <= (a.thorough ? 1024 : 256)) ? 1 : 0;
                        tasks.push_back({nfft, nwin, WinSpec{fam, sym == 1}, corr});
                    }
        }
        std::vector<int> order(tasks.size());
        for (size_t i = 0; i < order.size(); ++i) order[i] = int(i);
        std::stable_sort(order.begin(), order.end(), [&](int p, int q) { return tasks[p].nwin > tasks[q].nwin; });
        parallel_for(int(tasks.size()), order, [&](int id, Res& R) {
            const Task& t = tasks[id];
            stft_grid_task(t.nfft, t.nwin, t.ws, seed, a.thorough, t.corr, R);
        });
        Res R;
        stft_misc(seed, a.thorough, R);
        merge(R);
        vh::unwatch();
        vh::clear_current();
    }
    // 4. histories with rejected calls
    if (!only || only[0] == '4') {
        vh::set_current("C02:crash-or-hang", "{\"phase\":\"histories with rejected calls\",\"seed\":" + std::to_string(seed) + "}");
        vh::watch(a.thorough ? 3000 : 900);
        struct FT { int base, maxlen, first; };
        std::vector<FT> tasks;
        const std::vector<int> bases3 = a.thorough ? std::vector<int>{2, 6, 10, 12, 16, 30, 64, 100, 250, 1000, 2048} : std::vector<int>{2, 10, 12, 64};
        for (int b : bases3) tasks.push_back({b, 2, -1});   // the shortest histories first (minimal witnesses)
        for (int b : bases3) for (int f = 0; f < int(fault_alphabet(b).size()); ++f) tasks.push_back({b, 3, f});
        if (a.thorough) for (int b : {10, 12}) for (int f = 0; f < int(fault_alphabet(b).size()); ++f) tasks.push_back({b, 4, f});
        parallel_for(int(tasks.size()), {}, [&](int id, Res& R) { fault_enumerate(tasks[id].base, tasks[id].maxlen, tasks[id].first, seed, R); });
        const int NR = a.thorough ? 600 : 96;
        parallel_for(NR, {}, [&](int id, Res& R) { fault_random(id, a.thorough ? 60 : 32, id % 5 == 4 ? (a.thorough ? 8192 : 2048) : 512, seed, R); });
        if (a.thorough) {   // a few large lengths: 2^16, 2^17, 2 x prime, 4 x odd
            const std::vector<int> big = {65536, 131072, 2 * 46349, 4 * 12345, 98306};
            parallel_for(int(big.size()), {}, [&](int id, Res& R) {
                const int n = big[id];
                run_fault_history({{'o', n + 1}, {'F', n}, {'O', n - 1}, {'H', n}, {'w', n}, {'P', n}, {'u', n + 1}, {'1', n}, {'q', n - 1}, {'H', n - 2}}, seed, false, R);
            });
        }
        vh::unwatch();
        vh::clear_current();
    }
    for (auto& w : g_worst) out.stat("worst_err_over_bound_ppm_" + w.first, (long long)std::min(1e15, w.second * 1e6));
    // distinct = distinct protocol lines + distinct oracle configurations (entry point, length, input class / stft configuration);
    // the per-sample reconstruction checks are counted in oracle_evaluations only
    out.stat("distinct_nontrivial", out.n_cases + out.stats["oracle_configs"]);
    out.finish();
    return 0;
}
