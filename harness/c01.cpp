// C01 — forward transforms equal the DFT for every length and input.
//
// ORACLE (on the implementation, long double): direct DFT  X[k] = sum_m x[m] exp(-2 pi i m k / n)
//   * relative l2 error <= 32 n eps for fft / rfft / FftPlan / FftPlanR, complex and real input,
//     input classes: Gaussian, impulses (3 positions), constant, single tone, alternating signs,
//     1e+-150 dynamic range;  every n in 1..512 (quick) / 1..4096 (thorough) with ALL bins, and a
//     structured sample of lengths up to 2^17 (primes, semiprimes, prime powers, 2^k p, highly
//     composite) with 32 random bins + their mirrors (Goertzel style) and two full-vector
//     consequences of the bound (Parseval, sum of bins = n x[0]);
//   * fft(x, n') = DFT of x zero-padded / truncated to n' for all n' in 1..2n;
//   * real input: same transform as the complexified input, conjugate symmetric;
//   * czt(x, m, w, a): ||err||_2 <= 32 n2 eps sqrt(m) ||(x_j a^-j)_j||_2  (DESIGN.md C01);
//     parameter classes (phase 5): real and imaginary part of a INDEPENDENTLY from {0, -0, +-1, 1+-ulp, -1-ulp, +-0.5, random},
//     a within {eps/2 .. 1e-4} of 1 in five directions (the code's `abs(a - 1) > eps(a.re)` test), w from exact axis points,
//     points whose real (imaginary) part alone is special, a == w, a == conj(w); (n, m) on the boundaries of the inner
//     power-of-two size; plan objects reused / after a rejected call;
//   * magnitude classes (phase 6), every entry point: few-sample and dense signals whose l1 norm is just below DBL_MAX
//     (every partial sum of the DFT is finite) -> result finite and accurate; 1e-300 / DBL_MIN / denormal scales;
//     all-zero and negative-zero inputs.
// CORR: the same calls are replayed by the Lean model (Model/Fft.lean) at Float.
#include "common.hpp"
#include <thread>
#include <atomic>
#include <algorithm>
#include <set>
using namespace dsplib;
typedef long double ld;

static const ld TWO_PI = 6.283185307179586476925286766559005768L;
static const ld EPSD = 2.220446049250313080847263336181640625e-16L;

struct C { ld re, im; };
static inline C operator+(C a, C b) { return {a.re + b.re, a.im + b.im}; }
static inline C operator-(C a, C b) { return {a.re - b.re, a.im - b.im}; }
static inline C operator*(C a, C b) { return {a.re * b.re - a.im * b.im, a.re * b.im + a.im * b.re}; }
static inline C cj(C a) { return {a.re, -a.im}; }
static inline ld n2(C a) { return a.re * a.re + a.im * a.im; }

// ---------------------------------------------------------------- per-task result (threads)
struct Res {
    std::vector<std::pair<std::string, std::string>> corr;
    std::vector<std::pair<std::string, std::string>> fails;
    std::map<std::string, long long> stats;
    std::map<std::string, double> worst;   // max err/bound per category
    std::vector<std::string> samples;
    long long n_oracle = 0;
    // known finding C01:cztleaf-top-of-range-nonfinite: per entry point the number of cases and the witness of smallest n
    struct TopRec { long long count = 0; int n = 0; std::string js; };
    std::map<std::string, TopRec> top;
};

static vh::Out out;
static std::map<std::string, double> g_worst;
static std::map<std::string, Res::TopRec> g_top;

static void merge(const Res& r) {
    for (auto& c : r.corr) out.corr(c.first, c.second);
    for (auto& f : r.fails) out.fail(f.first, f.second);
    for (auto& s : r.stats) out.stat(s.first, s.second);
    for (auto& w : r.worst) g_worst[w.first] = std::max(g_worst[w.first], w.second);
    for (auto& s : r.samples) out.sample(s);
    for (auto& t : r.top) {
        auto& g = g_top[t.first];
        if (g.count == 0 || t.second.n < g.n) { g.n = t.second.n; g.js = t.second.js; }
        g.count += t.second.count;
    }
    out.n_oracle += r.n_oracle;
}

template<class F>
static void parallel_for(int ntasks, const std::vector<int>& order, F fn) {
    std::vector<Res> results(ntasks);
    std::atomic<int> next{0};
    int nt = int(std::thread::hardware_concurrency());
    if (nt < 1) nt = 1;
    if (nt > 12) nt = 12;
    if (const char* e = std::getenv("VERIF_THREADS")) nt = std::max(1, std::atoi(e));
    std::vector<std::thread> th;
    for (int t = 0; t < nt; ++t)
        th.emplace_back([&] {
            for (;;) {
                const int i = next.fetch_add(1);
                if (i >= ntasks) break;
                const int id = order.empty() ? i : order[i];
                fn(id, results[id]);
            }
        });
    for (auto& t : th) t.join();
    for (auto& r : results) merge(r);
}

// ---------------------------------------------------------------- reference DFT
struct Table {
    int n;
    std::vector<C> w;   // w[r] = exp(-2 pi i r / n)
    explicit Table(int n_) : n(n_), w(n_) {
        for (int r = 0; r < n; ++r) {
            const ld t = TWO_PI * ld(r) / ld(n);
            w[r] = {cosl(t), -sinl(t)};
        }
    }
    C pw(long long e) const { return w[size_t(((e % n) + n) % n)]; }
};

typedef std::vector<C> CV;

static C ref_bin(const CV& x, const Table& T, int k) {
    C acc{0, 0};
    int idx = 0;
    const int n = T.n;
    for (int m = 0; m < n; ++m) {
        acc = acc + x[m] * T.w[idx];
        idx += k;
        if (idx >= n) idx -= n;
    }
    return acc;
}

static arr_cmplx to_arr(const CV& x) {
    arr_cmplx a(int(x.size()));
    for (size_t i = 0; i < x.size(); ++i) a[int(i)] = cmplx_t{double(x[i].re), double(x[i].im)};
    return a;
}
static arr_real to_arr_re(const CV& x) {
    arr_real a(int(x.size()));
    for (size_t i = 0; i < x.size(); ++i) a[int(i)] = double(x[i].re);
    return a;
}
static ld l2(const CV& x) {
    ld s = 0;
    for (auto& v : x) s += n2(v);
    return sqrtl(s);
}

// ---------------------------------------------------------------- input classes
enum Cls { GAUSS = 0, IMP0, IMPM, IMPL, CONST, TONE, ALT, DYN, NCLS };
static const char* CLS_NAME[] = {"gauss", "impulse0", "impulse_mid", "impulse_last", "constant", "tone", "alternating", "dynrange"};

struct Input {
    CV x;          // values are exact doubles
    int p = 0;     // impulse position / tone frequency
    C amp{1, 0};   // impulse / constant amplitude
};

static Input make_input(int cls, int n, vh::Rng& rng) {
    Input in;
    in.x.assign(n, C{0, 0});
    switch (cls) {
    case GAUSS:
        for (auto& v : in.x) v = {rng.gauss(), rng.gauss()};
        break;
    case IMP0: case IMPM: case IMPL:
        in.p = cls == IMP0 ? 0 : cls == IMPL ? n - 1 : rng.range(0, n - 1);
        in.amp = {rng.gauss() + 1.5, rng.gauss()};
        in.x[in.p] = in.amp;
        break;
    case CONST:
        in.amp = {0.75 + rng.unit(), rng.sym()};
        for (auto& v : in.x) v = in.amp;
        break;
    case TONE: {
        in.p = rng.range(0, n - 1);
        const double A = 0.5 + rng.unit();
        for (int m = 0; m < n; ++m) {
            const double t = 6.283185307179586 * double((long long)in.p * m % n) / n;
            in.x[m] = {A * std::cos(t), A * std::sin(t)};
        }
        break;
    }
    case ALT:
        for (int m = 0; m < n; ++m) in.x[m] = {(m % 2) ? -1.0 : 1.0, 0};
        break;
    case DYN:
        for (int m = 0; m < n; ++m) {
            const double s1 = std::pow(10.0, 150 * rng.sym()), s2 = std::pow(10.0, 150 * rng.sym());
            in.x[m] = {rng.gauss() * s1, rng.gauss() * s2};
        }
        if (n >= 1) in.x[rng.range(0, n - 1)] = {1e150 * (rng.coin() ? 1 : -1), 1e150 * rng.sym()};
        if (n >= 2) { int q = rng.range(0, n - 1); if (std::fabs(double(in.x[q].re)) < 1e100) in.x[q] = {1e-150, -1e-150}; }
        break;
    }
    return in;
}

// reference bins X[k], k in ks, of the input (closed forms where the input is exactly representable)
static CV ref_bins(int cls, const Input& in, const Table& T, const std::vector<int>& ks, bool force_direct) {
    const int n = T.n;
    CV X(ks.size());
    for (size_t i = 0; i < ks.size(); ++i) {
        const int k = ks[i];
        if (force_direct) { X[i] = ref_bin(in.x, T, k); continue; }
        switch (cls) {
        case IMP0: case IMPM: case IMPL: X[i] = in.amp * T.pw((long long)in.p * k); break;
        case CONST: X[i] = k == 0 ? C{in.amp.re * n, in.amp.im * n} : C{0, 0}; break;
        case ALT:
            if (n % 2 == 0) X[i] = (k == n / 2) ? C{ld(n), 0} : C{0, 0};
            else {   // sum (-w^k)^m = 2 / (1 + w^k)
                const C d = C{1, 0} + T.pw(k);
                const ld q = n2(d);
                X[i] = {2 * d.re / q, -2 * d.im / q};
            }
            break;
        default: X[i] = ref_bin(in.x, T, k); break;
        }
    }
    return X;
}

static std::string jvec(const CV& x) {
    std::string s = "[";
    for (size_t i = 0; i < x.size(); ++i) { if (i) s += ","; s += "[" + vh::jnum(double(x[i].re)) + "," + vh::jnum(double(x[i].im)) + "]"; }
    return s + "]";
}

// phases 5/6 name their input class themselves (and add the support of sparse signals)
static thread_local std::string tl_cls, tl_extra;

static std::string wit(const char* entry, int n, int cls, uint64_t seed, const CV& x, ld err, ld bound, int np = -1) {
    std::string s = std::string("{\"entry\":\"") + entry + "\",\"n\":" + std::to_string(n);
    if (np >= 0) s += ",\"n_out\":" + std::to_string(np);
    s += tl_extra;
    s += std::string(",\"class\":\"") + (tl_cls.empty() ? std::string(CLS_NAME[cls]) : tl_cls) + "\",\"seed\":" + std::to_string(seed) + ",\"rel_err\":" + vh::jnum(double(err)) +
         ",\"bound\":" + vh::jnum(double(bound));
    if (x.size() <= 16) s += ",\"x\":" + jvec(x);
    return s + "}";
}

struct Ref {
    int n;
    std::vector<int> ks;   // bins held (all bins when full)
    CV X;                  // X at ks
    bool full;
    ld norm;               // ||X||_2 (exact sum when full, Parseval otherwise)
    ld x0sum_re, x0sum_im; // n * x[0]
};

// returns err / (bound * norm); records failure
// absfloor: absolute l2 error allowed on top of the relative bound (only the denormal-scale classes use it: below
// DBL_MIN every operation has an ABSOLUTE rounding error of up to one denormal step)
static void check(Res& R, const char* entry, const char* cat, const arr_cmplx& y, const Ref& ref, int cls, uint64_t seed, const CV& x, int np = -1,
                  ld absfloor = 0) {
    const int n = ref.n;
    R.n_oracle++;
    const ld bound = 32 * ld(n) * EPSD;
    if (y.size() != n) { R.fails.push_back({std::string("C01:") + cat + "-size", wit(entry, int(x.size()), cls, seed, x, 0, bound, np)}); return; }
    ld e2 = 0;
    bool finite = true;
    for (size_t i = 0; i < ref.ks.size(); ++i) {
        const int k = ref.ks[i];
        if (!std::isfinite(y[k].re) || !std::isfinite(y[k].im)) finite = false;
        const C d = C{y[k].re, y[k].im} - ref.X[i];
        e2 += n2(d);
    }
    // when only some bins are held, e2 is a LOWER bound of ||Y - X||^2 (no extrapolation: errors of structured
    // inputs concentrate in few bins), so exceeding the bound is a definite violation
    ld err = sqrtl(e2);
    if (absfloor > 0 && finite && !(err <= 32 * ld(n) * EPSD * ref.norm)) {
        // the relative bound alone does not hold (denormal range): how much of the absolute allowance is used
        auto& wf = R.worst[std::string(cat) + "-absfloor-used"];
        wf = std::max(wf, double(err / absfloor));
    }
    if (absfloor > 0) err = err > absfloor ? err - absfloor : 0;
    ld rel;
    if (ref.norm == 0) rel = (err == 0) ? 0 : 1e30L;
    else rel = err / ref.norm;
    if (!ref.full && finite) {
        // consequences of the l2 bound that see every bin: | ||Y|| - ||X|| | <= ||Y - X||,  |sum_k (Y_k - X_k)| <= sqrt(n) ||Y - X||
        ld s2 = 0, sr = 0, si = 0;
        for (int k = 0; k < n; ++k) {
            if (!std::isfinite(y[k].re) || !std::isfinite(y[k].im)) finite = false;
            s2 += ld(y[k].re) * y[k].re + ld(y[k].im) * y[k].im;
            sr += y[k].re; si += y[k].im;
        }
        if (ref.norm > 0) {
            const ld r1 = fabsl(sqrtl(s2) - ref.norm) / ref.norm;
            const ld r2 = sqrtl((sr - ref.x0sum_re) * (sr - ref.x0sum_re) + (si - ref.x0sum_im) * (si - ref.x0sum_im)) / (sqrtl(ld(n)) * ref.norm);
            rel = std::max(rel, std::max(r1, r2));
        }
    }
    if (!finite) rel = 1e30L;
    const double ratio = double(rel / bound);
    auto& w = R.worst[cat];
    if (ratio > w) w = ratio;
    if (ratio > 0.1 && std::getenv("VERIF_DEBUG")) std::fprintf(stderr, "ratio %.3f %s n=%d class=%s\n", ratio, entry, n, CLS_NAME[cls]);
    if (!(rel <= bound)) R.fails.push_back({std::string("C01:") + cat + "-accuracy", wit(entry, int(x.size()), cls, seed, x, rel, bound, np)});
}

// difference of two outputs, relative to ||X||, must be <= 2*bound (triangle inequality); conj symmetry likewise
static void check_pair(Res& R, const char* entry, const char* cat, const arr_cmplx& y1, const arr_cmplx& y2, bool mirror, const Ref& ref, int cls,
                       uint64_t seed, const CV& x, ld absfloor = 0) {
    const int n = ref.n;
    R.n_oracle++;
    const ld bound = 2 * 32 * ld(n) * EPSD;
    if (y1.size() != n || y2.size() != n) return;   // reported by check()
    ld e2 = 0;
    for (int k = 0; k < n; ++k) {
        const int k2 = mirror ? (n - k) % n : k;
        const ld dr = ld(y1[k].re) - y2[k2].re;
        const ld di = mirror ? ld(y1[k].im) + y2[k2].im : ld(y1[k].im) - y2[k2].im;
        e2 += dr * dr + di * di;
    }
    ld e1 = sqrtl(e2);
    if (absfloor > 0 && e1 == e1) e1 = e1 > 2 * absfloor ? e1 - 2 * absfloor : 0;
    ld rel = ref.norm == 0 ? (e1 == 0 ? 0 : 1e30L) : e1 / ref.norm;
    if (!(rel == rel)) rel = 1e30L;
    const double ratio = double(rel / bound);
    auto& w = R.worst[cat];
    if (ratio > w) w = ratio;
    if (!(rel <= bound)) R.fails.push_back({std::string("C01:") + cat, wit(entry, n, cls, seed, x, rel, bound)});
}

static bool is_prime(int n) {
    if (n < 2) return false;
    for (long long d = 2; d * d <= n; ++d) if (n % d == 0) return false;
    return true;
}
static bool is_pow2(int n) { return n >= 1 && (n & (n - 1)) == 0; }

static std::string plan_kind_c(int n) {
    if (n == 1 || n == 2 || n == 4 || n == 8) return "small";
    if (is_prime(n)) return n == 3 ? "dft3" : n <= 41 ? "prime_slow" : "prime_czt";
    if (is_pow2(n)) return "pow2";
    return "factor";
}
static std::string plan_kind_r(int n) {
    if (n == 1 || n == 2 || n == 4 || n == 8) return "small";
    if (is_prime(n)) return n == 3 ? "dft3" : n <= 41 ? "prime_slow" : "prime_czt";
    if (n % 2 == 0) return "packed_" + plan_kind_c(n / 2);
    return "factor";
}

// ---------------------------------------------------------------- generated inputs for digest cases (mirrored by the Lean driver)
static inline uint64_t mix(uint64_t m, uint64_t s) {
    uint64_t z = (m + 1) * 0x9e3779b97f4a7c15ULL + s * 0xbf58476d1ce4e5b9ULL;
    z ^= z >> 29;
    z *= 0x94d049bb133111ebULL;
    z ^= z >> 32;
    return z;
}
static inline double gen_re(uint64_t m, uint64_t s) { return (double(mix(m, s) % 4001) - 2000.0) / 2048.0; }
static inline double gen_im(uint64_t m, uint64_t s) { return (double((mix(m, s) >> 20) % 4001) - 2000.0) / 2048.0; }

// digest of a big output: 8 bins + 4 weighted sums (sequential accumulation, mirrored by the driver)
static std::string digest(const arr_cmplx& y) {
    const int n = y.size();
    std::string s = std::to_string(n);
    for (int i = 0; i < 8; ++i) {
        const int k = int(((long long)i * n) / 8 + (i % 3)) % n;
        s += " " + vh::hx(y[k].re) + " " + vh::hx(y[k].im);
    }
    double a[4][2] = {{0, 0}, {0, 0}, {0, 0}, {0, 0}};
    for (int k = 0; k < n; ++k) {
        const double g[4] = {1.0, (k % 2) ? -1.0 : 1.0, double(k % 7) - 3.0, double(((long long)k * k) % 5) - 2.0};
        for (int j = 0; j < 4; ++j) { a[j][0] += y[k].re * g[j]; a[j][1] += y[k].im * g[j]; }
    }
    for (int j = 0; j < 4; ++j) s += " " + vh::hx(a[j][0]) + " " + vh::hx(a[j][1]);
    return s;
}

// ---------------------------------------------------------------- the sweep over one length
struct SweepCfg {
    bool corr_full_gauss;   // C fft / C rfft with the Gaussian vectors
    bool corr_full_all;     // ... and all other classes
    bool corr_digest;       // C fftg / C rfftg
};

static void sweep(int n, uint64_t seed, const SweepCfg& cfg, Res& R) {
    const bool full = n <= 4096;
    vh::Rng rng(seed * 0x100000001b3ULL + uint64_t(n) * 0x9e3779b97f4a7c15ULL + 17);
    const uint64_t wseed = seed;
    Table T(n);
    std::vector<int> ks;
    if (full) { ks.resize(n); for (int k = 0; k < n; ++k) ks[k] = k; }
    else {
        std::set<int> s{0, 1, n - 1, n / 2, (n - n / 2) % n};
        while (int(s.size()) < 256) { const int k = rng.range(0, n - 1); s.insert(k); s.insert((n - k) % n); }
        ks.assign(s.begin(), s.end());
    }
    std::vector<int> ks_all(n);
    for (int k = 0; k < n; ++k) ks_all[k] = k;
    R.stats["len_kind_c_" + plan_kind_c(n)]++;
    R.stats["len_kind_r_" + plan_kind_r(n)]++;
    R.stats[full ? "lengths_all_bins" : "lengths_sampled_bins"]++;

    FftPlan planc(n);
    FftPlanR planr(n);
    for (int cls = 0; cls < NCLS; ++cls) {
        if (n == 1 && (cls == IMPM || cls == IMPL)) continue;
        const Input in = make_input(cls, n, rng);
        const CV& x = in.x;
        // classes whose DFT has a closed form get all bins at every length; the others all bins up to 4096 and a
        // sample (incl. the tone's own bin and its neighbours) above
        const bool closed = cls == IMP0 || cls == IMPM || cls == IMPL || cls == CONST || cls == ALT;
        const bool cfull = full || closed;
        std::vector<int> ksc = cfull ? ks_all : ks;
        if (!cfull && cls == TONE) {
            std::set<int> s2(ksc.begin(), ksc.end());
            for (int d = -2; d <= 2; ++d) { const int k = ((in.p + d) % n + n) % n; s2.insert(k); s2.insert((n - k) % n); }
            ksc.assign(s2.begin(), s2.end());
        }
        const std::vector<int>& ks = ksc;
        std::map<int, int> pos;
        if (!cfull) for (size_t i = 0; i < ks.size(); ++i) pos[ks[i]] = int(i);
        const bool full = cfull;
        // closed forms are cross-checked against the direct sum for small n (the reference checks itself)
        Ref ref{n, ks, ref_bins(cls, in, T, ks, n <= 48), full, 0, 0, 0};
        if (n <= 48 && (cls == IMP0 || cls == IMPM || cls == IMPL || cls == CONST || cls == ALT)) {
            const CV X2 = ref_bins(cls, in, T, ks, false);
            ld d = 0;
            for (size_t i = 0; i < X2.size(); ++i) d += n2(X2[i] - ref.X[i]);
            if (sqrtl(d) > 1e-17L * (1 + l2(ref.X)) * n) R.fails.push_back({"C01:harness-selfcheck", wit("closed-form", n, cls, wseed, x, sqrtl(d), 0)});
        }
        ref.norm = full ? l2(ref.X) : sqrtl(ld(n)) * l2(x);
        ref.x0sum_re = x[0].re * n; ref.x0sum_im = x[0].im * n;
        // real part as a real input: Xr[k] = (X[k] + conj X[n-k]) / 2
        CV xr(n);
        for (int m = 0; m < n; ++m) xr[m] = {x[m].re, 0};
        Ref rref{n, ks, CV(ks.size()), full, 0, xr[0].re * n, 0};
        for (size_t i = 0; i < ks.size(); ++i) {
            const C a = ref.X[i], b = cj(ref.X[full ? size_t((n - ks[i]) % n) : size_t(pos[(n - ks[i]) % n])]);
            rref.X[i] = {(a.re + b.re) / 2, (a.im + b.im) / 2};
        }
        rref.norm = full ? l2(rref.X) : sqrtl(ld(n)) * l2(xr);

        const arr_cmplx ax = to_arr(x);
        const arr_real ar = to_arr_re(x);
        const arr_cmplx y1 = fft(ax);
        check(R, "fft(arr_cmplx)", "fft-complex", y1, ref, cls, wseed, x);
        const arr_cmplx y2 = planc(ax);
        check(R, "FftPlan(n)(arr_cmplx)", "plan-complex", y2, ref, cls, wseed, x);
        const arr_cmplx y3 = fft(ar);
        check(R, "fft(arr_real)", "fft-real", y3, rref, cls, wseed, xr);
        const arr_cmplx y4 = rfft(ar);
        check(R, "rfft(arr_real)", "rfft", y4, rref, cls, wseed, xr);
        const arr_cmplx y5 = planr(ar);
        check(R, "FftPlanR(n)(arr_real)", "plan-real", y5, rref, cls, wseed, xr);
        const arr_cmplx y6 = fft(complex(ar));
        check(R, "fft(complex(arr_real))", "fft-complexified", y6, rref, cls, wseed, xr);
        check_pair(R, "fft(arr_real) vs fft(complex(arr_real))", "real-vs-complex", y3, y6, false, rref, cls, wseed, xr);
        check_pair(R, "fft(arr_real)[k] vs conj fft(arr_real)[n-k]", "conj-symmetry", y3, y3, true, rref, cls, wseed, xr);
        check_pair(R, "fft(complex(arr_real)) conj symmetry", "conj-symmetry", y6, y6, true, rref, cls, wseed, xr);
        R.stats[std::string("class_") + CLS_NAME[cls]]++;
        if (cls == GAUSS || cls == DYN) {
            // the operand is also the destination (x = fft(x), x = plan(x)): same bits as with a distinct destination
            arr_cmplx z1 = ax, z2 = ax;
            z1 = fft(z1);
            z2 = planc(z2);
            R.n_oracle++;
            bool same = z1.size() == y1.size() && z2.size() == y2.size();
            for (int k = 0; k < n && same; ++k)
                same = std::memcmp(&z1[k], &y1[k], sizeof(cmplx_t)) == 0 && std::memcmp(&z2[k], &y2[k], sizeof(cmplx_t)) == 0;
            if (!same) R.fails.push_back({"C01:aliasing-operand-is-destination", wit("x = fft(x) / x = plan(x)", n, cls, wseed, x, 0, 0)});
            R.stats["aliasing_probes"]++;
        }

        const bool emit = (cfg.corr_full_gauss && cls == GAUSS) || cfg.corr_full_all;
        if (emit) {
            // alternate between the free function and the plan object on the implementation side
            const bool use_plan = (n + cls) % 2 == 1;
            R.corr.push_back({"fft " + vh::hxs(ax), vh::hxs(use_plan ? y2 : y1)});
            R.corr.push_back({"rfft " + vh::hxs(ar), vh::hxs(use_plan ? y5 : y4)});
            R.stats[use_plan ? "corr_via_plan_object" : "corr_via_free_function"]++;
        }
        if (cls == GAUSS && n <= 8) R.samples.push_back(wit("fft(arr_cmplx)", n, cls, wseed, x, 0, 32 * ld(n) * EPSD));
    }
    // plan object reused after other inputs: first input again (stale state across calls)
    {
        vh::Rng r2(seed ^ (uint64_t(n) << 20));
        const Input in = make_input(GAUSS, n, r2);
        Ref ref{n, ks, ref_bins(GAUSS, in, T, ks, true), full, 0, in.x[0].re * n, in.x[0].im * n};
        ref.norm = full ? l2(ref.X) : sqrtl(ld(n)) * l2(in.x);
        check(R, "FftPlan(n)(arr_cmplx), 9th call", "plan-complex", planc(to_arr(in.x)), ref, GAUSS, wseed, in.x);
    }
    if (cfg.corr_digest) {
        arr_cmplx gx(n);
        arr_real gr(n);
        const uint64_t s = seed * 1000003ULL + uint64_t(n);
        for (int m = 0; m < n; ++m) { gx[m] = cmplx_t{gen_re(m, s), gen_im(m, s)}; gr[m] = gen_re(m, s + 7); }
        R.corr.push_back({"fftg " + std::to_string(n) + " " + std::to_string(s), digest(fft(gx))});
        R.corr.push_back({"rfftg " + std::to_string(n) + " " + std::to_string(s + 7), digest(fft(gr))});
    }
}

// ---------------------------------------------------------------- fft(x, n')
static void padtrunc(int n, uint64_t seed, bool corr, Res& R) {
    vh::Rng rng(seed * 0x2545f4914f6cdd1dULL + uint64_t(n) * 77 + 5);
    for (int cls : {int(GAUSS), int(DYN), int(CONST)}) {
        if (cls != GAUSS && n % 4 != 1) continue;
        const Input in = make_input(cls, n, rng);
        const arr_cmplx ax = to_arr(in.x);
        const arr_real ar = to_arr_re(in.x);
        for (int np = 1; np <= 2 * n; ++np) {
            CV xp(np, C{0, 0}), xrp(np, C{0, 0});
            for (int m = 0; m < std::min(n, np); ++m) { xp[m] = in.x[m]; xrp[m] = {in.x[m].re, 0}; }
            Table T(np);
            std::vector<int> ks(np);
            for (int k = 0; k < np; ++k) ks[k] = k;
            Input ip; ip.x = xp;
            Input ir; ir.x = xrp;
            Ref ref{np, ks, ref_bins(GAUSS, ip, T, ks, true), true, 0, 0, 0};
            ref.norm = l2(ref.X);
            Ref rref{np, ks, ref_bins(GAUSS, ir, T, ks, true), true, 0, 0, 0};
            rref.norm = l2(rref.X);
            const arr_cmplx y1 = fft(ax, np);
            check(R, "fft(arr_cmplx, n_out)", np < n ? "fftn-truncate-complex" : np > n ? "fftn-pad-complex" : "fftn-same-complex", y1, ref, cls, seed, in.x, np);
            const arr_cmplx y2 = fft(ar, np);
            check(R, "fft(arr_real, n_out)", np < n ? "fftn-truncate-real" : np > n ? "fftn-pad-real" : "fftn-same-real", y2, rref, cls, seed, in.x, np);
            const arr_cmplx y3 = rfft(ar, np);
            check(R, "rfft(arr_real, n_out)", np < n ? "rfftn-truncate" : np > n ? "rfftn-pad" : "rfftn-same", y3, rref, cls, seed, in.x, np);
            R.stats[np < n ? "padtrunc_truncate" : np > n ? "padtrunc_pad" : "padtrunc_same"]++;
            if (corr && cls == GAUSS) {
                R.corr.push_back({"fftn " + std::to_string(np) + " " + vh::hxs(ax), vh::hxs(y1)});
                R.corr.push_back({"rfftn " + std::to_string(np) + " " + vh::hxs(ar), vh::hxs((np % 2) ? y2 : y3)});
            }
        }
    }
}

// ---------------------------------------------------------------- czt
struct CztIn {
    int n = 1, m = 1;
    cmplx_t w{1, 0}, a{1, 0};
    CV x;
    int entry = 1;   // 0 czt(x, m, w) (default a)  1 czt(x, m, w, a)  2 CztPlan  3 CztPlan, second call  4 CztPlan after a rejected call
    int id = 0;
    std::string cls;
};

// reference a^-j, j < n, in long double: polar form, cross-checked against repeated multiplication by 1/a (short runs)
static CV ref_apow(cmplx_t a, int n, bool& selfcheck_ok) {
    const ld ar = a.re, ai = a.im;
    const ld ra = hypotl(ar, ai), pa = atan2l(ai, ar);
    CV p(n);
    for (int j = 0; j < n; ++j) {
        const ld mag = powl(ra, -ld(j));
        p[j] = {mag * cosl(-pa * j), mag * sinl(-pa * j)};
    }
    selfcheck_ok = true;
    if (n <= 40) {
        const ld q = ar * ar + ai * ai;
        const C inv{ar / q, -ai / q};
        C r{1, 0};
        for (int j = 0; j < n; ++j) {
            const ld d = sqrtl(n2(r - p[j])), sc = sqrtl(n2(p[j]));
            if (!(d <= 64 * 1.0842021724855044e-19L * (j + 1) * sc)) selfcheck_ok = false;
            r = r * inv;
        }
    }
    return p;
}

// runs one czt call on the implementation; ORACLE: the chirp-z definition sum_j x[j] a^-j w^(jk), direct O(n m) sum in
// long double (w taken on the unit circle: its argument; a exactly as given); CORR: the model replays the call
static void czt_eval(const CztIn& q, uint64_t seed, bool corr, bool oracle, bool sample, Res& R) {
    const int n = q.n, m = q.m;
    const cmplx_t w = q.w, a = q.a;
    const CV& x = q.x;
    const arr_cmplx ax = to_arr(x);
    static const char* ENT[] = {"czt(x,m,w)", "czt(x,m,w,a)", "CztPlan", "CztPlan second call", "CztPlan after rejected call"};
    const std::string js = "{\"entry\":\"" + std::string(ENT[q.entry]) + "\",\"class\":\"" + q.cls + "\",\"n\":" + std::to_string(n) + ",\"m\":" + std::to_string(m) +
                           ",\"w\":[" + vh::jnum(w.re) + "," + vh::jnum(w.im) + "],\"a\":[" + vh::jnum(a.re) + "," + vh::jnum(a.im) + "],\"seed\":" +
                           std::to_string(seed) + ",\"id\":" + std::to_string(q.id) + (n <= 16 ? ",\"x\":" + jvec(x) : std::string()) + "}";
    arr_cmplx y;
    switch (q.entry) {
    case 0: y = czt(ax, m, w); break;
    case 1: y = czt(ax, m, w, a); break;
    case 2: { CztPlan plan(n, m, w, a); y = plan(ax); break; }
    case 3: {   // the plan has served another input before
        CztPlan plan(n, m, w, a);
        arr_cmplx other(n);
        for (int j = 0; j < n; ++j) other[j] = cmplx_t{1.0 + j, -0.5 * j};
        const arr_cmplx y0 = plan(other);
        if (q.id % 2) y = plan(ax);
        else {   // a copy of the used plan, the original is gone when the copy runs
            std::unique_ptr<CztPlan> orig(new CztPlan(n, m, w, a));
            const arr_cmplx y00 = (*orig)(other);
            const CztPlan cp(*orig);
            orig.reset();
            y = cp(ax);
        }
        if (y0.size() != m) R.fails.push_back({"C01:czt-size-or-nonfinite", js});
        break;
    }
    default: {  // a rejected call (wrong input size) must leave the plan as it was
        CztPlan plan(n, m, w, a);
        bool threw = false;
        try { const arr_cmplx bad = plan(arr_cmplx(n + 1)); (void)bad; } catch (const std::exception&) { threw = true; }
        R.stats[threw ? "czt_rejected_call_threw" : "czt_rejected_call_accepted"]++;
        y = plan(ax);
        break;
    }
    }
    int p2 = 1;
    while (p2 < m + n - 1) p2 *= 2;
    if (oracle) {
        R.n_oracle++;
        const ld tw = atan2l(ld(w.im), ld(w.re));
        bool sc_ok = true;
        const CV ap = ref_apow(a, n, sc_ok);
        if (!sc_ok) R.fails.push_back({"C01:harness-selfcheck", js});
        CV xa(n);
        for (int j = 0; j < n; ++j) xa[j] = x[j] * ap[j];
        const ld wn = l2(xa);
        const ld bound = 32 * ld(p2) * EPSD * sqrtl(ld(m)) * wn;
        ld e2 = 0;
        bool ok = y.size() == m;
        for (int k = 0; k < m && ok; ++k) {
            C acc{0, 0};
            for (int j = 0; j < n; ++j) {
                const ld ph = tw * ld((long long)j * k);
                acc = acc + xa[j] * C{cosl(ph), sinl(ph)};
            }
            if (!std::isfinite(y[k].re) || !std::isfinite(y[k].im)) ok = false;
            e2 += n2(C{y[k].re, y[k].im} - acc);
        }
        const ld err = sqrtl(e2);
        if (!ok) R.fails.push_back({"C01:czt-size-or-nonfinite", js});
        else {
            const double ratio = wn == 0 ? (err == 0 ? 0 : 1e30) : double(err / bound);
            auto& wst = R.worst[q.cls == "base" ? "czt" : "czt-param"];
            if (ratio > wst) wst = ratio;
            if (ratio > 0.3 && std::getenv("VERIF_DEBUG")) std::fprintf(stderr, "ratio %.3f czt %s\n", ratio, js.substr(0, 260).c_str());
            if (!(ratio <= 1)) R.fails.push_back({"C01:czt-accuracy", js.substr(0, js.size() - 1) + ",\"err\":" + vh::jnum(double(err)) + ",\"bound\":" + vh::jnum(double(bound)) + "}"});
        }
    } else R.stats["czt_corr_only"]++;
    R.stats[a.re == 1 && a.im == 0 ? "czt_a_is_one" : "czt_a_general"]++;
    R.stats[p2 <= 8 ? "czt_inner_small" : "czt_inner_pow2"]++;
    R.stats[std::string("czt_entry_") + std::to_string(q.entry)]++;
    if (corr) {
        // the model evaluates the code's own test `abs(a - 1) > eps(a.re)` on the doubles (driver H01)
        R.corr.push_back({"czt " + std::to_string(m) + " " + vh::hx(w.re) + " " + vh::hx(w.im) + " " + vh::hx(a.re) + " " + vh::hx(a.im) + " " + vh::hxs(ax), vh::hxs(y)});
    }
    if (sample) R.samples.push_back(js);
}

static void czt_case(int id, uint64_t seed, int maxn, bool corr, Res& R) {
    vh::Rng rng(seed * 0x9e3779b97f4a7c15ULL + uint64_t(id) * 0xd1342543de82ef95ULL + 3);
    int n, m;
    if (id < 64) { n = 1 + id % 8; m = 1 + id / 8; }   // small exhaustive corner (n2 = 1, 2, 4, 8, 16: small kernels)
    else {
        n = rng.range(1, maxn);
        m = rng.range(1, maxn);
        if (id % 7 == 0) m = n;
        if (id % 11 == 0) m = 1;
    }
    double th;
    switch (id % 6) {
    case 0: th = -6.283185307179586 / std::max(m, n); break;   // the DFT contour
    case 1: th = 6.283185307179586 / n; break;                 // inverse direction
    case 2: th = (id % 12 == 2) ? 3.141592653589793 : 0.0; break;   // w = -1 (negative real axis), w = 1
    default: th = 3.141592653589793 * rng.sym(); break;
    }
    if (id == 64) th = 3.141592653589793;
    const cmplx_t w{std::cos(th), std::sin(th)};
    cmplx_t a{1, 0};
    const int am = id == 64 ? 0 : id % 5;
    if (am == 1 || am == 2 || am == 3) {
        const double r = am == 1 ? 0.5 + 1.5 * rng.unit() : am == 2 ? (rng.coin() ? 0.5 : 2.0) : 1.0;
        const double ph = 3.141592653589793 * rng.sym();
        a = cmplx_t{r * std::cos(ph), r * std::sin(ph)};
    } else if (am == 4 && id % 10 == 4) a = cmplx_t{std::nextafter(1.0, 2.0), 0};   // treated as 1 by the code
    CV x(n);
    const int cls = (id % 9 == 8) ? DYN : GAUSS;
    {
        const Input in = make_input(cls, n, rng);
        x = in.x;
        if (id % 13 == 5) { for (auto& v : x) v = {0, 0}; x[rng.range(0, n - 1)] = {1, 0}; }   // impulse
    }
    if (id == 64) {   // fixed case: long chirp phase (w = -1), all weight on the last sample; exact result [1, -1]
        n = 56; m = 2;
        x.assign(n, C{0, 0});
        x[n - 1] = {1, 0};
    }
    CztIn q;
    q.n = n; q.m = m; q.w = w; q.a = a; q.x = x; q.id = id; q.cls = "base";
    q.entry = (id % 2 == 0) ? ((a.re == 1 && a.im == 0 && id % 4 == 0) ? 0 : 1) : 2;
    czt_eval(q, seed, corr, true, id < 3, R);
}

// ---------------------------------------------------------------- czt parameter classes (phase 5)
// Every `==` / threshold of lib/fft/czt.cpp defines a boundary class: `abs(a - 1) > eps(a.re)` (start-point correction
// skipped), `max(m, n)` (chirp length), `2^nextpow2(m + n - 1)` (inner transform size), the {1,2,4,8} kernels of the inner plan.
static int small_prime(vh::Rng& rng, int hi) {
    static const int P[] = {2, 3, 5, 7, 11, 13, 17, 19, 23, 29, 31, 37, 41, 43, 47, 53, 59, 61, 67, 71, 73, 79, 83, 89, 97, 101, 127, 131, 251, 257, 293};
    for (;;) { const int p = P[rng.next() % (sizeof P / sizeof P[0])]; if (p <= hi) return p; }
}

// component classes of the start point a
static const int N_COMP = 11;
static const char* COMP_NAME[N_COMP] = {"0", "-0", "1", "-1", "1+ulp", "1-ulp", "-1-ulp", "0.5", "-0.5", "rnd", "-rnd"};
static double comp_val(int c, vh::Rng& rng) {
    switch (c) {
    case 0: return 0.0;
    case 1: return -0.0;
    case 2: return 1.0;
    case 3: return -1.0;
    case 4: return std::nextafter(1.0, 2.0);
    case 5: return std::nextafter(1.0, 0.0);
    case 6: return std::nextafter(-1.0, -2.0);
    case 7: return 0.5;
    case 8: return -0.5;
    case 9: return 0.5 + 0.9 * rng.unit();
    default: return -(0.5 + 0.9 * rng.unit());
    }
}

static void czt_shape(int sc, int maxn, vh::Rng& rng, int& n, int& m) {
    const int kmax = maxn >= 256 ? 9 : 7;
    switch (sc) {
    case 0: n = rng.range(1, 8); m = rng.range(1, 8); break;
    case 1: n = rng.range(2, maxn); m = n; break;
    case 2: n = rng.range(2, maxn); m = 1; break;
    case 3: n = 1; m = rng.range(1, maxn); break;
    case 4: case 5: case 6: {   // m + n - 1 = 2^k - 1, 2^k, 2^k + 1
        const int k = rng.range(2, kmax), t = (1 << k) + (sc - 5);
        n = rng.range(1, std::min(t, maxn));
        m = t + 1 - n;
        break;
    }
    case 7: n = small_prime(rng, maxn); m = 1 << rng.range(0, kmax - 1); break;
    case 8: n = 1 << rng.range(0, kmax - 1); m = small_prime(rng, maxn); break;
    case 9: n = small_prime(rng, maxn); m = small_prime(rng, maxn); break;
    case 10: n = rng.range(2, maxn); m = rng.range(1, n - 1); break;   // m < n
    default: n = rng.range(1, maxn - 1); m = rng.range(n + 1, maxn); break;   // m > n
    }
    if (m < 1) m = 1;
}
static const int N_SHAPE = 12;

static CV czt_input(int kind, int n, vh::Rng& rng) {
    CV x(n, C{0, 0});
    switch (kind) {
    case 0: for (auto& v : x) v = {rng.gauss(), rng.gauss()}; break;
    case 1: for (auto& v : x) v = {rng.gauss(), 0.0}; break;            // real input
    case 2: for (auto& v : x) v = {rng.gauss(), -0.0}; break;           // real input, negative-zero imaginary parts
    case 3: x = make_input(DYN, n, rng).x; break;
    case 4: x[n - 1] = {rng.gauss() + 1.5, rng.gauss()}; break;         // all weight on the last sample (largest a^-j, longest chirp phase)
    case 5: { const C c{0.75 + rng.unit(), rng.sym()}; for (auto& v : x) v = c; break; }
    case 6: for (auto& v : x) v = {rng.gauss() * 1e-290, rng.gauss() * 1e-290}; break;
    default: for (auto& v : x) v = {rng.gauss() * 1e100, rng.gauss() * 1e100}; break;
    }
    return x;
}
static const int N_CZT_INPUT = 8;

static void czt_param_case(int id, uint64_t seed, int maxn, bool corr, Res& R) {
    vh::Rng rng(seed * 0x9e3779b97f4a7c15ULL + uint64_t(id) * 0xd1342543de82ef95ULL + 0x5151);
    const double PI = 3.141592653589793;
    CztIn q;
    q.id = id;
    const int NPAIR = N_COMP * N_COMP;
    bool oracle = true;
    if (id % 4 == 3) {
        // ---- a within a few ulp .. 1e-4 of 1: the start-point correction may only be skipped when it is invisible.
        //      Few output points and long inputs make a dropped factor a^-j stand out of the bound as early as possible.
        static const double DELTA[] = {1.1102230246251565e-16, 2.220446049250313e-16, 4.440892098500626e-16, 1e-15, 1e-14, 1e-13, 1e-12, 1e-10, 1e-8, 1e-6, 1e-4};
        static const int ND = sizeof DELTA / sizeof DELTA[0];
        const int k = id / 4;
        const double d = DELTA[k % ND];
        const int dir = (k / ND) % 6;
        switch (dir) {
        case 0: q.a = cmplx_t{1.0 + d, 0.0}; break;
        case 1: q.a = cmplx_t{1.0 - d, 0.0}; break;
        case 2: q.a = cmplx_t{1.0, d}; break;
        case 3: q.a = cmplx_t{1.0, -d}; break;
        case 4: q.a = cmplx_t{1.0 + d, -d}; break;
        default: q.a = cmplx_t{1.0 - d, d}; break;
        }
        q.n = rng.range(std::max(2, maxn / 2), maxn);
        q.m = rng.range(1, 3);
        const double th = (k % 3 == 0) ? -2 * PI / q.n : PI * rng.sym();
        q.w = cmplx_t{std::cos(th), std::sin(th)};
        q.x = czt_input(rng.coin() ? 0 : 4, q.n, rng);
        q.cls = std::string("a=1+delta dir") + std::to_string(dir);
        R.stats["cztp_a_near_one"]++;
    } else {
        // ---- real and imaginary part of a independently from the component classes
        const int k = id - id / 4;   // dense numbering of the ids of this branch
        int ca = k % N_COMP, cb = (k / N_COMP) % N_COMP;
        const int round = k / NPAIR;
        if (ca <= 1 && cb <= 1) { ca = 9; cb = (cb == 0) ? 2 : 5; }   // a = 0 is outside the domain: (rnd, 1), (rnd, 1-ulp) instead
        double re = comp_val(ca, rng), im = comp_val(cb, rng);
        q.a = cmplx_t{re, im};
        q.cls = std::string("a=(") + COMP_NAME[ca] + "," + COMP_NAME[cb] + ")";
        // w classes
        const int wc = (round + 3 * ca + 7 * cb) % 16;
        const int sc = (round * 5 + ca + 2 * cb + int(rng.next() % 3)) % N_SHAPE;
        czt_shape(sc, maxn, rng, q.n, q.m);
        const double sgn = rng.coin() ? 1.0 : -1.0;
        double th = 0;
        switch (wc) {
        case 0: th = -2 * PI / std::max(q.m, q.n); q.w = cmplx_t{std::cos(th), std::sin(th)}; break;
        case 1: th = 2 * PI / q.n; q.w = cmplx_t{std::cos(th), std::sin(th)}; break;
        case 2: q.w = cmplx_t{1.0, 0.0}; break;
        case 3: q.w = cmplx_t{-1.0, 0.0}; break;
        case 4: q.w = cmplx_t{-1.0, -0.0}; break;
        case 5: q.w = cmplx_t{0.0, 1.0}; break;
        case 6: q.w = cmplx_t{-0.0, -1.0}; break;
        case 7: q.w = cmplx_t{1.0, sgn * 1e-9}; break;           // real part alone at the special value (|w| = 1 to within an ulp)
        case 8: q.w = cmplx_t{-1.0, sgn * 1e-9}; break;
        case 9: q.w = cmplx_t{sgn * 1e-9, 1.0}; break;
        case 10: q.w = cmplx_t{1.0, sgn * 2e-8}; break;          // |w| = 1 + 1 ulp as computed: still inside the code's |w| = 1 (2 eps)
        case 11: {   // a == w (random point of the unit circle)
            th = PI * rng.sym(); q.w = cmplx_t{std::cos(th), std::sin(th)}; q.a = q.w; q.cls = "a==w"; break;
        }
        case 12: {   // a == conj(w)
            th = PI * rng.sym(); q.w = cmplx_t{std::cos(th), std::sin(th)}; q.a = cmplx_t{q.w.re, -q.w.im}; q.cls = "a==conj(w)"; break;
        }
        case 13: {   // w = a / |a| (same direction as a), a == w when |a| = 1
            const double r = std::sqrt(re * re + im * im);
            q.w = cmplx_t{re / r, im / r};
            if (std::fabs(std::sqrt(q.w.re * q.w.re + q.w.im * q.w.im) - 1.0) >= 4.4e-16) { th = PI * rng.sym(); q.w = cmplx_t{std::cos(th), std::sin(th)}; }
            break;
        }
        default: th = PI * rng.sym(); q.w = cmplx_t{std::cos(th), std::sin(th)}; break;
        }
        if (round % 16 == 15 && wc >= 14) {
            // |w| != 1: outside the property's domain (the code uses the argument of w only); correspondence with the model only
            const double r = (ca % 2) ? 0.5 : 1.0 + 1e-6;
            q.w = cmplx_t{q.w.re * r, q.w.im * r};
            oracle = false;
            q.cls += " |w|!=1";
        }
        q.x = czt_input((round + ca + cb) % N_CZT_INPUT, q.n, rng);
        R.stats[std::string("cztp_w_class_") + std::to_string(wc)]++;
        R.stats[std::string("cztp_shape_") + std::to_string(sc)]++;
        R.stats[std::string("cztp_are_") + COMP_NAME[ca]]++;
        R.stats[std::string("cztp_aim_") + COMP_NAME[cb]]++;
        {
            // how the code's own test classifies this a, and how a test on the real part alone would
            const double da = std::sqrt((q.a.re - 1) * (q.a.re - 1) + q.a.im * q.a.im), e = std::nextafter(q.a.re, INFINITY) - q.a.re;
            const bool skip = !(da > e), skip_re_only = !(std::fabs(q.a.re - 1) > e);
            if (skip) R.stats["cztp_a_treated_as_one"]++;
            if (skip_re_only && !skip) R.stats["cztp_a_real_part_alone_is_one"]++;
        }
    }
    q.entry = 1 + int(rng.next() % 4);
    if (q.entry == 4 && q.n >= maxn) q.entry = 2;
    czt_eval(q, seed, corr, oracle, false, R);
}

// ---------------------------------------------------------------- magnitude classes (phase 6)
// The DFT is linear, so its accuracy clause is scale free; what is NOT scale free is an implementation that moves a
// scaling across an operation that can overflow / underflow (e.g. halving the OUTPUT of the packed real transform
// instead of its input).  Signals here have an l1 norm sum_j (|re x_j| + |im x_j|) <= 0.95 * S: every partial sum of
// every bin, in any order and with any twiddles, is then bounded by S, so an algorithm that only adds, subtracts and
// rotates by unit twiddles cannot overflow at S = DBL_MAX and the exact DFT is representable: the result must be finite
// and accurate.  Signals whose exact DFT (or whose partial sums) may legitimately overflow are not generated.
//
// Lengths with a prime factor > 41 are solved through Bluestein's chirp-z: its frequency-domain product with the chirp
// spectrum (|.| up to ~1.25 sqrt(n2), n2 = inner power-of-two size < 4 n) exceeds the signal's own magnitude, so THE
// UNCHANGED LIBRARY returns NaN there for inputs above ~0.8 DBL_MAX / sqrt(n2) (measured: impulse above 0.0716 DBL_MAX at
// n = 43, 0.0149 DBL_MAX at n = 1031, 0.00195 DBL_MAX at n = 65537; real even n = 2p: twice that).  For those lengths the
// demand under the mag-top-* keys is made at S = DBL_MAX / (8 sqrt(n)) (a factor ~4 below that threshold).  Above it the
// property ("every finite input") is VIOLATED by the unchanged library: decided as a known finding (not repaired).  Exactly
// the class {length with a Bluestein leaf, l1 norm of the input above DBL_MAX/(8 sqrt n), exact DFT representable, result
// non-finite} is reported under the ONE key C01:cztleaf-top-of-range-nonfinite ("class":"cztleaf-top"), one F line per entry
// point and run with the number of such cases; a finite result there must still be accurate (mag-top-* keys), and
// everything below that magnitude or at lengths without a Bluestein leaf stays under the mag-top-* keys.
static const ld DMIN = 4.940656458412465441765687928682213723651e-324L;

static int largest_prime_factor(int n) {
    int big = 1;
    for (int p = 2; (long long)p * p <= n; ++p) while (n % p == 0) { big = std::max(big, p); n /= p; }
    if (n > 1) big = std::max(big, n);
    return big;
}
static bool has_czt_leaf(int n) { return largest_prime_factor(n) > 41; }

struct Sig {
    std::string cls;
    std::vector<std::pair<int, C>> sup;   // sparse support (unit coefficients, scaled later); empty for dense
    CV dense;                              // dense unit coefficients
    bool real = true;
};

static std::vector<Sig> mag_shapes(int n, bool reduced, bool with_dense, vh::Rng& rng) {
    std::vector<Sig> v;
    auto pos = [&](int kind) {
        switch (kind) {
        case 0: return 0;
        case 1: return n > 1 ? 1 : 0;
        case 2: return n - 1;
        case 3: return n / 2;
        case 4: return n > 2 ? 2 * rng.range(0, (n - 1) / 2) : 0;                       // even index
        case 5: return n > 1 ? std::min(n - 1, 2 * rng.range(0, (n - 1) / 2) + 1) : 0;  // odd index
        default: return rng.range(0, n - 1);
        }
    };
    const double HALFP = 0.5 * (1.0 + 1.0 / 1048576.0);
    static const double F[4] = {0.9, 0.6, 0.0, 0.26};
    for (int fi = 0; fi < 4; ++fi) {
        const double f = fi == 2 ? HALFP : F[fi];
        const int reps = reduced ? 1 : 2;
        for (int r = 0; r < reps; ++r) {
            Sig s;
            const int pk = (fi * 2 + r + int(rng.next() % 7)) % 7;
            s.cls = "real impulse " + std::string(fi == 2 ? "0.5+" : fi == 0 ? "0.9" : fi == 1 ? "0.6" : "0.26");
            s.sup.push_back({pos(pk), C{rng.coin() ? f : -f, 0}});
            v.push_back(s);
        }
    }
    if (n >= 2) {
        Sig s;
        s.cls = "two real samples 0.556,-0.334";
        int p = pos(6), q = pos(6);
        if (q == p) q = (p + 1 + int(rng.next() % unsigned(n - 1))) % n;
        s.sup.push_back({p, C{0.556, 0}});
        s.sup.push_back({q, C{-0.334, 0}});
        v.push_back(s);
    }
    if (n >= 3 && !reduced) {
        Sig s;
        s.cls = "three real samples 0.3";
        const int p = pos(6);
        const double sg = rng.coin() ? 0.3 : -0.3;
        s.sup.push_back({p, C{sg, 0}});
        s.sup.push_back({(p + 1) % n, C{sg, 0}});
        s.sup.push_back({(p + 2 + int(rng.next() % unsigned(n - 2))) % n, C{sg, 0}});
        v.push_back(s);
    }
    {
        static const double CA[4][2] = {{0.6, -0.3}, {0.0, 0.9}, {0.0, 0.26}, {-0.26, 0.6}};
        for (int i = 0; i < (reduced ? 1 : 4); ++i) {
            Sig s;
            s.real = false;
            s.cls = "complex impulse";
            const double re = i == 2 ? HALFP : CA[i][0];
            s.sup.push_back({pos(int(rng.next() % 7)), C{re, CA[i][1]}});
            v.push_back(s);
        }
    }
    if (n >= 2 && !reduced) {
        Sig s;
        s.real = false;
        s.cls = "two complex samples";
        const int p = pos(6);
        s.sup.push_back({p, C{0.3, 0.2}});
        s.sup.push_back({(p + 1 + int(rng.next() % unsigned(n - 1))) % n, C{-0.25, 0.15}});
        v.push_back(s);
    }
    if (with_dense && n >= 2) {
        Sig s;
        s.cls = "dense real, l1 norm 0.9";
        s.dense.assign(n, C{0, 0});
        for (auto& c : s.dense) c = {0.9 * rng.sym() / n, 0};
        v.push_back(s);
        Sig t;
        t.real = false;
        t.cls = "dense complex, l1 norm 0.9";
        t.dense.assign(n, C{0, 0});
        for (auto& c : t.dense) c = {0.45 * rng.sym() / n, 0.45 * rng.sym() / n};
        v.push_back(t);
    }
    return v;
}

static bool all_finite(const arr_cmplx& y) {
    for (int i = 0; i < y.size(); ++i) if (!std::isfinite(y[i].re) || !std::isfinite(y[i].im)) return false;
    return true;
}

static void mag_len(int n, uint64_t seed, bool thorough, int corr_every, Res& R) {
    vh::Rng rng(seed * 0x632be59bd9b4e019ULL + uint64_t(n) * 0x9e3779b97f4a7c15ULL + 0x77);
    const bool reduced = n > 4096;
    const bool with_dense = n <= (thorough ? 2048 : 768);
    const bool cztleaf = has_czt_leaf(n);
    Table T(n);
    std::vector<int> ks(n);
    for (int k = 0; k < n; ++k) ks[k] = k;
    FftPlan planc(n);
    FftPlanR planr(n);
    R.stats[cztleaf ? "mag_lengths_with_czt_leaf" : "mag_lengths_without_czt_leaf"]++;
    // a rejected call first: everything below runs on plans that have seen a failed call (lesson: failed calls in histories)
    {
        int threw = 0;
        try { const arr_cmplx b = planc(arr_cmplx(n + 1)); (void)b; } catch (const std::exception&) { ++threw; }
        try { const arr_cmplx b = planr(arr_real(n + 1)); (void)b; } catch (const std::exception&) { ++threw; }
        R.stats["mag_plan_rejected_calls_threw"] += threw;
        R.stats["mag_plan_rejected_calls_accepted"] += 2 - threw;
    }
    // copies of the plan objects (copy-constructed; the prototypes of the copy-assigned ones die before use): used for every other signal
    const FftPlan planc_cc(planc);
    const FftPlanR planr_cc(planr);
    FftPlan planc_ca(n == 1 ? 2 : 1);
    FftPlanR planr_ca(n == 1 ? 2 : 1);
    {
        const FftPlan tmpc(n);
        const FftPlanR tmpr(n);
        planc_ca = tmpc;
        planr_ca = tmpr;
    }
    struct Scale { const char* name; const char* group; double s; bool demanded; bool tiny; };
    std::vector<Scale> scales;
    const double MAX = std::numeric_limits<double>::max(), MIN = std::numeric_limits<double>::min();
    if (cztleaf) {
        scales.push_back({"DBL_MAX/(8 sqrt n)", "top", MAX / (8.0 * std::sqrt(double(n))), true, false});
        scales.push_back({"DBL_MAX", "top", MAX, false, false});
    } else scales.push_back({"DBL_MAX", "top", MAX, true, false});
    scales.push_back({"1e-300", "e300", 1e-300, true, false});
    scales.push_back({"DBL_MIN", "denorm", MIN, true, true});
    if (!reduced) {
        scales.push_back({"2^-1054", "denorm", std::ldexp(1.0, -1054), true, true});
        scales.push_back({"2^-1072", "denorm", std::ldexp(1.0, -1072), true, true});
    }
    const std::vector<Sig> shapes = mag_shapes(n, reduced, with_dense, rng);
    int sigidx = 0;
    for (const Scale& sc : scales)
        for (const Sig& sg : shapes) {
            ++sigidx;
            // the signal in doubles
            CV x(n, C{0, 0});
            int n0 = 0;
            std::string sup = ",\"scale\":\"" + std::string(sc.name) + "\"";
            if (!sg.dense.empty()) {
                for (int j = 0; j < n; ++j) x[j] = {ld(double(sg.dense[j].re) * sc.s), ld(double(sg.dense[j].im) * sc.s)};
                n0 = n;
            } else {
                sup += ",\"support\":[";
                bool first = true;
                for (auto& e : sg.sup) {
                    const double re = double(e.second.re) * sc.s, im = double(e.second.im) * sc.s;
                    x[e.first] = x[e.first] + C{re, im};   // coinciding positions cannot occur (distinct by construction)
                    n0 = std::max(n0, e.first + 1);
                    sup += std::string(first ? "" : ",") + "[" + std::to_string(e.first) + "," + vh::jnum(re) + "," + vh::jnum(im) + "]";
                    first = false;
                }
                sup += "]";
            }
            tl_cls = sg.cls + " x " + sc.name;
            tl_extra = sup;
            // reference
            Ref ref{n, ks, CV(n), true, 0, 0, 0};
            if (!sg.dense.empty()) for (int k = 0; k < n; ++k) ref.X[k] = ref_bin(x, T, k);
            else
                for (int k = 0; k < n; ++k) {
                    C acc{0, 0};
                    for (auto& e : sg.sup) acc = acc + x[e.first] * T.pw((long long)e.first * k);
                    ref.X[k] = acc;
                }
            ref.norm = l2(ref.X);
            // measured on the unchanged library: l2 error <= 1.8 n denormal steps where the relative bound alone fails
            const ld floor_ = sc.tiny ? 12 * ld(n) * DMIN * (cztleaf ? 2 : 1) : 0;
            const std::string g = std::string("mag-") + sc.group + "-";
            // the known-finding class: Bluestein leaf, l1 norm above DBL_MAX/(8 sqrt n), exact DFT representable
            ld l1 = 0, xmax = 0;
            for (int j = 0; j < n; ++j) l1 += fabsl(x[j].re) + fabsl(x[j].im);
            for (int k = 0; k < n; ++k) xmax = std::max(xmax, std::max(fabsl(ref.X[k].re), fabsl(ref.X[k].im)));
            const bool top_class = cztleaf && !sc.demanded && l1 > ld(MAX) / (8 * sqrtl(ld(n))) && xmax <= ld(MAX);
            auto mcheck = [&](const char* entry, const char* cat, const arr_cmplx& y, int np = -1) {
                if (top_class && y.size() == n && !all_finite(y)) {
                    R.n_oracle++;
                    R.stats[std::string("mag_cztleaf_top_nonfinite_") + cat]++;
                    auto& t = R.top[cat];
                    if (t.count++ == 0) {
                        const int p = largest_prime_factor(n);
                        int p2 = 1;
                        while (p2 < 2 * p - 1) p2 *= 2;
                        t.n = n;
                        t.js = std::string("{\"class\":\"cztleaf-top\",\"entry\":\"") + entry + "\",\"n\":" + std::to_string(n) + ",\"bluestein_leaf\":" + std::to_string(p) +
                               ",\"n2\":" + std::to_string(p2) + ",\"input\":\"" + sg.cls + " x " + sc.name + "\"" + sup + ",\"S_over_DBL_MAX\":" + vh::jnum(double(l1 / ld(MAX))) +
                               ",\"exact_dft_max_component_over_DBL_MAX\":" + vh::jnum(double(xmax / ld(MAX))) + ",\"seed\":" + std::to_string(seed);
                    }
                    return false;
                }
                if (top_class) R.stats[std::string("mag_cztleaf_top_finite_") + cat]++;
                check(R, entry, (g + cat).c_str(), y, ref, 0, seed, x, np, floor_);
                return all_finite(y);
            };
            const arr_cmplx ax = to_arr(x);
            const arr_cmplx y1 = fft(ax);
            mcheck("fft(arr_cmplx)", "fft-complex", y1);
            const arr_cmplx y2 = sigidx % 3 == 0 ? planc(ax) : sigidx % 3 == 1 ? planc_cc(ax) : planc_ca(ax);
            mcheck(sigidx % 3 == 0 ? "FftPlan(n)(arr_cmplx)" : sigidx % 3 == 1 ? "copy-constructed FftPlan(n)(arr_cmplx)" : "copy-assigned FftPlan(n)(arr_cmplx)", "plan-complex", y2);
            if (n0 < n && n0 >= 1) mcheck("fft(arr_cmplx, n_out)", "fftn-complex", fft(arr_cmplx(ax.slice(0, n0)), n), n);
            arr_cmplx y4, y5;
            if (sg.real) {
                const arr_real ar = to_arr_re(x);
                const arr_cmplx y3 = fft(ar);
                const bool f3 = mcheck("fft(arr_real)", "fft-real", y3);
                y4 = rfft(ar);
                mcheck("rfft(arr_real)", "rfft", y4);
                y5 = sigidx % 3 == 0 ? planr(ar) : sigidx % 3 == 1 ? planr_cc(ar) : planr_ca(ar);
                mcheck(sigidx % 3 == 0 ? "FftPlanR(n)(arr_real)" : sigidx % 3 == 1 ? "copy-constructed FftPlanR(n)(arr_real)" : "copy-assigned FftPlanR(n)(arr_real)", "plan-real", y5);
                const arr_cmplx y6 = fft(complex(ar));
                const bool f6 = mcheck("fft(complex(arr_real))", "fft-complexified", y6);
                if (n0 < n && n0 >= 1) {
                    mcheck("fft(arr_real, n_out)", "fftn-real", fft(arr_real(ar.slice(0, n0)), n), n);
                    mcheck("rfft(arr_real, n_out)", "rfftn", rfft(arr_real(ar.slice(0, n0)), n), n);
                }
                if (f3 && f6) check_pair(R, "fft(arr_real) vs fft(complex(arr_real))", (g + "real-vs-complex").c_str(), y3, y6, false, ref, 0, seed, x, floor_);
                if (f3) check_pair(R, "fft(arr_real)[k] vs conj fft(arr_real)[n-k]", (g + "conj-symmetry").c_str(), y3, y3, true, ref, 0, seed, x, floor_);
            }
            R.stats[std::string("mag_signals_") + sc.group + (sc.demanded ? "" : "_above_bluestein_threshold")]++;
            // (Bluestein lengths differ from the model by the chirp phase, relative to the line scale: not at denormal scales)
            if (corr_every > 0 && sc.demanded && sigidx % corr_every == 0 && n <= 64 && !(sc.tiny && cztleaf)) {
                const bool use_plan = (n + sigidx) % 2 == 1;
                R.corr.push_back({"fft " + vh::hxs(ax), vh::hxs(use_plan ? y2 : y1)});
                if (sg.real) R.corr.push_back({"rfft " + vh::hxs(to_arr_re(x)), vh::hxs(use_plan ? y5 : y4)});
            }
        }
    tl_cls.clear();
    tl_extra.clear();
    // ---- zero inputs: +0, -0, mixed -> every output component is a zero (no NaN); a signal with some samples replaced
    //      by -0.0 gives the values of the same signal with +0.0
    for (int z = 0; z < 4; ++z) {
        arr_real ar(n);
        arr_cmplx ax(n);
        arr_real br(n);
        arr_cmplx bx(n);
        for (int j = 0; j < n; ++j) {
            const bool neg = z == 1 || ((z >= 2) && (rng.next() % 3 == 0));
            const double g1 = z == 3 && rng.next() % 2 ? rng.gauss() : 0.0, g2 = z == 3 && rng.next() % 2 ? rng.gauss() : 0.0;
            br[j] = g1; bx[j] = cmplx_t{g1, g2};
            ar[j] = (g1 == 0 && neg) ? -0.0 : g1;
            ax[j] = cmplx_t{(g1 == 0 && neg) ? -0.0 : g1, (g2 == 0 && (neg || rng.next() % 4 == 0)) ? -0.0 : g2};
        }
        static const char* ZN[] = {"all +0", "all -0", "mixed +0/-0", "gaussian with -0 samples"};
        const arr_cmplx ya[5] = {fft(ax), planc(ax), fft(ar), rfft(ar), planr(ar)};
        const arr_cmplx yb[5] = {fft(bx), planc(bx), fft(br), rfft(br), planr(br)};
        static const char* EN[5] = {"fft(arr_cmplx)", "FftPlan(n)(arr_cmplx)", "fft(arr_real)", "rfft(arr_real)", "FftPlanR(n)(arr_real)"};
        for (int e = 0; e < 5; ++e) {
            R.n_oracle++;
            bool ok = ya[e].size() == n && yb[e].size() == n;
            for (int k = 0; k < n && ok; ++k) {
                if (z < 3) ok = ya[e][k].re == 0.0 && ya[e][k].im == 0.0;
                else ok = ya[e][k].re == yb[e][k].re && ya[e][k].im == yb[e][k].im;   // NaN fails, -0 == +0
            }
            if (!ok) {
                const std::string js = std::string("{\"entry\":\"") + EN[e] + "\",\"n\":" + std::to_string(n) + ",\"class\":\"" + ZN[z] + "\",\"seed\":" + std::to_string(seed) +
                                       (n <= 16 ? ",\"x\":" + (e < 2 ? vh::jarr(ax) : vh::jarr(ar)) + ",\"y\":" + vh::jarr(ya[e]) : std::string()) + "}";
                R.fails.push_back({z < 3 ? "C01:zero-input-nonzero-output" : "C01:negzero-input-differs", js});
            }
        }
        R.stats[z < 3 ? "mag_zero_inputs" : "mag_negzero_inputs"]++;
        if (corr_every > 0 && n <= 64 && (n + z) % 4 == 0) {
            R.corr.push_back({"fft " + vh::hxs(ax), vh::hxs(ya[(n / 4) % 2])});
            R.corr.push_back({"rfft " + vh::hxs(ar), vh::hxs(ya[2 + (n / 4) % 3])});
        }
    }
}

// ---------------------------------------------------------------- structured sample of large lengths
static std::vector<int> big_lengths(vh::Rng& rng, int per_family, int lo, int hi) {
    std::set<int> s;
    auto rnd_prime = [&](int a, int b) { for (;;) { int p = rng.range(a, b); if (is_prime(p)) return p; } };
    // primes
    for (int i = 0; i < per_family; ++i) s.insert(rnd_prime(lo, hi));
    // semiprimes: both large (two CZT leaves), small * large, squares of primes
    for (int i = 0; i < per_family; ++i) {
        const int p = rnd_prime(43, 360);
        const int q = rnd_prime(std::max(43, lo / p + 1), std::max(44, hi / p));
        if ((long long)p * q <= hi && p * q >= lo) s.insert(p * q);
        const int r = rnd_prime(2, 41);
        const int t = rnd_prime(lo / r + 1, hi / r);
        s.insert(r * t);
    }
    // prime powers
    {
        std::vector<int> pp;
        for (int p : {3, 5, 7, 11, 13, 17, 19, 23, 29, 31, 37, 41, 43, 47, 53, 59, 61, 67, 71, 73, 127, 251, 331, 359}) {
            long long v = (long long)p * p;
            while (v <= hi) { if (v >= lo) pp.push_back(int(v)); v *= p; }
        }
        for (int i = 0; i < per_family && !pp.empty(); ++i) s.insert(pp[rng.next() % pp.size()]);
    }
    // 2^k * p
    for (int i = 0; i < per_family; ++i) {
        const int k = rng.range(1, 11);
        const int a = std::max(3, (lo >> k) + 1), b = hi >> k;
        if (b >= a) { const int p = rnd_prime(a, std::max(a, b)); if (((long long)p << k) <= hi) s.insert(p << k); else s.insert(p); }
    }
    // highly composite / smooth numbers and powers of two
    {
        std::vector<int> hc = {5040, 7560, 10080, 15120, 20160, 25200, 27720, 45360, 50400, 55440, 83160, 110880, 8192, 16384, 32768, 65536, 131072,
                               6561 * 2, 3125 * 8, 2401 * 16, 30030, 60060, 120120, 4620 * 7, 9240 * 11, 46189, 96577, 4199 * 23};
        std::vector<int> ok;
        for (int v : hc) if (v >= lo && v <= hi) ok.push_back(v);
        for (int i = 0; i < per_family && !ok.empty(); ++i) s.insert(ok[rng.next() % ok.size()]);
        if (hi >= 131072) s.insert(131072);
    }
    return std::vector<int>(s.begin(), s.end());
}

int main(int argc, char** argv) {
    vh::Args a(argc, argv);
    vh::install_guards();
    vh::Rng rng(a.seed);
    const uint64_t seed = a.seed;

    // 1. every length 1..N with all bins
    const int N = a.thorough ? 4096 : 512;
    const char* only = std::getenv("VERIF_PHASE");   // development aid: run a single phase
    if (!only || only[0] == '1') {
        vh::set_current("C01:crash-or-hang", "{\"phase\":\"sweep of every length 1..N\",\"seed\":" + std::to_string(seed) + "}");
        vh::watch(a.thorough ? 3000 : 600);
        std::vector<int> order(N);
        for (int i = 0; i < N; ++i) order[i] = N - 1 - i;   // long tasks first
        parallel_for(N, order, [&](int id, Res& R) {
            const int n = id + 1;
            SweepCfg cfg{n <= 512, n <= 40, n > 512 && n <= 4096};
            sweep(n, seed, cfg, R);
        });
        vh::unwatch();
        vh::clear_current();
    }
    // 2. structured sample of larger lengths (up to 2^17)
    if (!only || only[0] == '2') {
        std::vector<int> lens = big_lengths(rng, a.thorough ? 24 : 3, a.thorough ? 4097 : 513, 131072);
        if (!a.thorough) { auto more = big_lengths(rng, 2, 513, 4096); lens.insert(lens.end(), more.begin(), more.end()); }
        vh::set_current("C01:crash-or-hang", "{\"phase\":\"sampled large lengths\",\"seed\":" + std::to_string(seed) + ",\"lengths\":" + vh::jints(lens) + "}");
        vh::watch(a.thorough ? 3000 : 600);
        // digest correspondence for a subset (the model driver is single-threaded)
        int budget = a.thorough ? 40 : 8;
        std::vector<char> dig(lens.size(), 0);
        for (size_t i = 0; i < lens.size(); ++i) if (budget > 0 && (lens[i] <= 40000 || i % 4 == 0)) { dig[i] = 1; --budget; }
        parallel_for(int(lens.size()), {}, [&](int id, Res& R) {
            SweepCfg cfg{false, false, dig[id] != 0};
            sweep(lens[id], seed, cfg, R);
            R.stats["large_lengths"]++;
        });
        vh::unwatch();
        vh::clear_current();
    }
    // 3. fft(x, n') for all n' in 1..2n
    if (!only || only[0] == '3') {
        const int NP = a.thorough ? 64 : 24;
        vh::set_current("C01:crash-or-hang", "{\"phase\":\"fft(x, n_out)\",\"seed\":" + std::to_string(seed) + "}");
        vh::watch(600);
        parallel_for(NP, {}, [&](int id, Res& R) { padtrunc(id + 1, seed, (id + 1) <= 12 || (id + 1) % 8 == 0, R); });
        vh::unwatch();
        vh::clear_current();
    }
    // 4. czt
    if (!only || only[0] == '4') {
        const int NC = a.thorough ? 6000 : 600;
        vh::set_current("C01:crash-or-hang", "{\"phase\":\"czt\",\"seed\":" + std::to_string(seed) + "}");
        vh::watch(1200);
        parallel_for(NC, {}, [&](int id, Res& R) {
            const int maxn = (a.thorough && id % 10 == 9) ? 300 : 64;
            czt_case(id, seed, maxn, id < 64 || id % (a.thorough ? 10 : 2) == 0, R);
        });
        vh::unwatch();
        vh::clear_current();
    }
    // 5. czt parameter classes
    if (!only || only[0] == '5') {
        const int NC = a.thorough ? 8000 : 800;
        vh::set_current("C01:crash-or-hang", "{\"phase\":\"czt parameter classes\",\"seed\":" + std::to_string(seed) + "}");
        vh::watch(1200);
        parallel_for(NC, {}, [&](int id, Res& R) {
            const int maxn = (a.thorough && id % 5 == 4) ? 300 : 64;
            // (the model's double chirp phase deviates by ~eps |arg w| N^2 / 2: as in phase 4 only the N <= 64 cases go through CORR)
            czt_param_case(id, seed, maxn, (id % (a.thorough ? 8 : 2) == 0 || id % 4 == 3) && maxn == 64, R);
        });
        vh::unwatch();
        vh::clear_current();
    }
    // 6. magnitude classes
    if (!only || only[0] == '6') {
        std::set<int> ls;
        const int NM = a.thorough ? 1024 : 96;
        for (int n = 1; n <= NM; ++n) ls.insert(n);
        for (int n : {100, 120, 127, 128, 129, 172, 243, 255, 256, 257, 258, 500, 512, 1000, 1024, 1031, 2048, 2062, 2187, 4096}) ls.insert(n);
        {
            vh::Rng r6(seed * 31 + 6);
            auto more = big_lengths(r6, a.thorough ? 6 : 1, 1025, a.thorough ? 131072 : 20000);
            ls.insert(more.begin(), more.end());
            if (a.thorough) for (int n : {8192, 65536, 131072, 65537, 49152, 98304, 46349 * 2, 131071, 147456, 196608, 262144}) ls.insert(n);
            else { ls.insert(16384); ls.insert(98304); }   // one frame above 2^16 (2 * 49152)
        }
        std::vector<int> lens(ls.rbegin(), ls.rend());   // long tasks first
        vh::set_current("C01:crash-or-hang", "{\"phase\":\"magnitude classes\",\"seed\":" + std::to_string(seed) + ",\"lengths\":" + vh::jints(lens) + "}");
        vh::watch(a.thorough ? 3000 : 600);
        parallel_for(int(lens.size()), {}, [&](int id, Res& R) { mag_len(lens[id], seed, a.thorough, a.thorough ? 9 : 3, R); });
        vh::unwatch();
        vh::clear_current();
        // the known finding: one line per entry point (witness of smallest n, number of cases of this run)
        for (auto& t : g_top) {
            out.fail("C01:cztleaf-top-of-range-nonfinite", t.second.js + ",\"count\":" + std::to_string(t.second.count) + "}", 64);
            out.n_fail += t.second.count - 1;   // every case is an oracle failure, one line stands for all of them
        }
    }
    for (auto& w : g_worst) {
        std::string k = w.first;
        for (auto& ch : k) if (ch == '-') ch = '_';
        out.stat("worst_err_over_bound_ppm_" + k, (long long)std::min(1e15, w.second * 1e6));
    }
    out.finish();
    return 0;
}
