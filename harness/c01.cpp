// C01 — forward transforms equal the DFT for every length and input.
//
// ORACLE (on the implementation, long double): direct DFT  X[k] = sum_m x[m] exp(-2 pi i m k / n)
//   * relative l2 error <= 32 n eps for fft / rfft / FftPlan / FftPlanR, complex and real input,
//     input classes: Gaussian, impulses (3 positions), constant, single tone, alternating signs,
//     1e+-150 dynamic range;  every n in 1..512 (quick) / 1..4096 (thorough) with ALL bins, and a
//     structured sample of lengths up to 2^17 (primes, semiprimes, prime powers, 2^k p, highly
//     composite) with 32 random bins + their mirrors (Goertzel style) and two full-vector
//     consequences of the bound (Parseval, sum of bins = n x[0]);
//   * fft(x, n') = DFT of x zero-padded / truncated to n' for all n' in 1..2n;
//   * real input: same transform as the complexified input, conjugate symmetric;
//   * czt(x, m, w, a): ||err||_2 <= 32 n2 eps sqrt(m) ||(x_j a^-j)_j||_2  (DESIGN.md C01).
// CORR: the same calls are replayed by the Lean model (Model/Fft.lean) at Float.
#include "common.hpp"
#include <thread>
#include <atomic>
#include <algorithm>
#include <set>
using namespace dsplib;
typedef long double ld;

static const ld TWO_PI = 6.283185307179586476925286766559005768L;
static const ld EPSD = 2.220446049250313080847263336181640625e-16L;

struct C { ld re, im; };
static inline C operator+(C a, C b) { return {a.re + b.re, a.im + b.im}; }
static inline C operator-(C a, C b) { return {a.re - b.re, a.im - b.im}; }
static inline C operator*(C a, C b) { return {a.re * b.re - a.im * b.im, a.re * b.im + a.im * b.re}; }
static inline C cj(C a) { return {a.re, -a.im}; }
static inline ld n2(C a) { return a.re * a.re + a.im * a.im; }

// ---------------------------------------------------------------- per-task result (threads)
struct Res {
    std::vector<std::pair<std::string, std::string>> corr;
    std::vector<std::pair<std::string, std::string>> fails;
    std::map<std::string, long long> stats;
    std::map<std::string, double> worst;   // max err/bound per category
    std::vector<std::string> samples;
    long long n_oracle = 0;
};

static vh::Out out;
static std::map<std::string, double> g_worst;

static void merge(const Res& r) {
    for (auto& c : r.corr) out.corr(c.first, c.second);
    for (auto& f : r.fails) out.fail(f.first, f.second);
    for (auto& s : r.stats) out.stat(s.first, s.second);
    for (auto& w : r.worst) g_worst[w.first] = std::max(g_worst[w.first], w.second);
    for (auto& s : r.samples) out.sample(s);
    out.n_oracle += r.n_oracle;
}

template<class F>
static void parallel_for(int ntasks, const std::vector<int>& order, F fn) {
    std::vector<Res> results(ntasks);
    std::atomic<int> next{0};
    int nt = int(std::thread::hardware_concurrency());
    if (nt < 1) nt = 1;
    if (nt > 12) nt = 12;
    if (const char* e = std::getenv("VERIF_THREADS")) nt = std::max(1, std::atoi(e));
    std::vector<std::thread> th;
    for (int t = 0; t < nt; ++t)
        th.emplace_back([&] {
            for (;;) {
                const int i = next.fetch_add(1);
                if (i >= ntasks) break;
                const int id = order.empty() ? i : order[i];
                fn(id, results[id]);
            }
        });
    for (auto& t : th) t.join();
    for (auto& r : results) merge(r);
}

// ---------------------------------------------------------------- reference DFT
struct Table {
    int n;
    std::vector<C> w;   // w[r] = exp(-2 pi i r / n)
    explicit Table(int n_) : n(n_), w(n_) {
        for (int r = 0; r < n; ++r) {
            const ld t = TWO_PI * ld(r) / ld(n);
            w[r] = {cosl(t), -sinl(t)};
        }
    }
    C pw(long long e) const { return w[size_t(((e % n) + n) % n)]; }
};

typedef std::vector<C> CV;

static C ref_bin(const CV& x, const Table& T, int k) {
    C acc{0, 0};
    int idx = 0;
    const int n = T.n;
    for (int m = 0; m < n; ++m) {
        acc = acc + x[m] * T.w[idx];
        idx += k;
        if (idx >= n) idx -= n;
    }
    return acc;
}

static arr_cmplx to_arr(const CV& x) {
    arr_cmplx a(int(x.size()));
    for (size_t i = 0; i < x.size(); ++i) a[int(i)] = cmplx_t{double(x[i].re), double(x[i].im)};
    return a;
}
static arr_real to_arr_re(const CV& x) {
    arr_real a(int(x.size()));
    for (size_t i = 0; i < x.size(); ++i) a[int(i)] = double(x[i].re);
    return a;
}
static ld l2(const CV& x) {
    ld s = 0;
    for (auto& v : x) s += n2(v);
    return sqrtl(s);
}

// ---------------------------------------------------------------- input classes
enum Cls { GAUSS = 0, IMP0, IMPM, IMPL, CONST, TONE, ALT, DYN, NCLS };
static const char* CLS_NAME[] = {"gauss", "impulse0", "impulse_mid", "impulse_last", "constant", "tone", "alternating", "dynrange"};

struct Input {
    CV x;          // values are exact doubles
    int p = 0;     // impulse position / tone frequency
    C amp{1, 0};   // impulse / constant amplitude
};

static Input make_input(int cls, int n, vh::Rng& rng) {
    Input in;
    in.x.assign(n, C{0, 0});
    switch (cls) {
    case GAUSS:
        for (auto& v : in.x) v = {rng.gauss(), rng.gauss()};
        break;
    case IMP0: case IMPM: case IMPL:
        in.p = cls == IMP0 ? 0 : cls == IMPL ? n - 1 : rng.range(0, n - 1);
        in.amp = {rng.gauss() + 1.5, rng.gauss()};
        in.x[in.p] = in.amp;
        break;
    case CONST:
        in.amp = {0.75 + rng.unit(), rng.sym()};
        for (auto& v : in.x) v = in.amp;
        break;
    case TONE: {
        in.p = rng.range(0, n - 1);
        const double A = 0.5 + rng.unit();
        for (int m = 0; m < n; ++m) {
            const double t = 6.283185307179586 * double((long long)in.p * m % n) / n;
            in.x[m] = {A * std::cos(t), A * std::sin(t)};
        }
        break;
    }
    case ALT:
        for (int m = 0; m < n; ++m) in.x[m] = {(m % 2) ? -1.0 : 1.0, 0};
        break;
    case DYN:
        for (int m = 0; m < n; ++m) {
            const double s1 = std::pow(10.0, 150 * rng.sym()), s2 = std::pow(10.0, 150 * rng.sym());
            in.x[m] = {rng.gauss() * s1, rng.gauss() * s2};
        }
        if (n >= 1) in.x[rng.range(0, n - 1)] = {1e150 * (rng.coin() ? 1 : -1), 1e150 * rng.sym()};
        if (n >= 2) { int q = rng.range(0, n - 1); if (std::fabs(double(in.x[q].re)) < 1e100) in.x[q] = {1e-150, -1e-150}; }
        break;
    }
    return in;
}

// reference bins X[k], k in ks, of the input (closed forms where the input is exactly representable)
static CV ref_bins(int cls, const Input& in, const Table& T, const std::vector<int>& ks, bool force_direct) {
    const int n = T.n;
    CV X(ks.size());
    for (size_t i = 0; i < ks.size(); ++i) {
        const int k = ks[i];
        if (force_direct) { X[i] = ref_bin(in.x, T, k); continue; }
        switch (cls) {
        case IMP0: case IMPM: case IMPL: X[i] = in.amp * T.pw((long long)in.p * k); break;
        case CONST: X[i] = k == 0 ? C{in.amp.re * n, in.amp.im * n} : C{0, 0}; break;
        case ALT:
            if (n % 2 == 0) X[i] = (k == n / 2) ? C{ld(n), 0} : C{0, 0};
            else {   // sum (-w^k)^m = 2 / (1 + w^k)
                const C d = C{1, 0} + T.pw(k);
                const ld q = n2(d);
                X[i] = {2 * d.re / q, -2 * d.im / q};
            }
            break;
        default: X[i] = ref_bin(in.x, T, k); break;
        }
    }
    return X;
}

static std::string jvec(const CV& x) {
    std::string s = "[";
    for (size_t i = 0; i < x.size(); ++i) { if (i) s += ","; s += "[" + vh::jnum(double(x[i].re)) + "," + vh::jnum(double(x[i].im)) + "]"; }
    return s + "]";
}

static std::string wit(const char* entry, int n, int cls, uint64_t seed, const CV& x, ld err, ld bound, int np = -1) {
    std::string s = std::string("{\"entry\":\"") + entry + "\",\"n\":" + std::to_string(n);
    if (np >= 0) s += ",\"n_out\":" + std::to_string(np);
    s += std::string(",\"class\":\"") + CLS_NAME[cls] + "\",\"seed\":" + std::to_string(seed) + ",\"rel_err\":" + vh::jnum(double(err)) +
         ",\"bound\":" + vh::jnum(double(bound));
    if (x.size() <= 16) s += ",\"x\":" + jvec(x);
    return s + "}";
}

struct Ref {
    int n;
    std::vector<int> ks;   // bins held (all bins when full)
    CV X;                  // X at ks
    bool full;
    ld norm;               // ||X||_2 (exact sum when full, Parseval otherwise)
    ld x0sum_re, x0sum_im; // n * x[0]
};

// returns err / (bound * norm); records failure
static void check(Res& R, const char* entry, const char* cat, const arr_cmplx& y, const Ref& ref, int cls, uint64_t seed, const CV& x, int np = -1) {
    const int n = ref.n;
    R.n_oracle++;
    const ld bound = 32 * ld(n) * EPSD;
    if (y.size() != n) { R.fails.push_back({std::string("C01:") + cat + "-size", wit(entry, int(x.size()), cls, seed, x, 0, bound, np)}); return; }
    ld e2 = 0;
    bool finite = true;
    for (size_t i = 0; i < ref.ks.size(); ++i) {
        const int k = ref.ks[i];
        if (!std::isfinite(y[k].re) || !std::isfinite(y[k].im)) finite = false;
        const C d = C{y[k].re, y[k].im} - ref.X[i];
        e2 += n2(d);
    }
    // when only some bins are held, e2 is a LOWER bound of ||Y - X||^2 (no extrapolation: errors of structured
    // inputs concentrate in few bins), so exceeding the bound is a definite violation
    ld err = sqrtl(e2);
    ld rel;
    if (ref.norm == 0) rel = (err == 0) ? 0 : 1e30L;
    else rel = err / ref.norm;
    if (!ref.full && finite) {
        // consequences of the l2 bound that see every bin: | ||Y|| - ||X|| | <= ||Y - X||,  |sum_k (Y_k - X_k)| <= sqrt(n) ||Y - X||
        ld s2 = 0, sr = 0, si = 0;
        for (int k = 0; k < n; ++k) {
            if (!std::isfinite(y[k].re) || !std::isfinite(y[k].im)) finite = false;
            s2 += ld(y[k].re) * y[k].re + ld(y[k].im) * y[k].im;
            sr += y[k].re; si += y[k].im;
        }
        if (ref.norm > 0) {
            const ld r1 = fabsl(sqrtl(s2) - ref.norm) / ref.norm;
            const ld r2 = sqrtl((sr - ref.x0sum_re) * (sr - ref.x0sum_re) + (si - ref.x0sum_im) * (si - ref.x0sum_im)) / (sqrtl(ld(n)) * ref.norm);
            rel = std::max(rel, std::max(r1, r2));
        }
    }
    if (!finite) rel = 1e30L;
    const double ratio = double(rel / bound);
    auto& w = R.worst[cat];
    if (ratio > w) w = ratio;
    if (ratio > 0.1 && std::getenv("VERIF_DEBUG")) std::fprintf(stderr, "ratio %.3f %s n=%d class=%s\n", ratio, entry, n, CLS_NAME[cls]);
    if (!(rel <= bound)) R.fails.push_back({std::string("C01:") + cat + "-accuracy", wit(entry, int(x.size()), cls, seed, x, rel, bound, np)});
}

// difference of two outputs, relative to ||X||, must be <= 2*bound (triangle inequality); conj symmetry likewise
static void check_pair(Res& R, const char* entry, const char* cat, const arr_cmplx& y1, const arr_cmplx& y2, bool mirror, const Ref& ref, int cls,
                       uint64_t seed, const CV& x) {
    const int n = ref.n;
    R.n_oracle++;
    const ld bound = 2 * 32 * ld(n) * EPSD;
    if (y1.size() != n || y2.size() != n) return;   // reported by check()
    ld e2 = 0;
    for (int k = 0; k < n; ++k) {
        const int k2 = mirror ? (n - k) % n : k;
        const ld dr = ld(y1[k].re) - y2[k2].re;
        const ld di = mirror ? ld(y1[k].im) + y2[k2].im : ld(y1[k].im) - y2[k2].im;
        e2 += dr * dr + di * di;
    }
    ld rel = ref.norm == 0 ? (e2 == 0 ? 0 : 1e30L) : sqrtl(e2) / ref.norm;
    if (!(rel == rel)) rel = 1e30L;
    const double ratio = double(rel / bound);
    auto& w = R.worst[cat];
    if (ratio > w) w = ratio;
    if (!(rel <= bound)) R.fails.push_back({std::string("C01:") + cat, wit(entry, n, cls, seed, x, rel, bound)});
}

static bool is_prime(int n) {
    if (n < 2) return false;
    for (long long d = 2; d * d <= n; ++d) if (n % d == 0) return false;
    return true;
}
static bool is_pow2(int n) { return n >= 1 && (n & (n - 1)) == 0; }

static std::string plan_kind_c(int n) {
    if (n == 1 || n == 2 || n == 4 || n == 8) return "small";
    if (is_prime(n)) return n == 3 ? "dft3" : n <= 41 ? "prime_slow" : "prime_czt";
    if (is_pow2(n)) return "pow2";
    return "factor";
}
static std::string plan_kind_r(int n) {
    if (n == 1 || n == 2 || n == 4 || n == 8) return "small";
    if (is_prime(n)) return n == 3 ? "dft3" : n <= 41 ? "prime_slow" : "prime_czt";
    if (n % 2 == 0) return "packed_" + plan_kind_c(n / 2);
    return "factor";
}

// ---------------------------------------------------------------- generated inputs for digest cases (mirrored by the Lean driver)
static inline uint64_t mix(uint64_t m, uint64_t s) {
    uint64_t z = (m + 1) * 0x9e3779b97f4a7c15ULL + s * 0xbf58476d1ce4e5b9ULL;
    z ^= z >> 29;
    z *= 0x94d049bb133111ebULL;
    z ^= z >> 32;
    return z;
}
static inline double gen_re(uint64_t m, uint64_t s) { return (double(mix(m, s) % 4001) - 2000.0) / 2048.0; }
static inline double gen_im(uint64_t m, uint64_t s) { return (double((mix(m, s) >> 20) % 4001) - 2000.0) / 2048.0; }

// digest of a big output: 8 bins + 4 weighted sums (sequential accumulation, mirrored by the driver)
static std::string digest(const arr_cmplx& y) {
    const int n = y.size();
    std::string s = std::to_string(n);
    for (int i = 0; i < 8; ++i) {
        const int k = int(((long long)i * n) / 8 + (i % 3)) % n;
        s += " " + vh::hx(y[k].re) + " " + vh::hx(y[k].im);
    }
    double a[4][2] = {{0, 0}, {0, 0}, {0, 0}, {0, 0}};
    for (int k = 0; k < n; ++k) {
        const double g[4] = {1.0, (k % 2) ? -1.0 : 1.0, double(k % 7) - 3.0, double(((long long)k * k) % 5) - 2.0};
        for (int j = 0; j < 4; ++j) { a[j][0] += y[k].re * g[j]; a[j][1] += y[k].im * g[j]; }
    }
    for (int j = 0; j < 4; ++j) s += " " + vh::hx(a[j][0]) + " " + vh::hx(a[j][1]);
    return s;
}

// ---------------------------------------------------------------- the sweep over one length
struct SweepCfg {
    bool corr_full_gauss;   // C fft / C rfft with the Gaussian vectors
    bool corr_full_all;     // ... and all other classes
    bool corr_digest;       // C fftg / C rfftg
};

static void sweep(int n, uint64_t seed, const SweepCfg& cfg, Res& R) {
    const bool full = n <= 4096;
    vh::Rng rng(seed * 0x100000001b3ULL + uint64_t(n) * 0x9e3779b97f4a7c15ULL + 17);
    const uint64_t wseed = seed;
    Table T(n);
    std::vector<int> ks;
    if (full) { ks.resize(n); for (int k = 0; k < n; ++k) ks[k] = k; }
    else {
        std::set<int> s{0, 1, n - 1, n / 2, (n - n / 2) % n};
        while (int(s.size()) < 256) { const int k = rng.range(0, n - 1); s.insert(k); s.insert((n - k) % n); }
        ks.assign(s.begin(), s.end());
    }
    std::vector<int> ks_all(n);
    for (int k = 0; k < n; ++k) ks_all[k] = k;
    R.stats["len_kind_c_" + plan_kind_c(n)]++;
    R.stats["len_kind_r_" + plan_kind_r(n)]++;
    R.stats[full ? "lengths_all_bins" : "lengths_sampled_bins"]++;

    FftPlan planc(n);
    FftPlanR planr(n);
    for (int cls = 0; cls < NCLS; ++cls) {
        if (n == 1 && (cls == IMPM || cls == IMPL)) continue;
        const Input in = make_input(cls, n, rng);
        const CV& x = in.x;
        // classes whose DFT has a closed form get all bins at every length; the others all bins up to 4096 and a
        // sample (incl. the tone's own bin and its neighbours) above
        const bool closed = cls == IMP0 || cls == IMPM || cls == IMPL || cls == CONST || cls == ALT;
        const bool cfull = full || closed;
        std::vector<int> ksc = cfull ? ks_all : ks;
        if (!cfull && cls == TONE) {
            std::set<int> s2(ksc.begin(), ksc.end());
            for (int d = -2; d <= 2; ++d) { const int k = ((in.p + d) % n + n) % n; s2.insert(k); s2.insert((n - k) % n); }
            ksc.assign(s2.begin(), s2.end());
        }
        const std::vector<int>& ks = ksc;
        std::map<int, int> pos;
        if (!cfull) for (size_t i = 0; i < ks.size(); ++i) pos[ks[i]] = int(i);
        const bool full = cfull;
        // closed forms are cross-checked against the direct sum for small n (the reference checks itself)
        Ref ref{n, ks, ref_bins(cls, in, T, ks, n <= 48), full, 0, 0, 0};
        if (n <= 48 && (cls == IMP0 || cls == IMPM || cls == IMPL || cls == CONST || cls == ALT)) {
            const CV X2 = ref_bins(cls, in, T, ks, false);
            ld d = 0;
            for (size_t i = 0; i < X2.size(); ++i) d += n2(X2[i] - ref.X[i]);
            if (sqrtl(d) > 1e-17L * (1 + l2(ref.X)) * n) R.fails.push_back({"C01:harness-selfcheck", wit("closed-form", n, cls, wseed, x, sqrtl(d), 0)});
        }
        ref.norm = full ? l2(ref.X) : sqrtl(ld(n)) * l2(x);
        ref.x0sum_re = x[0].re * n; ref.x0sum_im = x[0].im * n;
        // real part as a real input: Xr[k] = (X[k] + conj X[n-k]) / 2
        CV xr(n);
        for (int m = 0; m < n; ++m) xr[m] = {x[m].re, 0};
        Ref rref{n, ks, CV(ks.size()), full, 0, xr[0].re * n, 0};
        for (size_t i = 0; i < ks.size(); ++i) {
            const C a = ref.X[i], b = cj(ref.X[full ? size_t((n - ks[i]) % n) : size_t(pos[(n - ks[i]) % n])]);
            rref.X[i] = {(a.re + b.re) / 2, (a.im + b.im) / 2};
        }
        rref.norm = full ? l2(rref.X) : sqrtl(ld(n)) * l2(xr);

        const arr_cmplx ax = to_arr(x);
        const arr_real ar = to_arr_re(x);
        const arr_cmplx y1 = fft(ax);
        check(R, "fft(arr_cmplx)", "fft-complex", y1, ref, cls, wseed, x);
        const arr_cmplx y2 = planc(ax);
        check(R, "FftPlan(n)(arr_cmplx)", "plan-complex", y2, ref, cls, wseed, x);
        const arr_cmplx y3 = fft(ar);
        check(R, "fft(arr_real)", "fft-real", y3, rref, cls, wseed, xr);
        const arr_cmplx y4 = rfft(ar);
        check(R, "rfft(arr_real)", "rfft", y4, rref, cls, wseed, xr);
        const arr_cmplx y5 = planr(ar);
        check(R, "FftPlanR(n)(arr_real)", "plan-real", y5, rref, cls, wseed, xr);
        const arr_cmplx y6 = fft(complex(ar));
        check(R, "fft(complex(arr_real))", "fft-complexified", y6, rref, cls, wseed, xr);
        check_pair(R, "fft(arr_real) vs fft(complex(arr_real))", "real-vs-complex", y3, y6, false, rref, cls, wseed, xr);
        check_pair(R, "fft(arr_real)[k] vs conj fft(arr_real)[n-k]", "conj-symmetry", y3, y3, true, rref, cls, wseed, xr);
        check_pair(R, "fft(complex(arr_real)) conj symmetry", "conj-symmetry", y6, y6, true, rref, cls, wseed, xr);
        R.stats[std::string("class_") + CLS_NAME[cls]]++;

        const bool emit = (cfg.corr_full_gauss && cls == GAUSS) || cfg.corr_full_all;
        if (emit) {
            // alternate between the free function and the plan object on the implementation side
            const bool use_plan = (n + cls) % 2 == 1;
            R.corr.push_back({"fft " + vh::hxs(ax), vh::hxs(use_plan ? y2 : y1)});
            R.corr.push_back({"rfft " + vh::hxs(ar), vh::hxs(use_plan ? y5 : y4)});
            R.stats[use_plan ? "corr_via_plan_object" : "corr_via_free_function"]++;
        }
        if (cls == GAUSS && n <= 8) R.samples.push_back(wit("fft(arr_cmplx)", n, cls, wseed, x, 0, 32 * ld(n) * EPSD));
    }
    // plan object reused after other inputs: first input again (stale state across calls)
    {
        vh::Rng r2(seed ^ (uint64_t(n) << 20));
        const Input in = make_input(GAUSS, n, r2);
        Ref ref{n, ks, ref_bins(GAUSS, in, T, ks, true), full, 0, in.x[0].re * n, in.x[0].im * n};
        ref.norm = full ? l2(ref.X) : sqrtl(ld(n)) * l2(in.x);
        check(R, "FftPlan(n)(arr_cmplx), 9th call", "plan-complex", planc(to_arr(in.x)), ref, GAUSS, wseed, in.x);
    }
    if (cfg.corr_digest) {
        arr_cmplx gx(n);
        arr_real gr(n);
        const uint64_t s = seed * 1000003ULL + uint64_t(n);
        for (int m = 0; m < n; ++m) { gx[m] = cmplx_t{gen_re(m, s), gen_im(m, s)}; gr[m] = gen_re(m, s + 7); }
        R.corr.push_back({"fftg " + std::to_string(n) + " " + std::to_string(s), digest(fft(gx))});
        R.corr.push_back({"rfftg " + std::to_string(n) + " " + std::to_string(s + 7), digest(fft(gr))});
    }
}

// ---------------------------------------------------------------- fft(x, n')
static void padtrunc(int n, uint64_t seed, bool corr, Res& R) {
    vh::Rng rng(seed * 0x2545f4914f6cdd1dULL + uint64_t(n) * 77 + 5);
    for (int cls : {int(GAUSS), int(DYN), int(CONST)}) {
        if (cls != GAUSS && n % 4 != 1) continue;
        const Input in = make_input(cls, n, rng);
        const arr_cmplx ax = to_arr(in.x);
        const arr_real ar = to_arr_re(in.x);
        for (int np = 1; np <= 2 * n; ++np) {
            CV xp(np, C{0, 0}), xrp(np, C{0, 0});
            for (int m = 0; m < std::min(n, np); ++m) { xp[m] = in.x[m]; xrp[m] = {in.x[m].re, 0}; }
            Table T(np);
            std::vector<int> ks(np);
            for (int k = 0; k < np; ++k) ks[k] = k;
            Input ip; ip.x = xp;
            Input ir; ir.x = xrp;
            Ref ref{np, ks, ref_bins(GAUSS, ip, T, ks, true), true, 0, 0, 0};
            ref.norm = l2(ref.X);
            Ref rref{np, ks, ref_bins(GAUSS, ir, T, ks, true), true, 0, 0, 0};
            rref.norm = l2(rref.X);
            const arr_cmplx y1 = fft(ax, np);
            check(R, "fft(arr_cmplx, n_out)", np < n ? "fftn-truncate-complex" : np > n ? "fftn-pad-complex" : "fftn-same-complex", y1, ref, cls, seed, in.x, np);
            const arr_cmplx y2 = fft(ar, np);
            check(R, "fft(arr_real, n_out)", np < n ? "fftn-truncate-real" : np > n ? "fftn-pad-real" : "fftn-same-real", y2, rref, cls, seed, in.x, np);
            const arr_cmplx y3 = rfft(ar, np);
            check(R, "rfft(arr_real, n_out)", np < n ? "rfftn-truncate" : np > n ? "rfftn-pad" : "rfftn-same", y3, rref, cls, seed, in.x, np);
            R.stats[np < n ? "padtrunc_truncate" : np > n ? "padtrunc_pad" : "padtrunc_same"]++;
            if (corr && cls == GAUSS) {
                R.corr.push_back({"fftn " + std::to_string(np) + " " + vh::hxs(ax), vh::hxs(y1)});
                R.corr.push_back({"rfftn " + std::to_string(np) + " " + vh::hxs(ar), vh::hxs((np % 2) ? y2 : y3)});
            }
        }
    }
}

// ---------------------------------------------------------------- czt
static void czt_case(int id, uint64_t seed, int maxn, bool corr, Res& R) {
    vh::Rng rng(seed * 0x9e3779b97f4a7c15ULL + uint64_t(id) * 0xd1342543de82ef95ULL + 3);
    int n, m;
    if (id < 64) { n = 1 + id % 8; m = 1 + id / 8; }   // small exhaustive corner (n2 = 1, 2, 4, 8, 16: small kernels)
    else {
        n = rng.range(1, maxn);
        m = rng.range(1, maxn);
        if (id % 7 == 0) m = n;
        if (id % 11 == 0) m = 1;
    }
    double th;
    switch (id % 6) {
    case 0: th = -6.283185307179586 / std::max(m, n); break;   // the DFT contour
    case 1: th = 6.283185307179586 / n; break;                 // inverse direction
    case 2: th = (id % 12 == 2) ? 3.141592653589793 : 0.0; break;   // w = -1 (negative real axis), w = 1
    default: th = 3.141592653589793 * rng.sym(); break;
    }
    if (id == 64) th = 3.141592653589793;
    const cmplx_t w{std::cos(th), std::sin(th)};
    cmplx_t a{1, 0};
    const int am = id == 64 ? 0 : id % 5;
    if (am == 1 || am == 2 || am == 3) {
        const double r = am == 1 ? 0.5 + 1.5 * rng.unit() : am == 2 ? (rng.coin() ? 0.5 : 2.0) : 1.0;
        const double ph = 3.141592653589793 * rng.sym();
        a = cmplx_t{r * std::cos(ph), r * std::sin(ph)};
    } else if (am == 4 && id % 10 == 4) a = cmplx_t{std::nextafter(1.0, 2.0), 0};   // treated as 1 by the code
    CV x(n);
    const int cls = (id % 9 == 8) ? DYN : GAUSS;
    {
        const Input in = make_input(cls, n, rng);
        x = in.x;
        if (id % 13 == 5) { for (auto& v : x) v = {0, 0}; x[rng.range(0, n - 1)] = {1, 0}; }   // impulse
    }
    if (id == 64) {   // fixed case: long chirp phase (w = -1), all weight on the last sample; exact result [1, -1]
        n = 56; m = 2;
        x.assign(n, C{0, 0});
        x[n - 1] = {1, 0};
    }
    const arr_cmplx ax = to_arr(x);
    const std::string js = "{\"entry\":\"czt\",\"n\":" + std::to_string(n) + ",\"m\":" + std::to_string(m) + ",\"w\":[" + vh::jnum(w.re) + "," + vh::jnum(w.im) +
                           "],\"a\":[" + vh::jnum(a.re) + "," + vh::jnum(a.im) + "],\"seed\":" + std::to_string(seed) + ",\"id\":" + std::to_string(id) +
                           (n <= 16 ? ",\"x\":" + jvec(x) : std::string()) + "}";
    arr_cmplx y;
    if (id % 2 == 0) y = (a.re == 1 && a.im == 0 && id % 4 == 0) ? czt(ax, m, w) : czt(ax, m, w, a);
    else { CztPlan plan(n, m, w, a); y = plan(ax); }
    R.n_oracle++;
    // reference: sum_j x[j] a^-j w^(jk), w taken on the unit circle (its argument), a as given
    const ld tw = atan2l(ld(w.im), ld(w.re));
    const ld ra = sqrtl(ld(a.re) * a.re + ld(a.im) * a.im), pa = atan2l(ld(a.im), ld(a.re));
    CV xa(n);
    for (int j = 0; j < n; ++j) {
        const ld mag = powl(ra, -ld(j));
        const C aj{mag * cosl(-pa * j), mag * sinl(-pa * j)};
        xa[j] = x[j] * aj;
    }
    const ld wn = l2(xa);
    int p2 = 1;
    while (p2 < m + n - 1) p2 *= 2;
    const ld bound = 32 * ld(p2) * EPSD * sqrtl(ld(m)) * wn;
    ld e2 = 0;
    bool ok = y.size() == m;
    for (int k = 0; k < m && ok; ++k) {
        C acc{0, 0};
        for (int j = 0; j < n; ++j) {
            const ld ph = tw * ld((long long)j * k);
            acc = acc + xa[j] * C{cosl(ph), sinl(ph)};
        }
        if (!std::isfinite(y[k].re) || !std::isfinite(y[k].im)) ok = false;
        e2 += n2(C{y[k].re, y[k].im} - acc);
    }
    const ld err = sqrtl(e2);
    if (!ok) R.fails.push_back({"C01:czt-size-or-nonfinite", js});
    else {
        const double ratio = wn == 0 ? (err == 0 ? 0 : 1e30) : double(err / bound);
        auto& wst = R.worst["czt"];
        if (ratio > wst) wst = ratio;
        if (ratio > 0.3 && std::getenv("VERIF_DEBUG")) std::fprintf(stderr, "ratio %.3f czt %s\n", ratio, js.substr(0, 200).c_str());
        if (!(ratio <= 1)) R.fails.push_back({"C01:czt-accuracy", js.substr(0, js.size() - 1) + ",\"err\":" + vh::jnum(double(err)) + ",\"bound\":" + vh::jnum(double(bound)) + "}"});
        // for information only: error relative to the plain (unweighted) transform norm
    }
    R.stats[a.re == 1 && a.im == 0 ? "czt_a_is_one" : "czt_a_general"]++;
    R.stats[p2 <= 8 ? "czt_inner_small" : "czt_inner_pow2"]++;
    if (corr) {
        // skipA = the code's own test `abs(a - 1) > eps(a.re)` evaluated on the doubles (mirrored by the driver)
        R.corr.push_back({"czt " + std::to_string(m) + " " + vh::hx(w.re) + " " + vh::hx(w.im) + " " + vh::hx(a.re) + " " + vh::hx(a.im) + " " + vh::hxs(ax), vh::hxs(y)});
    }
    if (id < 3) R.samples.push_back(js);
}

// ---------------------------------------------------------------- structured sample of large lengths
static std::vector<int> big_lengths(vh::Rng& rng, int per_family, int lo, int hi) {
    std::set<int> s;
    auto rnd_prime = [&](int a, int b) { for (;;) { int p = rng.range(a, b); if (is_prime(p)) return p; } };
    // primes
    for (int i = 0; i < per_family; ++i) s.insert(rnd_prime(lo, hi));
    // semiprimes: both large (two CZT leaves), small * large, squares of primes
    for (int i = 0; i < per_family; ++i) {
        const int p = rnd_prime(43, 360);
        const int q = rnd_prime(std::max(43, lo / p + 1), std::max(44, hi / p));
        if ((long long)p * q <= hi && p * q >= lo) s.insert(p * q);
        const int r = rnd_prime(2, 41);
        const int t = rnd_prime(lo / r + 1, hi / r);
        s.insert(r * t);
    }
    // prime powers
    {
        std::vector<int> pp;
        for (int p : {3, 5, 7, 11, 13, 17, 19, 23, 29, 31, 37, 41, 43, 47, 53, 59, 61, 67, 71, 73, 127, 251, 331, 359}) {
            long long v = (long long)p * p;
            while (v <= hi) { if (v >= lo) pp.push_back(int(v)); v *= p; }
        }
        for (int i = 0; i < per_family && !pp.empty(); ++i) s.insert(pp[rng.next() % pp.size()]);
    }
    // 2^k * p
    for (int i = 0; i < per_family; ++i) {
        const int k = rng.range(1, 11);
        const int a = std::max(3, (lo >> k) + 1), b = hi >> k;
        if (b >= a) { const int p = rnd_prime(a, std::max(a, b)); if (((long long)p << k) <= hi) s.insert(p << k); else s.insert(p); }
    }
    // highly composite / smooth numbers and powers of two
    {
        std::vector<int> hc = {5040, 7560, 10080, 15120, 20160, 25200, 27720, 45360, 50400, 55440, 83160, 110880, 8192, 16384, 32768, 65536, 131072,
                               6561 * 2, 3125 * 8, 2401 * 16, 30030, 60060, 120120, 4620 * 7, 9240 * 11, 46189, 96577, 4199 * 23};
        std::vector<int> ok;
        for (int v : hc) if (v >= lo && v <= hi) ok.push_back(v);
        for (int i = 0; i < per_family && !ok.empty(); ++i) s.insert(ok[rng.next() % ok.size()]);
        if (hi >= 131072) s.insert(131072);
    }
    return std::vector<int>(s.begin(), s.end());
}

int main(int argc, char** argv) {
    vh::Args a(argc, argv);
    vh::install_guards();
    vh::Rng rng(a.seed);
    const uint64_t seed = a.seed;

    // 1. every length 1..N with all bins
    const int N = a.thorough ? 4096 : 512;
    const char* only = std::getenv("VERIF_PHASE");   // development aid: run a single phase
    if (!only || only[0] == '1') {
        vh::set_current("C01:crash-or-hang", "{\"phase\":\"sweep of every length 1..N\",\"seed\":" + std::to_string(seed) + "}");
        vh::watch(a.thorough ? 3000 : 600);
        std::vector<int> order(N);
        for (int i = 0; i < N; ++i) order[i] = N - 1 - i;   // long tasks first
        parallel_for(N, order, [&](int id, Res& R) {
            const int n = id + 1;
            SweepCfg cfg{n <= 512, n <= 40, n > 512 && n <= 4096};
            sweep(n, seed, cfg, R);
        });
        vh::unwatch();
        vh::clear_current();
    }
    // 2. structured sample of larger lengths (up to 2^17)
    if (!only || only[0] == '2') {
        std::vector<int> lens = big_lengths(rng, a.thorough ? 24 : 3, a.thorough ? 4097 : 513, 131072);
        if (!a.thorough) { auto more = big_lengths(rng, 2, 513, 4096); lens.insert(lens.end(), more.begin(), more.end()); }
        vh::set_current("C01:crash-or-hang", "{\"phase\":\"sampled large lengths\",\"seed\":" + std::to_string(seed) + ",\"lengths\":" + vh::jints(lens) + "}");
        vh::watch(a.thorough ? 3000 : 600);
        // digest correspondence for a subset (the model driver is single-threaded)
        int budget = a.thorough ? 40 : 8;
        std::vector<char> dig(lens.size(), 0);
        for (size_t i = 0; i < lens.size(); ++i) if (budget > 0 && (lens[i] <= 40000 || i % 4 == 0)) { dig[i] = 1; --budget; }
        parallel_for(int(lens.size()), {}, [&](int id, Res& R) {
            SweepCfg cfg{false, false, dig[id] != 0};
            sweep(lens[id], seed, cfg, R);
            R.stats["large_lengths"]++;
        });
        vh::unwatch();
        vh::clear_current();
    }
    // 3. fft(x, n') for all n' in 1..2n
    if (!only || only[0] == '3') {
        const int NP = a.thorough ? 64 : 24;
        vh::set_current("C01:crash-or-hang", "{\"phase\":\"fft(x, n_out)\",\"seed\":" + std::to_string(seed) + "}");
        vh::watch(600);
        parallel_for(NP, {}, [&](int id, Res& R) { padtrunc(id + 1, seed, (id + 1) <= 12 || (id + 1) % 8 == 0, R); });
        vh::unwatch();
        vh::clear_current();
    }
    // 4. czt
    if (!only || only[0] == '4') {
        const int NC = a.thorough ? 6000 : 600;
        vh::set_current("C01:crash-or-hang", "{\"phase\":\"czt\",\"seed\":" + std::to_string(seed) + "}");
        vh::watch(1200);
        parallel_for(NC, {}, [&](int id, Res& R) {
            const int maxn = (a.thorough && id % 10 == 9) ? 300 : 64;
            czt_case(id, seed, maxn, id < 64 || id % (a.thorough ? 10 : 2) == 0, R);
        });
        vh::unwatch();
        vh::clear_current();
    }
    for (auto& w : g_worst) {
        std::string k = w.first;
        for (auto& ch : k) if (ch == '-') ch = '_';
        out.stat("worst_err_over_bound_ppm_" + k, (long long)std::min(1e15, w.second * 1e6));
    }
    out.finish();
    return 0;
}
