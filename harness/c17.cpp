// C17 — elementary and reduction functions return their mathematical values.
//
// ORACLE: every function of the property is evaluated on the implementation and compared with its
// mathematical definition evaluated in `long double` (x87 80-bit, libm ...l functions), or with a
// brute-force definition for the shape/index functions.  The tolerance is
//        |got - ref| <= budget * eps * scale + 2e-323          (eps = 2^-52)
// where `scale` is the result's scale (|ref| for scalar functions, the complex modulus for complex
// results, the sum of the magnitudes of the accumulated terms for reductions) and `budget` is:
//
//   function                                   budget (units of eps*scale)        scale
//   ------------------------------------------ ---------------------------------- ----------------------
//   abs(real) real imag conj complex round     0  (exact, sign of zero checked    -
//     flip repelem up/downsample zeropad           for abs/round)
//     delayseq arange(int) min max argmin
//     argmax peak2peak (real)
//   abs(cmplx) abs2 angle exp exp(cmplx) expj  8                                  |ref| / modulus
//     log log2 log10 tanh tanh(cmplx)
//     power(real,real) power(real,int)
//     pow2db mag2db deg2rad rad2deg
//     linspace arange(frac)                                                       max(|x1|,|x2|) / max(|start|,|stop|)
//   power(cmplx,n) (polar form: n*angle)       8 + 4|n|                           |x|^n
//   db2pow(v) (10^(v/10): rounding of v/10     8 + 0.25|v|                        |ref|
//     is amplified by ln(10)|v|/10)
//   db2mag(v)                                  8 + 0.125|v|                       |ref|
//   sum cumsum dot mean (recursive summation   8 + n/2                            sum |term_i| (prefix for cumsum, /n for mean)
//     of n terms: the a-priori bound (n-1)u
//     of Higham, u = eps/2; equal addends do
//     reach a constant fraction of it)
//   rms norm(p=1,2)                            8 + n/2 (+p)                       ref
//   stddev (two passes: mean, then squares)    8 + n                              sqrt(sum|x|^2/(n-1))
//   norm(p>=3) (outer pow(S,1/p): rounding of  8 + n/2 + p + |ln ref|             ref
//     1/p amplified by ln(S)/p = ln ref)
//   min max argmin argmax peak2peak (cmplx):   chosen element is an array element whose |.|^2 is within 4 eps of the extreme
//   round trips: pow2db(db2pow v), mag2db(db2mag v): 8 eps max(1,|v|);  db2pow(pow2db x): (8 + 0.75|10 log10 x|) eps x;
//     db2mag(mag2db x): (8 + 0.4|20 log10 x|) eps x;  deg2rad(rad2deg x), rad2deg(deg2rad x): 8 eps |x|;
//     downsample(upsample), complex(real,imag): exact
//
// CORR: `C <tag> <args> | <outs>` lines recomputed by the Lean model (Model/MathFns.lean, Driver/H17.lean).
#include "common.hpp"
#include <complex>
#include <cfloat>
#include <algorithm>
using namespace dsplib;
typedef long double ld;
typedef std::complex<ld> cld;
static vh::Out out;
static const ld EPS = 2.220446049250313080847e-16L;
static const ld TINY = 2e-323L;
static const ld PIL = 3.14159265358979323846264338327950288L;
static std::map<std::string, ld> g_maxerr;   // worst observed error per function, in units of eps*scale
static bool g_thorough = false;
static uint64_t g_seed = 1;

using vh::hx;
static std::string I(long long v) { return std::to_string(v); }

// ------------------------------------------------------------------------------ witnesses
static std::string W(const char* fn, std::initializer_list<double> a, std::initializer_list<long long> k = {}) {
    std::string s = std::string("{\"fn\":\"") + fn + "\",\"args_hex\":[";
    bool f = true;
    for (double d : a) { if (!f) s += ","; f = false; s += "\"" + hx(d) + "\""; }
    s += "],\"args\":[";
    f = true;
    for (double d : a) { if (!f) s += ","; f = false; s += vh::jnum(d); }
    s += "],\"ints\":[";
    f = true;
    for (long long d : k) { if (!f) s += ","; f = false; s += I(d); }
    return s + "]}";
}
static std::string jl(ld v) {
    char b[64];
    std::snprintf(b, sizeof b, "%.21Lg", v);
    if (std::isnan(v) || std::isinf(v)) return std::string("\"") + b + "\"";
    return b;
}
template<class A>
static std::string WA(const char* fn, const A& x, std::initializer_list<long long> k = {}, int cls = -1, int idx = -1) {
    std::string s = std::string("{\"fn\":\"") + fn + "\",\"n\":" + I(x.size()) + ",\"class\":" + I(cls) + ",\"index\":" + I(idx) +
                    ",\"seed\":" + I((long long)g_seed) + ",\"ints\":[";
    bool f = true;
    for (long long d : k) { if (!f) s += ","; f = false; s += I(d); }
    s += "],\"x\":";
    if (x.size() <= 48) s += vh::jarr(x);
    else { A h(x.slice(0, 8)); s += vh::jarr(h) + ",\"truncated\":true"; }
    return s + "}";
}

// value check: |got - ref| <= budget*eps*scale + TINY
template<class L>
static bool vchk(const std::string& key, double budget, double got, ld ref, ld scale, L&& lazy) {
    out.n_oracle++;
    const ld err = fabsl((ld)got - ref);
    const ld tol = (ld)budget * EPS * scale + TINY;
    if (scale > 0 && err == err) {
        const ld e = err / (EPS * scale);
        ld& m = g_maxerr[key];
        if (e > m) m = e;
    }
    if (!(err <= tol)) {
        out.fail("C17:" + key, std::string("{\"case\":") + lazy() + ",\"got\":" + vh::jnum(got) + ",\"ref\":" + jl(ref) +
                                   ",\"err_over_eps_scale\":" + jl(scale > 0 ? err / (EPS * scale) : err) + ",\"budget\":" + vh::jnum(budget) + "}");
        return false;
    }
    return true;
}
template<class L>
static bool cchk(const std::string& key, double budget, cmplx_t got, cld ref, ld scale, L&& lazy) {
    const bool a = vchk(key, budget, got.re, ref.real(), scale, lazy);
    const bool b = vchk(key, budget, got.im, ref.imag(), scale, lazy);
    return a && b;
}
template<class L>
static bool xchk(const std::string& key, bool ok, L&& lazy) {   // exact / structural check
    out.n_oracle++;
    if (!ok) out.fail("C17:" + key, lazy());
    return ok;
}
static bool same(double a, double b) { return a == b && std::signbit(a) == std::signbit(b); }
static bool samev(double a, double b) { return a == b; }   // value equality (sign of zero not part of the claim)
static bool samev(cmplx_t a, cmplx_t b) { return a.re == b.re && a.im == b.im; }
static bool inrange(ld v) { const ld a = fabsl(v); return a == 0 || (a > 1e-290L && a < 1e290L); }

// ------------------------------------------------------------------------------ generators
static double rmag(vh::Rng& r, double lo = -100, double hi = 100) { return std::pow(10.0, lo + (hi - lo) * r.unit()); }
static double rsg(vh::Rng& r, double lo = -100, double hi = 100) { const double m = rmag(r, lo, hi); return r.coin() ? m : -m; }

static const double SPR[] = {0.0, -0.0, 1.0, -1.0, 0.5, -0.5, 2.0, -2.0, 1.5, -1.5, 2.5, -2.5, 3.5, -3.5,
                             0.49999999999999994, -0.49999999999999994, 1e-100, -1e-100, 1e100, -1e100,
                             3.141592653589793, -3.141592653589793, 1.5707963267948966, 10.0, 100.0, 0.1, 3.0, -3.0, 180.0, -180.0, 90.0,
                             4503599627370495.5, 4503599627370497.0, -4503599627370495.5, 0.9999999999999999, 1.0000000000000002, 7.0, -8.0, 8.0};
static const double SPC[] = {0.0, -0.0, 1.0, -1.0, 2.0, -2.0, 0.5, -0.5, 1e-100, -1e-100, 1e100, -1e100};

static std::vector<double> real_pool(vh::Rng& r, int nrand) {
    std::vector<double> v(std::begin(SPR), std::end(SPR));
    for (int i = 0; i < nrand; ++i) v.push_back(rsg(r));
    for (int i = 0; i < nrand / 4; ++i) v.push_back(rsg(r, -3, 3));
    return v;
}
static std::vector<cmplx_t> cmplx_pool(vh::Rng& r, int nrand) {
    std::vector<cmplx_t> v;
    for (double a : SPC) for (double b : SPC) v.push_back(cmplx_t{a, b});   // 0, -0, +-1, +-i, axes, signed zeros
    for (int i = 0; i < nrand / 4; ++i) {                                    // axes with random magnitude
        const double m = rsg(r);
        v.push_back(cmplx_t{m, 0.0}); v.push_back(cmplx_t{m, -0.0}); v.push_back(cmplx_t{0.0, m}); v.push_back(cmplx_t{-0.0, m});
    }
    for (int i = 0; i < nrand; ++i) v.push_back(cmplx_t{rsg(r), rsg(r)});
    for (int i = 0; i < nrand; ++i) { const double c = -98 + 196 * r.unit(); v.push_back(cmplx_t{rsg(r, c - 1, c + 1), rsg(r, c - 1, c + 1)}); }
    for (int i = 0; i < nrand / 2; ++i) v.push_back(cmplx_t{rsg(r, -2, 2), rsg(r, -2, 2)});
    return v;
}
static std::vector<double> expo_pool(vh::Rng& r, int nrand) {
    std::vector<double> v;
    for (int k = -8; k <= 8; ++k) v.push_back(k);
    for (double f : {0.5, -0.5, 1.5, -1.5, 2.5, 1.0 / 3, -1.0 / 3, 7.75, -7.75, 0.1, 0.25, -2.25}) v.push_back(f);
    for (int i = 0; i < nrand; ++i) v.push_back(-8 + 16 * r.unit());
    return v;
}

// array classes: 0 full log-uniform range, 1 band (<= 2 decades) random signs, 2 band one sign, 3 special points, 4 small integers (ties)
static const int NCLS = 5;
static double elem(vh::Rng& r, int cls, double c, double w, double lim) {
    switch (cls) {
    case 0: return rsg(r, -lim, lim);
    case 1: return rsg(r, c - w / 2, c + w / 2);
    case 2: return rmag(r, c - w / 2, c + w / 2);
    case 3: { const double s = SPR[r.range(0, int(sizeof(SPR) / sizeof(SPR[0])) - 1)]; return std::fabs(s) > 1e15 ? 1.25 : (std::fabs(s) >= 1e100 && lim < 100 ? 4.0 : (std::fabs(s) <= 1e-100 && s != 0 && lim < 100 ? 0.25 : s)); }
    default: return double(r.range(-4, 4));
    }
}
static arr_real gen_real(vh::Rng& r, int n, int cls, double lim = 100) {
    const double w = 2 * r.unit(), c = -(lim - 2) + 2 * (lim - 2) * r.unit();
    arr_real x(n);
    for (int i = 0; i < n; ++i) x[i] = elem(r, cls, c, w, lim);
    return x;
}
static arr_cmplx gen_cmplx(vh::Rng& r, int n, int cls, double lim = 100) {
    const double w = 2 * r.unit(), c = -(lim - 2) + 2 * (lim - 2) * r.unit();
    arr_cmplx x(n);
    for (int i = 0; i < n; ++i) {
        x[i] = cmplx_t{elem(r, cls, c, w, lim), elem(r, cls, c, w, lim)};
        if ((cls == 0 || cls == 3) && r.range(0, 7) == 0) (r.coin() ? x[i].re : x[i].im) = r.coin() ? 0.0 : -0.0;   // axes
    }
    return x;
}
static ld cabsl_(cmplx_t z) { return hypotl((ld)z.re, (ld)z.im); }
static cld C(cmplx_t z) { return cld((ld)z.re, (ld)z.im); }

// =============================================================================== scalar value functions
// each `ck_*` compares one returned value with the long-double definition; `fn` names the overload
static void ck_abs(const char* fn, double x, double got) {
    xchk(std::string(fn) + "-value", same(got, std::fabs(x)) && !std::signbit(got), [&] { return W(fn, {x, got}); });
}
static void ck_cabs(const char* fn, cmplx_t z, double got) {
    vchk(std::string(fn) + "-value", 8, got, cabsl_(z), cabsl_(z), [&] { return W(fn, {z.re, z.im}); });
}
static void ck_abs2(const char* fn, cmplx_t z, double got) {
    const ld ref = (ld)z.re * z.re + (ld)z.im * z.im;
    vchk(std::string(fn) + "-value", 8, got, ref, ref, [&] { return W(fn, {z.re, z.im}); });
}
static void ck_angle(const char* fn, cmplx_t z, double got) {
    const ld ref = atan2l((ld)z.im, (ld)z.re);
    vchk(std::string(fn) + "-value", 8, got, ref, fabsl(ref), [&] { return W(fn, {z.re, z.im}); });
    // range clause: [-pi, pi]
    xchk(std::string(fn) + "-range", got >= -3.141592653589793 && got <= 3.141592653589793, [&] { return W(fn, {z.re, z.im, got}); });
}
static bool dom_exp(double x) { return std::fabs(x) <= 700; }
static void ck_exp(const char* fn, double x, double got) {
    const ld ref = expl((ld)x);
    vchk(std::string(fn) + "-value", 8, got, ref, ref, [&] { return W(fn, {x}); });
}
static bool dom_cexp(cmplx_t z) { return std::fabs(z.re) <= 650; }
static void ck_cexp(const char* fn, cmplx_t z, cmplx_t got) {
    const ld m = expl((ld)z.re);
    cchk(std::string(fn) + "-value", 8, got, cld(m * cosl((ld)z.im), m * sinl((ld)z.im)), m, [&] { return W(fn, {z.re, z.im}); });
}
static void ck_expj(const char* fn, double x, cmplx_t got) {
    cchk(std::string(fn) + "-value", 8, got, cld(cosl((ld)x), sinl((ld)x)), 1, [&] { return W(fn, {x}); });
}
static void ck_log(const char* fn, int base, double x, double got) {
    const ld ref = base == 0 ? logl((ld)x) : base == 2 ? log2l((ld)x) : log10l((ld)x);
    vchk(std::string(fn) + "-value", 8, got, ref, fabsl(ref), [&] { return W(fn, {x}); });
}
static bool dom_rpow(double x, double n) {
    if (x == 0) return n >= 0;
    if (x < 0 && n != std::floor(n)) return false;
    const ld ref = powl(fabsl((ld)x), (ld)n);
    return inrange(ref);
}
static void ck_rpow(const char* fn, double x, double n, double got) {
    const ld ref = powl((ld)x, (ld)n);
    vchk(std::string(fn) + "-value", 8, got, ref, fabsl(ref), [&] { return W(fn, {x, n}); });
}
static bool dom_cpow(cmplx_t x, double n) {
    if (x.re == 0 && x.im == 0) return n >= 0;
    return inrange(powl(cabsl_(x), (ld)n));
}
static cld ref_cpow(cmplx_t x, double n) {
    if (x.re == 0 && x.im == 0) return n == 0 ? cld(1, 0) : cld(0, 0);
    const ld a = cabsl_(x), p = atan2l((ld)x.im, (ld)x.re), m = powl(a, (ld)n);
    // integer exponents: reduce the angle exactly to avoid losing the reference's accuracy
    return cld(m * cosl(p * (ld)n), m * sinl(p * (ld)n));
}
static void ck_cpow(const char* fn, cmplx_t x, double n, cmplx_t got) {
    const cld ref = ref_cpow(x, n);
    cchk(std::string(fn) + "-value", 8 + 4 * std::fabs(n), got, ref, std::abs(ref), [&] { return W(fn, {x.re, x.im, n}); });
}
static void ck_cpowi(const char* fn, cmplx_t x, int n, cmplx_t got) {
    cld ref;
    if (n == 2) ref = C(x) * C(x);
    else if (n == -1) ref = std::conj(C(x)) / ((ld)x.re * x.re + (ld)x.im * x.im);
    else if (n == 0) ref = cld(1, 0);
    else if (n == 1) ref = C(x);
    else ref = ref_cpow(x, n);
    const ld sc = (x.re == 0 && x.im == 0) ? std::abs(ref) : powl(cabsl_(x), (ld)n);
    cchk(std::string(fn) + "-value", 8 + 4 * std::abs(n), got, ref, sc, [&] { return W(fn, {x.re, x.im}, {n}); });
}
static void ck_tanh(const char* fn, double x, double got) {
    const ld ref = tanhl((ld)x);
    vchk(std::string(fn) + "-value", 8, got, ref, fabsl(ref), [&] { return W(fn, {x}); });
}
static bool dom_ctanh(cmplx_t z) {
    const cld r = std::tanh(C(z));
    return std::isfinite((double)r.real()) && std::isfinite((double)r.imag()) && inrange(std::abs(r));
}
static void ck_ctanh(const char* fn, cmplx_t z, cmplx_t got) {
    const cld ref = std::tanh(C(z));
    cchk(std::string(fn) + "-value", 8, got, ref, std::abs(ref), [&] { return W(fn, {z.re, z.im}); });
}
static void ck_round(const char* fn, double x, double got) {
    xchk(std::string(fn) + "-value", same(got, (double)roundl((ld)x)), [&] { return W(fn, {x, got}); });
}
static void ck_pow2db(const char* fn, double k, double x, double got) {   // k = 10 or 20
    const ld ref = k * log10l((ld)x);
    vchk(std::string(fn) + "-value", 8, got, ref, fabsl(ref), [&] { return W(fn, {x}); });
}
static bool dom_db2(double k, double v) { return std::fabs(v / k) <= 290; }
static void ck_db2pow(const char* fn, double k, double v, double got) {
    const ld ref = powl(10.0L, (ld)v / k);
    vchk(std::string(fn) + "-value", 8 + (k == 10 ? 0.25 : 0.125) * std::fabs(v), got, ref, ref, [&] { return W(fn, {v}); });
}
static void ck_deg2rad(const char* fn, double x, double got) {
    const ld ref = (ld)x * PIL / 180;
    vchk(std::string(fn) + "-value", 8, got, ref, fabsl(ref), [&] { return W(fn, {x}); });
}
static void ck_rad2deg(const char* fn, double x, double got) {
    const ld ref = (ld)x * 180 / PIL;
    vchk(std::string(fn) + "-value", 8, got, ref, fabsl(ref), [&] { return W(fn, {x}); });
}

template<class A>
static bool shape(const char* fn, const A& r, int n) {
    return xchk(std::string(fn) + "-shape", r.size() == n, [&] { return std::string("{\"fn\":\"") + fn + "\",\"size\":" + I(r.size()) + ",\"expected\":" + I(n) + "}"; });
}
static arr_real AR(const std::vector<double>& v) { return arr_real(v); }
static arr_cmplx AC(const std::vector<cmplx_t>& v) { return arr_cmplx(v); }
static std::string hc(cmplx_t z) { return hx(z.re) + " " + hx(z.im); }
// CORR of an array overload in chunks of <= 8 elements (keeps the line scale meaningful)
template<class AI, class AO>
static void corr_chunks(const std::string& tag, const std::string& extra, const AI& in, const AO& o, int maxchunks) {
    if (in.size() != o.size()) return;
    for (int s = 0, c = 0; s < in.size() && c < maxchunks; s += 8, ++c) {
        const int e = std::min(s + 8, in.size());
        AI a(in.slice(s, e)); AO b(o.slice(s, e));
        out.corr(tag + extra + " " + vh::hxs(a), vh::hxs(b));
    }
}

// CORR volume limiter for the scalar sweeps: the first 3000 lines of a tag (they contain all special points), then every 37th in the thorough tier
static std::map<std::string, long long> g_corr_count;
static void corrS(const std::string& lhs, const std::string& rhs) {
    const std::string tag = lhs.substr(0, lhs.find(' '));
    const long long c = g_corr_count[tag]++;
    if (c < 3000 || !g_thorough || c % 37 == 0) out.corr(lhs, rhs);
    else out.stat("corr_lines_thinned_in_thorough");
}

static void scalar_functions(vh::Rng& r) {
    const int NR = g_thorough ? 60000 : 4000;
    const int CH = g_thorough ? 60 : 12;
    const std::vector<double> rp = real_pool(r, NR);
    const std::vector<cmplx_t> cp = cmplx_pool(r, NR);
    const std::vector<double> ep = expo_pool(r, g_thorough ? 300 : 60);

    // ---- abs / round / real-argument elementary functions
    {
        std::vector<double> pos, ex, th, dbv;
        for (double x : rp) {
            vh::set_current("C17:crash:unary-real", W("unary", {x}));
            const double a = dsplib::abs(x);
            ck_abs("abs", x, a); corrS("abs " + hx(x), hx(a));
            const double q = dsplib::round(x);
            ck_round("round", x, q); corrS("round " + hx(x), hx(q));
            const cmplx_t e = dsplib::expj(x);
            ck_expj("expj", x, e); corrS("expj " + hx(x), hc(e));
            const double t = dsplib::tanh(arr_real{x})[0];
            ck_tanh("tanh", x, t); corrS("tanh " + hx(x), hx(t));
            const double d2r = dsplib::deg2rad(x), r2d = dsplib::rad2deg(x);
            ck_deg2rad("deg2rad", x, d2r); corrS("deg2rad " + hx(x), hx(d2r));
            ck_rad2deg("rad2deg", x, r2d); corrS("rad2deg " + hx(x), hx(r2d));
            // round trips
            vchk("roundtrip-deg2rad-rad2deg", 8, dsplib::deg2rad(r2d), x, std::fabs(x), [&] { return W("deg2rad(rad2deg)", {x}); });
            vchk("roundtrip-rad2deg-deg2rad", 8, dsplib::rad2deg(d2r), x, std::fabs(x), [&] { return W("rad2deg(deg2rad)", {x}); });
            const double sq = dsplib::abs2(x);
            vchk("abs2-real-value", 8, sq, (ld)x * x, (ld)x * x, [&] { return W("abs2(real)", {x}); });
            corrS("rabs2 " + hx(x), hx(sq));
            if (dom_exp(x)) {
                const double y = dsplib::exp(x);
                ck_exp("exp", x, y); corrS("exp " + hx(x), hx(y)); ex.push_back(x);
            } else out.stat("skipped_exp_overflow");
            if (x > 0) {
                const double l = dsplib::log(x), l2 = dsplib::log2(x), l10 = dsplib::log10(x);
                ck_log("log", 0, x, l); ck_log("log2", 2, x, l2); ck_log("log10", 10, x, l10);
                corrS("log " + hx(x), hx(l)); corrS("log2 " + hx(x), hx(l2)); corrS("log10 " + hx(x), hx(l10));
                const double pd = dsplib::pow2db(x), md = dsplib::mag2db(x);
                ck_pow2db("pow2db", 10, x, pd); ck_pow2db("mag2db", 20, x, md);
                corrS("pow2db " + hx(x), hx(pd)); corrS("mag2db " + hx(x), hx(md));
                vchk("roundtrip-db2pow-pow2db", 8 + 0.75 * std::fabs(pd), dsplib::db2pow(pd), x, x, [&] { return W("db2pow(pow2db)", {x}); });
                vchk("roundtrip-db2mag-mag2db", 8 + 0.4 * std::fabs(md), dsplib::db2mag(md), x, x, [&] { return W("db2mag(mag2db)", {x}); });
                pos.push_back(x);
            }
            if (dom_db2(10, x)) {
                const double p = dsplib::db2pow(x), m = dsplib::db2mag(x);
                ck_db2pow("db2pow", 10, x, p); ck_db2pow("db2mag", 20, x, m);
                corrS("db2pow " + hx(x), hx(p)); corrS("db2mag " + hx(x), hx(m));
                const ld sc = std::max((ld)1, fabsl((ld)x));
                vchk("roundtrip-pow2db-db2pow", 8, dsplib::pow2db(p), x, sc, [&] { return W("pow2db(db2pow)", {x}); });
                vchk("roundtrip-mag2db-db2mag", 8, dsplib::mag2db(m), x, sc, [&] { return W("mag2db(db2mag)", {x}); });
                dbv.push_back(x);
            }
            vh::clear_current();
        }
        // array overloads (separate loops in math.cpp)
        const arr_real X = AR(rp), P = AR(pos), E = AR(ex), D = AR(dbv);
        vh::set_current("C17:crash:unary-real-array", "{}");
        { auto y = dsplib::abs(X); if (shape("abs[]", y, X.size())) for (int i = 0; i < X.size(); ++i) ck_abs("abs[]", X[i], y[i]); corr_chunks("v.abs", "", X, y, CH); }
        { auto y = dsplib::round(X); if (shape("round[]", y, X.size())) for (int i = 0; i < X.size(); ++i) ck_round("round[]", X[i], y[i]); corr_chunks("v.round", "", X, y, CH); }
        { auto y = dsplib::expj(X); if (shape("expj[]", y, X.size())) for (int i = 0; i < X.size(); ++i) ck_expj("expj[]", X[i], y[i]); corr_chunks("v.expj", "", X, y, CH); }
        { auto y = dsplib::tanh(X); if (shape("tanh[]", y, X.size())) for (int i = 0; i < X.size(); ++i) ck_tanh("tanh[]", X[i], y[i]); corr_chunks("v.tanh", "", X, y, CH); }
        { auto y = dsplib::deg2rad(X); if (shape("deg2rad[]", y, X.size())) for (int i = 0; i < X.size(); ++i) ck_deg2rad("deg2rad[]", X[i], y[i]); corr_chunks("v.deg2rad", "", X, y, CH); }
        { auto y = dsplib::rad2deg(X); if (shape("rad2deg[]", y, X.size())) for (int i = 0; i < X.size(); ++i) ck_rad2deg("rad2deg[]", X[i], y[i]); corr_chunks("v.rad2deg", "", X, y, CH); }
        { auto y = dsplib::abs2(X); if (shape("abs2(real)[]", y, X.size())) for (int i = 0; i < X.size(); ++i) vchk("abs2-real[]-value", 8, y[i], (ld)X[i] * X[i], (ld)X[i] * X[i], [&] { return W("abs2(real)[]", {X[i]}); }); corr_chunks("v.rabs2", "", X, y, CH); }
        { auto y = dsplib::exp(E); if (shape("exp[]", y, E.size())) for (int i = 0; i < E.size(); ++i) ck_exp("exp[]", E[i], y[i]); corr_chunks("v.exp", "", E, y, CH); }
        { auto y = dsplib::log(P); if (shape("log[]", y, P.size())) for (int i = 0; i < P.size(); ++i) ck_log("log[]", 0, P[i], y[i]); corr_chunks("v.log", "", P, y, CH); }
        { auto y = dsplib::log2(P); if (shape("log2[]", y, P.size())) for (int i = 0; i < P.size(); ++i) ck_log("log2[]", 2, P[i], y[i]); corr_chunks("v.log2", "", P, y, CH); }
        { auto y = dsplib::log10(P); if (shape("log10[]", y, P.size())) for (int i = 0; i < P.size(); ++i) ck_log("log10[]", 10, P[i], y[i]); corr_chunks("v.log10", "", P, y, CH); }
        { auto y = dsplib::pow2db(P); if (shape("pow2db[]", y, P.size())) for (int i = 0; i < P.size(); ++i) ck_pow2db("pow2db[]", 10, P[i], y[i]); corr_chunks("v.pow2db", "", P, y, CH); }
        { auto y = dsplib::mag2db(P); if (shape("mag2db[]", y, P.size())) for (int i = 0; i < P.size(); ++i) ck_pow2db("mag2db[]", 20, P[i], y[i]); corr_chunks("v.mag2db", "", P, y, CH); }
        { auto y = dsplib::db2pow(D); if (shape("db2pow[]", y, D.size())) for (int i = 0; i < D.size(); ++i) ck_db2pow("db2pow[]", 10, D[i], y[i]); corr_chunks("v.db2pow", "", D, y, CH); }
        { auto y = dsplib::db2mag(D); if (shape("db2mag[]", y, D.size())) for (int i = 0; i < D.size(); ++i) ck_db2pow("db2mag[]", 20, D[i], y[i]); corr_chunks("v.db2mag", "", D, y, CH); }
        vh::clear_current();
        out.stat("real_pool", (long long)rp.size());
    }

    // ---- complex-argument functions
    {
        std::vector<cmplx_t> ce, ct;
        for (cmplx_t z : cp) {
            vh::set_current("C17:crash:unary-cmplx", W("unary-cmplx", {z.re, z.im}));
            const double a = dsplib::abs(z), a2 = dsplib::abs2(z), g = dsplib::angle(z);
            ck_cabs("abs(cmplx)", z, a); ck_abs2("abs2", z, a2); ck_angle("angle", z, g);
            corrS("cabs " + hc(z), hx(a)); corrS("abs2 " + hc(z), hx(a2)); corrS("angle " + hc(z), hx(g));
            const cmplx_t q = dsplib::round(z);
            ck_round("round(cmplx)", z.re, q.re); ck_round("round(cmplx)", z.im, q.im);
            corrS("cround " + hc(z), hc(q));
            const cmplx_t cj = dsplib::conj(z);
            xchk("conj-value", same(cj.re, z.re) && same(cj.im, -z.im), [&] { return W("conj", {z.re, z.im}); });
            xchk("real-value", same(dsplib::real(z), z.re) && same(dsplib::imag(z), z.im), [&] { return W("real/imag", {z.re, z.im}); });
            corrS("conj " + hc(z), hc(cj));
            if (dom_cexp(z)) {
                const cmplx_t e = dsplib::exp(z);
                ck_cexp("exp(cmplx)", z, e); corrS("cexp " + hc(z), hc(e)); ce.push_back(z);
            }
            if (dom_ctanh(z)) {
                const cmplx_t t = dsplib::tanh(arr_cmplx{z})[0];
                ck_ctanh("tanh(cmplx)", z, t); corrS("ctanh " + hc(z), hc(t)); ct.push_back(z);
            } else out.stat("skipped_ctanh_domain");
            if (z.re == 0 && z.im == 0) out.stat("cmplx_zero_points");
            else if (z.re == 0 || z.im == 0) out.stat("cmplx_axis_points");
            if (std::signbit(z.re) && z.re == 0) out.stat("cmplx_negzero_re");
            if (std::signbit(z.im) && z.im == 0) out.stat("cmplx_negzero_im");
            vh::clear_current();
        }
        const arr_cmplx Z = AC(cp), ZE = AC(ce), ZT = AC(ct);
        vh::set_current("C17:crash:unary-cmplx-array", "{}");
        { auto y = dsplib::abs(Z); if (shape("abs(cmplx)[]", y, Z.size())) for (int i = 0; i < Z.size(); ++i) ck_cabs("abs(cmplx)[]", Z[i], y[i]); corr_chunks("v.cabs", "", Z, y, CH); }
        { auto y = dsplib::abs2(Z); if (shape("abs2[]", y, Z.size())) for (int i = 0; i < Z.size(); ++i) ck_abs2("abs2[]", Z[i], y[i]); corr_chunks("v.abs2", "", Z, y, CH); }
        { auto y = dsplib::angle(Z); if (shape("angle[]", y, Z.size())) for (int i = 0; i < Z.size(); ++i) ck_angle("angle[]", Z[i], y[i]); corr_chunks("v.angle", "", Z, y, CH); }
        { auto y = dsplib::round(Z); if (shape("round(cmplx)[]", y, Z.size())) for (int i = 0; i < Z.size(); ++i) { ck_round("round(cmplx)[]", Z[i].re, y[i].re); ck_round("round(cmplx)[]", Z[i].im, y[i].im); } corr_chunks("v.cround", "", Z, y, CH); }
        { auto y = dsplib::conj(Z); if (shape("conj[]", y, Z.size())) for (int i = 0; i < Z.size(); ++i) xchk("conj[]-value", same(y[i].re, Z[i].re) && same(y[i].im, -Z[i].im), [&] { return W("conj[]", {Z[i].re, Z[i].im}); }); corr_chunks("v.conj", "", Z, y, CH); }
        {
            auto re = dsplib::real(Z), im = dsplib::imag(Z);
            if (shape("real[]", re, Z.size()) && shape("imag[]", im, Z.size())) {
                for (int i = 0; i < Z.size(); ++i) xchk("real[]-value", same(re[i], Z[i].re) && same(im[i], Z[i].im), [&] { return W("real/imag[]", {Z[i].re, Z[i].im}, {i}); });
                auto back = dsplib::complex(re, im);
                bool ok = back.size() == Z.size();
                for (int i = 0; ok && i < Z.size(); ++i) ok = same(back[i].re, Z[i].re) && same(back[i].im, Z[i].im);
                xchk("roundtrip-complex-real-imag", ok, [&] { return std::string("{\"fn\":\"complex(real(z),imag(z))\",\"n\":") + I(Z.size()) + "}"; });
                auto c1 = dsplib::complex(re);
                ok = c1.size() == Z.size();
                for (int i = 0; ok && i < Z.size(); ++i) ok = same(c1[i].re, Z[i].re) && c1[i].im == 0;
                xchk("complex1-value", ok, [&] { return std::string("{\"fn\":\"complex(re)\"}"); });
                corr_chunks("v.real", "", Z, re, CH); corr_chunks("v.imag", "", Z, im, CH);
                for (int s = 0, c = 0; s + 8 <= Z.size() && c < CH; s += 8, ++c) {
                    arr_real a(re.slice(s, s + 8)), b(im.slice(s, s + 8));
                    out.corr("v.complex " + vh::hxs(a) + " " + vh::hxs(b), vh::hxs(dsplib::complex(a, b)));
                }
            }
            {   // complex(re, im) on independent re / im arrays, element by element
                const int m = std::min<int>(Z.size(), 512);
                arr_real a(m), b(m);
                for (int i = 0; i < m; ++i) { a[i] = Z[i].re; b[i] = Z[Z.size() - 1 - i].im; }
                const arr_cmplx c = dsplib::complex(a, b);
                if (shape("complex(re,im)", c, m))
                    for (int i = 0; i < m; ++i) xchk("complex-value", same(c[i].re, a[i]) && same(c[i].im, b[i]), [&] { return W("complex(re,im)", {a[i], b[i], c[i].re, c[i].im}, {i}); });
            }
            // size mismatch is an exception
            bool thrown = false;
            try { (void)dsplib::complex(arr_real(3), arr_real(4)); } catch (const std::exception&) { thrown = true; }
            xchk("complex-size-mismatch-throws", thrown, [] { return std::string("{\"fn\":\"complex\",\"sizes\":[3,4]}"); });
        }
        { auto y = dsplib::exp(ZE); if (shape("exp(cmplx)[]", y, ZE.size())) for (int i = 0; i < ZE.size(); ++i) ck_cexp("exp(cmplx)[]", ZE[i], y[i]); corr_chunks("v.cexp", "", ZE, y, CH); }
        { auto y = dsplib::tanh(ZT); if (shape("tanh(cmplx)[]", y, ZT.size())) for (int i = 0; i < ZT.size(); ++i) ck_ctanh("tanh(cmplx)[]", ZT[i], y[i]); }
        vh::clear_current();
        out.stat("cmplx_pool", (long long)cp.size());
    }

    // ---- every power overload
    {
        std::vector<double> bases(std::begin(SPR), std::end(SPR));
        const int NB = g_thorough ? 1200 : 100;
        for (int i = 0; i < NB; ++i) bases.push_back(rsg(r, -100, 100));
        for (int i = 0; i < NB; ++i) bases.push_back(rsg(r, -2, 2));
        std::vector<cmplx_t> cb;
        for (double a : SPC) for (double b : SPC) cb.push_back(cmplx_t{a, b});
        for (int i = 0; i < NB; ++i) cb.push_back(cmplx_t{rsg(r), rsg(r)});
        for (int i = 0; i < NB; ++i) cb.push_back(cmplx_t{rsg(r, -2, 2), rsg(r, -2, 2)});
        for (int i = 0; i < NB / 4; ++i) { const double m = rsg(r, -30, 30); cb.push_back(cmplx_t{m, 0.0}); cb.push_back(cmplx_t{m, -0.0}); cb.push_back(cmplx_t{0.0, m}); cb.push_back(cmplx_t{-0.0, m}); }
        long long nshort = 0, ngen = 0;
        for (double x : bases) {
            vh::set_current("C17:crash:power-real", W("power", {x}));
            // power(real, real): scalar, scalar^vec, vec^scalar, vec^vec
            std::vector<double> ns, xs;
            for (double n : ep) if (dom_rpow(x, n)) {
                const double y = dsplib::power(x, n);
                ck_rpow("power(real,real)", x, n, y); corrS("rpow " + hx(x) + " " + hx(n), hx(y));
                ns.push_back(n); xs.push_back(x);
            }
            if (!ns.empty()) {
                const arr_real N = AR(ns), Xs = AR(xs);
                auto y1 = dsplib::power(x, N), y2 = dsplib::power(Xs, N);
                if (shape("power(real,vec)", y1, N.size()) && shape("power(vec,vec)", y2, N.size()))
                    for (int i = 0; i < N.size(); ++i) { ck_rpow("power(real,vec)", x, N[i], y1[i]); ck_rpow("power(vec,vec)", x, N[i], y2[i]); }
                if (ns.size() >= 4) { arr_real n4(N.slice(0, 4)); out.corr("v.rpow_sv " + hx(x) + " " + vh::hxs(n4), vh::hxs(dsplib::power(x, n4))); }
            }
            // power(real, int) with the shortcuts n = 2, -1, 0, 1
            for (int n = -8; n <= 8; ++n) if ((x != 0 || n >= 0) && dom_rpow(x, n)) {
                const double y = dsplib::power(x, n);
                ck_rpow("power(real,int)", x, n, y); corrS("rpowi " + hx(x) + " " + I(n), hx(y));
                (n >= -1 && n <= 2) ? ++nshort : ++ngen;
            }
            vh::clear_current();
        }
        // vec^scalar (real), vec^int (real): bases with a common exponent
        for (double n : ep) {
            std::vector<double> xs;
            for (double x : bases) if (dom_rpow(x, n) && (x != 0 || n >= 0)) xs.push_back(x);
            const arr_real Xs = AR(xs);
            auto y = dsplib::power(Xs, n);
            if (shape("power(vec,real)", y, Xs.size())) for (int i = 0; i < Xs.size(); ++i) ck_rpow("power(vec,real)", Xs[i], n, y[i]);
            if (xs.size() >= 6) { arr_real a(Xs.slice(0, 6)); out.corr("v.rpow_vs " + hx(n) + " " + vh::hxs(a), vh::hxs(dsplib::power(a, n))); }
            if (n == std::floor(n)) {
                auto yi = dsplib::power(Xs, int(n));
                if (shape("power(vec,int)", yi, Xs.size())) for (int i = 0; i < Xs.size(); ++i) ck_rpow("power(vec,int)", Xs[i], n, yi[i]);
                if (xs.size() >= 6) { arr_real a(Xs.slice(0, 6)); out.corr("v.rpowi " + I(int(n)) + " " + vh::hxs(a), vh::hxs(dsplib::power(a, int(n)))); }
            }
        }
        for (cmplx_t x : cb) {
            vh::set_current("C17:crash:power-cmplx", W("power", {x.re, x.im}));
            std::vector<double> ns; std::vector<cmplx_t> xs;
            for (double n : ep) if (dom_cpow(x, n)) {
                const cmplx_t y = dsplib::power(x, n);
                ck_cpow("power(cmplx,real)", x, n, y); corrS("cpow " + hc(x) + " " + hx(n), hc(y));
                ns.push_back(n); xs.push_back(x);
            }
            if (!ns.empty()) {
                const arr_real N = AR(ns); const arr_cmplx Xs = AC(xs);
                auto y1 = dsplib::power(x, N); auto y2 = dsplib::power(Xs, N);
                if (shape("power(cmplx,vec)", y1, N.size()) && shape("power(cvec,vec)", y2, N.size()))
                    for (int i = 0; i < N.size(); ++i) { ck_cpow("power(cmplx,vec)", x, N[i], y1[i]); ck_cpow("power(cvec,vec)", x, N[i], y2[i]); }
            }
            for (int n = -8; n <= 8; ++n) if (((x.re != 0 || x.im != 0) || n >= 0) && dom_cpow(x, n)) {
                if (n == 2 && !inrange((ld)x.re * x.re + (ld)x.im * x.im)) continue;
                if (n == -1 && !inrange(1 / ((ld)x.re * x.re + (ld)x.im * x.im))) continue;
                const cmplx_t y = dsplib::power(x, n);
                ck_cpowi("power(cmplx,int)", x, n, y); corrS("cpowi " + hc(x) + " " + I(n), hc(y));
                (n >= -1 && n <= 2) ? ++nshort : ++ngen;
            }
            vh::clear_current();
        }
        for (double n : ep) {
            std::vector<cmplx_t> xs;
            for (cmplx_t x : cb) if (dom_cpow(x, n) && ((x.re != 0 || x.im != 0) || n >= 0) && inrange((ld)x.re * x.re + (ld)x.im * x.im) && (x.re != 0 || x.im != 0 ? inrange(1 / ((ld)x.re * x.re + (ld)x.im * x.im)) : true)) xs.push_back(x);
            const arr_cmplx Xs = AC(xs);
            auto y = dsplib::power(Xs, n);
            if (shape("power(cvec,real)", y, Xs.size())) for (int i = 0; i < Xs.size(); ++i) ck_cpow("power(cvec,real)", Xs[i], n, y[i]);
            if (n == std::floor(n)) {
                auto yi = dsplib::power(Xs, int(n));
                if (shape("power(cvec,int)", yi, Xs.size())) for (int i = 0; i < Xs.size(); ++i) ck_cpowi("power(cvec,int)", Xs[i], int(n), yi[i]);
                if (xs.size() >= 150) { arr_cmplx a(Xs.slice(144, 150)); out.corr("v.cpowi " + I(int(n)) + " " + vh::hxs(a), vh::hxs(dsplib::power(a, int(n)))); }
            }
        }
        out.stat("power_int_shortcut_calls", nshort);
        out.stat("power_int_general_calls", ngen);
    }
    // two-argument min/max templates
    for (int i = 0; i < 200; ++i) {
        const double a = SPR[r.range(0, 30)], b = r.coin() ? a : rsg(r, -3, 3);
        xchk("max2-value", samev(dsplib::max(a, b), a > b ? a : b) && samev(dsplib::min(a, b), a < b ? a : b), [&] { return W("max/min(a,b)", {a, b}); });
        xchk("max2-int-value", dsplib::max(3, i % 7) == std::max(3, i % 7) && dsplib::min(3, i % 7) == std::min(3, i % 7), [&] { return W("max/min(int,int)", {3.0, double(i % 7)}); });
    }
}

// =============================================================================== reductions
template<class T> struct Tr;
template<> struct Tr<real_t> { static ld mag(real_t v) { return fabsl((ld)v); } static cld c(real_t v) { return cld((ld)v, 0); } static const char* nm() { return "real"; } static const char* px() { return ""; } };
template<> struct Tr<cmplx_t> { static ld mag(cmplx_t v) { return cabsl_(v); } static cld c(cmplx_t v) { return C(v); } static const char* nm() { return "cmplx"; } static const char* px() { return "c"; } };
static cmplx_t toc(real_t v) { return cmplx_t{v, 0}; }
static cmplx_t toc(cmplx_t v) { return v; }
static std::string hv(real_t v) { return hx(v); }
static std::string hv(cmplx_t v) { return hc(v); }
static ld key2(real_t v) { return (ld)v; }
static double dkey(real_t v) { return v; }
static double dkey(cmplx_t v) { return v.re * v.re + v.im * v.im; }

template<class T, class L>
static void tchk(const std::string& key, double budget, T got, cld ref, ld scale, L&& lazy) {
    const cmplx_t g = toc(got);
    vchk(key, budget, g.re, ref.real(), scale, lazy);
    if (is_complex_v<T>) vchk(key, budget, g.im, ref.imag(), scale, lazy);
}

template<class T>
static void reductions(const base_array<T>& x, const base_array<T>& y, int cls, bool corr, bool normok) {
    const int n = x.size();
    const std::string P = Tr<T>::px(), ty = std::string("(") + Tr<T>::nm() + ")";
    const double B = 8 + 0.5 * n;   // a-priori bound of recursive summation, see the table
    const std::string hxv = vh::hxs(x);
    vh::set_current("C17:crash:reduction" + ty, WA("reduction", x, {}, cls));
    // sum, mean
    cld s = 0; ld sa = 0;
    for (int i = 0; i < n; ++i) { s += Tr<T>::c(x[i]); sa += Tr<T>::mag(x[i]); }
    { const T g = dsplib::sum(x); tchk("sum" + ty + "-value", B, g, s, sa, [&] { return WA("sum", x, {}, cls); }); if (corr) out.corr(P + "sum " + hxv, hv(g)); }
    { const T g = dsplib::mean(x); tchk("mean" + ty + "-value", B, g, s / (ld)n, sa / n, [&] { return WA("mean", x, {}, cls); }); if (corr) out.corr(P + "mean " + hxv, hv(g)); }
    // cumsum, both directions
    for (int rev = 0; rev < 2; ++rev) {
        const base_array<T> g = dsplib::cumsum(x, rev ? Direction::Reverse : Direction::Forward);
        if (shape(("cumsum" + ty).c_str(), g, n)) {
            cld a = 0; ld aa = 0;
            for (int k = 0; k < n; ++k) {
                const int i = rev ? n - 1 - k : k;
                a += Tr<T>::c(x[i]); aa += Tr<T>::mag(x[i]);
                tchk(std::string("cumsum") + (rev ? "-reverse" : "") + ty + "-value", 8 + 0.5 * (k + 1), g[i], a, aa, [&] { return WA("cumsum", x, {rev}, cls, i); });
            }
        }
        if (corr) out.corr(P + "cumsum " + I(rev) + " " + hxv, vh::hxs(g));
    }
    // dot (bilinear: sum x_i*y_i)
    {
        cld d = 0; ld da = 0;
        for (int i = 0; i < n; ++i) { d += Tr<T>::c(x[i]) * Tr<T>::c(y[i]); da += Tr<T>::mag(x[i]) * Tr<T>::mag(y[i]); }
        const T g = dsplib::dot(x, y);
        tchk("dot" + ty + "-value", B + 2, g, d, da, [&] { return WA("dot", x, {}, cls); });
        if (corr) out.corr(P + "dot " + hxv + " " + vh::hxs(y), hv(g));
    }
    // rms (n), stddev (n-1)
    {
        ld q = 0;
        for (int i = 0; i < n; ++i) q += Tr<T>::mag(x[i]) * Tr<T>::mag(x[i]);
        const ld ref = sqrtl(q / n);
        const double g = dsplib::rms(x);
        vchk("rms" + ty + "-value", B, g, ref, ref, [&] { return WA("rms", x, {}, cls); });
        if (corr) out.corr(P + "rms " + hxv, hx(g));
        if (n >= 2) {
            const cld m = s / (ld)n;
            ld v = 0;
            for (int i = 0; i < n; ++i) v += std::norm(Tr<T>::c(x[i]) - m);
            const double gs = dsplib::stddev(x);
            vchk("stddev" + ty + "-value", 8 + n, gs, sqrtl(v / (n - 1)), sqrtl(q / (n - 1)), [&] { return WA("stddev", x, {}, cls); });
            if (corr) out.corr(P + "stddev " + hxv, hx(gs));
        } else {
            out.stat("stddev_n1_not_in_domain");
            if (corr) out.corr(P + "stddev " + hxv, hx(dsplib::stddev(x)));
        }
    }
    // norm p = 1..8 (default p = 2)
    if (normok) {
        for (int p = 1; p <= 8; ++p) {
            ld q = 0;
            for (int i = 0; i < n; ++i) q += powl(Tr<T>::mag(x[i]), (ld)p);
            const ld ref = powl(q, 1.0L / p);
            const double g = dsplib::norm(x, p);
            const double bud = B + p + (p >= 3 && ref > 0 ? (double)fabsl(logl(ref)) : 0.0);
            vchk("norm" + ty + "-value", bud, g, ref, ref, [&] { return WA("norm", x, {p}, cls); });
            if (corr) out.corr(P + "norm " + I(p) + " " + hxv, hx(g));
            if (p == 2) xchk("norm-default-p" + ty, same(dsplib::norm(x), g), [&] { return WA("norm()", x, {}, cls); });
        }
    }
    // min max argmin argmax peak2peak
    {
        const T mx = dsplib::max(x), mn = dsplib::min(x), pp = dsplib::peak2peak(x);
        const int ax = dsplib::argmax(x), an = dsplib::argmin(x);
        if (corr) {
            out.corr(P + "max " + hxv, hv(mx)); out.corr(P + "min " + hxv, hv(mn)); out.corr(P + "peak2peak " + hxv, hv(pp));
            out.corr(P + "argmax " + hxv, I(ax)); out.corr(P + "argmin " + hxv, I(an));
        }
        double kmax = dkey(x[0]), kmin = kmax;
        int fmax = 0, fmin = 0;
        for (int i = 1; i < n; ++i) { const double k = dkey(x[i]); if (k > kmax) { kmax = k; fmax = i; } if (k < kmin) { kmin = k; fmin = i; } }
        const bool idx_ok = ax >= 0 && ax < n && an >= 0 && an < n;
        xchk("argmax" + ty + "-range", idx_ok, [&] { return WA("argmax/argmin", x, {ax, an}, cls); });
        if (idx_ok) {
            if (!is_complex_v<T>) {
                // real: exact values, FIRST occurrence
                xchk("max" + ty + "-value", samev(mx, x[fmax]), [&] { return WA("max", x, {}, cls); });
                xchk("min" + ty + "-value", samev(mn, x[fmin]), [&] { return WA("min", x, {}, cls); });
                xchk("argmax" + ty + "-value", ax == fmax, [&] { return WA("argmax", x, {ax, fmax}, cls); });
                xchk("argmin" + ty + "-value", an == fmin, [&] { return WA("argmin", x, {an, fmin}, cls); });
                xchk("peak2peak" + ty + "-value", samev(pp, x[fmax] - x[fmin]), [&] { return WA("peak2peak", x, {}, cls); });
            } else {
                // complex: ordered by magnitude; the chosen element must be an array element whose |.|^2
                // is within 4 eps of the extreme (rounding of re^2+im^2 may reorder near-ties)
                std::vector<int> A, Bm;
                for (int i = 0; i < n; ++i) {
                    const ld k = Tr<T>::mag(x[i]) * Tr<T>::mag(x[i]);
                    if (k >= (ld)kmax * (1 - 4 * EPS)) A.push_back(i);
                    if (k <= (ld)kmin * (1 + 4 * EPS)) Bm.push_back(i);
                }
                auto in = [&](const std::vector<int>& S, T v) { for (int i : S) if (samev(x[i], v)) return true; return false; };
                auto has = [&](const std::vector<int>& S, int i) { return std::find(S.begin(), S.end(), i) != S.end(); };
                xchk("max" + ty + "-value", in(A, mx), [&] { return WA("max", x, {}, cls); });
                xchk("min" + ty + "-value", in(Bm, mn), [&] { return WA("min", x, {}, cls); });
                xchk("argmax" + ty + "-value", has(A, ax), [&] { return WA("argmax", x, {ax, fmax}, cls); });
                xchk("argmin" + ty + "-value", has(Bm, an), [&] { return WA("argmin", x, {an, fmin}, cls); });
                bool ok = false;
                for (int i : A) for (int j : Bm) if (samev(pp, x[i] - x[j])) ok = true;
                xchk("peak2peak" + ty + "-value", ok, [&] { return WA("peak2peak", x, {}, cls); });
                if (A.size() > 1 || Bm.size() > 1) out.stat("cmplx_minmax_tie_arrays");
            }
        }
    }
    vh::clear_current();
    out.stat(std::string("reduction_arrays_") + Tr<T>::nm());
    out.stat("reduction_class_" + I(cls));
}

static void reduction_sweep(vh::Rng& r) {
    std::vector<int> lens;
    if (g_thorough) for (int n = 1; n <= 1000; ++n) lens.push_back(n);
    else {
        for (int n = 1; n <= 48; ++n) lens.push_back(n);
        for (int i = 0; i < 40; ++i) lens.push_back(r.range(49, 1000));
        lens.push_back(999); lens.push_back(1000);
    }
    int longc = 0;
    for (int rep = 0; rep < (g_thorough ? 3 : 1); ++rep)
    for (int n : lens)
        for (int cls = 0; cls < NCLS; ++cls) {
            const bool corr = (rep == 0 && n <= 20) || (n >= 500 && longc < 2 * NCLS && ++longc);
            // norm raises |x| to the 8th power: magnitudes limited to 1e+-30 for the arrays that go through norm
            const bool normok = ((n + rep) % 2 == 0) || cls >= 3;
            const double lim = normok ? 30 : 100;
            reductions<real_t>(gen_real(r, n, cls, lim), gen_real(r, n, cls, lim), cls, corr, normok);
            reductions<cmplx_t>(gen_cmplx(r, n, cls, lim), gen_cmplx(r, n, cls, lim), cls, corr, normok);
        }
    // all-zero arrays (exact results required: the scale is 0) and signed zeros
    for (int n : {1, 2, 3, 7, 64}) {
        arr_real z(n); arr_cmplx zc(n);
        reductions<real_t>(z, z, 3, true, true);
        reductions<cmplx_t>(zc, zc, 3, true, true);
        for (int i = 0; i < n; i += 2) { z[i] = -0.0; zc[i] = cmplx_t{-0.0, i % 4 ? 0.0 : -0.0}; }
        reductions<real_t>(z, z, 3, true, true);
        reductions<cmplx_t>(zc, zc, 3, true, true);
    }
    // dot size mismatch
    bool thrown = false;
    try { (void)dsplib::dot(arr_real(3), arr_real(4)); } catch (const std::exception&) { thrown = true; }
    xchk("dot-size-mismatch-throws", thrown, [] { return std::string("{\"fn\":\"dot\",\"sizes\":[3,4]}"); });
    out.corr("dot 3 x0000000000000000 x0000000000000000 x0000000000000000 4 x0000000000000000 x0000000000000000 x0000000000000000 x0000000000000000", thrown ? "ERR" : "noexcept");
}

// =============================================================================== shape / index functions
template<class T> static T mk(int i);
template<> real_t mk<real_t>(int i) { return 1.0 + i; }
template<> cmplx_t mk<cmplx_t>(int i) { return cmplx_t{1.0 + i, -0.5 - i}; }
template<class T> static base_array<T> iota(int n) { base_array<T> x(n); for (int i = 0; i < n; ++i) x[i] = mk<T>(i); return x; }
template<class T> static bool eqarr(const base_array<T>& a, const std::vector<T>& b) {
    if (a.size() != int(b.size())) return false;
    for (int i = 0; i < a.size(); ++i) if (!samev(a[i], b[i])) return false;
    return true;
}
template<class T, class F> static std::string tryc(F&& f) {   // hxs of the result or ERR
    try { return vh::hxs(f()); } catch (const std::exception&) { return "ERR"; }
}

template<class T>
static void shape_T(vh::Rng& r) {
    const std::string P = Tr<T>::px(), ty = std::string("(") + Tr<T>::nm() + ")";
    const T zero = T(0);
    auto arr = [&](int n, bool rnd) { if (!rnd) return iota<T>(n); base_array<T> x(n); for (int i = 0; i < n; ++i) x[i] = mk<T>(r.range(-50, 50)); return x; };
    // ---- upsample / downsample: all factors and phases for n <= 12 (+ out-of-range arguments -> exception)
    for (int n = 1; n <= 12; ++n) {
        const base_array<T> x = iota<T>(n);
        for (int f = -1; f <= n + 2; ++f)
            for (int ph = -1; ph <= std::max(f, 1); ++ph) {
                const auto jsn = [&] { return WA("upsample/downsample", x, {f, ph}); };
                vh::set_current("C17:crash:updown" + ty, jsn());
                const bool valid = f > 0 && ph >= 0 && ph < f;
                std::string su, sd;
                bool tu = false, td = false;
                base_array<T> u, d;
                try { u = dsplib::upsample(x, f, ph); } catch (const std::exception&) { tu = true; }
                try { d = dsplib::downsample(x, f, ph); } catch (const std::exception&) { td = true; }
                out.corr(P + "upsample " + I(f) + " " + I(ph) + " " + vh::hxs(x), tu ? "ERR" : vh::hxs(u));
                out.corr(P + "downsample " + I(f) + " " + I(ph) + " " + vh::hxs(x), td ? "ERR" : vh::hxs(d));
                if (!valid) { xchk("updown-invalid-throws" + ty, tu && td, jsn); vh::clear_current(); continue; }
                if (!xchk("updown-valid-nothrow" + ty, !tu && !td, jsn)) { vh::clear_current(); continue; }
                std::vector<T> eu(size_t(n) * f, zero), ed;
                for (int i = 0; i < n; ++i) eu[size_t(i) * f + ph] = x[i];
                for (int k = ph; k < n; k += f) ed.push_back(x[k]);
                xchk("upsample-value" + ty, eqarr(u, eu), jsn);
                if (ph < n) xchk("downsample-value" + ty, eqarr(d, ed), jsn);
                else { out.stat("downsample_phase_ge_length_outside_quantifier"); if (d.size() != 0) out.stat("downsample_phase_ge_length_nonempty_result"); }
                // inverse pair: downsample(upsample(x, f, ph), f, ph) = x
                base_array<T> back = dsplib::downsample(u, f, ph);
                xchk("roundtrip-downsample-upsample" + ty, eqarr(back, x.to_vec()), jsn);
                out.stat("updown_exhaustive_cases");
                vh::clear_current();
            }
    }
    // random long arrays
    for (int it = 0; it < (g_thorough ? 400 : 40); ++it) {
        const int n = r.range(13, 1000), f = r.range(1, std::min(n - 1, it % 2 ? 40 : n - 1)), ph = r.range(0, f - 1);
        const base_array<T> x = arr(n, true);
        const auto jsn = [&] { return WA("upsample/downsample", x, {f, ph}); };
        vh::set_current("C17:crash:updown-long" + ty, jsn());
        const base_array<T> u = dsplib::upsample(x, f, ph), d = dsplib::downsample(x, f, ph);
        std::vector<T> eu(size_t(n) * f, zero), ed;
        for (int i = 0; i < n; ++i) eu[size_t(i) * f + ph] = x[i];
        for (int k = ph; k < n; k += f) ed.push_back(x[k]);
        xchk("upsample-value" + ty, eqarr(u, eu), jsn);
        xchk("downsample-value" + ty, eqarr(d, ed), jsn);
        xchk("roundtrip-downsample-upsample" + ty, eqarr(dsplib::downsample(u, f, ph), x.to_vec()), jsn);
        if (it < 6) out.corr(P + "downsample " + I(f) + " " + I(ph) + " " + vh::hxs(x), vh::hxs(d));
        vh::clear_current();
    }
    // ---- repelem, flip, zeropad, delayseq
    std::vector<int> lens;
    for (int n = 0; n <= 16; ++n) lens.push_back(n);
    for (int i = 0; i < (g_thorough ? 60 : 8); ++i) lens.push_back(r.range(17, 1000));
    for (int n : lens) {
        const base_array<T> x = arr(n, n > 16);
        const bool corr = n <= 16 || n % 7 == 0;
        for (int k = 0; k <= (n <= 16 ? 5 : 3); ++k) {
            const auto jsn = [&] { return WA("repelem", x, {k}); };
            vh::set_current("C17:crash:repelem" + ty, jsn());
            const base_array<T> g = dsplib::repelem(x, k);
            std::vector<T> e;
            for (int i = 0; i < n; ++i) for (int j = 0; j < k; ++j) e.push_back(x[i]);
            xchk("repelem-value" + ty, eqarr(g, e), jsn);
            if (corr) out.corr(P + "repelem " + I(k) + " " + vh::hxs(x), vh::hxs(g));
            vh::clear_current();
        }
        {
            const auto jsn = [&] { return WA("flip", x); };
            const base_array<T> g = dsplib::flip(x);
            std::vector<T> e(x.to_vec());
            std::reverse(e.begin(), e.end());
            xchk("flip-value" + ty, eqarr(g, e), jsn);
            if (corr) out.corr(P + "flip " + vh::hxs(x), vh::hxs(g));
        }
        for (int m = std::max(0, n - 2); m <= n + (n <= 16 ? 5 : 300); m += (n <= 16 ? 1 : 151)) {
            const auto jsn = [&] { return WA("zeropad", x, {m}); };
            vh::set_current("C17:crash:zeropad" + ty, jsn());
            bool thrown = false;
            base_array<T> g;
            try { g = dsplib::zeropad(x, m); } catch (const std::exception&) { thrown = true; }
            if (m < n) xchk("zeropad-short-throws" + ty, thrown, jsn);
            else {
                std::vector<T> e(x.to_vec());
                e.resize(m, zero);
                xchk("zeropad-value" + ty, !thrown && eqarr(g, e), jsn);
            }
            if (corr) out.corr(P + "zeropad " + I(m) + " " + vh::hxs(x), thrown ? "ERR" : vh::hxs(g));
            vh::clear_current();
        }
    }
}

// delayseq: real arrays (the complex instantiation does not compile: zeros(N) is arr_real)
static void shape_delayseq(vh::Rng& r) {
    std::vector<int> lens;
    for (int n = 0; n <= 14; ++n) lens.push_back(n);
    for (int i = 0; i < (g_thorough ? 40 : 6); ++i) lens.push_back(r.range(15, 1000));
    for (int n : lens) {
        arr_real x(n);
        for (int i = 0; i < n; ++i) x[i] = n <= 14 ? 1.0 + i : double(r.range(-50, 50)) + 0.5;
        std::vector<int> ds;
        if (n <= 14) for (int d = -n - 2; d <= n + 2; ++d) ds.push_back(d);
        else ds = {0, 1, -1, n - 1, -(n - 1), n, -n, n + 5, r.range(-n, n), r.range(-n, n), r.range(-n, n)};
        for (int d : ds) {
            const auto jsn = [&] { return WA("delayseq", x, {d}); };
            vh::set_current("C17:crash:delayseq", jsn());
            arr_real g;
            bool thrown = false;
            try { g = dsplib::delayseq(x, d); } catch (const std::exception&) { thrown = true; }
            if (!xchk("delayseq-nothrow", !thrown, jsn)) { out.corr("delayseq " + I(d) + " " + vh::hxs(x), "ERR"); vh::clear_current(); continue; }
            std::vector<double> e(n, 0.0);
            for (int i = 0; i < n; ++i) { const long long j = (long long)i - d; if (j >= 0 && j < n) e[i] = x[int(j)]; }
            xchk("delayseq-value", eqarr(g, e), jsn);
            if (n <= 14 || d % 3 == 0) out.corr("delayseq " + I(d) + " " + vh::hxs(x), vh::hxs(g));
            vh::clear_current();
        }
    }
}

static void shape_arange_linspace(vh::Rng& r) {
    // ---- integer arange: every start/stop/step in [-12, 12]
    for (int a = -12; a <= 12; ++a)
        for (int b = -12; b <= 12; ++b)
            for (int s = -12; s <= 12; ++s) {
                const auto jsn = [&] { return W("arange(int)", {}, {a, b, s}); };
                vh::set_current("C17:crash:arange-int", jsn());
                bool thrown = false;
                arr_real g;
                try { g = dsplib::arange(a, b, s); } catch (const std::exception&) { thrown = true; }
                out.corr("arange " + I(a) + " " + I(b) + " " + I(s), thrown ? "ERR" : vh::hxs(g));
                if (s == 0) { xchk("arange-int-step0-throws", thrown, jsn); vh::clear_current(); continue; }
                std::vector<double> e;
                for (int k = 0; s > 0 ? (a + k * s < b) : (a + k * s > b); ++k) e.push_back(a + k * s);
                xchk("arange-int-value", !thrown && eqarr(g, e), jsn);
                out.stat(e.empty() ? "arange_int_empty" : "arange_int_nonempty");
                if (s == 1 && a == 0) {
                    bool t1 = false; arr_real g1;
                    try { g1 = dsplib::arange(b); } catch (const std::exception&) { t1 = true; }
                    xchk("arange-int1-value", !t1 && eqarr(g1, e), jsn);
                }
                if (s == 1) {
                    bool t2 = false; arr_real g2;
                    try { g2 = dsplib::arange(a, b); } catch (const std::exception&) { t2 = true; }
                    xchk("arange-int2-value", !t2 && eqarr(g2, e), jsn);
                }
                vh::clear_current();
            }
    // larger integer arguments (lengths up to 1000)
    for (int it = 0; it < (g_thorough ? 3000 : 300); ++it) {
        const int s = (r.coin() ? 1 : -1) * r.range(1, it % 3 ? 50 : 100000);
        const int cnt = r.range(0, 1000);
        const int a = r.range(-1000000, 1000000);
        const int sg = s > 0 ? 1 : -1;
        const int b = cnt > 0 ? a + cnt * s - sg * r.range(0, std::abs(s) - 1) : a - sg * r.range(0, 5);
        const auto jsn = [&] { return W("arange(int)", {}, {a, b, s}); };
        bool thrown = false; arr_real g;
        try { g = dsplib::arange(a, b, s); } catch (const std::exception&) { thrown = true; }
        std::vector<double> e;
        for (long long k = 0; s > 0 ? (a + k * s < b) : (a + k * s > b); ++k) e.push_back(double(a + k * s));
        xchk("arange-int-value", !thrown && eqarr(g, e), jsn);
        if (it % 10 == 0) out.corr("arange " + I(a) + " " + I(b) + " " + I(s), thrown ? "ERR" : vh::hxs(g));
    }
    // ---- fractional arange with integral count: dyadic steps (exact) and decimal steps
    const double dy[] = {0.5, 0.25, 0.125, 1.5, 2.0, 0.0625, 3.0, 1.0, 0.75, 1024.0, 9.5367431640625e-07};
    const double dc[] = {0.1, 0.2, 0.3, 0.7, 1e-3, 0.01, 1.1, 2.5e-7, 3.3, 1e10 / 3, 1e-100, 1e100 / 7, 6.02e23};
    for (int it = 0; it < (g_thorough ? 6000 : 900); ++it) {
        const bool dyadic = it % 2 == 0;
        double s = dyadic ? dy[r.range(0, 10)] : dc[r.range(0, 12)];
        if (r.coin()) s = -s;
        const int cnt = it < 60 ? it % 20 : r.range(0, 1000);
        const double a = (it % 5 == 0) ? 0.0 : double(r.range(-2000, 2000)) * std::fabs(s) * (dyadic ? 1.0 : 0.5);
        const double b = a + cnt * s;
        const auto jsn = [&] { return W("arange(frac)", {a, b, s}, {cnt}); };
        vh::set_current("C17:crash:arange-frac", jsn());
        // the count must be integral as a double quotient within rounding; otherwise the case is outside the quantifier
        const ld q = ((ld)b - (ld)a) / (ld)s;
        if (fabsl(q - cnt) > 1e-9L) { out.stat("arange_frac_skipped_nonintegral"); vh::clear_current(); continue; }
        bool thrown = false; arr_real g;
        try { g = dsplib::arange(a, b, s); } catch (const std::exception&) { thrown = true; }
        if (xchk("arange-frac-shape", !thrown && g.size() == cnt, jsn)) {
            const ld sc = std::max(fabsl((ld)a), fabsl((ld)b));
            for (int i = 0; i < cnt; ++i) vchk("arange-frac-value", 8, g[i], (ld)a + (ld)i * (ld)s, sc, jsn);
            // strictly before stop
            bool before = true;
            for (int i = 0; i < cnt; ++i) if (!(s > 0 ? g[i] < b : g[i] > b)) before = false;
            if (dyadic) xchk("arange-frac-before-stop", before, jsn);
        }
        if (it % 4 <= 1 && cnt <= 40) out.corr("farange " + hx(a) + " " + hx(b) + " " + hx(s), thrown ? "ERR" : vh::hxs(g));
        if (it % 25 == 0 && cnt > 0 && dyadic && std::fabs(s) >= 0.0625 && std::fabs(s) <= 4) {   // mixed int/double overloads of the template
            const int ia = r.range(-20, 20);
            arr_real g2 = dsplib::arange(ia, ia + cnt * s, s);
            bool ok = g2.size() == cnt;
            for (int i = 0; ok && i < cnt; ++i) ok = fabsl((ld)g2[i] - ((ld)ia + (ld)i * s)) <= 8 * EPS * std::max(fabsl((ld)ia), fabsl((ld)ia + (ld)cnt * s));
            xchk("arange-frac-mixed-value", ok, [&] { return W("arange(int,double,double)", {double(ia), ia + cnt * s, s}); });
        }
        vh::clear_current();
        out.stat(dyadic ? "arange_frac_dyadic" : "arange_frac_decimal");
    }
    {   // arange(real stop) = 0, 1, ..., stop-1
        for (int n = 0; n <= 20; ++n) {
            arr_real g = dsplib::arange(double(n));
            bool ok = g.size() == n;
            for (int i = 0; ok && i < n; ++i) ok = g[i] == i;
            xchk("arange-real1-value", ok, [&] { return W("arange(real)", {double(n)}); });
        }
    }
    // ---- linspace: n = 1..100
    for (int n = 0; n <= 100; ++n)
        for (int it = 0; it < (g_thorough ? 60 : 10); ++it) {
            double x1, x2;
            switch (it) {
            case 0: x1 = 0; x2 = 1; break;
            case 1: x1 = -1; x2 = 1; break;
            case 2: x1 = 1; x2 = -1; break;
            case 3: x1 = 5; x2 = 5; break;
            case 4: x1 = 0; x2 = double(n > 1 ? n - 1 : 1); break;
            case 5: x1 = -0.0; x2 = 0.0; break;
            default: x1 = rsg(r); x2 = it % 2 ? rsg(r) : x1 * (1 + r.sym()); break;
            }
            const auto jsn = [&] { return W("linspace", {x1, x2}, {n}); };
            vh::set_current("C17:crash:linspace", jsn());
            bool thrown = false; arr_real g;
            try { g = dsplib::linspace(x1, x2, size_t(n)); } catch (const std::exception&) { thrown = true; }
            if (it < 8 || it % 8 == 0) out.corr("linspace " + hx(x1) + " " + hx(x2) + " " + I(n), thrown ? "ERR" : vh::hxs(g));
            if (n == 0) { xchk("linspace-n0-throws", thrown, jsn); vh::clear_current(); continue; }
            if (xchk("linspace-shape", !thrown && g.size() == n, jsn)) {
                const ld sc = std::max(fabsl((ld)x1), fabsl((ld)x2));
                for (int i = 0; i < n; ++i) {
                    const ld ref = n == 1 ? (ld)x2 : (ld)x1 + (ld)i * (((ld)x2 - (ld)x1) / (ld)(n - 1));
                    vchk("linspace-value", 8, g[i], ref, sc, jsn);
                }
                // endpoints
                vchk("linspace-endpoint", 8, g[n - 1], x2, sc, jsn);
                if (n >= 2) xchk("linspace-first", samev(g[0], x1), jsn);
                if (n <= 2) xchk("linspace-last-exact", samev(g[n - 1], x2), jsn);
            }
            vh::clear_current();
            out.stat("linspace_cases");
        }
}

int main(int argc, char** argv) {
    vh::Args a(argc, argv);
    vh::install_guards();
    g_thorough = a.thorough;
    g_seed = a.seed;
    vh::Rng rng(a.seed);
    vh::watch(a.thorough ? 3000 : 600);
    // an exception escaping a call that must not throw is a failure of the case in flight; the other sections still run
    const std::pair<const char*, std::function<void()>> sections[] = {
        {"scalar", [&] { scalar_functions(rng); }},       {"reductions", [&] { reduction_sweep(rng); }},
        {"shape-real", [&] { shape_T<real_t>(rng); }},    {"shape-cmplx", [&] { shape_T<cmplx_t>(rng); }},
        {"delayseq", [&] { shape_delayseq(rng); }},       {"arange-linspace", [&] { shape_arange_linspace(rng); }}};
    for (auto& sec : sections) {
        try { sec.second(); }
        catch (const std::exception& e) {
            out.fail(std::string("C17:unexpected-exception:") + sec.first, std::string("{\"in_flight\":\"") + vh::g_cur_key + "\",\"case\":" + (vh::g_cur_key[0] ? vh::g_cur_json : "{}") + "}");
            vh::clear_current();
        }
    }
    vh::unwatch();
    for (auto& kv : g_maxerr) out.stat("maxerr_centi_eps:" + kv.first, (long long)llroundl(std::min((ld)1e15, kv.second * 100)));
    out.sample(W("angle", {-1.0, -0.0}));
    out.sample(W("power(cmplx,int)", {0.0, 0.0}, {3}));
    out.sample(W("arange(int)", {}, {0, 4, 3}));
    out.sample(W("arange(int)", {}, {5, 0, 1}));
    out.sample(std::string("{\"fn\":\"rms\",\"x\":[3,4]}"));
    out.finish();
    return 0;
}
