// C17 — elementary and reduction functions return their mathematical values.
//
// ORACLE: every function of the property is evaluated on the implementation and compared with its
// mathematical definition evaluated in `long double` (x87 80-bit, libm ...l functions), or with a
// brute-force definition for the shape/index functions.  The tolerance is
//        |got - ref| <= budget * eps * scale + 2e-323          (eps = 2^-52)
// where `scale` is the result's scale (|ref| for scalar functions, the complex modulus for complex
// results, the sum of the magnitudes of the accumulated terms for reductions) and `budget` is:
//
//   function                                   budget (units of eps*scale)        scale
//   ------------------------------------------ ---------------------------------- ----------------------
//   abs(real) real imag conj complex round     0  (exact, sign of zero checked    -
//     flip repelem up/downsample zeropad           for abs/round)
//     delayseq arange(int) min max argmin
//     argmax peak2peak (real)
//   abs(cmplx) abs2 angle exp exp(cmplx) expj  8                                  |ref| / modulus
//     log log2 log10 tanh tanh(cmplx)
//     power(real,real) power(real,int)
//     pow2db mag2db deg2rad rad2deg
//     linspace arange(frac)                                                       max(|x1|,|x2|) / max(|start|,|stop|)
//   power(cmplx,n) (polar form: n*angle)       8 + 4|n|                           |x|^n
//   db2pow(v) (10^(v/10): rounding of v/10     8 + 0.25|v|                        |ref|
//     is amplified by ln(10)|v|/10)
//   db2mag(v)                                  8 + 0.125|v|                       |ref|
//   sum cumsum dot mean (recursive summation   8 + n/2                            sum |term_i| (prefix for cumsum, /n for mean)
//     of n terms: the a-priori bound (n-1)u
//     of Higham, u = eps/2; equal addends do
//     reach a constant fraction of it)
//   rms norm(p=1,2)                            8 + n/2 (+p)                       ref
//   stddev (two passes: mean, then squares)    8 + n                              sqrt(sum|x|^2/(n-1))
//   norm(p>=3) (outer pow(S,1/p): rounding of  8 + n/2 + p + |ln ref|             ref
//     1/p amplified by ln(S)/p = ln ref)
//   min max argmin argmax peak2peak (cmplx):   chosen element is an array element whose |.|^2 is within 4 eps of the extreme
//   round trips: pow2db(db2pow v), mag2db(db2mag v): 8 eps max(1,|v|);  db2pow(pow2db x): (8 + 0.75|10 log10 x|) eps x;
//     db2mag(mag2db x): (8 + 0.4|20 log10 x|) eps x;  deg2rad(rad2deg x), rad2deg(deg2rad x): 8 eps |x|;
//     downsample(upsample), complex(real,imag): exact
//
// CORR: `C <tag> <args> | <outs>` lines recomputed by the Lean model (Model/MathFns.lean, Driver/H17.lean).
//
// Beyond the value sweeps (second round: defects that no value/size sweep with independently drawn operands can see):
//   * LIFETIME / ALIASING (section `lifetime`): every array function of the property is called with its operand as a named
//     object, a temporary, a moved copy, a (temporary built from a) slice of the object itself, a nested expression, with the
//     result bound to a const&, iterated by range-for, assigned back to the operand (x = f(x), x = f(move(x)), x.slice = f(x));
//     every TWO-array function (dot real/complex, complex(re, im), power(vec, vec), power(cvec, vec)) additionally with the
//     SAME OBJECT for both parameters (directly, through a reference, object + slice of itself, overlapping slices of one
//     object) and with the result assigned back to either operand.  All results must be BIT-identical to the call on equal
//     but distinct deep copies; operands must be unmodified; results must own their storage; a rejected (throwing) call
//     must leave later valid calls unchanged; the same object(s) passed again after an in-place change of the contents must give the
//     result for the new contents (nothing may be remembered per object identity).  dot(x, x) / power(x, x) / complex(x, x) are also checked against the
//     definition (long double) and sent through CORR.  The same section runs a second time under ASan/UBSan (C17_ONLY).
//   * SCALE CLASSES / BOUNDARIES: ulp-neighbours of every half-integer up to 6.5, exact powers of two, neighbours of 2^31,
//     2^32, 2^52, 2^53, 2^63; magnitudes up to DBL_MAX and down to the denormals for every function whose exact result is
//     finite and that forms no square (abs, round, expj, tanh, log*, dB of a ratio, exp at the ends of its range, ...);
//     complex arguments with ONE special component (0, -0, +-1, 1 +- ulp, denormal, DBL_MAX) and an arbitrary other one;
//     exponents -0, in (0, eps), within an ulp of an integer; reduction arrays that are all negative, at absolute scales
//     1e-305 ... DBL_MAX/(2n) (linear reductions), or with a single special element first / last / centre.
//   * LARGE FRAMES (section `large`): every array overload and reduction on single calls of 2^16, 2^17 + 1, 3*49152, ...
//     elements after smaller calls.
#include "common.hpp"
#include <complex>
#include <cfloat>
#include <cstring>
#include <cstdlib>
#include <algorithm>
#include <functional>
#include <type_traits>
using namespace dsplib;
typedef long double ld;
typedef std::complex<ld> cld;
static vh::Out out;
static const ld EPS = 2.220446049250313080847e-16L;
static const ld TINY = 2e-323L;
static const ld PIL = 3.14159265358979323846264338327950288L;
static std::map<std::string, ld> g_maxerr;   // worst observed error per function, in units of eps*scale
static bool g_thorough = false;
static uint64_t g_seed = 1;

using vh::hx;
static std::string I(long long v) { return std::to_string(v); }

// ------------------------------------------------------------------------------ witnesses
static std::string W(const char* fn, std::initializer_list<double> a, std::initializer_list<long long> k = {}) {
    std::string s = std::string("{\"fn\":\"") + fn + "\",\"args_hex\":[";
    bool f = true;
    for (double d : a) { if (!f) s += ","; f = false; s += "\"" + hx(d) + "\""; }
    s += "],\"args\":[";
    f = true;
    for (double d : a) { if (!f) s += ","; f = false; s += vh::jnum(d); }
    s += "],\"ints\":[";
    f = true;
    for (long long d : k) { if (!f) s += ","; f = false; s += I(d); }
    return s + "]}";
}
static std::string jl(ld v) {
    char b[64];
    std::snprintf(b, sizeof b, "%.21Lg", v);
    if (std::isnan(v) || std::isinf(v)) return std::string("\"") + b + "\"";
    return b;
}
template<class A>
static std::string WA(const char* fn, const A& x, std::initializer_list<long long> k = {}, int cls = -1, int idx = -1) {
    std::string s = std::string("{\"fn\":\"") + fn + "\",\"n\":" + I(x.size()) + ",\"class\":" + I(cls) + ",\"index\":" + I(idx) +
                    ",\"seed\":" + I((long long)g_seed) + ",\"ints\":[";
    bool f = true;
    for (long long d : k) { if (!f) s += ","; f = false; s += I(d); }
    s += "],\"x\":";
    if (x.size() <= 48) s += vh::jarr(x);
    else { A h(x.slice(0, 8)); s += vh::jarr(h) + ",\"truncated\":true"; }
    return s + "}";
}

// value check: |got - ref| <= budget*eps*scale + TINY
template<class L>
static bool vchk(const std::string& key, double budget, double got, ld ref, ld scale, L&& lazy) {
    out.n_oracle++;
    const ld err = fabsl((ld)got - ref);
    const ld tol = (ld)budget * EPS * scale + TINY;
    if (scale > 0 && err == err) {
        const ld e = err / (EPS * scale);
        ld& m = g_maxerr[key];
        if (e > m) m = e;
    }
    if (!(err <= tol)) {
        out.fail("C17:" + key, std::string("{\"case\":") + lazy() + ",\"got\":" + vh::jnum(got) + ",\"ref\":" + jl(ref) +
                                   ",\"err_over_eps_scale\":" + jl(scale > 0 ? err / (EPS * scale) : err) + ",\"budget\":" + vh::jnum(budget) + "}");
        return false;
    }
    return true;
}
template<class L>
static bool cchk(const std::string& key, double budget, cmplx_t got, cld ref, ld scale, L&& lazy) {
    const bool a = vchk(key, budget, got.re, ref.real(), scale, lazy);
    const bool b = vchk(key, budget, got.im, ref.imag(), scale, lazy);
    return a && b;
}
template<class L>
static bool xchk(const std::string& key, bool ok, L&& lazy) {   // exact / structural check
    out.n_oracle++;
    if (!ok) out.fail("C17:" + key, lazy());
    return ok;
}
static bool same(double a, double b) { return a == b && std::signbit(a) == std::signbit(b); }
static bool samev(double a, double b) { return a == b; }   // value equality (sign of zero not part of the claim)
static bool samev(cmplx_t a, cmplx_t b) { return a.re == b.re && a.im == b.im; }
static bool inrange(ld v) { const ld a = fabsl(v); return a == 0 || (a > 1e-290L && a < 1e290L); }

// ------------------------------------------------------------------------------ generators
static double rmag(vh::Rng& r, double lo = -100, double hi = 100) { return std::pow(10.0, lo + (hi - lo) * r.unit()); }
static double rsg(vh::Rng& r, double lo = -100, double hi = 100) { const double m = rmag(r, lo, hi); return r.coin() ? m : -m; }

static const double SPR[] = {0.0, -0.0, 1.0, -1.0, 0.5, -0.5, 2.0, -2.0, 1.5, -1.5, 2.5, -2.5, 3.5, -3.5,
                             0.49999999999999994, -0.49999999999999994, 1e-100, -1e-100, 1e100, -1e100,
                             3.141592653589793, -3.141592653589793, 1.5707963267948966, 10.0, 100.0, 0.1, 3.0, -3.0, 180.0, -180.0, 90.0,
                             4503599627370495.5, 4503599627370497.0, -4503599627370495.5, 0.9999999999999999, 1.0000000000000002, 7.0, -8.0, 8.0};
static const double SPC[] = {0.0, -0.0, 1.0, -1.0, 2.0, -2.0, 0.5, -0.5, 1e-100, -1e-100, 1e100, -1e100};

static const double INF = std::numeric_limits<double>::infinity();
static void pm(std::vector<double>& v, double a) { v.push_back(a); v.push_back(-a); }
// boundary points (all inside 1e-100..1e100): both ulp-neighbours of every half-integer, exact powers of two, the
// integer-conversion and integrality thresholds 2^31, 2^32, 2^52, 2^53, 2^63
static std::vector<double> boundary_reals() {
    std::vector<double> v;
    for (int k = 1; k <= 13; ++k) { const double h = 0.5 * k; pm(v, h); pm(v, std::nextafter(h, -INF)); pm(v, std::nextafter(h, INF)); }
    for (int k : {1, 2, 3, 10, 31, 32, 52, 53, 63, 64, 100, 200, 300, 332}) { pm(v, std::ldexp(1.0, k)); pm(v, std::ldexp(1.0, -k)); }
    for (int k : {31, 32, 51, 52}) { pm(v, std::ldexp(1.0, k) - 0.5); pm(v, std::ldexp(1.0, k) + 0.5); pm(v, std::ldexp(1.0, k) - 1); pm(v, std::ldexp(1.0, k) + 1); }
    for (int k : {53, 63}) { pm(v, std::nextafter(std::ldexp(1.0, k), 0)); pm(v, std::nextafter(std::ldexp(1.0, k), INF)); }
    return v;
}
// extreme magnitudes (outside 1e-100..1e100): used only by functions whose exact result is finite and that form no square
static std::vector<double> extreme_reals() {
    std::vector<double> v;
    for (double a : {DBL_MAX, DBL_MAX / 2, std::nextafter(DBL_MAX, 0), std::ldexp(1.0, 1023), 1e308, 1e305, 1e300, 1e200, 1.3e154, 1e150, 1e120,
                     1e-120, 1e-150, 1.5e-154, 1e-200, 1e-300, 1e-305, DBL_MIN, std::nextafter(DBL_MIN, 1), std::nextafter(DBL_MIN, 0), 1e-310, 1.5e-323, 5e-324})
        pm(v, a);
    return v;
}
static bool ok_conv(double x) { const double a = std::fabs(x); return a == 0 || (a >= 1e-300 && a <= 1e305); }    // deg2rad / rad2deg: no denormal / infinite intermediate
static bool ok_sq(double x) { const double a = std::fabs(x); return a == 0 || (a >= 1.5e-154 && a <= 1.3e154); }   // x*x neither overflows nor underflows
static bool ok_csq(cmplx_t z) {   // re^2 + im^2: no overflow, and the larger square is a normal number
    const double h = std::max(std::fabs(z.re), std::fabs(z.im));
    return h == 0 || (h >= 1.5e-154 && h <= 9e153);
}

static std::vector<double> real_pool(vh::Rng& r, int nrand) {
    std::vector<double> v(std::begin(SPR), std::end(SPR));
    for (double b : boundary_reals()) v.push_back(b);
    for (double b : extreme_reals()) v.push_back(b);
    for (int i = 0; i < nrand; ++i) v.push_back(rsg(r));
    for (int i = 0; i < nrand / 4; ++i) v.push_back(rsg(r, -3, 3));
    return v;
}
// one special component, the other arbitrary
static void one_special(vh::Rng& r, std::vector<cmplx_t>& v, int per, double lo, double hi, bool with_extreme) {
    std::vector<double> sp = {0.0, -0.0, 1.0, -1.0, std::nextafter(1.0, 0), std::nextafter(1.0, 2), std::nextafter(-1.0, 0), std::nextafter(-1.0, -2),
                              0.5, -0.5, 2.0, -2.0, std::nextafter(0.5, 0), 3.141592653589793, -1.5707963267948966};
    if (with_extreme) for (double e : {5e-324, -5e-324, DBL_MIN, -DBL_MIN, 1e-300, -1e-300}) sp.push_back(e);
    for (double s : sp)
        for (int i = 0; i < per; ++i) {
            const double m = rsg(r, lo, hi);
            v.push_back(cmplx_t{s, m}); v.push_back(cmplx_t{m, s});
        }
}
static std::vector<cmplx_t> cmplx_pool(vh::Rng& r, int nrand) {
    std::vector<cmplx_t> v;
    for (double a : SPC) for (double b : SPC) v.push_back(cmplx_t{a, b});   // 0, -0, +-1, +-i, axes, signed zeros
    one_special(r, v, 3, -100, 100, true);
    one_special(r, v, 3, -2, 2, true);
    // common extreme scale for both parts (squares stay finite and normal), mixed extreme scales, top / bottom of the double range
    for (double s : {1e-150, 1e-120, 1e120, 1e150, 6e153})
        for (int i = 0; i < 4; ++i) v.push_back(cmplx_t{(r.coin() ? s : -s) * (0.5 + 0.5 * r.unit()), (r.coin() ? s : -s) * (0.5 + 0.5 * r.unit())});
    for (double a : {DBL_MAX, -DBL_MAX, 1e300, -1e300, 1e150, -1e-150, 1e-300, -1e-300, DBL_MIN, 5e-324, -5e-324})
        for (double b : {DBL_MAX, -1e300, 1e-150, -1e-300, 5e-324, 1.0, -0.0}) { v.push_back(cmplx_t{a, b}); v.push_back(cmplx_t{b, a}); }
    for (int i = 0; i < nrand / 4; ++i) {                                    // axes with random magnitude
        const double m = rsg(r);
        v.push_back(cmplx_t{m, 0.0}); v.push_back(cmplx_t{m, -0.0}); v.push_back(cmplx_t{0.0, m}); v.push_back(cmplx_t{-0.0, m});
    }
    for (int i = 0; i < nrand; ++i) v.push_back(cmplx_t{rsg(r), rsg(r)});
    for (int i = 0; i < nrand; ++i) { const double c = -98 + 196 * r.unit(); v.push_back(cmplx_t{rsg(r, c - 1, c + 1), rsg(r, c - 1, c + 1)}); }
    for (int i = 0; i < nrand / 2; ++i) v.push_back(cmplx_t{rsg(r, -2, 2), rsg(r, -2, 2)});
    return v;
}
static std::vector<double> expo_pool(vh::Rng& r, int nrand) {
    std::vector<double> v;
    for (int k = -8; k <= 8; ++k) v.push_back(k);
    for (double f : {0.5, -0.5, 1.5, -1.5, 2.5, 1.0 / 3, -1.0 / 3, 7.75, -7.75, 0.1, 0.25, -2.25}) v.push_back(f);
    // boundaries of the exponent range: -0, exponents in (0, eps) at the absolute scales 5e-324 ... 1e-8, within one ulp of an integer, inner neighbours of +-8
    v.push_back(-0.0);
    for (double f : {5e-324, DBL_MIN, 1e-300, 1e-100, 1e-17, 1e-8}) pm(v, f);
    for (int k : {-2, -1, 1, 2, 3}) { v.push_back(std::nextafter(double(k), -INF)); v.push_back(std::nextafter(double(k), INF)); }
    pm(v, std::nextafter(8.0, 0)); pm(v, std::nextafter(0.5, 0)); pm(v, std::nextafter(0.5, 1));
    for (int i = 0; i < nrand; ++i) v.push_back(-8 + 16 * r.unit());
    return v;
}

// array classes: 0 full log-uniform range, 1 band (<= 2 decades) random signs, 2 band one sign, 3 special points, 4 small integers (ties),
//   5 band, all negative, 6 extreme absolute scale (1e-305 ... DBL_MAX/(2n); only the LINEAR reductions are in-domain), 7 band with ONE special
//   element (huge, huge negative, +0, -0, tiny) planted first / last / centre
static const int NCLS = 8;
static const int CLS_EXTREME = 6;
static double extreme_scale(vh::Rng& r, int n) {
    const double tab[] = {1e-305, 1e-300, 1e-250, 1e250, 1e300 / n, DBL_MAX / (2.0 * n)};
    return tab[r.range(0, 5)];
}
static cmplx_t toc(real_t v);
static cmplx_t toc(cmplx_t v);
template<class A, class F>
static void plant(vh::Rng& r, A& x, F&& mk) {
    const int n = x.size();
    double hi = 0, lo = INF;
    for (int i = 0; i < n; ++i) { const double a = std::max(std::fabs(toc(x[i]).re), std::fabs(toc(x[i]).im)); hi = std::max(hi, a); if (a > 0) lo = std::min(lo, a); }
    if (!(hi > 0)) { hi = 1; lo = 1; }
    const int pos[] = {0, n - 1, n / 2};
    const double val[] = {1e3 * hi, -1e3 * hi, 0.0, -0.0, 1e-3 * lo};
    x[pos[r.range(0, 2)]] = mk(val[r.range(0, 4)]);
}
static double elem(vh::Rng& r, int cls, double c, double w, double lim) {
    switch (cls) {
    case 0: return rsg(r, -lim, lim);
    case 1: return rsg(r, c - w / 2, c + w / 2);
    case 2: return rmag(r, c - w / 2, c + w / 2);
    case 3: { const double s = SPR[r.range(0, int(sizeof(SPR) / sizeof(SPR[0])) - 1)]; return std::fabs(s) > 1e15 ? 1.25 : (std::fabs(s) >= 1e100 && lim < 100 ? 4.0 : (std::fabs(s) <= 1e-100 && s != 0 && lim < 100 ? 0.25 : s)); }
    default: return double(r.range(-4, 4));
    }
}
static arr_real gen_real(vh::Rng& r, int n, int cls, double lim = 100) {
    if (cls == 5) { arr_real x = gen_real(r, n, 2, lim); for (int i = 0; i < n; ++i) x[i] = -x[i]; return x; }
    if (cls == CLS_EXTREME) {
        const double s = extreme_scale(r, n);
        arr_real x(n);
        for (int i = 0; i < n; ++i) x[i] = (r.coin() ? s : -s) * (0.5 + 0.5 * r.unit());
        return x;
    }
    if (cls == 7) { arr_real x = gen_real(r, n, 1, lim - 4); plant(r, x, [](double v) { return v; }); return x; }
    const double w = 2 * r.unit(), c = -(lim - 2) + 2 * (lim - 2) * r.unit();
    arr_real x(n);
    for (int i = 0; i < n; ++i) x[i] = elem(r, cls, c, w, lim);
    return x;
}
static arr_cmplx gen_cmplx(vh::Rng& r, int n, int cls, double lim = 100) {
    if (cls == 5) { arr_cmplx x = gen_cmplx(r, n, 2, lim); for (int i = 0; i < n; ++i) x[i] = cmplx_t{-x[i].re, -x[i].im}; return x; }
    if (cls == CLS_EXTREME) {
        const double s = extreme_scale(r, n);
        arr_cmplx x(n);
        for (int i = 0; i < n; ++i) x[i] = cmplx_t{(r.coin() ? s : -s) * (0.5 + 0.5 * r.unit()), (r.coin() ? s : -s) * (0.5 + 0.5 * r.unit())};
        return x;
    }
    if (cls == 7) {
        arr_cmplx x = gen_cmplx(r, n, 1, lim - 4);
        const int k = r.range(0, 2);
        plant(r, x, [k](double v) { return k == 0 ? cmplx_t{v, 0.0} : k == 1 ? cmplx_t{-0.0, v} : cmplx_t{v, v}; });
        return x;
    }
    const double w = 2 * r.unit(), c = -(lim - 2) + 2 * (lim - 2) * r.unit();
    arr_cmplx x(n);
    for (int i = 0; i < n; ++i) {
        x[i] = cmplx_t{elem(r, cls, c, w, lim), elem(r, cls, c, w, lim)};
        if ((cls == 0 || cls == 3) && r.range(0, 7) == 0) (r.coin() ? x[i].re : x[i].im) = r.coin() ? 0.0 : -0.0;   // axes
    }
    return x;
}
static ld cabsl_(cmplx_t z) { return hypotl((ld)z.re, (ld)z.im); }
static cld C(cmplx_t z) { return cld((ld)z.re, (ld)z.im); }

// =============================================================================== scalar value functions
// each `ck_*` compares one returned value with the long-double definition; `fn` names the overload
static void ck_abs(const char* fn, double x, double got) {
    xchk(std::string(fn) + "-value", same(got, std::fabs(x)) && !std::signbit(got), [&] { return W(fn, {x, got}); });
}
static void ck_cabs(const char* fn, cmplx_t z, double got) {
    vchk(std::string(fn) + "-value", 8, got, cabsl_(z), cabsl_(z), [&] { return W(fn, {z.re, z.im}); });
}
static void ck_abs2(const char* fn, cmplx_t z, double got) {
    const ld ref = (ld)z.re * z.re + (ld)z.im * z.im;
    vchk(std::string(fn) + "-value", 8, got, ref, ref, [&] { return W(fn, {z.re, z.im}); });
}
static void ck_angle(const char* fn, cmplx_t z, double got) {
    const ld ref = atan2l((ld)z.im, (ld)z.re);
    vchk(std::string(fn) + "-value", 8, got, ref, fabsl(ref), [&] { return W(fn, {z.re, z.im}); });
    // range clause: [-pi, pi]
    xchk(std::string(fn) + "-range", got >= -3.141592653589793 && got <= 3.141592653589793, [&] { return W(fn, {z.re, z.im, got}); });
}
static bool dom_exp(double x) { return std::fabs(x) <= 700; }
static void ck_exp(const char* fn, double x, double got) {
    const ld ref = expl((ld)x);
    vchk(std::string(fn) + "-value", 8, got, ref, ref, [&] { return W(fn, {x}); });
}
static bool dom_cexp(cmplx_t z) { return std::fabs(z.re) <= 650; }
static void ck_cexp(const char* fn, cmplx_t z, cmplx_t got) {
    const ld m = expl((ld)z.re);
    cchk(std::string(fn) + "-value", 8, got, cld(m * cosl((ld)z.im), m * sinl((ld)z.im)), m, [&] { return W(fn, {z.re, z.im}); });
}
static void ck_expj(const char* fn, double x, cmplx_t got) {
    cchk(std::string(fn) + "-value", 8, got, cld(cosl((ld)x), sinl((ld)x)), 1, [&] { return W(fn, {x}); });
}
static void ck_log(const char* fn, int base, double x, double got) {
    const ld ref = base == 0 ? logl((ld)x) : base == 2 ? log2l((ld)x) : log10l((ld)x);
    vchk(std::string(fn) + "-value", 8, got, ref, fabsl(ref), [&] { return W(fn, {x}); });
}
static bool dom_rpow(double x, double n) {
    if (x == 0) return n >= 0;
    if (x < 0 && n != std::floor(n)) return false;
    const ld ref = powl(fabsl((ld)x), (ld)n);
    return inrange(ref);
}
static void ck_rpow(const char* fn, double x, double n, double got) {
    const ld ref = powl((ld)x, (ld)n);
    vchk(std::string(fn) + "-value", 8, got, ref, fabsl(ref), [&] { return W(fn, {x, n}); });
}
static bool dom_cpow(cmplx_t x, double n) {
    if (x.re == 0 && x.im == 0) return n >= 0;
    return inrange(powl(cabsl_(x), (ld)n));
}
static cld ref_cpow(cmplx_t x, double n) {
    if (x.re == 0 && x.im == 0) return n == 0 ? cld(1, 0) : cld(0, 0);
    const ld a = cabsl_(x), p = atan2l((ld)x.im, (ld)x.re), m = powl(a, (ld)n);
    // integer exponents: reduce the angle exactly to avoid losing the reference's accuracy
    return cld(m * cosl(p * (ld)n), m * sinl(p * (ld)n));
}
static void ck_cpow(const char* fn, cmplx_t x, double n, cmplx_t got) {
    const cld ref = ref_cpow(x, n);
    cchk(std::string(fn) + "-value", 8 + 4 * std::fabs(n), got, ref, std::abs(ref), [&] { return W(fn, {x.re, x.im, n}); });
}
static void ck_cpowi(const char* fn, cmplx_t x, int n, cmplx_t got) {
    cld ref;
    if (n == 2) ref = C(x) * C(x);
    else if (n == -1) ref = std::conj(C(x)) / ((ld)x.re * x.re + (ld)x.im * x.im);
    else if (n == 0) ref = cld(1, 0);
    else if (n == 1) ref = C(x);
    else ref = ref_cpow(x, n);
    const ld sc = (x.re == 0 && x.im == 0) ? std::abs(ref) : powl(cabsl_(x), (ld)n);
    cchk(std::string(fn) + "-value", 8 + 4 * std::abs(n), got, ref, sc, [&] { return W(fn, {x.re, x.im}, {n}); });
}
static void ck_tanh(const char* fn, double x, double got) {
    const ld ref = tanhl((ld)x);
    vchk(std::string(fn) + "-value", 8, got, ref, fabsl(ref), [&] { return W(fn, {x}); });
}
static bool dom_ctanh(cmplx_t z) {
    const cld r = std::tanh(C(z));
    return std::isfinite((double)r.real()) && std::isfinite((double)r.imag()) && inrange(std::abs(r));
}
static void ck_ctanh(const char* fn, cmplx_t z, cmplx_t got) {
    const cld ref = std::tanh(C(z));
    cchk(std::string(fn) + "-value", 8, got, ref, std::abs(ref), [&] { return W(fn, {z.re, z.im}); });
}
static void ck_round(const char* fn, double x, double got) {
    xchk(std::string(fn) + "-value", same(got, (double)roundl((ld)x)), [&] { return W(fn, {x, got}); });
}
static void ck_pow2db(const char* fn, double k, double x, double got) {   // k = 10 or 20
    const ld ref = k * log10l((ld)x);
    vchk(std::string(fn) + "-value", 8, got, ref, fabsl(ref), [&] { return W(fn, {x}); });
}
static bool dom_db2(double k, double v) { return std::fabs(v / k) <= 290; }
static void ck_db2pow(const char* fn, double k, double v, double got) {
    const ld ref = powl(10.0L, (ld)v / k);
    vchk(std::string(fn) + "-value", 8 + (k == 10 ? 0.25 : 0.125) * std::fabs(v), got, ref, ref, [&] { return W(fn, {v}); });
}
static void ck_deg2rad(const char* fn, double x, double got) {
    const ld ref = (ld)x * PIL / 180;
    vchk(std::string(fn) + "-value", 8, got, ref, fabsl(ref), [&] { return W(fn, {x}); });
}
static void ck_rad2deg(const char* fn, double x, double got) {
    const ld ref = (ld)x * 180 / PIL;
    vchk(std::string(fn) + "-value", 8, got, ref, fabsl(ref), [&] { return W(fn, {x}); });
}

template<class A>
static bool shape(const char* fn, const A& r, int n) {
    return xchk(std::string(fn) + "-shape", r.size() == n, [&] { return std::string("{\"fn\":\"") + fn + "\",\"size\":" + I(r.size()) + ",\"expected\":" + I(n) + "}"; });
}
static arr_real AR(const std::vector<double>& v) { return arr_real(v); }
static arr_cmplx AC(const std::vector<cmplx_t>& v) { return arr_cmplx(v); }
static std::string hc(cmplx_t z) { return hx(z.re) + " " + hx(z.im); }
// CORR of an array overload in chunks of <= 8 elements (keeps the line scale meaningful)
template<class AI, class AO>
static void corr_chunks(const std::string& tag, const std::string& extra, const AI& in, const AO& o, int maxchunks) {
    if (in.size() != o.size()) return;
    for (int s = 0, c = 0; s < in.size() && c < maxchunks; s += 8, ++c) {
        const int e = std::min(s + 8, in.size());
        AI a(in.slice(s, e)); AO b(o.slice(s, e));
        out.corr(tag + extra + " " + vh::hxs(a), vh::hxs(b));
    }
}

// CORR volume limiter for the scalar sweeps: the first 3000 lines of a tag (they contain all special points), then every 37th in the thorough tier
static std::map<std::string, long long> g_corr_count;
static void corrS(const std::string& lhs, const std::string& rhs) {
    const std::string tag = lhs.substr(0, lhs.find(' '));
    const long long c = g_corr_count[tag]++;
    if (c < 3000 || !g_thorough || c % 37 == 0) out.corr(lhs, rhs);
    else out.stat("corr_lines_thinned_in_thorough");
}

// every real array overload (separate loops in math.cpp): X any finite values, Xc in-domain for deg2rad/rad2deg, Xs for abs2, P positive, E for exp, D for db2pow/db2mag
static void real_arrays(const arr_real& X, const arr_real& Xc, const arr_real& Xs, const arr_real& P, const arr_real& E, const arr_real& D, int CH) {
    vh::set_current("C17:crash:unary-real-array", std::string("{\"n\":") + I(X.size()) + "}");
    { auto y = dsplib::abs(X); if (shape("abs[]", y, X.size())) for (int i = 0; i < X.size(); ++i) ck_abs("abs[]", X[i], y[i]); corr_chunks("v.abs", "", X, y, CH); }
    { auto y = dsplib::round(X); if (shape("round[]", y, X.size())) for (int i = 0; i < X.size(); ++i) ck_round("round[]", X[i], y[i]); corr_chunks("v.round", "", X, y, CH); }
    { auto y = dsplib::expj(X); if (shape("expj[]", y, X.size())) for (int i = 0; i < X.size(); ++i) ck_expj("expj[]", X[i], y[i]); corr_chunks("v.expj", "", X, y, CH); }
    { auto y = dsplib::tanh(X); if (shape("tanh[]", y, X.size())) for (int i = 0; i < X.size(); ++i) ck_tanh("tanh[]", X[i], y[i]); corr_chunks("v.tanh", "", X, y, CH); }
    { auto y = dsplib::deg2rad(Xc); if (shape("deg2rad[]", y, Xc.size())) for (int i = 0; i < Xc.size(); ++i) ck_deg2rad("deg2rad[]", Xc[i], y[i]); corr_chunks("v.deg2rad", "", Xc, y, CH); }
    { auto y = dsplib::rad2deg(Xc); if (shape("rad2deg[]", y, Xc.size())) for (int i = 0; i < Xc.size(); ++i) ck_rad2deg("rad2deg[]", Xc[i], y[i]); corr_chunks("v.rad2deg", "", Xc, y, CH); }
    { auto y = dsplib::abs2(Xs); if (shape("abs2(real)[]", y, Xs.size())) for (int i = 0; i < Xs.size(); ++i) vchk("abs2-real[]-value", 8, y[i], (ld)Xs[i] * Xs[i], (ld)Xs[i] * Xs[i], [&] { return W("abs2(real)[]", {Xs[i]}); }); corr_chunks("v.rabs2", "", Xs, y, CH); }
    { auto y = dsplib::exp(E); if (shape("exp[]", y, E.size())) for (int i = 0; i < E.size(); ++i) ck_exp("exp[]", E[i], y[i]); corr_chunks("v.exp", "", E, y, CH); }
    { auto y = dsplib::log(P); if (shape("log[]", y, P.size())) for (int i = 0; i < P.size(); ++i) ck_log("log[]", 0, P[i], y[i]); corr_chunks("v.log", "", P, y, CH); }
    { auto y = dsplib::log2(P); if (shape("log2[]", y, P.size())) for (int i = 0; i < P.size(); ++i) ck_log("log2[]", 2, P[i], y[i]); corr_chunks("v.log2", "", P, y, CH); }
    { auto y = dsplib::log10(P); if (shape("log10[]", y, P.size())) for (int i = 0; i < P.size(); ++i) ck_log("log10[]", 10, P[i], y[i]); corr_chunks("v.log10", "", P, y, CH); }
    { auto y = dsplib::pow2db(P); if (shape("pow2db[]", y, P.size())) for (int i = 0; i < P.size(); ++i) ck_pow2db("pow2db[]", 10, P[i], y[i]); corr_chunks("v.pow2db", "", P, y, CH); }
    { auto y = dsplib::mag2db(P); if (shape("mag2db[]", y, P.size())) for (int i = 0; i < P.size(); ++i) ck_pow2db("mag2db[]", 20, P[i], y[i]); corr_chunks("v.mag2db", "", P, y, CH); }
    { auto y = dsplib::db2pow(D); if (shape("db2pow[]", y, D.size())) for (int i = 0; i < D.size(); ++i) ck_db2pow("db2pow[]", 10, D[i], y[i]); corr_chunks("v.db2pow", "", D, y, CH); }
    { auto y = dsplib::db2mag(D); if (shape("db2mag[]", y, D.size())) for (int i = 0; i < D.size(); ++i) ck_db2pow("db2mag[]", 20, D[i], y[i]); corr_chunks("v.db2mag", "", D, y, CH); }
    vh::clear_current();
}

// every complex array overload: Z any finite values, ZS with squares in range (abs, abs2), ZE in-domain for exp, ZT for tanh
static void cmplx_arrays(const arr_cmplx& Z, const arr_cmplx& ZS, const arr_cmplx& ZE, const arr_cmplx& ZT, int CH) {
    vh::set_current("C17:crash:unary-cmplx-array", std::string("{\"n\":") + I(Z.size()) + "}");
    { auto y = dsplib::abs(ZS); if (shape("abs(cmplx)[]", y, ZS.size())) for (int i = 0; i < ZS.size(); ++i) ck_cabs("abs(cmplx)[]", ZS[i], y[i]); corr_chunks("v.cabs", "", ZS, y, CH); }
    { auto y = dsplib::abs2(ZS); if (shape("abs2[]", y, ZS.size())) for (int i = 0; i < ZS.size(); ++i) ck_abs2("abs2[]", ZS[i], y[i]); corr_chunks("v.abs2", "", ZS, y, CH); }
    { auto y = dsplib::angle(Z); if (shape("angle[]", y, Z.size())) for (int i = 0; i < Z.size(); ++i) ck_angle("angle[]", Z[i], y[i]); corr_chunks("v.angle", "", Z, y, CH); }
    { auto y = dsplib::round(Z); if (shape("round(cmplx)[]", y, Z.size())) for (int i = 0; i < Z.size(); ++i) { ck_round("round(cmplx)[]", Z[i].re, y[i].re); ck_round("round(cmplx)[]", Z[i].im, y[i].im); } corr_chunks("v.cround", "", Z, y, CH); }
    { auto y = dsplib::conj(Z); if (shape("conj[]", y, Z.size())) for (int i = 0; i < Z.size(); ++i) xchk("conj[]-value", same(y[i].re, Z[i].re) && same(y[i].im, -Z[i].im), [&] { return W("conj[]", {Z[i].re, Z[i].im}); }); corr_chunks("v.conj", "", Z, y, CH); }
    {
        auto re = dsplib::real(Z), im = dsplib::imag(Z);
        if (shape("real[]", re, Z.size()) && shape("imag[]", im, Z.size())) {
            for (int i = 0; i < Z.size(); ++i) xchk("real[]-value", same(re[i], Z[i].re) && same(im[i], Z[i].im), [&] { return W("real/imag[]", {Z[i].re, Z[i].im}, {i}); });
            auto back = dsplib::complex(re, im);
            bool ok = back.size() == Z.size();
            for (int i = 0; ok && i < Z.size(); ++i) ok = same(back[i].re, Z[i].re) && same(back[i].im, Z[i].im);
            xchk("roundtrip-complex-real-imag", ok, [&] { return std::string("{\"fn\":\"complex(real(z),imag(z))\",\"n\":") + I(Z.size()) + "}"; });
            auto c1 = dsplib::complex(re);
            ok = c1.size() == Z.size();
            for (int i = 0; ok && i < Z.size(); ++i) ok = same(c1[i].re, Z[i].re) && c1[i].im == 0;
            xchk("complex1-value", ok, [&] { return std::string("{\"fn\":\"complex(re)\"}"); });
            corr_chunks("v.real", "", Z, re, CH); corr_chunks("v.imag", "", Z, im, CH);
            for (int s = 0, c = 0; s + 8 <= Z.size() && c < CH; s += 8, ++c) {
                arr_real a(re.slice(s, s + 8)), b(im.slice(s, s + 8));
                out.corr("v.complex " + vh::hxs(a) + " " + vh::hxs(b), vh::hxs(dsplib::complex(a, b)));
            }
        }
        {   // complex(re, im) on independent re / im arrays, element by element
            const int m = std::min<int>(Z.size(), 512);
            arr_real a(m), b(m);
            for (int i = 0; i < m; ++i) { a[i] = Z[i].re; b[i] = Z[Z.size() - 1 - i].im; }
            const arr_cmplx c = dsplib::complex(a, b);
            if (shape("complex(re,im)", c, m))
                for (int i = 0; i < m; ++i) xchk("complex-value", same(c[i].re, a[i]) && same(c[i].im, b[i]), [&] { return W("complex(re,im)", {a[i], b[i], c[i].re, c[i].im}, {i}); });
        }
        // size mismatch is an exception
        bool thrown = false;
        try { (void)dsplib::complex(arr_real(3), arr_real(4)); } catch (const std::exception&) { thrown = true; }
        xchk("complex-size-mismatch-throws", thrown, [] { return std::string("{\"fn\":\"complex\",\"sizes\":[3,4]}"); });
    }
    { auto y = dsplib::exp(ZE); if (shape("exp(cmplx)[]", y, ZE.size())) for (int i = 0; i < ZE.size(); ++i) ck_cexp("exp(cmplx)[]", ZE[i], y[i]); corr_chunks("v.cexp", "", ZE, y, CH); }
    { auto y = dsplib::tanh(ZT); if (shape("tanh(cmplx)[]", y, ZT.size())) for (int i = 0; i < ZT.size(); ++i) ck_ctanh("tanh(cmplx)[]", ZT[i], y[i]); }
    vh::clear_current();
}

static void scalar_functions(vh::Rng& r) {
    const int NR = g_thorough ? 60000 : 4000;
    const int CH = g_thorough ? 60 : 12;
    const std::vector<double> rp = real_pool(r, NR);
    const std::vector<cmplx_t> cp = cmplx_pool(r, NR);
    const std::vector<double> ep = expo_pool(r, g_thorough ? 300 : 60);

    // ---- abs / round / real-argument elementary functions
    {
        std::vector<double> pos, ex, th, dbv, cv, sqv;
        for (double x : rp) {
            vh::set_current("C17:crash:unary-real", W("unary", {x}));
            const double a = dsplib::abs(x);
            ck_abs("abs", x, a); corrS("abs " + hx(x), hx(a));
            const double q = dsplib::round(x);
            ck_round("round", x, q); corrS("round " + hx(x), hx(q));
            const cmplx_t e = dsplib::expj(x);
            ck_expj("expj", x, e); corrS("expj " + hx(x), hc(e));
            const double t = dsplib::tanh(arr_real{x})[0];
            ck_tanh("tanh", x, t); corrS("tanh " + hx(x), hx(t));
            if (!inrange(x)) out.stat("real_points_outside_1e-290_1e290");
            if (ok_conv(x)) {
                const double d2r = dsplib::deg2rad(x), r2d = dsplib::rad2deg(x);
                ck_deg2rad("deg2rad", x, d2r); corrS("deg2rad " + hx(x), hx(d2r));
                ck_rad2deg("rad2deg", x, r2d); corrS("rad2deg " + hx(x), hx(r2d));
                // round trips
                if (inrange(x)) {
                    vchk("roundtrip-deg2rad-rad2deg", 8, dsplib::deg2rad(r2d), x, std::fabs(x), [&] { return W("deg2rad(rad2deg)", {x}); });
                    vchk("roundtrip-rad2deg-deg2rad", 8, dsplib::rad2deg(d2r), x, std::fabs(x), [&] { return W("rad2deg(deg2rad)", {x}); });
                }
                cv.push_back(x);
            } else out.stat("skipped_degrad_denormal_or_overflowing_intermediate");
            if (ok_sq(x)) {
                const double sq = dsplib::abs2(x);
                vchk("abs2-real-value", 8, sq, (ld)x * x, (ld)x * x, [&] { return W("abs2(real)", {x}); });
                corrS("rabs2 " + hx(x), hx(sq));
                sqv.push_back(x);
            } else out.stat("skipped_abs2_square_overflows_or_underflows");
            if (dom_exp(x)) {
                const double y = dsplib::exp(x);
                ck_exp("exp", x, y); corrS("exp " + hx(x), hx(y)); ex.push_back(x);
            } else out.stat("skipped_exp_overflow");
            if (x > 0) {
                const double l = dsplib::log(x), l2 = dsplib::log2(x), l10 = dsplib::log10(x);
                ck_log("log", 0, x, l); ck_log("log2", 2, x, l2); ck_log("log10", 10, x, l10);
                corrS("log " + hx(x), hx(l)); corrS("log2 " + hx(x), hx(l2)); corrS("log10 " + hx(x), hx(l10));
                const double pd = dsplib::pow2db(x), md = dsplib::mag2db(x);
                ck_pow2db("pow2db", 10, x, pd); ck_pow2db("mag2db", 20, x, md);
                corrS("pow2db " + hx(x), hx(pd)); corrS("mag2db " + hx(x), hx(md));
                if (inrange(x)) {
                    vchk("roundtrip-db2pow-pow2db", 8 + 0.75 * std::fabs(pd), dsplib::db2pow(pd), x, x, [&] { return W("db2pow(pow2db)", {x}); });
                    vchk("roundtrip-db2mag-mag2db", 8 + 0.4 * std::fabs(md), dsplib::db2mag(md), x, x, [&] { return W("db2mag(mag2db)", {x}); });
                }
                pos.push_back(x);
            }
            if (dom_db2(10, x)) {
                const double p = dsplib::db2pow(x), m = dsplib::db2mag(x);
                ck_db2pow("db2pow", 10, x, p); ck_db2pow("db2mag", 20, x, m);
                corrS("db2pow " + hx(x), hx(p)); corrS("db2mag " + hx(x), hx(m));
                const ld sc = std::max((ld)1, fabsl((ld)x));
                vchk("roundtrip-pow2db-db2pow", 8, dsplib::pow2db(p), x, sc, [&] { return W("pow2db(db2pow)", {x}); });
                vchk("roundtrip-mag2db-db2mag", 8, dsplib::mag2db(m), x, sc, [&] { return W("mag2db(db2mag)", {x}); });
                dbv.push_back(x);
            }
            vh::clear_current();
        }
        // ends of the ranges in which the exact result is finite: exp up to log(DBL_MAX) and down to the denormals, 10^(v/10), 10^(v/20)
        for (double x : {700.0, 709.0, 709.78271289338397, -708.0, -708.39641853226408, -740.0, -745.0, -745.13321910194111}) {
            const double y = dsplib::exp(x), ya = dsplib::exp(arr_real{x, x})[1];
            ck_exp("exp", x, y); ck_exp("exp[]", x, ya); corrS("exp " + hx(x), hx(y));
        }
        for (double v : {2950.0, 3000.0, 3080.0, -3000.0, -3070.0, -3230.0}) {
            const double p = dsplib::db2pow(v), m = dsplib::db2mag(2 * v), pa = dsplib::db2pow(arr_real{v, v})[1], ma = dsplib::db2mag(arr_real{2 * v, 2 * v})[1];
            ck_db2pow("db2pow", 10, v, p); ck_db2pow("db2mag", 20, 2 * v, m); ck_db2pow("db2pow[]", 10, v, pa); ck_db2pow("db2mag[]", 20, 2 * v, ma);
            corrS("db2pow " + hx(v), hx(p)); corrS("db2mag " + hx(2 * v), hx(m));
        }
        // array overloads (separate loops in math.cpp)
        real_arrays(AR(rp), AR(cv), AR(sqv), AR(pos), AR(ex), AR(dbv), CH);
        out.stat("real_pool", (long long)rp.size());
    }

    // ---- complex-argument functions
    {
        std::vector<cmplx_t> ce, ct, csq;
        for (cmplx_t z : cp) {
            vh::set_current("C17:crash:unary-cmplx", W("unary-cmplx", {z.re, z.im}));
            const double g = dsplib::angle(z);
            ck_angle("angle", z, g); corrS("angle " + hc(z), hx(g));
            if (ok_csq(z)) {
                const double a = dsplib::abs(z), a2 = dsplib::abs2(z);
                ck_cabs("abs(cmplx)", z, a); ck_abs2("abs2", z, a2);
                corrS("cabs " + hc(z), hx(a)); corrS("abs2 " + hc(z), hx(a2));
                csq.push_back(z);
            } else out.stat("skipped_cabs_square_overflows_or_underflows");
            if ((z.re == 1 || z.re == -1 || z.im == 1 || z.im == -1) && std::fabs(z.re) != std::fabs(z.im)) out.stat("cmplx_one_unit_component_points");
            const cmplx_t q = dsplib::round(z);
            ck_round("round(cmplx)", z.re, q.re); ck_round("round(cmplx)", z.im, q.im);
            corrS("cround " + hc(z), hc(q));
            const cmplx_t cj = dsplib::conj(z);
            xchk("conj-value", same(cj.re, z.re) && same(cj.im, -z.im), [&] { return W("conj", {z.re, z.im}); });
            xchk("real-value", same(dsplib::real(z), z.re) && same(dsplib::imag(z), z.im), [&] { return W("real/imag", {z.re, z.im}); });
            corrS("conj " + hc(z), hc(cj));
            if (dom_cexp(z)) {
                const cmplx_t e = dsplib::exp(z);
                ck_cexp("exp(cmplx)", z, e); corrS("cexp " + hc(z), hc(e)); ce.push_back(z);
            }
            if (dom_ctanh(z)) {
                const cmplx_t t = dsplib::tanh(arr_cmplx{z})[0];
                ck_ctanh("tanh(cmplx)", z, t); corrS("ctanh " + hc(z), hc(t)); ct.push_back(z);
            } else out.stat("skipped_ctanh_domain");
            if (z.re == 0 && z.im == 0) out.stat("cmplx_zero_points");
            else if (z.re == 0 || z.im == 0) out.stat("cmplx_axis_points");
            if (std::signbit(z.re) && z.re == 0) out.stat("cmplx_negzero_re");
            if (std::signbit(z.im) && z.im == 0) out.stat("cmplx_negzero_im");
            vh::clear_current();
        }
        cmplx_arrays(AC(cp), AC(csq), AC(ce), AC(ct), CH);
        out.stat("cmplx_pool", (long long)cp.size());
    }

    // ---- every power overload
    {
        std::vector<double> bases(std::begin(SPR), std::end(SPR));
        for (double b : boundary_reals()) bases.push_back(b);
        for (double b : extreme_reals()) bases.push_back(b);   // in-domain whenever the exact power lies in 1e-290..1e290 (roots, small exponents)
        const int NB = g_thorough ? 1200 : 100;
        for (int i = 0; i < NB; ++i) bases.push_back(rsg(r, -100, 100));
        for (int i = 0; i < NB; ++i) bases.push_back(rsg(r, -2, 2));
        std::vector<cmplx_t> cb;
        for (double a : SPC) for (double b : SPC) cb.push_back(cmplx_t{a, b});
        for (int i = 0; i < NB; ++i) cb.push_back(cmplx_t{rsg(r), rsg(r)});
        for (int i = 0; i < NB; ++i) cb.push_back(cmplx_t{rsg(r, -2, 2), rsg(r, -2, 2)});
        one_special(r, cb, g_thorough ? 6 : 2, -30, 30, false);   // one component 0, -0, +-1, 1 +- ulp, ... and an arbitrary other one
        one_special(r, cb, g_thorough ? 6 : 2, -2, 2, false);
        for (int i = 0; i < NB / 4; ++i) { const double m = rsg(r, -30, 30); cb.push_back(cmplx_t{m, 0.0}); cb.push_back(cmplx_t{m, -0.0}); cb.push_back(cmplx_t{0.0, m}); cb.push_back(cmplx_t{-0.0, m}); }
        long long nshort = 0, ngen = 0;
        for (double x : bases) {
            vh::set_current("C17:crash:power-real", W("power", {x}));
            // power(real, real): scalar, scalar^vec, vec^scalar, vec^vec
            std::vector<double> ns, xs;
            for (double n : ep) if (dom_rpow(x, n)) {
                const double y = dsplib::power(x, n);
                ck_rpow("power(real,real)", x, n, y); corrS("rpow " + hx(x) + " " + hx(n), hx(y));
                ns.push_back(n); xs.push_back(x);
            }
            if (!ns.empty()) {
                const arr_real N = AR(ns), Xs = AR(xs);
                auto y1 = dsplib::power(x, N), y2 = dsplib::power(Xs, N);
                if (shape("power(real,vec)", y1, N.size()) && shape("power(vec,vec)", y2, N.size()))
                    for (int i = 0; i < N.size(); ++i) { ck_rpow("power(real,vec)", x, N[i], y1[i]); ck_rpow("power(vec,vec)", x, N[i], y2[i]); }
                if (ns.size() >= 4) { arr_real n4(N.slice(0, 4)); out.corr("v.rpow_sv " + hx(x) + " " + vh::hxs(n4), vh::hxs(dsplib::power(x, n4))); }
            }
            // power(real, int) with the shortcuts n = 2, -1, 0, 1
            for (int n = -8; n <= 8; ++n) if ((x != 0 || n >= 0) && dom_rpow(x, n)) {
                const double y = dsplib::power(x, n);
                ck_rpow("power(real,int)", x, n, y); corrS("rpowi " + hx(x) + " " + I(n), hx(y));
                (n >= -1 && n <= 2) ? ++nshort : ++ngen;
            }
            vh::clear_current();
        }
        // vec^scalar (real), vec^int (real): bases with a common exponent
        for (double n : ep) {
            std::vector<double> xs;
            for (double x : bases) if (dom_rpow(x, n) && (x != 0 || n >= 0)) xs.push_back(x);
            const arr_real Xs = AR(xs);
            auto y = dsplib::power(Xs, n);
            if (shape("power(vec,real)", y, Xs.size())) for (int i = 0; i < Xs.size(); ++i) ck_rpow("power(vec,real)", Xs[i], n, y[i]);
            if (xs.size() >= 6) { arr_real a(Xs.slice(0, 6)); out.corr("v.rpow_vs " + hx(n) + " " + vh::hxs(a), vh::hxs(dsplib::power(a, n))); }
            if (n == std::floor(n)) {
                auto yi = dsplib::power(Xs, int(n));
                if (shape("power(vec,int)", yi, Xs.size())) for (int i = 0; i < Xs.size(); ++i) ck_rpow("power(vec,int)", Xs[i], n, yi[i]);
                if (xs.size() >= 6) { arr_real a(Xs.slice(0, 6)); out.corr("v.rpowi " + I(int(n)) + " " + vh::hxs(a), vh::hxs(dsplib::power(a, int(n)))); }
            }
        }
        for (cmplx_t x : cb) {
            vh::set_current("C17:crash:power-cmplx", W("power", {x.re, x.im}));
            std::vector<double> ns; std::vector<cmplx_t> xs;
            for (double n : ep) if (dom_cpow(x, n)) {
                const cmplx_t y = dsplib::power(x, n);
                ck_cpow("power(cmplx,real)", x, n, y); corrS("cpow " + hc(x) + " " + hx(n), hc(y));
                ns.push_back(n); xs.push_back(x);
            }
            if (!ns.empty()) {
                const arr_real N = AR(ns); const arr_cmplx Xs = AC(xs);
                auto y1 = dsplib::power(x, N); auto y2 = dsplib::power(Xs, N);
                if (shape("power(cmplx,vec)", y1, N.size()) && shape("power(cvec,vec)", y2, N.size()))
                    for (int i = 0; i < N.size(); ++i) { ck_cpow("power(cmplx,vec)", x, N[i], y1[i]); ck_cpow("power(cvec,vec)", x, N[i], y2[i]); }
            }
            for (int n = -8; n <= 8; ++n) if (((x.re != 0 || x.im != 0) || n >= 0) && dom_cpow(x, n)) {
                if (n == 2 && !inrange((ld)x.re * x.re + (ld)x.im * x.im)) continue;
                if (n == -1 && !inrange(1 / ((ld)x.re * x.re + (ld)x.im * x.im))) continue;
                const cmplx_t y = dsplib::power(x, n);
                ck_cpowi("power(cmplx,int)", x, n, y); corrS("cpowi " + hc(x) + " " + I(n), hc(y));
                (n >= -1 && n <= 2) ? ++nshort : ++ngen;
            }
            vh::clear_current();
        }
        for (double n : ep) {
            std::vector<cmplx_t> xs;
            for (cmplx_t x : cb) if (dom_cpow(x, n) && ((x.re != 0 || x.im != 0) || n >= 0) && inrange((ld)x.re * x.re + (ld)x.im * x.im) && (x.re != 0 || x.im != 0 ? inrange(1 / ((ld)x.re * x.re + (ld)x.im * x.im)) : true)) xs.push_back(x);
            const arr_cmplx Xs = AC(xs);
            auto y = dsplib::power(Xs, n);
            if (shape("power(cvec,real)", y, Xs.size())) for (int i = 0; i < Xs.size(); ++i) ck_cpow("power(cvec,real)", Xs[i], n, y[i]);
            if (n == std::floor(n)) {
                auto yi = dsplib::power(Xs, int(n));
                if (shape("power(cvec,int)", yi, Xs.size())) for (int i = 0; i < Xs.size(); ++i) ck_cpowi("power(cvec,int)", Xs[i], int(n), yi[i]);
                if (xs.size() >= 150) { arr_cmplx a(Xs.slice(144, 150)); out.corr("v.cpowi " + I(int(n)) + " " + vh::hxs(a), vh::hxs(dsplib::power(a, int(n)))); }
            }
        }
        out.stat("power_int_shortcut_calls", nshort);
        out.stat("power_int_general_calls", ngen);
    }
    // two-argument min/max templates
    for (int i = 0; i < 200; ++i) {
        const double a = SPR[r.range(0, 30)], b = r.coin() ? a : rsg(r, -3, 3);
        xchk("max2-value", samev(dsplib::max(a, b), a > b ? a : b) && samev(dsplib::min(a, b), a < b ? a : b), [&] { return W("max/min(a,b)", {a, b}); });
        xchk("max2-int-value", dsplib::max(3, i % 7) == std::max(3, i % 7) && dsplib::min(3, i % 7) == std::min(3, i % 7), [&] { return W("max/min(int,int)", {3.0, double(i % 7)}); });
    }
}

// =============================================================================== reductions
template<class T> struct Tr;
template<> struct Tr<real_t> { static ld mag(real_t v) { return fabsl((ld)v); } static cld c(real_t v) { return cld((ld)v, 0); } static const char* nm() { return "real"; } static const char* px() { return ""; } };
template<> struct Tr<cmplx_t> { static ld mag(cmplx_t v) { return cabsl_(v); } static cld c(cmplx_t v) { return C(v); } static const char* nm() { return "cmplx"; } static const char* px() { return "c"; } };
static cmplx_t toc(real_t v) { return cmplx_t{v, 0}; }
static cmplx_t toc(cmplx_t v) { return v; }
static std::string hv(real_t v) { return hx(v); }
static std::string hv(cmplx_t v) { return hc(v); }
static ld key2(real_t v) { return (ld)v; }
static double dkey(real_t v) { return v; }
static double dkey(cmplx_t v) { return v.re * v.re + v.im * v.im; }

template<class T, class L>
static void tchk(const std::string& key, double budget, T got, cld ref, ld scale, L&& lazy) {
    const cmplx_t g = toc(got);
    vchk(key, budget, g.re, ref.real(), scale, lazy);
    if (is_complex_v<T>) vchk(key, budget, g.im, ref.imag(), scale, lazy);
}

template<class T>
static void reductions(const base_array<T>& x, const base_array<T>& y, int cls, bool corr, bool normok, bool linear_only = false) {
    // linear_only: the elements sit at an extreme absolute scale; only the reductions that form no square are in-domain
    // (sum, mean, cumsum, dot with a unit-scale second operand, real norm p = 1, real min/max/argmin/argmax/peak2peak)
    const int n = x.size();
    const std::string P = Tr<T>::px(), ty = std::string("(") + Tr<T>::nm() + ")";
    const double B = 8 + 0.5 * n;   // a-priori bound of recursive summation, see the table
    const std::string hxv = corr ? vh::hxs(x) : std::string();
    vh::set_current("C17:crash:reduction" + ty, WA("reduction", x, {}, cls));
    // sum, mean
    cld s = 0; ld sa = 0;
    for (int i = 0; i < n; ++i) { s += Tr<T>::c(x[i]); sa += Tr<T>::mag(x[i]); }
    { const T g = dsplib::sum(x); tchk("sum" + ty + "-value", B, g, s, sa, [&] { return WA("sum", x, {}, cls); }); if (corr) out.corr(P + "sum " + hxv, hv(g)); }
    { const T g = dsplib::mean(x); tchk("mean" + ty + "-value", B, g, s / (ld)n, sa / n, [&] { return WA("mean", x, {}, cls); }); if (corr) out.corr(P + "mean " + hxv, hv(g)); }
    // cumsum, both directions
    for (int rev = 0; rev < 2; ++rev) {
        const base_array<T> g = dsplib::cumsum(x, rev ? Direction::Reverse : Direction::Forward);
        if (shape(("cumsum" + ty).c_str(), g, n)) {
            cld a = 0; ld aa = 0;
            for (int k = 0; k < n; ++k) {
                const int i = rev ? n - 1 - k : k;
                a += Tr<T>::c(x[i]); aa += Tr<T>::mag(x[i]);
                tchk(std::string("cumsum") + (rev ? "-reverse" : "") + ty + "-value", 8 + 0.5 * (k + 1), g[i], a, aa, [&] { return WA("cumsum", x, {rev}, cls, i); });
            }
        }
        if (corr) out.corr(P + "cumsum " + I(rev) + " " + hxv, vh::hxs(g));
    }
    // dot (bilinear: sum x_i*y_i)
    {
        cld d = 0; ld da = 0;
        for (int i = 0; i < n; ++i) { d += Tr<T>::c(x[i]) * Tr<T>::c(y[i]); da += Tr<T>::mag(x[i]) * Tr<T>::mag(y[i]); }
        const T g = dsplib::dot(x, y);
        tchk("dot" + ty + "-value", B + 2, g, d, da, [&] { return WA("dot", x, {}, cls); });
        if (corr) out.corr(P + "dot " + hxv + " " + vh::hxs(y), hv(g));
    }
    // dot with the SAME OBJECT for both parameters: still the bilinear sum x_i*x_i (no conjugation), and bit-identical to the call with a distinct equal copy
    if (!linear_only) {
        cld d = 0; ld da = 0;
        for (int i = 0; i < n; ++i) { d += Tr<T>::c(x[i]) * Tr<T>::c(x[i]); da += Tr<T>::mag(x[i]) * Tr<T>::mag(x[i]); }
        const T g = dsplib::dot(x, x);
        tchk("dot" + ty + "-same-object-value", B + 2, g, d, da, [&] { return WA("dot(x,x) [same object]", x, {}, cls); });
        const base_array<T> xc(x);
        const T g2 = dsplib::dot(x, xc), g3 = dsplib::dot(xc, x);
        xchk("dot" + ty + "-same-object-vs-copy", std::memcmp(&g, &g2, sizeof g) == 0 && std::memcmp(&g, &g3, sizeof g) == 0,
             [&] { return std::string("{\"case\":") + WA("dot(x,x) vs dot(x,copy of x)", x, {}, cls) + ",\"same_object\":\"" + hv(g) + "\",\"distinct_copy\":\"" + hv(g2) + "\"}"; });
        if (corr) out.corr(P + "dot " + hxv + " " + hxv, hv(g));
        out.stat("dot_same_object_calls");
    }
    // rms (n), stddev (n-1)
    if (!linear_only) {
        ld q = 0;
        for (int i = 0; i < n; ++i) q += Tr<T>::mag(x[i]) * Tr<T>::mag(x[i]);
        const ld ref = sqrtl(q / n);
        const double g = dsplib::rms(x);
        vchk("rms" + ty + "-value", B, g, ref, ref, [&] { return WA("rms", x, {}, cls); });
        if (corr) out.corr(P + "rms " + hxv, hx(g));
        if (n >= 2) {
            const cld m = s / (ld)n;
            ld v = 0;
            for (int i = 0; i < n; ++i) v += std::norm(Tr<T>::c(x[i]) - m);
            const double gs = dsplib::stddev(x);
            vchk("stddev" + ty + "-value", 8 + n, gs, sqrtl(v / (n - 1)), sqrtl(q / (n - 1)), [&] { return WA("stddev", x, {}, cls); });
            if (corr) out.corr(P + "stddev " + hxv, hx(gs));
        } else {
            out.stat("stddev_n1_not_in_domain");
            if (corr) out.corr(P + "stddev " + hxv, hx(dsplib::stddev(x)));
        }
    }
    // norm p = 1..8 (default p = 2)
    if (normok && !(linear_only && is_complex_v<T>)) {   // complex norm p = 1 goes through |z| = sqrt(re^2 + im^2)
        for (int p = 1; p <= (linear_only ? 1 : 8); ++p) {
            ld q = 0;
            for (int i = 0; i < n; ++i) q += powl(Tr<T>::mag(x[i]), (ld)p);
            const ld ref = powl(q, 1.0L / p);
            const double g = dsplib::norm(x, p);
            const double bud = B + p + (p >= 3 && ref > 0 ? (double)fabsl(logl(ref)) : 0.0);
            vchk("norm" + ty + "-value", bud, g, ref, ref, [&] { return WA("norm", x, {p}, cls); });
            if (corr) out.corr(P + "norm " + I(p) + " " + hxv, hx(g));
            if (p == 2) xchk("norm-default-p" + ty, same(dsplib::norm(x), g), [&] { return WA("norm()", x, {}, cls); });
        }
    }
    // min max argmin argmax peak2peak
    if (!(linear_only && is_complex_v<T>)) {
        const T mx = dsplib::max(x), mn = dsplib::min(x), pp = dsplib::peak2peak(x);
        const int ax = dsplib::argmax(x), an = dsplib::argmin(x);
        if (corr) {
            out.corr(P + "max " + hxv, hv(mx)); out.corr(P + "min " + hxv, hv(mn)); out.corr(P + "peak2peak " + hxv, hv(pp));
            out.corr(P + "argmax " + hxv, I(ax)); out.corr(P + "argmin " + hxv, I(an));
        }
        double kmax = dkey(x[0]), kmin = kmax;
        int fmax = 0, fmin = 0;
        for (int i = 1; i < n; ++i) { const double k = dkey(x[i]); if (k > kmax) { kmax = k; fmax = i; } if (k < kmin) { kmin = k; fmin = i; } }
        const bool idx_ok = ax >= 0 && ax < n && an >= 0 && an < n;
        xchk("argmax" + ty + "-range", idx_ok, [&] { return WA("argmax/argmin", x, {ax, an}, cls); });
        if (idx_ok) {
            if (!is_complex_v<T>) {
                // real: exact values, FIRST occurrence
                xchk("max" + ty + "-value", samev(mx, x[fmax]), [&] { return WA("max", x, {}, cls); });
                xchk("min" + ty + "-value", samev(mn, x[fmin]), [&] { return WA("min", x, {}, cls); });
                xchk("argmax" + ty + "-value", ax == fmax, [&] { return WA("argmax", x, {ax, fmax}, cls); });
                xchk("argmin" + ty + "-value", an == fmin, [&] { return WA("argmin", x, {an, fmin}, cls); });
                xchk("peak2peak" + ty + "-value", samev(pp, x[fmax] - x[fmin]), [&] { return WA("peak2peak", x, {}, cls); });
            } else {
                // complex: ordered by magnitude; the chosen element must be an array element whose |.|^2
                // is within 4 eps of the extreme (rounding of re^2+im^2 may reorder near-ties)
                std::vector<int> A, Bm;
                for (int i = 0; i < n; ++i) {
                    const ld k = Tr<T>::mag(x[i]) * Tr<T>::mag(x[i]);
                    if (k >= (ld)kmax * (1 - 4 * EPS)) A.push_back(i);
                    if (k <= (ld)kmin * (1 + 4 * EPS)) Bm.push_back(i);
                }
                auto in = [&](const std::vector<int>& S, T v) { for (int i : S) if (samev(x[i], v)) return true; return false; };
                auto has = [&](const std::vector<int>& S, int i) { return std::find(S.begin(), S.end(), i) != S.end(); };
                xchk("max" + ty + "-value", in(A, mx), [&] { return WA("max", x, {}, cls); });
                xchk("min" + ty + "-value", in(Bm, mn), [&] { return WA("min", x, {}, cls); });
                xchk("argmax" + ty + "-value", has(A, ax), [&] { return WA("argmax", x, {ax, fmax}, cls); });
                xchk("argmin" + ty + "-value", has(Bm, an), [&] { return WA("argmin", x, {an, fmin}, cls); });
                bool ok = false;
                for (int i : A) for (int j : Bm) if (samev(pp, x[i] - x[j])) ok = true;
                xchk("peak2peak" + ty + "-value", ok, [&] { return WA("peak2peak", x, {}, cls); });
                if (A.size() > 1 || Bm.size() > 1) out.stat("cmplx_minmax_tie_arrays");
            }
        }
    }
    vh::clear_current();
    out.stat(std::string("reduction_arrays_") + Tr<T>::nm());
    out.stat("reduction_class_" + I(cls));
}

static void reduction_sweep(vh::Rng& r) {
    std::vector<int> lens;
    if (g_thorough) for (int n = 1; n <= 1000; ++n) lens.push_back(n);
    else {
        for (int n = 1; n <= 48; ++n) lens.push_back(n);
        for (int i = 0; i < 40; ++i) lens.push_back(r.range(49, 1000));
        lens.push_back(999); lens.push_back(1000);
    }
    int longc = 0;
    for (int rep = 0; rep < (g_thorough ? 3 : 1); ++rep)
    for (int n : lens)
        for (int cls = 0; cls < NCLS; ++cls) {
            const bool corr = (rep == 0 && n <= 20) || (n >= 500 && longc < 2 * NCLS && ++longc);
            // norm raises |x| to the 8th power: magnitudes limited to 1e+-30 for the arrays that go through norm
            const bool normok = ((n + rep) % 2 == 0) || cls == 3 || cls == 4 || cls == CLS_EXTREME;
            const double lim = normok ? 30 : 100;
            if (cls == CLS_EXTREME) {
                // second operand of dot at unit scale (0.25..0.5): every product and partial sum stays finite and normal
                arr_real yr(n); arr_cmplx yc(n);
                for (int i = 0; i < n; ++i) { yr[i] = (r.coin() ? 0.25 : -0.25) * (1 + r.unit()); yc[i] = cmplx_t{(r.coin() ? 0.25 : -0.25) * (1 + r.unit()), (r.coin() ? 0.25 : -0.25) * (1 + r.unit())}; }
                reductions<real_t>(gen_real(r, n, cls), yr, cls, corr, true, true);
                reductions<cmplx_t>(gen_cmplx(r, n, cls), yc, cls, corr, true, true);
                continue;
            }
            reductions<real_t>(gen_real(r, n, cls, lim), gen_real(r, n, cls, lim), cls, corr, normok);
            reductions<cmplx_t>(gen_cmplx(r, n, cls, lim), gen_cmplx(r, n, cls, lim), cls, corr, normok);
        }
    // all-zero arrays (exact results required: the scale is 0) and signed zeros
    for (int n : {1, 2, 3, 7, 64}) {
        arr_real z(n); arr_cmplx zc(n);
        reductions<real_t>(z, z, 3, true, true);
        reductions<cmplx_t>(zc, zc, 3, true, true);
        for (int i = 0; i < n; i += 2) { z[i] = -0.0; zc[i] = cmplx_t{-0.0, i % 4 ? 0.0 : -0.0}; }
        reductions<real_t>(z, z, 3, true, true);
        reductions<cmplx_t>(zc, zc, 3, true, true);
    }
    // dot size mismatch
    bool thrown = false;
    try { (void)dsplib::dot(arr_real(3), arr_real(4)); } catch (const std::exception&) { thrown = true; }
    xchk("dot-size-mismatch-throws", thrown, [] { return std::string("{\"fn\":\"dot\",\"sizes\":[3,4]}"); });
    out.corr("dot 3 x0000000000000000 x0000000000000000 x0000000000000000 4 x0000000000000000 x0000000000000000 x0000000000000000 x0000000000000000", thrown ? "ERR" : "noexcept");
}

// =============================================================================== shape / index functions
template<class T> static T mk(int i);
template<> real_t mk<real_t>(int i) { return 1.0 + i; }
template<> cmplx_t mk<cmplx_t>(int i) { return cmplx_t{1.0 + i, -0.5 - i}; }
template<class T> static base_array<T> iota(int n) { base_array<T> x(n); for (int i = 0; i < n; ++i) x[i] = mk<T>(i); return x; }
template<class T> static bool eqarr(const base_array<T>& a, const std::vector<T>& b) {
    if (a.size() != int(b.size())) return false;
    for (int i = 0; i < a.size(); ++i) if (!samev(a[i], b[i])) return false;
    return true;
}
template<class T, class F> static std::string tryc(F&& f) {   // hxs of the result or ERR
    try { return vh::hxs(f()); } catch (const std::exception&) { return "ERR"; }
}

template<class T>
static void shape_T(vh::Rng& r) {
    const std::string P = Tr<T>::px(), ty = std::string("(") + Tr<T>::nm() + ")";
    const T zero = T(0);
    auto arr = [&](int n, bool rnd) { if (!rnd) return iota<T>(n); base_array<T> x(n); for (int i = 0; i < n; ++i) x[i] = mk<T>(r.range(-50, 50)); return x; };
    // ---- upsample / downsample: all factors and phases for n <= 12 (+ out-of-range arguments -> exception)
    for (int n = 1; n <= 12; ++n) {
        const base_array<T> x = iota<T>(n);
        for (int f = -1; f <= n + 2; ++f)
            for (int ph = -1; ph <= std::max(f, 1); ++ph) {
                const auto jsn = [&] { return WA("upsample/downsample", x, {f, ph}); };
                vh::set_current("C17:crash:updown" + ty, jsn());
                const bool valid = f > 0 && ph >= 0 && ph < f;
                std::string su, sd;
                bool tu = false, td = false;
                base_array<T> u, d;
                try { u = dsplib::upsample(x, f, ph); } catch (const std::exception&) { tu = true; }
                try { d = dsplib::downsample(x, f, ph); } catch (const std::exception&) { td = true; }
                out.corr(P + "upsample " + I(f) + " " + I(ph) + " " + vh::hxs(x), tu ? "ERR" : vh::hxs(u));
                out.corr(P + "downsample " + I(f) + " " + I(ph) + " " + vh::hxs(x), td ? "ERR" : vh::hxs(d));
                if (!valid) { xchk("updown-invalid-throws" + ty, tu && td, jsn); vh::clear_current(); continue; }
                if (!xchk("updown-valid-nothrow" + ty, !tu && !td, jsn)) { vh::clear_current(); continue; }
                std::vector<T> eu(size_t(n) * f, zero), ed;
                for (int i = 0; i < n; ++i) eu[size_t(i) * f + ph] = x[i];
                for (int k = ph; k < n; k += f) ed.push_back(x[k]);
                xchk("upsample-value" + ty, eqarr(u, eu), jsn);
                if (ph < n) xchk("downsample-value" + ty, eqarr(d, ed), jsn);
                else { out.stat("downsample_phase_ge_length_outside_quantifier"); if (d.size() != 0) out.stat("downsample_phase_ge_length_nonempty_result"); }
                // inverse pair: downsample(upsample(x, f, ph), f, ph) = x
                base_array<T> back = dsplib::downsample(u, f, ph);
                xchk("roundtrip-downsample-upsample" + ty, eqarr(back, x.to_vec()), jsn);
                out.stat("updown_exhaustive_cases");
                vh::clear_current();
            }
    }
    // random long arrays
    for (int it = 0; it < (g_thorough ? 400 : 40); ++it) {
        const int n = r.range(13, 1000), f = r.range(1, std::min(n - 1, it % 2 ? 40 : n - 1)), ph = r.range(0, f - 1);
        const base_array<T> x = arr(n, true);
        const auto jsn = [&] { return WA("upsample/downsample", x, {f, ph}); };
        vh::set_current("C17:crash:updown-long" + ty, jsn());
        const base_array<T> u = dsplib::upsample(x, f, ph), d = dsplib::downsample(x, f, ph);
        std::vector<T> eu(size_t(n) * f, zero), ed;
        for (int i = 0; i < n; ++i) eu[size_t(i) * f + ph] = x[i];
        for (int k = ph; k < n; k += f) ed.push_back(x[k]);
        xchk("upsample-value" + ty, eqarr(u, eu), jsn);
        xchk("downsample-value" + ty, eqarr(d, ed), jsn);
        xchk("roundtrip-downsample-upsample" + ty, eqarr(dsplib::downsample(u, f, ph), x.to_vec()), jsn);
        if (it < 6) out.corr(P + "downsample " + I(f) + " " + I(ph) + " " + vh::hxs(x), vh::hxs(d));
        vh::clear_current();
    }
    // ---- repelem, flip, zeropad, delayseq
    std::vector<int> lens;
    for (int n = 0; n <= 16; ++n) lens.push_back(n);
    for (int i = 0; i < (g_thorough ? 60 : 8); ++i) lens.push_back(r.range(17, 1000));
    for (int n : lens) {
        const base_array<T> x = arr(n, n > 16);
        const bool corr = n <= 16 || n % 7 == 0;
        for (int k = 0; k <= (n <= 16 ? 5 : 3); ++k) {
            const auto jsn = [&] { return WA("repelem", x, {k}); };
            vh::set_current("C17:crash:repelem" + ty, jsn());
            const base_array<T> g = dsplib::repelem(x, k);
            std::vector<T> e;
            for (int i = 0; i < n; ++i) for (int j = 0; j < k; ++j) e.push_back(x[i]);
            xchk("repelem-value" + ty, eqarr(g, e), jsn);
            if (corr) out.corr(P + "repelem " + I(k) + " " + vh::hxs(x), vh::hxs(g));
            vh::clear_current();
        }
        {
            const auto jsn = [&] { return WA("flip", x); };
            const base_array<T> g = dsplib::flip(x);
            std::vector<T> e(x.to_vec());
            std::reverse(e.begin(), e.end());
            xchk("flip-value" + ty, eqarr(g, e), jsn);
            if (corr) out.corr(P + "flip " + vh::hxs(x), vh::hxs(g));
        }
        for (int m = std::max(0, n - 2); m <= n + (n <= 16 ? 5 : 300); m += (n <= 16 ? 1 : 151)) {
            const auto jsn = [&] { return WA("zeropad", x, {m}); };
            vh::set_current("C17:crash:zeropad" + ty, jsn());
            bool thrown = false;
            base_array<T> g;
            try { g = dsplib::zeropad(x, m); } catch (const std::exception&) { thrown = true; }
            if (m < n) xchk("zeropad-short-throws" + ty, thrown, jsn);
            else {
                std::vector<T> e(x.to_vec());
                e.resize(m, zero);
                xchk("zeropad-value" + ty, !thrown && eqarr(g, e), jsn);
            }
            if (corr) out.corr(P + "zeropad " + I(m) + " " + vh::hxs(x), thrown ? "ERR" : vh::hxs(g));
            vh::clear_current();
        }
    }
}

// delayseq: real arrays (the complex instantiation does not compile: zeros(N) is arr_real)
static void shape_delayseq(vh::Rng& r) {
    std::vector<int> lens;
    for (int n = 0; n <= 14; ++n) lens.push_back(n);
    for (int i = 0; i < (g_thorough ? 40 : 6); ++i) lens.push_back(r.range(15, 1000));
    for (int n : lens) {
        arr_real x(n);
        for (int i = 0; i < n; ++i) x[i] = n <= 14 ? 1.0 + i : double(r.range(-50, 50)) + 0.5;
        std::vector<int> ds;
        if (n <= 14) for (int d = -n - 2; d <= n + 2; ++d) ds.push_back(d);
        else ds = {0, 1, -1, n - 1, -(n - 1), n, -n, n + 5, r.range(-n, n), r.range(-n, n), r.range(-n, n)};
        for (int d : ds) {
            const auto jsn = [&] { return WA("delayseq", x, {d}); };
            vh::set_current("C17:crash:delayseq", jsn());
            arr_real g;
            bool thrown = false;
            try { g = dsplib::delayseq(x, d); } catch (const std::exception&) { thrown = true; }
            if (!xchk("delayseq-nothrow", !thrown, jsn)) { out.corr("delayseq " + I(d) + " " + vh::hxs(x), "ERR"); vh::clear_current(); continue; }
            std::vector<double> e(n, 0.0);
            for (int i = 0; i < n; ++i) { const long long j = (long long)i - d; if (j >= 0 && j < n) e[i] = x[int(j)]; }
            xchk("delayseq-value", eqarr(g, e), jsn);
            if (n <= 14 || d % 3 == 0) out.corr("delayseq " + I(d) + " " + vh::hxs(x), vh::hxs(g));
            vh::clear_current();
        }
    }
}

static void shape_arange_linspace(vh::Rng& r) {
    // ---- integer arange: every start/stop/step in [-12, 12]
    for (int a = -12; a <= 12; ++a)
        for (int b = -12; b <= 12; ++b)
            for (int s = -12; s <= 12; ++s) {
                const auto jsn = [&] { return W("arange(int)", {}, {a, b, s}); };
                vh::set_current("C17:crash:arange-int", jsn());
                bool thrown = false;
                arr_real g;
                try { g = dsplib::arange(a, b, s); } catch (const std::exception&) { thrown = true; }
                out.corr("arange " + I(a) + " " + I(b) + " " + I(s), thrown ? "ERR" : vh::hxs(g));
                if (s == 0) { xchk("arange-int-step0-throws", thrown, jsn); vh::clear_current(); continue; }
                std::vector<double> e;
                for (int k = 0; s > 0 ? (a + k * s < b) : (a + k * s > b); ++k) e.push_back(a + k * s);
                xchk("arange-int-value", !thrown && eqarr(g, e), jsn);
                out.stat(e.empty() ? "arange_int_empty" : "arange_int_nonempty");
                if (s == 1 && a == 0) {
                    bool t1 = false; arr_real g1;
                    try { g1 = dsplib::arange(b); } catch (const std::exception&) { t1 = true; }
                    xchk("arange-int1-value", !t1 && eqarr(g1, e), jsn);
                }
                if (s == 1) {
                    bool t2 = false; arr_real g2;
                    try { g2 = dsplib::arange(a, b); } catch (const std::exception&) { t2 = true; }
                    xchk("arange-int2-value", !t2 && eqarr(g2, e), jsn);
                }
                vh::clear_current();
            }
    // larger integer arguments (lengths up to 1000)
    for (int it = 0; it < (g_thorough ? 3000 : 300); ++it) {
        const int s = (r.coin() ? 1 : -1) * r.range(1, it % 3 ? 50 : 100000);
        const int cnt = r.range(0, 1000);
        const int a = r.range(-1000000, 1000000);
        const int sg = s > 0 ? 1 : -1;
        const int b = cnt > 0 ? a + cnt * s - sg * r.range(0, std::abs(s) - 1) : a - sg * r.range(0, 5);
        const auto jsn = [&] { return W("arange(int)", {}, {a, b, s}); };
        bool thrown = false; arr_real g;
        try { g = dsplib::arange(a, b, s); } catch (const std::exception&) { thrown = true; }
        std::vector<double> e;
        for (long long k = 0; s > 0 ? (a + k * s < b) : (a + k * s > b); ++k) e.push_back(double(a + k * s));
        xchk("arange-int-value", !thrown && eqarr(g, e), jsn);
        if (it % 10 == 0) out.corr("arange " + I(a) + " " + I(b) + " " + I(s), thrown ? "ERR" : vh::hxs(g));
    }
    // ---- fractional arange with integral count: dyadic steps (exact) and decimal steps
    const double dy[] = {0.5, 0.25, 0.125, 1.5, 2.0, 0.0625, 3.0, 1.0, 0.75, 1024.0, 9.5367431640625e-07};
    const double dc[] = {0.1, 0.2, 0.3, 0.7, 1e-3, 0.01, 1.1, 2.5e-7, 3.3, 1e10 / 3, 1e-100, 1e100 / 7, 6.02e23};
    for (int it = 0; it < (g_thorough ? 6000 : 900); ++it) {
        const bool dyadic = it % 2 == 0;
        double s = dyadic ? dy[r.range(0, 10)] : dc[r.range(0, 12)];
        if (r.coin()) s = -s;
        const int cnt = it < 60 ? it % 20 : r.range(0, 1000);
        const double a = (it % 5 == 0) ? 0.0 : double(r.range(-2000, 2000)) * std::fabs(s) * (dyadic ? 1.0 : 0.5);
        const double b = a + cnt * s;
        const auto jsn = [&] { return W("arange(frac)", {a, b, s}, {cnt}); };
        vh::set_current("C17:crash:arange-frac", jsn());
        // the count must be integral as a double quotient within rounding; otherwise the case is outside the quantifier
        const ld q = ((ld)b - (ld)a) / (ld)s;
        if (fabsl(q - cnt) > 1e-9L) { out.stat("arange_frac_skipped_nonintegral"); vh::clear_current(); continue; }
        bool thrown = false; arr_real g;
        try { g = dsplib::arange(a, b, s); } catch (const std::exception&) { thrown = true; }
        if (xchk("arange-frac-shape", !thrown && g.size() == cnt, jsn)) {
            const ld sc = std::max(fabsl((ld)a), fabsl((ld)b));
            for (int i = 0; i < cnt; ++i) vchk("arange-frac-value", 8, g[i], (ld)a + (ld)i * (ld)s, sc, jsn);
            // strictly before stop
            bool before = true;
            for (int i = 0; i < cnt; ++i) if (!(s > 0 ? g[i] < b : g[i] > b)) before = false;
            if (dyadic) xchk("arange-frac-before-stop", before, jsn);
        }
        if (it % 4 <= 1 && cnt <= 40) out.corr("farange " + hx(a) + " " + hx(b) + " " + hx(s), thrown ? "ERR" : vh::hxs(g));
        if (it % 25 == 0 && cnt > 0 && dyadic && std::fabs(s) >= 0.0625 && std::fabs(s) <= 4) {   // mixed int/double overloads of the template
            const int ia = r.range(-20, 20);
            arr_real g2 = dsplib::arange(ia, ia + cnt * s, s);
            bool ok = g2.size() == cnt;
            for (int i = 0; ok && i < cnt; ++i) ok = fabsl((ld)g2[i] - ((ld)ia + (ld)i * s)) <= 8 * EPS * std::max(fabsl((ld)ia), fabsl((ld)ia + (ld)cnt * s));
            xchk("arange-frac-mixed-value", ok, [&] { return W("arange(int,double,double)", {double(ia), ia + cnt * s, s}); });
        }
        vh::clear_current();
        out.stat(dyadic ? "arange_frac_dyadic" : "arange_frac_decimal");
    }
    {   // arange(real stop) = 0, 1, ..., stop-1
        for (int n = 0; n <= 20; ++n) {
            arr_real g = dsplib::arange(double(n));
            bool ok = g.size() == n;
            for (int i = 0; ok && i < n; ++i) ok = g[i] == i;
            xchk("arange-real1-value", ok, [&] { return W("arange(real)", {double(n)}); });
        }
    }
    // ---- linspace: n = 1..100
    for (int n = 0; n <= 100; ++n)
        for (int it = 0; it < (g_thorough ? 60 : 10); ++it) {
            double x1, x2;
            switch (it) {
            case 0: x1 = 0; x2 = 1; break;
            case 1: x1 = -1; x2 = 1; break;
            case 2: x1 = 1; x2 = -1; break;
            case 3: x1 = 5; x2 = 5; break;
            case 4: x1 = 0; x2 = double(n > 1 ? n - 1 : 1); break;
            case 5: x1 = -0.0; x2 = 0.0; break;
            default: x1 = rsg(r); x2 = it % 2 ? rsg(r) : x1 * (1 + r.sym()); break;
            }
            const auto jsn = [&] { return W("linspace", {x1, x2}, {n}); };
            vh::set_current("C17:crash:linspace", jsn());
            bool thrown = false; arr_real g;
            try { g = dsplib::linspace(x1, x2, size_t(n)); } catch (const std::exception&) { thrown = true; }
            if (it < 8 || it % 8 == 0) out.corr("linspace " + hx(x1) + " " + hx(x2) + " " + I(n), thrown ? "ERR" : vh::hxs(g));
            if (n == 0) { xchk("linspace-n0-throws", thrown, jsn); vh::clear_current(); continue; }
            if (xchk("linspace-shape", !thrown && g.size() == n, jsn)) {
                const ld sc = std::max(fabsl((ld)x1), fabsl((ld)x2));
                for (int i = 0; i < n; ++i) {
                    const ld ref = n == 1 ? (ld)x2 : (ld)x1 + (ld)i * (((ld)x2 - (ld)x1) / (ld)(n - 1));
                    vchk("linspace-value", 8, g[i], ref, sc, jsn);
                }
                // endpoints
                vchk("linspace-endpoint", 8, g[n - 1], x2, sc, jsn);
                if (n >= 2) xchk("linspace-first", samev(g[0], x1), jsn);
                if (n <= 2) xchk("linspace-last-exact", samev(g[n - 1], x2), jsn);
            }
            vh::clear_current();
            out.stat("linspace_cases");
        }
}

// =============================================================================== lifetime / aliasing / value category
// Every result must be BIT-identical to the result of the same call on equal but distinct deep copies of the operands.
static bool beq(double a, double b) { return std::memcmp(&a, &b, sizeof a) == 0; }
static bool beq(cmplx_t a, cmplx_t b) { return beq(a.re, b.re) && beq(a.im, b.im); }
static bool beq(int a, int b) { return a == b; }
template<class U> static bool beq(const base_array<U>& a, const base_array<U>& b) {
    if (a.size() != b.size()) return false;
    for (int i = 0; i < a.size(); ++i) if (!beq(a[i], b[i])) return false;
    return true;
}
template<class R> struct is_arr : std::false_type {};
template<class U> struct is_arr<base_array<U>> : std::true_type {};
static std::string rj(double v) { return "{\"hex\":\"" + hx(v) + "\",\"value\":" + vh::jnum(v) + "}"; }
static std::string rj(cmplx_t v) { return "{\"hex\":[\"" + hx(v.re) + "\",\"" + hx(v.im) + "\"],\"value\":[" + vh::jnum(v.re) + "," + vh::jnum(v.im) + "]}"; }
static std::string rj(int v) { return I(v); }
template<class U> static std::string rj(const base_array<U>& a) {
    std::string s = "{\"size\":" + I(a.size()) + ",\"head\":[";
    for (int i = 0; i < a.size() && i < 6; ++i) s += (i ? "," : "") + rj(a[i]);
    return s + "]}";
}
template<class R> static std::string diffj(const R& got, const R& exp) { return "\"got\":" + rj(got) + ",\"expected\":" + rj(exp); }
template<class U> static std::string diffj(const base_array<U>& got, const base_array<U>& exp) {
    int k = -1;
    for (int i = 0; i < got.size() && i < exp.size(); ++i) if (!beq(got[i], exp[i])) { k = i; break; }
    std::string s = "\"got\":" + rj(got) + ",\"expected\":" + rj(exp) + ",\"first_difference_at\":" + I(k);
    if (k >= 0) s += ",\"got_there\":" + rj(got[k]) + ",\"expected_there\":" + rj(exp[k]);
    return s;
}
template<class A, class R>
static std::string LW(const char* fn, const char* scen, const A& x, int cls, const R& got, const R& exp) {
    return std::string("{\"scenario\":\"") + scen + "\",\"reference\":\"same call on equal but distinct deep copies\",\"operand\":" + WA(fn, x, {}, cls) + "," + diffj(got, exp) + "}";
}
static long long g_lt_calls = 0;

#define FW std::forward<decltype(A)>(A)
#define FWB std::forward<decltype(B)>(B)
#define U1(expr) [&](auto&& A) { return (expr); }
#define U2(expr) [&](auto&& A, auto&& B) { return (expr); }

// one-array function `call(A)`: A is handed over in every value category
template<class T, class F>
static void lt_unary(const char* fn, const base_array<T>& x0, int cls, F&& call) {
    typedef base_array<T> AT;
    const int n = x0.size();
    const std::string base = std::string("lifetime:") + fn + "(" + Tr<T>::nm() + "):";
    const AT keep(x0);
    AT x(x0);
    const AT& cx = x;
    typedef std::decay_t<decltype(call(keep))> R;
    vh::set_current("C17:crash:" + base, WA(fn, x0, {}, cls));
    const R ref = call(keep);
    auto chk = [&](const char* scen, const R& got) {
        ++g_lt_calls;
        xchk(base + scen, beq(got, ref), [&] { return LW(fn, scen, x0, cls, got, ref); });
    };
    {
        const R r1 = call(cx);
        chk("named-operand", r1);
        xchk(base + "operand-modified", beq(x, x0) && beq(keep, x0), [&] { return LW(fn, "operand after the call", x0, cls, beq(x, x0) ? keep : x, x0); });
        if constexpr (is_arr<R>::value)
            xchk(base + "result-shares-storage-with-operand", r1.size() == 0 || (const void*)r1.data() != (const void*)x.data(),
                 [&] { return std::string("{\"operand\":") + WA(fn, x0, {}, cls) + "}"; });
        chk("named-operand-second-call", call(x));
    }
    chk("temporary-operand", call(AT(x)));
    { AT c(x); chk("moved-operand", call(std::move(c))); }
    chk("slice-of-itself", call(AT(x.slice(0, n))));
    chk("const-slice-of-itself", call(AT(cx.slice(0, n))));
    chk("slice-of-temporary", call(AT(AT(x).slice(0, n))));
    { const AT t(x + x); const R rn = call(t); ++g_lt_calls; xchk(base + "nested-expression-operand", beq(call(x + x), rn), [&] { return LW(fn, "f(x + x) vs t = x + x; f(t)", x0, cls, call(x + x), rn); }); }
    { const R& bound = call(AT(x)); chk("result-bound-to-const-ref", bound); }
    if constexpr (is_arr<R>::value) {
        int i = 0;
        bool ok = true;
        for (const auto& v : call(AT(x))) { ok = ok && i < ref.size() && beq(v, ref[i]); ++i; }
        ++g_lt_calls;
        xchk(base + "range-for-over-temporary-result", ok && i == ref.size(), [&] { return LW(fn, "range-for over f(temporary)", x0, cls, call(AT(x)), ref); });
    }
    if constexpr (std::is_same_v<R, AT>) {
        { AT a(x); a = call(a); chk("assigned-back-to-operand", a); }
        { AT a(x); a = call(std::move(a)); chk("assigned-back-to-moved-operand", a); }
        { AT a(x); a = call(AT(a.slice(0, n))); chk("assigned-back-from-slice-of-operand", a); }
        if (ref.size() == n) { AT a(x); a.slice(0, n) = call(a); chk("assigned-into-slice-of-operand", a); }
    }
    {   // the same object again after its contents changed (a result remembered per object identity would be stale)
        AT mk(x);
        std::reverse(mk.begin(), mk.end());
        mk[0] = mk[0] + mk[0];
        const R want = call(mk);
        AT m(x);
        (void)call(m);
        std::reverse(m.begin(), m.end());   // in place: same object, same storage, new contents; no other call in between
        m[0] = m[0] + m[0];
        const R got = call(m);
        ++g_lt_calls;
        xchk(base + "same-object-after-its-contents-changed", beq(got, want), [&] { return LW(fn, "f(m); modify m in place; f(m)", mk, cls, got, want); });
    }
    xchk(base + "operand-modified", beq(x, x0) && beq(keep, x0), [&] { return LW(fn, "operand after all calls", x0, cls, beq(x, x0) ? keep : x, x0); });
    vh::clear_current();
}

// two-array function `call(A, B)`; MISMATCH: sizes must agree (a shorter second operand throws)
template<bool MISMATCH, class TA, class TB, class F>
static void lt_binary(const char* fn, const base_array<TA>& x0, const base_array<TB>& y0, int cls, F&& call) {
    typedef base_array<TA> AT;
    typedef base_array<TB> BT;
    const int n = x0.size();
    const std::string base = std::string("lifetime:") + fn + "(" + Tr<TA>::nm() + "):";
    const AT kx(x0);
    const BT ky(y0);
    AT x(x0);
    BT y(y0);
    const AT& cx = x;
    const BT& cy = y;
    typedef std::decay_t<decltype(call(kx, ky))> R;
    vh::set_current("C17:crash:" + base, WA(fn, x0, {}, cls));
    const R ref = call(kx, ky);
    auto chkr = [&](const char* scen, const R& got, const R& want) {
        ++g_lt_calls;
        xchk(base + scen, beq(got, want), [&] { return LW(fn, scen, x0, cls, got, want); });
    };
    auto chk = [&](const char* scen, const R& got) { chkr(scen, got, ref); };
    {
        const R r1 = call(cx, cy);
        chk("named-operands", r1);
        xchk(base + "operand-modified", beq(x, x0) && beq(kx, x0), [&] { return LW(fn, "first operand after the call", x0, cls, beq(x, x0) ? kx : x, x0); });
        xchk(base + "second-operand-modified", beq(y, y0) && beq(ky, y0), [&] { return LW(fn, "second operand after the call", y0, cls, beq(y, y0) ? ky : y, y0); });
        if constexpr (is_arr<R>::value)
            xchk(base + "result-shares-storage-with-operand", r1.size() == 0 || ((const void*)r1.data() != (const void*)x.data() && (const void*)r1.data() != (const void*)y.data()),
                 [&] { return std::string("{\"operand\":") + WA(fn, x0, {}, cls) + "}"; });
    }
    chk("temporary-first", call(AT(x), y));
    chk("temporary-second", call(x, BT(y)));
    chk("temporary-both", call(AT(x), BT(y)));
    { AT c(x); BT d(y); chk("moved-operands", call(std::move(c), std::move(d))); }
    chk("slice-first", call(AT(x.slice(0, n)), y));
    chk("slice-second", call(x, BT(cy.slice(0, n))));
    { const R& bound = call(AT(x), BT(y)); chk("result-bound-to-const-ref", bound); }
    if constexpr (is_arr<R>::value) {
        int i = 0;
        bool ok = true;
        for (const auto& v : call(AT(x), BT(y))) { ok = ok && i < ref.size() && beq(v, ref[i]); ++i; }
        ++g_lt_calls;
        xchk(base + "range-for-over-temporary-result", ok && i == ref.size(), [&] { return LW(fn, "range-for over f(temporaries)", x0, cls, call(AT(x), BT(y)), ref); });
    }
    if constexpr (std::is_same_v<R, AT>) {
        { AT a(x); a = call(a, y); chk("assigned-back-to-first-operand", a); }
        { AT a(x); a = call(std::move(a), y); chk("assigned-back-to-moved-first-operand", a); }
        if (ref.size() == n) { AT a(x); a.slice(0, n) = call(a, y); chk("assigned-into-slice-of-first-operand", a); }
    }
    if constexpr (std::is_same_v<R, BT>) {
        { BT b(y); b = call(x, b); chk("assigned-back-to-second-operand", b); }
    }
    if constexpr (std::is_same_v<TA, TB>) {
        // ---- the SAME OBJECT for both parameters; reference: two equal but distinct deep copies
        const AT k2(x0);
        const R refs = call(kx, k2);
        chkr("same-object-for-both-parameters", call(x, x), refs);
        chkr("same-const-object-for-both-parameters", call(cx, cx), refs);
        { const AT& alias = x; chkr("object-and-reference-to-it", call(alias, x), refs); }
        chkr("object-and-slice-of-itself", call(x, AT(x.slice(0, n))), refs);
        chkr("slice-of-itself-and-object", call(AT(cx.slice(0, n)), x), refs);
        chkr("object-and-temporary-copy", call(x, AT(x)), refs);
        chkr("temporary-copy-and-object", call(AT(x), x), refs);
        if constexpr (std::is_same_v<R, AT>) {
            { AT a(x); a = call(a, a); chkr("same-object-assigned-back", a, refs); }
            if (refs.size() == n) { AT a(x); a.slice(0, n) = call(a, a); chkr("same-object-assigned-into-its-slice", a, refs); }
        }
        // overlapping slices of ONE object vs. distinct arrays with the same contents
        if (n >= 3) {
            const int m = n - n / 3;
            const AT lo(kx.slice(0, m)), hi(kx.slice(n - m, n));
            const R refo = call(lo, hi);
            chkr("overlapping-slices-of-one-object", call(AT(x.slice(0, m)), AT(x.slice(n - m, n))), refo);
            if constexpr (std::is_same_v<R, AT>)
                if (refo.size() == m) { AT a(x); a.slice(0, m) = call(AT(a.slice(0, m)), AT(a.slice(n - m, n))); AT e(x); e.slice(0, m) = refo; chkr("overlapping-slices-result-into-operand", a, e); }
        }
    }
    if constexpr (MISMATCH) {
        // a rejected call in the history: every later valid call behaves as if it never happened
        if (n >= 2) {
            bool t1 = false, t2 = false;
            try { (void)call(x, BT(cy.slice(0, n - 1))); } catch (const std::exception&) { t1 = true; }
            try { (void)call(AT(cx.slice(1, n)), y); } catch (const std::exception&) { t2 = true; }
            xchk(base + "size-mismatch-throws", t1 && t2, [&] { return std::string("{\"operand\":") + WA(fn, x0, {}, cls) + ",\"sizes\":[" + I(n) + "," + I(n - 1) + "]}"; });
            chk("after-rejected-call", call(x, y));
            if constexpr (std::is_same_v<TA, TB>) { const AT k2(x0); chkr("same-object-after-rejected-call", call(x, x), call(kx, k2)); }
            out.stat("lifetime_rejected_calls", 2);
        }
    }
    {   // the same two objects again after their contents changed in place (no other call in between)
        AT mx(x); BT my(y);
        std::reverse(mx.begin(), mx.end()); std::reverse(my.begin(), my.end());
        mx[0] = mx[0] + mx[0];
        const R want = call(mx, my);
        AT a(x); BT b(y);
        (void)call(a, b);
        std::reverse(a.begin(), a.end()); std::reverse(b.begin(), b.end());
        a[0] = a[0] + a[0];
        chkr("same-objects-after-their-contents-changed", call(a, b), want);
    }
    xchk(base + "operand-modified", beq(x, x0) && beq(kx, x0), [&] { return LW(fn, "first operand after all calls", x0, cls, beq(x, x0) ? kx : x, x0); });
    xchk(base + "second-operand-modified", beq(y, y0) && beq(ky, y0), [&] { return LW(fn, "second operand after all calls", y0, cls, beq(y, y0) ? ky : y, y0); });
    vh::clear_current();
}

template<class T> static base_array<T> genT(vh::Rng& r, int n, int cls, double lim);
template<> arr_real genT<real_t>(vh::Rng& r, int n, int cls, double lim) { return gen_real(r, n, cls, lim); }
template<> arr_cmplx genT<cmplx_t>(vh::Rng& r, int n, int cls, double lim) { return gen_cmplx(r, n, cls, lim); }

// a valid call, a rejected call with the same operand, the valid call again
template<class A, class V, class B>
static void after_reject(const std::string& key, const A& x, V&& valid, B&& bad) {
    const auto r1 = valid();
    bool thrown = false;
    try { bad(); } catch (const std::exception&) { thrown = true; }
    const auto r2 = valid();
    xchk("lifetime:" + key + ":rejected-call-throws", thrown, [&] { return WA(key.c_str(), x); });
    xchk("lifetime:" + key + ":after-rejected-call", beq(r1, r2), [&] { return LW(key.c_str(), "valid call, rejected call, valid call again", x, -1, r2, r1); });
    out.stat("lifetime_rejected_calls");
}

template<class T>
static void lifetime_T(vh::Rng& r, int n, int cls, bool corr) {
    typedef base_array<T> AT;
    const AT x = genT<T>(r, n, cls, 30), y = genT<T>(r, n, cls == 7 ? 1 : cls, 30);
    // ---- reductions
    lt_unary("sum", x, cls, U1(dsplib::sum(FW)));
    lt_unary("mean", x, cls, U1(dsplib::mean(FW)));
    lt_unary("rms", x, cls, U1(dsplib::rms(FW)));
    if (n >= 2) lt_unary("stddev", x, cls, U1(dsplib::stddev(FW)));
    for (int p : {1, 2, 3}) lt_unary("norm", x, cls, U1(dsplib::norm(FW, p)));
    lt_unary("max", x, cls, U1(dsplib::max(FW)));
    lt_unary("min", x, cls, U1(dsplib::min(FW)));
    lt_unary("argmax", x, cls, U1(dsplib::argmax(FW)));
    lt_unary("argmin", x, cls, U1(dsplib::argmin(FW)));
    lt_unary("peak2peak", x, cls, U1(dsplib::peak2peak(FW)));
    lt_unary("cumsum", x, cls, U1(dsplib::cumsum(FW)));
    lt_unary("cumsum-reverse", x, cls, U1(dsplib::cumsum(FW, Direction::Reverse)));
    // ---- element-wise
    lt_unary("abs", x, cls, U1(dsplib::abs(FW)));
    lt_unary("round", x, cls, U1(dsplib::round(FW)));
    lt_unary("exp", x, cls, U1(dsplib::exp(FW)));
    lt_unary("tanh", x, cls, U1(dsplib::tanh(FW)));
    lt_unary("conj", x, cls, U1(dsplib::conj(FW)));
    lt_unary("abs2", x, cls, U1(dsplib::abs2(FW)));
    lt_unary("power(vec,real)", x, cls, U1(dsplib::power(FW, 3.0)));
    for (int k : {-1, 0, 1, 2, 3}) lt_unary("power(vec,int)", x, cls, U1(dsplib::power(FW, k)));
    // ---- shape
    lt_unary("flip", x, cls, U1(dsplib::flip(FW)));
    for (int k : {0, 1, 2}) lt_unary("repelem", x, cls, U1(dsplib::repelem(FW, k)));
    lt_unary("upsample-1", x, cls, U1(dsplib::upsample(FW, 1, 0)));
    lt_unary("upsample", x, cls, U1(dsplib::upsample(FW, 3, 1)));
    lt_unary("downsample-1", x, cls, U1(dsplib::downsample(FW, 1, 0)));
    lt_unary("downsample", x, cls, U1(dsplib::downsample(FW, 2, 1)));
    lt_unary("zeropad-same", x, cls, U1(dsplib::zeropad(AT(FW), n)));
    lt_unary("zeropad", x, cls, U1(dsplib::zeropad(AT(FW), n + 3)));
    after_reject(std::string("upsample(") + Tr<T>::nm() + ")", x, [&] { return dsplib::upsample(x, 3, 1); }, [&] { (void)dsplib::upsample(x, 0, 0); });
    after_reject(std::string("downsample(") + Tr<T>::nm() + ")", x, [&] { return dsplib::downsample(x, 2, 1); }, [&] { (void)dsplib::downsample(x, 2, 2); });
    after_reject(std::string("zeropad(") + Tr<T>::nm() + ")", x, [&] { return dsplib::zeropad(x, n + 3); }, [&] { (void)dsplib::zeropad(x, n - 1); });
    // ---- two arrays of the same type
    lt_binary<true>("dot", x, y, cls, U2(dsplib::dot(FW, FWB)));
    if (corr) { out.corr(std::string(Tr<T>::px()) + "dot " + vh::hxs(x) + " " + vh::hxs(x), hv(dsplib::dot(x, x))); }
    if constexpr (!is_complex_v<T>) {
        AT xp(n);   // positive version for the logarithms
        for (int i = 0; i < n; ++i) xp[i] = x[i] == 0 ? 1.0 : std::fabs(x[i]);
        lt_unary("expj", x, cls, U1(dsplib::expj(FW)));
        lt_unary("log", xp, cls, U1(dsplib::log(FW)));
        lt_unary("log2", xp, cls, U1(dsplib::log2(FW)));
        lt_unary("log10", xp, cls, U1(dsplib::log10(FW)));
        lt_unary("pow2db", xp, cls, U1(dsplib::pow2db(FW)));
        lt_unary("mag2db", xp, cls, U1(dsplib::mag2db(FW)));
        lt_unary("db2pow", x, cls, U1(dsplib::db2pow(FW)));
        lt_unary("db2mag", x, cls, U1(dsplib::db2mag(FW)));
        lt_unary("deg2rad", x, cls, U1(dsplib::deg2rad(FW)));
        lt_unary("rad2deg", x, cls, U1(dsplib::rad2deg(FW)));
        lt_unary("complex(re)", x, cls, U1(dsplib::complex(FW)));
        lt_unary("power(real,vec)", x, cls, U1(dsplib::power(2.0, FW)));
        lt_unary("power(cmplx,vec)", x, cls, U1(dsplib::power(cmplx_t{0.5, -1.5}, FW)));
        for (int d : {0, 2, -1, n, -n}) lt_unary("delayseq", x, cls, U1(dsplib::delayseq(AT(FW), d)));
        lt_binary<true>("complex(re,im)", x, y, cls, U2(dsplib::complex(FW, FWB)));
        if (corr) out.corr("v.complex " + vh::hxs(x) + " " + vh::hxs(x), vh::hxs(dsplib::complex(x, x)));
        {   // complex(x, x): re = im = x
            const arr_cmplx c = dsplib::complex(x, x);
            bool ok = c.size() == n;
            for (int i = 0; ok && i < n; ++i) ok = beq(c[i].re, x[i]) && beq(c[i].im, x[i]);
            xchk("complex-same-object-value", ok, [&] { return WA("complex(x,x) [same object]", x, {}, cls); });
        }
        // vec .^ vec with in-domain operands: positive bases or negative integers, the SAME array as base and exponent included
        AT b(n), e(n);
        for (int i = 0; i < n; ++i) {
            const int k = r.range(0, 9);
            b[i] = k == 0 ? -double(r.range(1, 6)) : k == 1 ? double(r.range(0, 4)) : k == 2 ? 0.5 : rmag(r, -2, 1.4);
            e[i] = b[i] < 0 ? double(r.range(-6, 6)) : b[i] == 0 ? double(r.range(0, 8)) : -8 + 16 * r.unit();
        }
        lt_binary<true>("power(vec,vec)", b, e, cls, U2(dsplib::power(FW, FWB)));
        {
            const AT pbb = dsplib::power(b, b), pbe = dsplib::power(b, e);
            if (shape("power(vec,vec)", pbb, n) && shape("power(vec,vec)", pbe, n))
                for (int i = 0; i < n; ++i) {
                    if (dom_rpow(b[i], b[i])) ck_rpow("power(vec,vec)-same-object", b[i], b[i], pbb[i]);
                    if (dom_rpow(b[i], e[i])) ck_rpow("power(vec,vec)", b[i], e[i], pbe[i]);
                }
            if (corr) { out.corr("v.rpow_vv " + vh::hxs(b) + " " + vh::hxs(b), vh::hxs(pbb)); out.corr("v.rpow_vv " + vh::hxs(b) + " " + vh::hxs(e), vh::hxs(pbe)); }
        }
    } else {
        lt_unary("angle", x, cls, U1(dsplib::angle(FW)));
        lt_unary("real", x, cls, U1(dsplib::real(FW)));
        lt_unary("imag", x, cls, U1(dsplib::imag(FW)));
        arr_real e(n);
        for (int i = 0; i < n; ++i) e[i] = r.range(0, 3) == 0 ? double(r.range(0, 8)) : 8 * r.unit();
        lt_binary<true>("power(cvec,vec)", x, e, cls, U2(dsplib::power(FW, FWB)));
    }
    out.stat(std::string("lifetime_arrays_") + Tr<T>::nm());
}

static void lifetime(vh::Rng& r) {
    std::vector<int> lens = {1, 2, 3, 4, 7, 8, 9, 16, 33, 64, 257, 1000};
    if (g_thorough) { for (int n = 5; n <= 48; ++n) lens.push_back(n); for (int n : {100, 255, 256, 511, 512, 513, 999, 4096, 65537}) lens.push_back(n); }
    int rot = 0;
    for (int n : lens) {
        // quick: three content classes per length (rotating so that all appear), thorough: all of them (the extreme-scale class has its own sweep)
        for (int cls = 0; cls < NCLS; ++cls) {
            if (cls == CLS_EXTREME) continue;
            if (!g_thorough && (cls + rot) % 3 != 0 && n > 4) continue;
            const bool corr = n <= 16;
            lifetime_T<real_t>(r, n, cls, corr);
            lifetime_T<cmplx_t>(r, n, cls, corr);
        }
        ++rot;
    }
    // two-argument scalar templates with the same object twice
    for (double a : {0.0, -0.0, 1.5, -2.0, 1e100, -1e-100}) {
        const double c = a;
        xchk("lifetime:max2:same-object", beq(dsplib::max(a, a), dsplib::max(a, c)) && beq(dsplib::min(a, a), dsplib::min(a, c)) && dsplib::max(a, a) == a && dsplib::min(a, a) == a,
             [&] { return W("max/min(a,a) [same object]", {a}); });
    }
    out.stat("lifetime_calls_compared", g_lt_calls);
}

// =============================================================================== large single calls after smaller ones
static void large_frames(vh::Rng& r) {
    std::vector<int> sizes = {100, 65536, 131073};
    if (g_thorough) sizes = {100, 65535, 65536, 65537, 98304, 131072, 131073, 147456, 196608, 262145};
    for (int n : sizes) {
        vh::set_current("C17:crash:large-frame", std::string("{\"n\":") + I(n) + "}");
        // element-wise overloads: magnitudes 1e-30..1e30 (exp: +-700, dB: +-2900)
        arr_real X(n), P(n), E(n), D(n);
        arr_cmplx Z(n), ZE(n), ZT(n);
        for (int i = 0; i < n; ++i) {
            X[i] = rsg(r, -30, 30); P[i] = rmag(r, -30, 30); E[i] = 700 * r.sym(); D[i] = 2900 * r.sym();
            Z[i] = cmplx_t{rsg(r, -30, 30), rsg(r, -30, 30)};
            ZE[i] = cmplx_t{650 * r.sym(), rsg(r, -3, 3)};
            ZT[i] = cmplx_t{rsg(r, -3, 1), rsg(r, -3, 1)};
        }
        real_arrays(X, X, X, P, E, D, n <= 100 ? 2 : 0);
        {
            std::vector<cmplx_t> zt;
            for (int i = 0; i < n; ++i) if (dom_ctanh(ZT[i])) zt.push_back(ZT[i]);
            while (int(zt.size()) < n) zt.push_back(cmplx_t{0.25, -0.5});
            cmplx_arrays(Z, Z, ZE, AC(zt), n <= 100 ? 2 : 0);
        }
        // power overloads on n elements: positive bases 1e-8..1e8, exponents in [-8, 8]
        {
            arr_real b(n), e(n);
            for (int i = 0; i < n; ++i) { b[i] = rmag(r, -8, 8); e[i] = -8 + 16 * r.unit(); }
            const arr_real p1 = dsplib::power(b, e), p2 = dsplib::power(b, 2.5), p3 = dsplib::power(b, 3), p4 = dsplib::power(b, 2), p5 = dsplib::power(1.5, e);
            const arr_cmplx q1 = dsplib::power(Z, 2), q2 = dsplib::power(Z, 3), q3 = dsplib::power(Z, 0.5), q4 = dsplib::power(Z, e);
            if (shape("power(vec,vec)", p1, n) && shape("power(vec,real)", p2, n) && shape("power(vec,int)", p3, n) && shape("power(vec,int)", p4, n) && shape("power(real,vec)", p5, n) &&
                shape("power(cvec,int)", q1, n) && shape("power(cvec,int)", q2, n) && shape("power(cvec,real)", q3, n) && shape("power(cvec,vec)", q4, n))
                for (int i = 0; i < n; ++i) {
                    ck_rpow("power(vec,vec)", b[i], e[i], p1[i]); ck_rpow("power(vec,real)", b[i], 2.5, p2[i]); ck_rpow("power(vec,int)", b[i], 3, p3[i]);
                    ck_rpow("power(vec,int)", b[i], 2, p4[i]); ck_rpow("power(real,vec)", 1.5, e[i], p5[i]);
                    ck_cpowi("power(cvec,int)", Z[i], 2, q1[i]); ck_cpowi("power(cvec,int)", Z[i], 3, q2[i]); ck_cpow("power(cvec,real)", Z[i], 0.5, q3[i]);
                    if (dom_cpow(Z[i], e[i])) ck_cpow("power(cvec,vec)", Z[i], e[i], q4[i]);
                }
        }
        vh::clear_current();
        // reductions (every one of them, incl. cumsum in both directions, norm p = 1..8, dot with the same object)
        for (int cls : {1, 2}) {
            reductions<real_t>(gen_real(r, n, cls, 30), gen_real(r, n, cls, 30), cls, false, true);
            reductions<cmplx_t>(gen_cmplx(r, n, cls, 30), gen_cmplx(r, n, cls, 30), cls, false, true);
        }
        reductions<real_t>(gen_real(r, n, 7, 30), gen_real(r, n, 1, 30), 7, false, false);
        reductions<cmplx_t>(gen_cmplx(r, n, 7, 30), gen_cmplx(r, n, 1, 30), 7, false, false);
        // shape functions
        vh::set_current("C17:crash:large-frame-shape", std::string("{\"n\":") + I(n) + "}");
        {
            const auto jsn = [&] { return std::string("{\"fn\":\"shape functions on a large frame\",\"n\":") + I(n) + ",\"seed\":" + I((long long)g_seed) + "}"; };
            const arr_real fl = dsplib::flip(X), rp = dsplib::repelem(X, 2), zp = dsplib::zeropad(X, n + 5), up = dsplib::upsample(X, 3, 1), dn = dsplib::downsample(X, 3, 1),
                           d1 = dsplib::delayseq(X, 7), d2 = dsplib::delayseq(X, -7);
            const arr_cmplx cfl = dsplib::flip(Z), cup = dsplib::upsample(Z, 2, 1), cdn = dsplib::downsample(Z, 2, 1), crp = dsplib::repelem(Z, 3);
            bool ok = fl.size() == n && rp.size() == 2 * n && zp.size() == n + 5 && up.size() == 3 * n && dn.size() == (n - 1 - 1) / 3 + 1 && d1.size() == n && d2.size() == n &&
                      cfl.size() == n && cup.size() == 2 * n && cdn.size() == (n - 1 - 1) / 2 + 1 && crp.size() == 3 * n;
            xchk("large-frame-shape", ok, jsn);
            if (ok) {
                bool v = true;
                for (int i = 0; i < n && v; ++i) {
                    v = beq(fl[i], X[n - 1 - i]) && beq(rp[2 * i], X[i]) && beq(rp[2 * i + 1], X[i]) && beq(zp[i], X[i]) && beq(up[3 * i + 1], X[i]) && up[3 * i] == 0 && up[3 * i + 2] == 0 &&
                        (i < 7 ? d1[i] == 0 : beq(d1[i], X[i - 7])) && (i + 7 < n ? beq(d2[i], X[i + 7]) : d2[i] == 0) && (3 * i + 1 >= n || beq(dn[i], X[3 * i + 1])) &&
                        beq(cfl[i], Z[n - 1 - i]) && beq(cup[2 * i + 1], Z[i]) && cup[2 * i].re == 0 && cup[2 * i].im == 0 && (2 * i + 1 >= n || beq(cdn[i], Z[2 * i + 1])) &&
                        beq(crp[3 * i], Z[i]) && beq(crp[3 * i + 1], Z[i]) && beq(crp[3 * i + 2], Z[i]);
                }
                for (int i = n; i < n + 5; ++i) v = v && zp[i] == 0;
                xchk("large-frame-shape-values", v, jsn);
            }
            // generators of the same length
            const arr_real ar = dsplib::arange(0, n, 1), af = dsplib::arange(0.0, n * 0.25, 0.25), ls = dsplib::linspace(-1.0, 3.0, size_t(n));
            bool g = ar.size() == n && af.size() == n && ls.size() == n;
            for (int i = 0; g && i < n; ++i) g = ar[i] == i && af[i] == 0.25 * i && fabsl((ld)ls[i] - (-1.0L + (ld)i * (4.0L / (n - 1)))) <= 8 * EPS * 3;
            xchk("large-frame-generators", g, jsn);
        }
        vh::clear_current();
        out.stat("large_frames");
        out.stat("large_frame_elements", n);
    }
}

int main(int argc, char** argv) {
    vh::Args a(argc, argv);
    vh::install_guards();
    g_thorough = a.thorough;
    g_seed = a.seed;
    vh::Rng rng(a.seed);
    vh::watch(a.thorough ? 3000 : 600);
    // an exception escaping a call that must not throw is a failure of the case in flight; the other sections still run
    const std::pair<const char*, std::function<void()>> sections[] = {
        {"scalar", [&] { scalar_functions(rng); }},       {"reductions", [&] { reduction_sweep(rng); }},
        {"shape-real", [&] { shape_T<real_t>(rng); }},    {"shape-cmplx", [&] { shape_T<cmplx_t>(rng); }},
        {"delayseq", [&] { shape_delayseq(rng); }},       {"arange-linspace", [&] { shape_arange_linspace(rng); }},
        {"lifetime", [&] { lifetime(rng); }},             {"large", [&] { large_frames(rng); }}};
    // C17_ONLY=<comma separated section names>: run only these (the sanitizer configuration runs `lifetime,large`)
    const char* only_env = std::getenv("C17_ONLY");
    const std::string only = only_env ? std::string(",") + only_env + "," : std::string();
    for (auto& sec : sections) {
        if (!only.empty() && only.find(std::string(",") + sec.first + ",") == std::string::npos) continue;
        out.stat(std::string("section_run:") + sec.first);
        try { sec.second(); }
        catch (const std::exception& e) {
            out.fail(std::string("C17:unexpected-exception:") + sec.first, std::string("{\"in_flight\":\"") + vh::g_cur_key + "\",\"case\":" + (vh::g_cur_key[0] ? vh::g_cur_json : "{}") + "}");
            vh::clear_current();
        }
    }
    vh::unwatch();
    for (auto& kv : g_maxerr) out.stat("maxerr_centi_eps:" + kv.first, (long long)llroundl(std::min((ld)1e15, kv.second * 100)));
    out.sample(W("angle", {-1.0, -0.0}));
    out.sample(W("power(cmplx,int)", {0.0, 0.0}, {3}));
    out.sample(W("arange(int)", {}, {0, 4, 3}));
    out.sample(W("arange(int)", {}, {5, 0, 1}));
    out.sample(std::string("{\"fn\":\"rms\",\"x\":[3,4]}"));
    out.finish();
    return 0;
}
