// C16 — sorting, order statistics and rank correlation match their definitions.
//
// ORACLE (on the implementation only, long double / brute force):
//   sort          : values ordered, index vector a permutation, sorted[i] == x[idx[i]] (bitwise)
//   median        : middle order statistic found by counting (n <= 128) / by an independent stable sort; EXACT comparison
//   MedianFilter  : brute-force median of the last n samples of (init^n ++ stream), any framing; EXACT comparison;
//                   every OBJECT (copies, moves, banks, assignment) against the median of its own history
//   medfilt       : brute-force median of the centred, zero-padded window x[k-n/2 .. k+n2]; EXACT comparison
//   corr          : O(n^2) long-double definitions of Pearson r, Spearman rho, Kendall tau;
//                   symmetry, range, +-1 for strictly monotone (affine for Pearson) relations
// Inputs: content classes (order structure) x value classes (which doubles: 1-ulp clusters, 2^52 integers, denormals, +-0,
// scales 1e-300..1e300, powers of two), large single calls after small ones, failed calls in the history.
// CORR: a representative subset of every class goes to the Lean model (Model/Order.lean).
#include "common.hpp"
#include <algorithm>
#include <numeric>
#include <list>
#include <memory>
#include <type_traits>
using namespace dsplib;
typedef long double ld;
static vh::Out out;
static uint64_t g_seed = 1;

// ------------------------------------------------------------------------------------ data classes
enum Cls { DISTINCT = 0, REPEATED, SORTED, REVERSED, CONSTANT, SORTED_REP, REVERSED_REP, NEAR_SORTED, SAW, TWOVAL, NCLS };
static const char* cls_name(int c) {
    static const char* n[] = {"distinct", "repeated", "sorted", "reversed", "constant", "sorted_rep", "reversed_rep", "near_sorted", "saw", "twoval"};
    return n[c];
}

static std::vector<double> gen(vh::Rng& r, int n, int cls) {
    std::vector<double> x(n);
    switch (cls) {
    case DISTINCT: for (auto& v : x) v = r.gauss() * 3; break;
    case REPEATED: { const int k = r.range(1, 6); for (auto& v : x) v = double(r.range(-k, k)); break; }
    case SORTED: for (auto& v : x) v = r.gauss(); std::sort(x.begin(), x.end()); break;
    case REVERSED: for (auto& v : x) v = r.gauss(); std::sort(x.begin(), x.end()); std::reverse(x.begin(), x.end()); break;
    case CONSTANT: { const double c = r.coin() ? 0.0 : double(r.range(-4, 4)) + 0.5; for (auto& v : x) v = c; break; }
    case SORTED_REP: for (auto& v : x) v = double(r.range(-3, 3)); std::sort(x.begin(), x.end()); break;
    case REVERSED_REP: for (auto& v : x) v = double(r.range(-3, 3)); std::sort(x.begin(), x.end()); std::reverse(x.begin(), x.end()); break;
    case NEAR_SORTED:
        for (auto& v : x) v = r.gauss();
        std::sort(x.begin(), x.end());
        if (n >= 2) { const int i = r.range(0, n - 1), j = r.range(0, n - 1); std::swap(x[i], x[j]); }
        break;
    case SAW: { const int p = r.range(2, 9); for (int i = 0; i < n; ++i) x[i] = double(i % p) - 1.0; break; }
    case TWOVAL: { const double a = r.gauss(), b = r.gauss(); for (auto& v : x) v = r.coin() ? a : b; break; }
    }
    for (auto& v : x) if (v == 0) v = 0.0;   // no -0.0 in the CONTENT classes (the value classes v_denorm, v_zeros, v_mixscale have both zeros)
    return x;
}

// ------------------------------------------------------------------------------------ value classes
// The content classes above vary the ORDER structure (ties, runs, direction); the value classes vary WHICH doubles occur:
// every entry point only compares (<, !=) and, for an even window, averages two values, so the property holds for all of
// them and the oracles are exact.
//   ulp      : clusters of adjacent doubles (nextafter chains, 1..3 ulps wide) around 1..3 bases at any scale, mixed with exact
//              repeats; arrangements random / rising chain / falling chain / sawtooth of a chain
//   int52    : integers in [2^52, 2^53) (consecutive integers are consecutive doubles): offsets 0..7, top of the range,
//              jittered time stamps 2^52 + 3 i + (0..7) with outliers, mixed signs
//   denorm   : k * denorm_min, |k| <= 4, both zeros
//   zeros    : +0 / -0 mixed with +-denorm_min, +-DBL_MIN, +-1
//   scale    : one absolute scale of 1e-300, 1e-17, 1e-8, 1, 1e8, 1e100, 1e300 (continuous or a 7-level alphabet)
//   pow2     : exact powers of two 2^e, e from the denormal range to 2^1000, and their neighbours -2..+2 ulps (the spacing
//              of doubles changes at a power of two)
//   mixscale : every element at its own scale (huge and tiny in one window), exact repeats and zeros in between
enum VCls { V_ULP = 0, V_INT52, V_DENORM, V_ZEROS, V_SCALE, V_POW2, V_MIXSCALE, NVCLS };
static const char* vcls_name(int c) {
    static const char* n[] = {"v_ulp", "v_int52", "v_denorm", "v_zeros", "v_scale", "v_pow2", "v_mixscale"};
    return n[c];
}
static const double SCALES[7] = {1e-300, 1e-17, 1e-8, 1.0, 1e8, 1e100, 1e300};
static const double DMIN = 4.9406564584124654e-324, TWO52 = 4503599627370496.0;
static double step_ulp(double v, int k) {
    for (; k > 0; --k) v = std::nextafter(v, INFINITY);
    for (; k < 0; ++k) v = std::nextafter(v, -INFINITY);
    return v;
}
static std::vector<double> genv(vh::Rng& r, int n, int vcls) {
    std::vector<double> x(n);
    switch (vcls) {
    case V_ULP: {
        const int nb = r.range(1, 3), width = r.range(1, 3), arr = r.range(0, 5);
        double base[3];
        for (int b = 0; b < 3; ++b) base[b] = (r.coin() ? 1 : -1) * (0.5 + r.unit()) * SCALES[r.range(0, 6)];
        if (r.range(0, 5) == 0) base[0] = TWO52 * (r.coin() ? 1 : -1);
        if (arr <= 2) {   // random members of the clusters
            for (auto& v : x) v = step_ulp(base[r.range(0, nb - 1)], r.range(0, width));
        } else if (arr == 3 || arr == 4) {   // strictly rising / falling chain, 1 ulp per sample
            double v = base[0];
            for (int i = 0; i < n; ++i) { x[i] = v; v = std::nextafter(v, arr == 3 ? INFINITY : -INFINITY); }
        } else {   // sawtooth over a chain
            const int p = r.range(2, 9);
            for (int i = 0; i < n; ++i) x[i] = step_ulp(base[0], i % p);
        }
        break;
    }
    case V_INT52: {
        const int sub = r.range(0, 3);
        for (int i = 0; i < n; ++i) {
            switch (sub) {
            case 0: x[i] = TWO52 + double(r.range(0, 7)); break;
            case 1: x[i] = 2 * TWO52 - 1 - double(r.range(0, 7)); break;
            case 2: x[i] = TWO52 + 3.0 * i + double(r.range(0, 7)) + (r.range(0, 49) == 0 ? 1000.0 : 0.0); break;
            default: x[i] = (r.coin() ? 1 : -1) * (TWO52 + double(r.range(0, 3))); break;
            }
        }
        break;
    }
    case V_DENORM: {
        const int K = r.range(1, 4);
        for (auto& v : x) { const int k = r.range(-K, K); v = k == 0 ? (r.coin() ? 0.0 : -0.0) : k * DMIN; }
        break;
    }
    case V_ZEROS: {
        static const double tab[12] = {0.0, -0.0, 0.0, -0.0, 0.0, -0.0, DMIN, -DMIN, 2.2250738585072014e-308, -2.2250738585072014e-308, 1.0, -1.0};
        const int top = r.range(1, 11);   // 1: only the two zeros
        for (auto& v : x) v = tab[r.range(0, top)];
        break;
    }
    case V_SCALE: {
        const double S = SCALES[r.range(0, 6)];
        if (r.coin()) for (auto& v : x) v = r.gauss() * S;
        else for (auto& v : x) v = double(r.range(-3, 3)) * 0.37 * S;
        break;
    }
    case V_POW2: {
        static const int es[11] = {-1070, -1022, -500, -52, -1, 0, 1, 52, 53, 500, 1000};
        const int e = es[r.range(0, 10)], spread = r.range(0, 2);
        const bool both = r.coin();
        for (auto& v : x) v = step_ulp(std::ldexp((both && r.coin()) ? -1.0 : 1.0, e + r.range(0, spread)), r.range(-2, 2));
        break;
    }
    case V_MIXSCALE: {
        std::vector<double> pool(r.range(2, 12));
        for (auto& v : pool) v = r.gauss() * SCALES[r.range(0, 6)];
        for (auto& v : x) {
            const int c = r.range(0, 9);
            v = (c == 0) ? (r.coin() ? 0.0 : -0.0) : (c <= 4) ? pool[r.range(0, int(pool.size()) - 1)] : r.gauss() * SCALES[r.range(0, 6)];
        }
        break;
    }
    }
    return x;
}
// stream class for a window of length n: the stream is periodic with period P in {n-1, n, n+1}, except that every period
// moves each position by one ulp (all up / all down / a random direction per position): the sample that enters the window
// differs from the one that leaves (P = n) or from its neighbour across the window boundary only in the last bit
static std::vector<double> gen_boundary(vh::Rng& r, int len, int n) {
    const int P = std::max(1, n + r.range(-1, 1));
    std::vector<double> cur(P);
    const double S = SCALES[r.range(0, 6)];
    const int bm = r.range(0, 3);
    const double b0 = (bm == 3 ? TWO52 : (0.5 + r.unit()) * S) * (r.coin() ? 1 : -1);
    for (int j = 0; j < P; ++j) cur[j] = (bm == 0) ? r.gauss() * S : (bm == 1) ? double(r.range(-2, 2)) * S : step_ulp(b0, r.range(0, 2));
    const int mode = r.range(0, 2);
    std::vector<double> x(len);
    for (int k = 0; k < len; ++k) {
        const int j = k % P;
        x[k] = cur[j];
        const double dir = (mode == 0) ? INFINITY : (mode == 1) ? -INFINITY : (r.coin() ? INFINITY : -INFINITY);
        cur[j] = std::nextafter(cur[j], dir);
    }
    return x;
}

static arr_real to_arr(const std::vector<double>& v) {
    arr_real a(int(v.size()));
    for (size_t i = 0; i < v.size(); ++i) a[int(i)] = v[i];
    return a;
}
static std::string hxv(const std::vector<double>& v) {
    std::string s = std::to_string(v.size());
    for (double d : v) { s += " "; s += vh::hx(d); }
    return s;
}
static std::string jv(const std::vector<double>& v, size_t cap = 48) {
    std::string s = "[";
    for (size_t i = 0; i < v.size() && i < cap; ++i) { if (i) s += ","; s += vh::jnum(v[i]); }
    if (v.size() > cap) s += ",\"...\"";
    return s + "]";
}
static bool same_bits(double a, double b) { return std::memcmp(&a, &b, 8) == 0; }

// witness: generator coordinates (seed, case id, class, n) + the data itself when short
// class of a case by name: the content classes above (`cn`), the value classes below (`vcls_name`), or a scenario name
static std::string cn(int cls) { return cls >= 0 ? cls_name(cls) : "explicit"; }
static std::string wit(const char* op, long long caseid, const std::string& cls, const std::vector<double>& x, const std::string& extra = "") {
    std::string s = std::string("{\"op\":\"") + op + "\",\"seed\":" + std::to_string(g_seed) + ",\"case\":" + std::to_string(caseid) +
                    ",\"cls\":\"" + cls + "\",\"n\":" + std::to_string(x.size());
    if (!extra.empty()) s += "," + extra;
    s += ",\"x\":" + jv(x) + "}";
    return s;
}

// ------------------------------------------------------------------------------------ sort
static void chk_sort(const std::vector<double>& xv, bool ascend, bool corr, long long caseid, const std::string& cls) {
    const int n = int(xv.size());
    const arr_real x = to_arr(xv);
    const std::string w = wit("sort", caseid, cls, xv, std::string("\"ascend\":") + (ascend ? "1" : "0"));
    vh::set_current("C16:crash:sort", w);
    const auto res = sort(x, ascend ? Direction::Ascend : Direction::Descend);
    vh::clear_current();
    const arr_real& s = res.first;
    const arr_int& idx = res.second;
    out.n_oracle++;
    out.stat("sort_" + cls);
    if (s.size() != n || idx.size() != n) { out.fail("C16:sort-size", w); return; }
    std::vector<char> seen(n, 0);
    bool perm = true, gather = true, order = true;
    for (int i = 0; i < n; ++i) {
        const int j = idx[i];
        if (j < 0 || j >= n || seen[j]) { perm = false; break; }
        seen[j] = 1;
        if (!same_bits(s[i], xv[j])) gather = false;
    }
    for (int i = 1; i < n; ++i)
        if (ascend ? !(s[i - 1] <= s[i]) : !(s[i - 1] >= s[i])) order = false;
    if (!perm) out.fail("C16:sort-index-not-permutation", w);
    if (perm && !gather) out.fail("C16:sort-gather", w);
    if (!order) out.fail("C16:sort-order", w);
    bool input_sorted = true;
    for (int i = 1; i < n; ++i) if (ascend ? xv[i] < xv[i - 1] : xv[i] > xv[i - 1]) input_sorted = false;
    out.stat(input_sorted ? "sort_path_already_sorted" : "sort_path_std_sort");
    if (corr) {
        std::vector<double> sv(n);
        for (int i = 0; i < n; ++i) sv[i] = s[i];
        out.corr(std::string("sort ") + (ascend ? "1 " : "0 ") + hxv(xv), hxv(sv));
    }
}
static void chk_sort(const std::vector<double>& xv, bool ascend, bool corr, long long caseid, int cls) { chk_sort(xv, ascend, corr, caseid, cn(cls)); }

// ------------------------------------------------------------------------------------ median
// k-th order statistic (0-based) by counting: v with #{< v} <= k < #{<= v}
static ld order_stat_count(const std::vector<double>& x, int k) {
    for (double v : x) {
        int lt = 0, le = 0;
        for (double u : x) { lt += (u < v); le += (u <= v); }
        if (lt <= k && k < le) return v;
    }
    return std::nanl("");
}
// The two middle order statistics a = s[n/2], b = s[(n-1)/2] are values OF THE INPUT, so they are known exactly.
// The median is a itself for odd n (no arithmetic at all) and the mean of a and b for even n.  The reference is
// therefore EXACT: got == a (odd), got == fl(a + b) / 2 (even; IEEE addition is commutative, so the value does not
// depend on the operand order).  A tolerance of "a few ulps" would hide a wrong order statistic whenever
// neighbouring values of the window are 1 ulp apart (clusters of adjacent doubles, integers >= 2^52, k * denorm_min).
struct Mid { double a, b; };
static Mid median_mid(const std::vector<double>& x) {
    const int n = int(x.size());
    Mid m;
    if (n <= 128) {
        m.a = double(order_stat_count(x, n / 2));
        m.b = double(order_stat_count(x, (n - 1) / 2));
    } else {
        std::vector<double> r(x.begin(), x.end());
        std::stable_sort(r.begin(), r.end());
        m.a = r[n / 2];
        m.b = r[(n - 1) / 2];
    }
    return m;
}
static double mid_value(const Mid& m, int n) {
    if (n % 2 == 1) return m.a;
    volatile double s = m.a + m.b;   // one rounding, then an exact halving (inexact only in the denormal range)
    return s / 2;
}
// numeric equality (so -0.0 == +0.0: which of two zeros is "the" median is not specified)
static bool med_same(double got, double want) { return got == want || (got != got && want != want); }
// a + b overflows although a and b are finite: the mean of the two middle values exists but the formula returns inf
static void note_overflow(const Mid& m, int n, const char* who) {
    if (n % 2 == 0 && std::isfinite(m.a) && std::isfinite(m.b) && !std::isfinite(m.a + m.b)) out.stat(std::string(who) + "_even_mean_overflows_to_inf");
}

static void chk_median(const std::vector<double>& xv, bool corr, long long caseid, const std::string& cls) {
    const arr_real x = to_arr(xv);
    const std::string w = wit("median", caseid, cls, xv);
    vh::set_current("C16:crash:median", w);
    const double m = median(x);
    vh::clear_current();
    out.n_oracle++;
    out.stat(xv.size() % 2 ? "median_odd" : "median_even");
    const Mid mid = median_mid(xv);
    const double want = mid_value(mid, int(xv.size()));
    note_overflow(mid, int(xv.size()), "median");
    out.stat("median_" + cls);
    if (!med_same(m, want))
        out.fail("C16:median-wrong", wit("median", caseid, cls, xv, "\"got\":" + vh::jnum(m) + ",\"want\":" + vh::jnum(want) + ",\"got_bits\":\"" + vh::hx(m) + "\",\"want_bits\":\"" + vh::hx(want) + "\""));
    for (int i = 0; i < x.size(); ++i) if (!same_bits(x[i], xv[i])) { out.fail("C16:median-mutates-input", w); break; }
    if (corr) out.corr("median " + hxv(xv), vh::hx(m));
}
static void chk_median(const std::vector<double>& xv, bool corr, long long caseid, int cls) { chk_median(xv, corr, caseid, cn(cls)); }

// ------------------------------------------------------------------------------------ MedianFilter
// median of the n values w[0..n-1] (brute force: insertion sort of a copy)
static double window_median(const double* w, int n) {
    double buf[80];
    for (int i = 0; i < n; ++i) {
        double v = w[i];
        int j = i;
        while (j > 0 && buf[j - 1] > v) { buf[j] = buf[j - 1]; --j; }
        buf[j] = v;
    }
    const Mid m{buf[n / 2], buf[(n - 1) / 2]};
    note_overflow(m, n, "window");
    return mid_value(m, n);
}

static std::vector<int> gen_frames(vh::Rng& r, int total, int n, int style) {
    std::vector<int> f;
    int left = total;
    while (left > 0) {
        int l;
        switch (style) {
        case 0: l = left; break;                                   // one call
        case 1: l = 1; break;                                      // sample by sample
        case 2: l = r.range(0, 3); break;                          // tiny, incl. empty frames
        case 3: l = r.range(0, 2 * n + 1); break;                  // around the window length
        case 4: l = (r.next() % 4 == 0) ? r.range(n - 1, n + 1) : r.range(1, 500); break;
        default: l = r.range(1, 2000); break;
        }
        if (l > left) l = left;
        f.push_back(l);
        left -= l;
    }
    if (f.empty()) f.push_back(0);
    return f;
}

static void chk_mf(int n, double init, bool default_ctor, const std::vector<double>& xs, const std::vector<int>& frames,
                   bool corr, long long caseid, const std::string& cls, int style) {
    const std::string w = wit("MedianFilter", caseid, cls, xs,
                              "\"order\":" + std::to_string(n) + ",\"init\":" + vh::jnum(init) + ",\"framing\":" + std::to_string(style) +
                                  ",\"nframes\":" + std::to_string(frames.size()));
    vh::set_current("C16:crash:MedianFilter", w);
    std::vector<double> y;
    y.reserve(xs.size());
    {
        MedianFilter flt = default_ctor ? MedianFilter(n) : MedianFilter(n, init);
        if (flt.order() != n) out.fail("C16:medianfilter-order", w);
        size_t p = 0;
        bool alt = false;
        for (int l : frames) {
            arr_real fr(l);
            for (int i = 0; i < l; ++i) fr[i] = xs[p + i];
            p += l;
            const arr_real yy = (alt = !alt) ? flt.process(fr) : flt(fr);
            if (yy.size() != l) { out.fail("C16:medianfilter-frame-size", w); vh::clear_current(); return; }
            for (int i = 0; i < l; ++i) y.push_back(yy[i]);
        }
    }
    vh::clear_current();
    out.n_oracle++;
    out.stat(n % 2 ? "mf_order_odd" : "mf_order_even");
    out.stat("mf_samples", (long long)xs.size());
    out.stat("mf_frames", (long long)frames.size());
    out.stat(std::string("mf_framing_") + std::to_string(style));
    out.stat("mf_" + cls);
    // reference: extended stream init^n ++ xs; y[k] = median(ext[k+1 .. k+n])
    std::vector<double> ext(n, init);
    ext.insert(ext.end(), xs.begin(), xs.end());
    for (size_t k = 0; k < xs.size(); ++k) {
        const double ref = window_median(&ext[k + 1], n);
        if (!med_same(y[k], ref)) {
            std::vector<double> win(ext.begin() + k + 1, ext.begin() + k + 1 + n);
            out.fail("C16:medianfilter-wrong",
                     wit("MedianFilter", caseid, cls, xs,
                         "\"order\":" + std::to_string(n) + ",\"init\":" + vh::jnum(init) + ",\"framing\":" + std::to_string(style) + ",\"k\":" +
                             std::to_string(k) + ",\"got\":" + vh::jnum(y[k]) + ",\"want\":" + vh::jnum(ref) + ",\"got_bits\":\"" + vh::hx(y[k]) + "\",\"want_bits\":\"" +
                             vh::hx(ref) + "\",\"window\":" + jv(win, 64)));
            break;
        }
    }
    if (corr) {
        std::string lhs = "mf " + std::to_string(n) + " " + vh::hx(init) + " " + std::to_string(frames.size()) + vh::join_ints(frames) + " " + hxv(xs);
        out.corr(lhs, hxv(y));
    }
}
static void chk_mf(int n, double init, bool default_ctor, const std::vector<double>& xs, const std::vector<int>& frames, bool corr, long long caseid, int cls,
                   int style) {
    chk_mf(n, init, default_ctor, xs, frames, corr, caseid, cn(cls), style);
}

// ------------------------------------------------------------------------------------ medfilt (declaration; used by the lifetime scenarios)
static void chk_medfilt(int n, const std::vector<double>& xv, bool corr, long long caseid, const std::string& cls);

// ------------------------------------------------------------------------------------ MedianFilter: object lifetime and value category
// Every MedianFilter OBJECT must return the median of ITS OWN window: the initial history of the object it descends from
// (by construction, copy, move, container fill, assignment where available) followed by the samples fed to it and to its
// ancestors BEFORE the copy was taken.  A random program creates objects from each other, feeds them different data in an
// interleaved order, destroys some, and passes frames / consumes results through temporaries in several ways; calls that
// must throw are interleaved and must leave every object (and the stateless functions) unaffected.
struct Trk {
    MedianFilter* f = nullptr;
    int n = 0;
    double init = 0;
    std::vector<double> xs, ys;   // samples / outputs along the whole ancestry
    std::vector<int> frames;
    std::string lineage;
    bool alive = true;
    int pool_slot = -1;   // index into the owner list (objects in banks are not destroyed individually)
    int id = 0;
};
static Correlation kind_of(int k) { return k == 0 ? Correlation::Pearson : k == 1 ? Correlation::Spearman : Correlation::Kendall; }
static MedianFilter pass_by_value(MedianFilter f) { return f; }   // copy in, move out
template <class F>
static bool try_copy_assign(F& dst, const F& src) {   // only where the class offers it (const member => deleted today)
    if constexpr (std::is_copy_assignable_v<F>) { dst = src; return true; }
    else { (void)dst; (void)src; return false; }
}

struct LifeCtx {
    std::vector<std::unique_ptr<MedianFilter>> singles;          // individually owned objects (destroyable)
    std::vector<std::unique_ptr<std::vector<MedianFilter>>> banks;   // vector fill / vector copy
    std::vector<Trk> objs;
    long long caseid = 0;
    int datamode = 0;
    double base = 1.0;
    bool failed = false;
    std::string log;   // the program, for the witness
};

static double life_sample(vh::Rng& r, const LifeCtx& c, int id) {
    switch (c.datamode) {
    case 0: return double(r.range(-50, 50)) + 1000.0 * id;            // integer levels per object (the filter-bank picture)
    case 1: return r.gauss() + 10.0 * id;
    case 2: return step_ulp(c.base, r.range(0, 3) + 2 * (id % 3));     // overlapping 1-ulp clusters
    case 3: return TWO52 + double(r.range(0, 7)) + 4.0 * id;          // integer time stamps
    default: return (r.range(0, 3) == 0) ? (r.coin() ? 0.0 : -0.0) : double(r.range(-3, 3)) * c.base;
    }
}

// feed one frame to object t through one of several value categories; every output is checked against the exact window median
static void life_feed(vh::Rng& r, LifeCtx& c, Trk& t, int l, int how) {
    std::vector<double> fr(l);
    for (auto& v : fr) v = life_sample(r, c, t.id);
    const arr_real a = to_arr(fr);
    std::vector<double> y;
    if (l < 2 && how >= 2 && how <= 3) how = 0;
    c.log += "f" + std::to_string(t.id) + ":" + std::to_string(l) + "/" + std::to_string(how) + " ";
    vh::set_current("C16:crash:MedianFilter-lifetime", "{\"op\":\"MedianFilter-lifetime\",\"seed\":" + std::to_string(g_seed) + ",\"case\":" + std::to_string(c.caseid) + ",\"program\":\"" + c.log + "\"}");
    switch (how) {
    case 0: { const arr_real yy = t.f->process(a); for (int i = 0; i < yy.size(); ++i) y.push_back(yy[i]); break; }
    case 1: { const arr_real yy = (*t.f)(a); for (int i = 0; i < yy.size(); ++i) y.push_back(yy[i]); break; }
    case 2: {   // the frame is a temporary made from a slice of a larger array; the result is bound to a const reference
        const int p = r.range(0, 5), q = r.range(0, 5);
        std::vector<double> big(p, 7.25);
        big.insert(big.end(), fr.begin(), fr.end());
        big.insert(big.end(), q, -3.5);
        const arr_real bg = to_arr(big);
        const arr_real& yy = t.f->process(bg.slice(p, p + l));
        for (int i = 0; i < yy.size(); ++i) y.push_back(yy[i]);
        break;
    }
    case 3: {   // concatenation temporary, result consumed by a range-for over the returned temporary
        const int h = r.range(1, l - 1);
        const arr_real a1 = to_arr(std::vector<double>(fr.begin(), fr.begin() + h)), a2 = to_arr(std::vector<double>(fr.begin() + h, fr.end()));
        for (double v : t.f->process(a1 | a2)) y.push_back(v);
        break;
    }
    case 4: {   // arithmetic temporary (x * 1 is the identity on every double incl. -0.0 and denormals), result moved
        arr_real yy;
        yy = t.f->process(a * 1.0);
        for (int i = 0; i < yy.size(); ++i) y.push_back(yy[i]);
        break;
    }
    default: {   // temporary constructed from a std::vector
        const arr_real& yy = (*t.f)(arr_real(fr));
        for (int i = 0; i < yy.size(); ++i) y.push_back(yy[i]);
        break;
    }
    }
    vh::clear_current();
    out.stat("mf_life_feed_how_" + std::to_string(how));
    for (int i = 0; i < l; ++i) if (!same_bits(a[i], fr[i])) { c.failed = true; out.fail("C16:medianfilter-mutates-input", "{\"case\":" + std::to_string(c.caseid) + "}"); break; }
    if (int(y.size()) != l) {
        c.failed = true;
        out.fail("C16:medianfilter-frame-size", "{\"op\":\"MedianFilter-lifetime\",\"seed\":" + std::to_string(g_seed) + ",\"case\":" + std::to_string(c.caseid) + ",\"program\":\"" + c.log + "\"}");
        return;
    }
    // own history: init^n ++ xs
    const size_t k0 = t.xs.size();
    t.xs.insert(t.xs.end(), fr.begin(), fr.end());
    t.frames.push_back(l);
    std::vector<double> ext(t.n, t.init);
    const size_t from = k0 >= size_t(t.n) ? k0 - t.n : 0;   // only the tail is needed
    ext.insert(ext.end(), t.xs.begin() + from, t.xs.end());
    // ext index of sample k (global) = n + (k - from); window of output k = ext[idx - n + 1 .. idx]
    for (int i = 0; i < l; ++i) {
        const size_t k = k0 + i, idx = t.n + (k - from);
        const double ref = window_median(&ext[idx - t.n + 1], t.n);
        out.n_oracle++;
        if (!med_same(y[i], ref) && !c.failed) {
            c.failed = true;
            std::vector<double> win(ext.begin() + idx - t.n + 1, ext.begin() + idx + 1);
            out.fail("C16:medianfilter-copy-not-independent",
                     "{\"op\":\"MedianFilter-lifetime\",\"seed\":" + std::to_string(g_seed) + ",\"case\":" + std::to_string(c.caseid) + ",\"order\":" + std::to_string(t.n) +
                         ",\"init\":" + vh::jnum(t.init) + ",\"object\":" + std::to_string(t.id) + ",\"lineage\":\"" + t.lineage + "\",\"sample_of_object\":" + std::to_string(k) +
                         ",\"got\":" + vh::jnum(y[i]) + ",\"want\":" + vh::jnum(ref) + ",\"own_window\":" + jv(win, 64) + ",\"program\":\"" + c.log + "\"}");
        }
        t.ys.push_back(y[i]);
    }
}

static Trk& life_new(LifeCtx& c, const Trk& parent, MedianFilter* f, const std::string& how, int slot) {
    Trk t = parent;
    t.f = f;
    t.alive = true;
    t.pool_slot = slot;
    t.id = int(c.objs.size());
    t.lineage = parent.lineage + ">" + how;
    c.objs.push_back(t);
    c.log += how + "(" + std::to_string(parent.id) + ")=" + std::to_string(t.id) + " ";
    return c.objs.back();
}

static void life_failed_call(vh::Rng& r, LifeCtx& c, int n) {
    const int which = r.range(0, 4);
    bool threw = false;
    c.log += "X" + std::to_string(which) + " ";
    vh::set_current("C16:crash:failed-call", "{\"op\":\"failed-call\",\"which\":" + std::to_string(which) + "}");
    try {
        switch (which) {
        case 0: { MedianFilter f(2); (void)f; break; }
        case 1: { MedianFilter f(-1, 3.0); (void)f; break; }
        case 2: { arr_real x = {1.0, 2.0, 3.0, 4.0}; (void)medfilt(x, 2); break; }
        case 3: { arr_real x; (void)medfilt(x, n); break; }
        default: { const arr_real x = {1.0, 2.0, 3.0}, y = {1.0, 2.0}; (void)dsplib::corr(x, y, kind_of(r.range(0, 2))); break; }
        }
    } catch (const std::exception&) { threw = true; }
    vh::clear_current();
    out.stat(threw ? "life_failed_call_threw" : "life_failed_call_returned");
    // valid stateless calls right after the failed one
    const std::vector<double> x = genv(r, r.range(1, 2 * n), r.range(0, NVCLS - 1));
    chk_medfilt(n, x, false, c.caseid, "after_failed_call");
    chk_median(x, false, c.caseid, "after_failed_call");
    chk_sort(x, r.coin(), false, c.caseid, "after_failed_call");
}

static void lifetime_case(vh::Rng& r, int n, int datamode, int nops, long long caseid, bool corr) {
    LifeCtx c;
    c.caseid = caseid;
    c.datamode = datamode;
    c.base = (0.5 + r.unit()) * SCALES[r.range(0, 6)] * (r.coin() ? 1 : -1);
    c.objs.reserve(4096);   // references into objs stay valid
    const int im = r.range(0, 3);
    const bool dflt = (im == 0);
    const double init = (im == 0) ? 0.0 : (im == 1) ? life_sample(r, c, 0) : (im == 2) ? -0.0 : life_sample(r, c, 1);
    {
        c.singles.emplace_back(dflt ? new MedianFilter(n) : new MedianFilter(n, init));
        Trk t;
        t.f = c.singles.back().get();
        t.n = n;
        t.init = init;
        t.lineage = dflt ? "ctor(n)" : "ctor(n,init)";
        t.pool_slot = 0;
        c.objs.push_back(t);
    }
    // prototype use: half of the cases copy a FRESH prototype (the filter-bank picture), the others a running filter
    if (r.coin()) life_feed(r, c, c.objs[0], r.range(1, 3 * n), r.range(0, 5));
    for (int op = 0; op < nops && int(c.objs.size()) < 4000; ++op) {
        std::vector<int> alive;
        for (size_t i = 0; i < c.objs.size(); ++i) if (c.objs[i].alive) alive.push_back(int(i));
        const int si = alive[r.range(0, int(alive.size()) - 1)];
        const int what = r.range(0, 99);
        if (what < 50 || alive.size() > 24) {
            int l;
            switch (r.range(0, 5)) {
            case 0: l = 0; break;
            case 1: l = 1; break;
            case 2: l = r.range(1, 3); break;
            case 3: l = r.range(n - 1, n + 1); break;
            case 4: l = r.range(1, 2 * n + 3); break;
            default: l = 137; break;
            }
            life_feed(r, c, c.objs[si], l, r.range(0, 5));
        } else if (what < 60) {   // copy construction
            c.singles.emplace_back(new MedianFilter(*c.objs[si].f));
            life_new(c, c.objs[si], c.singles.back().get(), "copy", int(c.singles.size()) - 1);
            out.stat("life_copy_ctor");
        } else if (what < 66) {   // through a by-value parameter and return
            c.singles.emplace_back(new MedianFilter(pass_by_value(*c.objs[si].f)));
            life_new(c, c.objs[si], c.singles.back().get(), "byvalue", int(c.singles.size()) - 1);
            out.stat("life_by_value");
        } else if (what < 74) {   // bank: vector fill constructor
            const int k = r.range(2, 4);
            c.banks.emplace_back(new std::vector<MedianFilter>(size_t(k), *c.objs[si].f));
            for (int j = 0; j < k; ++j) life_new(c, c.objs[si], &(*c.banks.back())[size_t(j)], "fill[" + std::to_string(j) + "]", -1);
            out.stat("life_vector_fill");
        } else if (what < 79) {   // copy of a whole bank
            if (!c.banks.empty()) {
                const size_t b = size_t(r.range(0, int(c.banks.size()) - 1));
                std::vector<int> members;
                for (size_t j = 0; j < c.banks[b]->size(); ++j)
                    for (size_t i = 0; i < c.objs.size(); ++i)
                        if (c.objs[i].f == &(*c.banks[b])[j]) members.push_back(int(i));
                if (members.size() == c.banks[b]->size()) {
                    c.banks.emplace_back(new std::vector<MedianFilter>(*c.banks[b]));
                    for (size_t j = 0; j < members.size(); ++j) life_new(c, c.objs[size_t(members[j])], &(*c.banks.back())[j], "bankcopy[" + std::to_string(j) + "]", -1);
                    out.stat("life_bank_copy");
                }
            }
        } else if (what < 85) {   // move construction: the source is never used again
            if (c.objs[si].pool_slot >= 0 && alive.size() > 0) {
                c.singles.emplace_back(new MedianFilter(std::move(*c.objs[si].f)));
                life_new(c, c.objs[si], c.singles.back().get(), "move", int(c.singles.size()) - 1);
                c.objs[si].alive = false;
                out.stat("life_move_ctor");
            }
        } else if (what < 90) {   // copy assignment (if the class has one)
            const int di = alive[r.range(0, int(alive.size()) - 1)];
            if (di != si && try_copy_assign(*c.objs[di].f, *c.objs[si].f)) {
                Trk& d = c.objs[di];
                const Trk& s0 = c.objs[si];
                d.n = s0.n; d.init = s0.init; d.xs = s0.xs; d.ys = s0.ys; d.frames = s0.frames;
                d.lineage += ">assigned-from(" + std::to_string(s0.id) + ")";
                c.log += "assign(" + std::to_string(s0.id) + "->" + std::to_string(d.id) + ") ";
                out.stat("life_copy_assign");
            } else out.stat("life_copy_assign_unavailable");
        } else if (what < 95) {   // destroy an individually owned object; the others must not notice
            if (c.objs[si].pool_slot >= 0 && alive.size() > 1) {
                c.singles[size_t(c.objs[si].pool_slot)].reset();
                c.objs[si].alive = false;
                c.objs[si].f = nullptr;
                c.log += "destroy(" + std::to_string(c.objs[si].id) + ") ";
                out.stat("life_destroy");
            }
        } else {
            life_failed_call(r, c, n);
        }
    }
    // every surviving object is used once more after all copies were taken
    for (size_t i = 0; i < c.objs.size(); ++i)
        if (c.objs[i].alive) life_feed(r, c, c.objs[i], 2 * n + 1, int(i) % 6);
    out.stat("mf_lifetime_cases");
    out.stat("mf_lifetime_objects", (long long)c.objs.size());
    // correspondence: an object's whole ancestry is ONE stream for the (pure) model
    if (corr && !c.objs.empty()) {
        int sent = 0;
        for (size_t i = c.objs.size(); i-- > 0 && sent < 2;) {
            const Trk& t = c.objs[i];
            if (!t.alive || t.xs.size() > 2500) continue;
            out.corr("mf " + std::to_string(t.n) + " " + vh::hx(t.init) + " " + std::to_string(t.frames.size()) + vh::join_ints(t.frames) + " " + hxv(t.xs), hxv(t.ys));
            ++sent;
        }
    }
}

// ------------------------------------------------------------------------------------ medfilt
static void chk_medfilt(int n, const std::vector<double>& xv, bool corr, long long caseid, const std::string& cls) {
    arr_real x = to_arr(xv);
    const std::string w = wit("medfilt", caseid, cls, xv, "\"order\":" + std::to_string(n));
    vh::set_current("C16:crash:medfilt", w);
    arr_real y;
    bool threw = false;
    try { y = medfilt(x, n); } catch (const std::exception&) { threw = true; }
    vh::clear_current();
    if (corr) out.corr("medfilt " + std::to_string(n) + " " + hxv(xv), threw ? std::string("ERR") : vh::hxs(y));
    if (n < 3 || xv.empty()) { out.stat(threw ? "medfilt_threw_outside_domain" : "medfilt_ok_outside_domain"); return; }   // outside the property's domain: CORR only
    out.n_oracle++;
    out.stat(n % 2 ? "medfilt_order_odd" : "medfilt_order_even");
    out.stat("medfilt_" + cls);
    out.stat(int(xv.size()) < n ? "medfilt_shorter_than_window" : "medfilt_longer_than_window");
    if (threw) { out.fail("C16:medfilt-throws", w); return; }
    if (y.size() != int(xv.size())) { out.fail("C16:medfilt-size", w); return; }
    for (int i = 0; i < x.size(); ++i) if (!same_bits(x[i], xv[i])) { out.fail("C16:medfilt-mutates-input", w); break; }
    const int n1 = n / 2, n2 = (n % 2 == 1) ? n / 2 : n / 2 - 1;   // window of output k: x[k-n1 .. k+n2], zeros outside
    const int L = int(xv.size());
    std::vector<double> win(n);
    for (int k = 0; k < L; ++k) {
        for (int j = -n1; j <= n2; ++j) win[j + n1] = (k + j >= 0 && k + j < L) ? xv[k + j] : 0.0;
        const double ref = window_median(win.data(), n);
        if (!med_same(y[k], ref)) {
            out.fail("C16:medfilt-wrong", wit("medfilt", caseid, cls, xv, "\"order\":" + std::to_string(n) + ",\"k\":" + std::to_string(k) + ",\"got\":" +
                                                                              vh::jnum(y[k]) + ",\"want\":" + vh::jnum(ref) + ",\"got_bits\":\"" + vh::hx(y[k]) + "\",\"want_bits\":\"" + vh::hx(ref) + "\""));
            break;
        }
    }
}
static void chk_medfilt(int n, const std::vector<double>& xv, bool corr, long long caseid, int cls) { chk_medfilt(n, xv, corr, caseid, cn(cls)); }

// ------------------------------------------------------------------------------------ corr
// Reference r in long double, robust for offset data and 1-ulp chains: the samples are first taken relative to a pivot
// (x[i] - x[0] is exact in long double for values of similar magnitude, e.g. integers at 2^52, where x[i] - mean is not),
// then centred, and the residual sums of the centred values are corrected for (sxy - sa*sb/n, ...).
static ld pearson_ref(const std::vector<double>& x, const std::vector<double>& y) {
    const int n = int(x.size());
    if (n == 0) return std::nanl("");
    std::vector<ld> u(n), v(n);
    ld mu = 0, mv = 0;
    for (int i = 0; i < n; ++i) { u[i] = ld(x[i]) - ld(x[0]); v[i] = ld(y[i]) - ld(y[0]); mu += u[i]; mv += v[i]; }
    mu /= n; mv /= n;
    ld sxy = 0, sxx = 0, syy = 0, sa = 0, sb = 0;
    for (int i = 0; i < n; ++i) { const ld a = u[i] - mu, b = v[i] - mv; sa += a; sb += b; sxy += a * b; sxx += a * a; syy += b * b; }
    sxy -= sa * sb / n; sxx -= sa * sa / n; syy -= sb * sb / n;
    return sxy / sqrtl(sxx * syy);
}
// max - min of a sample: the scale of the centred data
static double spread_of(const std::vector<double>& x) {
    if (x.empty()) return 0;
    const auto mm = std::minmax_element(x.begin(), x.end());
    return *mm.second - *mm.first;
}
static bool spread_in_range(const std::vector<double>& x) { const double s = spread_of(x); return s >= 1e-70 && s <= 1e70; }
static ld spearman_ref(const std::vector<double>& x, const std::vector<double>& y) {   // tie-free: 1 - 6 sum d^2 / (n (n^2-1)), ranks by counting
    const int n = int(x.size());
    ld sd = 0;
    for (int i = 0; i < n; ++i) {
        long long rx = 0, ry = 0;
        for (int j = 0; j < n; ++j) { rx += (x[j] < x[i]); ry += (y[j] < y[i]); }
        sd += ld(rx - ry) * ld(rx - ry);
    }
    return 1 - 6 * sd / (ld(n) * (ld(n) * n - 1));
}
static ld kendall_ref(const std::vector<double>& x, const std::vector<double>& y) {
    const int n = int(x.size());
    long long s = 0;
    for (int i = 0; i < n; ++i)
        for (int j = i + 1; j < n; ++j) {
            const int a = (x[i] < x[j]) - (x[i] > x[j]), b = (y[i] < y[j]) - (y[i] > y[j]);
            s += a * b;
        }
    return ld(s) / (ld(n) * (n - 1) / 2);
}
static const Correlation KINDS[3] = {Correlation::Pearson, Correlation::Spearman, Correlation::Kendall};
static const char* KNAME[3] = {"pearson", "spearman", "kendall"};
static ld g_maxerr[3] = {0, 0, 0};
static const ld TOL[3] = {1e-9L, 1e-12L, 1e-13L};   // Pearson: rounding of the moment formula on the centred samples (measured); rank statistics are integer sums

// The value-class probes of Pearson's r are failures (keys C16:corr-pearson-wrong-{scale,offset,ulpchain}).  They exposed the
// cancellation of the one-pass moment formula for data with an offset (corr({1e8..1e8+3},{1..4}) = 0.79), repaired in /repo
// a57e73f (sums over the centred samples).  What remains is a RANGE limit, not a definition error: the product of the two
// variance terms under the root leaves the double range when scale_x * scale_y is outside about 1e-75 .. 1e75; scale pairs with
// a member outside [1e-70, 1e70] are therefore measured only (class "scale_outofrange": statistics, no failure); likewise 1-ulp
// chains whose spread max - min (the scale of the centred data) is outside that range (chains of denormals, of values near
// 1e-300 or above 1e86): class "ulpchain_outofrange".
static bool pearson_class_strict(const char* pclass) { const size_t l = std::strlen(pclass); return !(l >= 11 && std::strcmp(pclass + l - 11, "_outofrange") == 0); }
static std::string wit2(const char* what, int kind, long long caseid, const std::vector<double>& x, const std::vector<double>& y, double got, double want) {
    return std::string("{\"op\":\"corr\",\"what\":\"") + what + "\",\"kind\":\"" + KNAME[kind] + "\",\"seed\":" + std::to_string(g_seed) + ",\"case\":" +
           std::to_string(caseid) + ",\"n\":" + std::to_string(x.size()) + ",\"x\":" + jv(x, 24) + ",\"y\":" + jv(y, 24) + ",\"got\":" + vh::jnum(got) +
           ",\"want\":" + vh::jnum(want) + "}";
}

// mono: 0 none, +1 strictly increasing relation (affine when `affine`), -1 strictly decreasing
// pclass: nullptr for the permutation data of the property's quantifier; otherwise the name of a value class (scale, offset,
// ulpchain).  r, rho and tau are invariant under positive scaling and translation of either sample, so the same references
// and tolerances apply; a Pearson value that is off on such a class is reported under its own key
// C16:corr-pearson-wrong-<pclass> (with the outcome statistics corr_pearson_<pclass>_{ok,off,nonfinite}), the other Pearson
// clauses (range, symmetry, +-1) are consequences and not repeated for it.
static void chk_corr(const std::vector<double>& xv, const std::vector<double>& yv, bool corr, long long caseid, int mono = 0, bool affine = false,
                     const char* pclass = nullptr) {
    const arr_real x = to_arr(xv), y = to_arr(yv);
    const int n = int(xv.size());
    for (int k = 0; k < 3; ++k) {
        vh::set_current("C16:crash:corr", wit2("crash", k, caseid, xv, yv, 0, 0));
        const double r = dsplib::corr(x, y, KINDS[k]);
        const double rs = dsplib::corr(y, x, KINDS[k]);
        vh::clear_current();
        if (corr) out.corr("corr " + std::to_string(k) + " " + hxv(xv) + " " + hxv(yv), vh::hx(r));
        if (n < 2) { out.stat("corr_undefined_n_lt_2"); continue; }   // r, rho, tau are undefined: CORR only
        out.n_oracle++;
        out.stat(std::string("corr_") + KNAME[k]);
        const ld ref = (k == 0) ? pearson_ref(xv, yv) : (k == 1) ? spearman_ref(xv, yv) : kendall_ref(xv, yv);
        const ld err = fabsl(ld(r) - ref);
        if (k == 0 && pclass) {
            out.stat(std::string("corr_pearson_") + pclass + (!(r == r) || std::isinf(r) ? "_nonfinite" : (err <= TOL[0] ? "_ok" : "_off")));
            if (pearson_class_strict(pclass) && !(err <= TOL[0])) out.fail(std::string("C16:corr-pearson-wrong-") + pclass, wit2(pclass, k, caseid, xv, yv, r, double(ref)));
            continue;
        }
        if (pclass) out.stat(std::string("corr_rank_") + pclass);
        if (err == err && err > g_maxerr[k]) g_maxerr[k] = err;
        if (!(err <= TOL[k])) out.fail(std::string("C16:corr-") + KNAME[k] + "-wrong", wit2("value", k, caseid, xv, yv, r, double(ref)));
        if (!(fabsl(ld(r) - ld(rs)) <= 1e-12L)) out.fail(std::string("C16:corr-") + KNAME[k] + "-asymmetric", wit2("corr(x,y) vs corr(y,x)", k, caseid, xv, yv, r, rs));
        if (!same_bits(r, rs)) out.stat(std::string("corr_sym_not_bitwise_") + KNAME[k]);
        if (!(r >= -1 - 1e-12 && r <= 1 + 1e-12)) out.fail(std::string("C16:corr-") + KNAME[k] + "-out-of-range", wit2("range", k, caseid, xv, yv, r, 0));
        if (r > 1 || r < -1) out.stat(std::string("corr_exceeds_1_by_rounding_") + KNAME[k]);
        if (mono != 0 && (k != 0 || affine)) {
            const double tol1 = (k == 0) ? 1e-9 : 1e-12;
            out.stat(mono > 0 ? "corr_monotone_increasing" : "corr_monotone_decreasing");
            if (!(std::fabs(r - double(mono)) <= tol1)) out.fail(std::string("C16:corr-") + KNAME[k] + "-monotone-not-pm1", wit2("monotone", k, caseid, xv, yv, r, double(mono)));
            if (r != double(mono)) out.stat(std::string("corr_monotone_not_exactly_pm1_") + KNAME[k]);
        }
    }
}

// strictly increasing map of the ranks 0..n-1 to non-integer values (random positive increments)
static std::vector<double> inc_values(vh::Rng& r, int n, bool integers) {
    std::vector<double> v(n);
    double a = integers ? 1.0 : r.sym() * 2;
    for (int i = 0; i < n; ++i) { v[i] = a; a += integers ? 1.0 : 0.1 + r.unit(); }
    return v;
}
static std::vector<double> apply_perm(const std::vector<int>& p, const std::vector<double>& vals) {
    std::vector<double> x(p.size());
    for (size_t i = 0; i < p.size(); ++i) x[i] = vals[p[i]];
    return x;
}
static std::vector<int> rand_perm(vh::Rng& r, int n) {
    std::vector<int> p(n);
    std::iota(p.begin(), p.end(), 0);
    for (int i = n - 1; i > 0; --i) std::swap(p[i], p[r.range(0, i)]);
    return p;
}

int main(int argc, char** argv) {
    vh::Args a(argc, argv);
    vh::install_guards();
    g_seed = a.seed;
    vh::Rng rng(a.seed);
    const bool T = a.thorough;
    vh::watch(T ? 3000 : 600);
    long long cid = 0;

    // ===================================================================== sort / median
    // every length 1..2000 (thorough: every class at every length, both directions; quick: one class per
    // length in rotation + all classes on a length grid)
    {
        const int NMAX = 2000;
        for (int n = 1; n <= NMAX; ++n) {
            for (int cls = 0; cls < NCLS; ++cls) {
                const bool grid = (n <= 40) || (n % 97 == 0) || n == NMAX || n == NMAX - 1;
                if (!T && !grid && (n + cls) % NCLS != 0) continue;
                vh::Rng r(a.seed * 1000003ULL + (++cid));
                const std::vector<double> x = gen(r, n, cls);
                // correspondence subset: all short ones, a grid of long ones
                const bool corr = (n <= 24) || (n <= 200 && (n + cls) % 7 == 0) || (n % 250 == 0 && cls < 5) || (n == 1999 && cls < 5);
                chk_sort(x, true, corr, cid, cls);
                chk_sort(x, false, corr && (n % 2 == 0 || n <= 24), cid, cls);
                chk_median(x, corr, cid, cls);
            }
        }
        // value classes (which doubles occur): every length x every value class (quick: one class per length in rotation + all on a grid)
        for (int n = 1; n <= NMAX; ++n) {
            for (int v = 0; v < NVCLS; ++v) {
                const bool grid = (n <= 40) || (n % 97 == 0) || n >= NMAX - 1;
                if (!T && !grid && (n + v) % NVCLS != 0) continue;
                vh::Rng r(a.seed * 1000003ULL + (++cid));
                const std::vector<double> x = genv(r, n, v);
                const bool corr = (n <= 16) || (n <= 200 && (n + v) % 11 == 0) || (n == NMAX && v < 3);
                chk_sort(x, true, corr, cid, vcls_name(v));
                chk_sort(x, false, corr && (n % 2 == 0 || n <= 16), cid, vcls_name(v));
                chk_median(x, corr, cid, vcls_name(v));
            }
        }
        // every arrangement of short nextafter chains with repeats: all sequences over {v, v+1ulp, v+2ulp} up to length 5, three bases
        for (int n = 1; n <= 5; ++n) {
            int tot = 1;
            for (int i = 0; i < n; ++i) tot *= 3;
            for (int bi = 0; bi < 3; ++bi) {
                const double base = (bi == 0) ? 1.0 : (bi == 1) ? TWO52 : -0.0;   // from -0.0: -0, +denorm_min, 2 denorm_min
                for (int c = 0; c < tot; ++c) {
                    std::vector<double> x(n);
                    int m = c;
                    for (int i = 0; i < n; ++i) { x[i] = step_ulp(base, m % 3); m /= 3; }
                    ++cid;
                    const bool corr = T || (c % 3 == bi);
                    chk_sort(x, true, corr, cid, "chain3");
                    chk_sort(x, false, corr, cid, "chain3");
                    chk_median(x, corr, cid, "chain3");
                }
            }
        }
        // lengths far beyond the sweep (single large calls; 2^16, 2^17, multiples of 49152, a prime > 46340), content and value classes
        {
            std::vector<int> big = {65537, 131073};
            if (T) for (int n : {46349, 65536, 98304, 131072, 147456, 196608, 262145}) big.push_back(n);
            int k = 0;
            for (int n : big) {
                for (int rep = 0; rep < (T ? 3 : 1); ++rep, ++k) {
                    vh::Rng r(a.seed * 1000003ULL + (++cid));
                    const bool val = (k % 2 == 0);
                    const int c = val ? r.range(0, NVCLS - 1) : r.range(0, NCLS - 1);
                    const std::vector<double> x = val ? genv(r, n, c) : gen(r, n, c);
                    const std::string name = std::string("big_") + (val ? vcls_name(c) : cls_name(c));
                    chk_sort(x, true, false, cid, name);
                    chk_sort(x, false, false, cid, name);
                    chk_median(x, false, cid, name);
                    // small calls after the large one
                    const std::vector<double> s5 = genv(r, 5, V_ULP);
                    chk_sort(s5, true, true, cid, "after_big");
                    chk_median(s5, true, cid, "after_big");
                }
            }
        }
        // explicit small cases: all sequences over {0,1,2} of length <= 5 (every tie pattern)
        for (int n = 1; n <= 5; ++n) {
            int tot = 1;
            for (int i = 0; i < n; ++i) tot *= 3;
            for (int c = 0; c < tot; ++c) {
                std::vector<double> x(n);
                int m = c;
                for (int i = 0; i < n; ++i) { x[i] = double(m % 3); m /= 3; }
                ++cid;
                chk_sort(x, true, true, cid, -1);
                chk_sort(x, false, true, cid, -1);
                chk_median(x, true, cid, -1);
            }
        }
        // large magnitudes / denormals / infinities are ordinary ordered values
        {
            std::vector<double> x = {1e308, -1e308, 5e-324, -5e-324, 0.0, 1.0, -1.0, INFINITY, -INFINITY, 1e308, 2.2250738585072014e-308};
            ++cid;
            chk_sort(x, true, true, cid, -1);
            chk_sort(x, false, true, cid, -1);
            std::vector<double> xf(x.begin(), x.begin() + 7);
            chk_median(xf, true, cid, -1);
        }
    }

    // ===================================================================== MedianFilter
    {
        const int LEN = 10000;
        const int mf_classes[] = {DISTINCT, REPEATED, CONSTANT, SORTED, REVERSED, SAW, TWOVAL, SORTED_REP};
        const int NMC = 8;
        for (int n = 3; n <= 64; ++n) {
            for (int ci = 0; ci < NMC; ++ci) {
                const int nstyles = 6;
                for (int style = 0; style < nstyles; ++style) {
                    // quick: five (class, framing) pairs per order in rotation; thorough: every class x every framing
                    bool run;
                    if (T) run = true;   // every class x every framing
                    else run = (ci == n % NMC && style == n % nstyles) || (ci == (n + 3) % NMC && style == (n + 2) % nstyles) ||
                               (ci == (n + 5) % NMC && style == (n + 1) % nstyles) || (ci == 1 && style == (n + 4) % nstyles) || (ci == 0 && style == (n + 3) % nstyles);
                    if (!run) continue;
                    vh::Rng r(a.seed * 1000003ULL + (++cid));
                    const int cls = mf_classes[ci];
                    std::vector<double> xs = gen(r, LEN, cls);
                    // initial history: default (0), explicit 0, a value inside / outside the data range, a value equal to data samples
                    const int im = r.range(0, 4);
                    double init = 0;
                    bool dflt = false;
                    switch (im) {
                    case 0: dflt = true; break;
                    case 1: init = 0.0; break;
                    case 2: init = r.gauss(); break;
                    case 3: init = xs[r.range(0, LEN - 1)]; break;
                    case 4: init = r.coin() ? 1e6 : -1e6; break;
                    }
                    out.stat(std::string("mf_init_mode_") + std::to_string(im));
                    const std::vector<int> frames = gen_frames(r, LEN, n, style);
                    chk_mf(n, init, dflt, xs, frames, false, cid, cls, style);
                    // correspondence: a prefix of the same stream with the same kind of framing
                    const bool corr = T ? (style == (n + ci) % nstyles) : (ci == n % NMC);
                    if (corr) {
                        const int CL = ((n == 3 || n == 4 || n == 63 || n == 64) && ci < 3) ? LEN : (T ? 800 : 400);
                        std::vector<double> xc(xs.begin(), xs.begin() + CL);
                        const std::vector<int> fc = gen_frames(r, CL, n, style == 0 ? 3 : style);
                        chk_mf(n, init, dflt, xc, fc, true, cid, cls, style == 0 ? 3 : style);
                    }
                }
            }
        }
        // value classes x orders x framings: the 7 value classes + the window-boundary class (one ulp across the window boundary);
        // quick: 3 (class, framing) pairs per order in rotation, 3000-sample streams; thorough: every class x every framing, 10^4 samples
        {
            const int NV = NVCLS + 1, nstyles = 6;
            const int LEN2 = T ? 10000 : 3000;
            for (int n = 3; n <= 64; ++n)
                for (int v = 0; v < NV; ++v)
                    for (int style = 0; style < nstyles; ++style) {
                        const bool run = T || (v == n % NV && style == n % nstyles) || (v == (n + 3) % NV && style == (n + 1) % nstyles) ||
                                         (v == ((n % 2) ? int(V_ULP) : NVCLS) && style == (n + 4) % nstyles);
                        if (!run) continue;
                        vh::Rng r(a.seed * 1000003ULL + (++cid));
                        const std::vector<double> xs = (v == NVCLS) ? gen_boundary(r, LEN2, n) : genv(r, LEN2, v);
                        const std::string name = (v == NVCLS) ? "v_boundary" : vcls_name(v);
                        // initial history: default, a data sample, a neighbour (1 ulp) of a data sample, -0.0, a far value at the data's scale
                        const int im = r.range(0, 4);
                        double init = 0;
                        bool dflt = false;
                        const double smp = xs[r.range(0, std::min(LEN2 - 1, 2 * n))];
                        switch (im) {
                        case 0: dflt = true; break;
                        case 1: init = smp; break;
                        case 2: init = step_ulp(smp, r.coin() ? 1 : -1); break;
                        case 3: init = -0.0; break;
                        case 4: init = smp * (r.coin() ? 4 : -4); break;
                        }
                        out.stat(std::string("mf_vinit_mode_") + std::to_string(im));
                        chk_mf(n, init, dflt, xs, gen_frames(r, LEN2, n, style), false, cid, name, style);
                        const bool corr = T ? (style == (n + v) % nstyles) : true;
                        if (corr) {
                            const int CL = 400;
                            std::vector<double> xc(xs.begin(), xs.begin() + CL);
                            const int st = (style == 0 || style == 5) ? 3 : style;
                            chk_mf(n, init, dflt, xc, gen_frames(r, CL, n, st), true, cid, name, st);
                        }
                    }
        }
        // every short stream over a 3-member nextafter chain {v, v+1ulp, v+2ulp}: orders 3..5 (thorough ..6), all 3^L streams of
        // length L = n + 3 (every pattern of "the neighbour leaves first"), init = each member
        for (int n = 3; n <= (T ? 6 : 5); ++n) {
            const int L = n + 3;
            int tot = 1;
            for (int i = 0; i < L; ++i) tot *= 3;
            for (int bi = 0; bi < 2; ++bi) {
                const double base = bi ? TWO52 : 1.0;
                for (int c = 0; c < tot; ++c) {
                    std::vector<double> xs(L);
                    int m = c;
                    for (int i = 0; i < L; ++i) { xs[i] = step_ulp(base, m % 3); m /= 3; }
                    ++cid;
                    chk_mf(n, step_ulp(base, c % 3), false, xs, {L}, T ? (c % 9 == 0) : (c % 41 == 0), cid, "chain3", 0);
                }
            }
        }
        // large single frames after small ones: a frame above 2^16 and one above 2^17 (thorough: also exact multiples of 49152 and 65536)
        {
            std::vector<int> orders = {4, 33, 64};
            if (T) orders = {3, 4, 5, 16, 31, 48, 63, 64};
            int k = 0;
            for (int n : orders) {
                std::vector<std::vector<int>> plans = {{5, 1, n, 65537, 3, 0, 131073, 2, n + 1}};
                if (T) { plans.push_back({7, 65536, 1, 98304, 131072}); plans.push_back({1, 196608, 2, 147456, 3}); plans.push_back({262145, 1}); }
                for (const auto& frames : plans) {
                    vh::Rng r(a.seed * 1000003ULL + (++cid));
                    int total = 0;
                    for (int l : frames) total += l;
                    const int c = k++ % (NVCLS + 3);
                    const std::vector<double> xs = (c < NVCLS) ? genv(r, total, c) : (c == NVCLS) ? gen_boundary(r, total, n) : gen(r, total, c == NVCLS + 1 ? DISTINCT : REPEATED);
                    const std::string name = std::string("bigframe_") + ((c < NVCLS) ? vcls_name(c) : (c == NVCLS) ? "v_boundary" : (c == NVCLS + 1) ? "distinct" : "repeated");
                    chk_mf(n, xs[0], false, xs, frames, false, cid, name, 6);
                }
            }
        }
        // object lifetime: copies / moves / banks of filters, interleaved with failed calls
        {
            const int NL = T ? 600 : 90;
            for (int i = 0; i < NL; ++i) {
                vh::Rng r(a.seed * 1000003ULL + (++cid));
                const int n = (i < 62) ? 3 + i : r.range(3, 64);
                lifetime_case(r, n, i % 5, T ? 80 : 40, cid, T ? (i % 6 == 0) : (i % 3 == 0));
            }
        }
        // short streams: fewer samples than the window (the initial history dominates), incl. zero samples
        for (int n = 3; n <= 64; n += (T ? 1 : 7))
            for (int len : {0, 1, 2, n - 1, n, n + 1}) {
                vh::Rng r(a.seed * 1000003ULL + (++cid));
                std::vector<double> xs = gen(r, len, r.coin() ? DISTINCT : REPEATED);
                const double init = r.coin() ? 0.0 : double(r.range(-2, 2));
                chk_mf(n, init, false, xs, gen_frames(r, len, n, 2), true, cid, DISTINCT, 2);
            }
        // order < 3 must throw
        for (int n : {-1, 0, 1, 2}) {
            bool threw = false;
            vh::set_current("C16:crash:MedianFilter-ctor", "{\"op\":\"MedianFilter\",\"order\":" + std::to_string(n) + "}");
            try { MedianFilter f(n); } catch (const std::exception&) { threw = true; }
            vh::clear_current();
            out.stat(threw ? "mf_small_order_throws" : "mf_small_order_accepted");
        }
    }

    // ===================================================================== medfilt
    {
        for (int n = 3; n <= 64; ++n) {
            std::vector<int> lens = {1, 2, n / 2, n - 1, n, n + 1, 2 * n + 1, 257};
            if (T) { lens.push_back(2000); lens.push_back(1000 + n); }
            else if (n % 8 == 0) lens.push_back(2000);
            for (int len : lens) {
                if (len < 1) continue;
                for (int rep = 0; rep < (T ? 4 : 1); ++rep) {
                    vh::Rng r(a.seed * 1000003ULL + (++cid));
                    const int cls = (rep == 0) ? (n + len) % NCLS : r.range(0, NCLS - 1);
                    const std::vector<double> x = gen(r, len, cls);
                    chk_medfilt(n, x, rep == 0 && (len <= 2 * n + 1 || (n % 8 == 0)), cid, cls);
                }
            }
        }
        // value classes (incl. the window-boundary class for this order)
        for (int n = 3; n <= 64; ++n) {
            std::vector<int> lens = {n - 1, n + 1, 2 * n + 1, 257};
            if (T) { lens.push_back(1); lens.push_back(n); lens.push_back(2000); }
            int k = 0;
            for (int len : lens)
                for (int rep = 0; rep < (T ? NVCLS + 1 : 1); ++rep, ++k) {
                    vh::Rng r(a.seed * 1000003ULL + (++cid));
                    const int v = T ? rep : (n + k) % (NVCLS + 1);
                    const std::vector<double> x = (v == NVCLS) ? gen_boundary(r, len, n) : genv(r, len, v);
                    chk_medfilt(n, x, T ? (rep == (n + len) % (NVCLS + 1) && len <= 257) : (len <= 2 * n + 1 || n % 8 == 0), cid, (v == NVCLS) ? "v_boundary" : vcls_name(v));
                }
        }
        // large single calls (above 2^16 / 2^17), then a small one
        {
            std::vector<std::pair<int, int>> big = {{5, 70001}, {64, 131073}};
            if (T) for (auto pr : std::vector<std::pair<int, int>>{{3, 65536}, {4, 98304}, {33, 131072}, {64, 196608}, {8, 262145}}) big.push_back(pr);
            int k = 0;
            for (auto pr : big) {
                vh::Rng r(a.seed * 1000003ULL + (++cid));
                const int c = k++ % (NVCLS + 2);
                const std::vector<double> x = (c < NVCLS) ? genv(r, pr.second, c) : (c == NVCLS) ? gen_boundary(r, pr.second, pr.first) : gen(r, pr.second, DISTINCT);
                chk_medfilt(pr.first, x, false, cid, std::string("big_") + ((c < NVCLS) ? vcls_name(c) : (c == NVCLS) ? "v_boundary" : "distinct"));
                chk_medfilt(pr.first, genv(r, 2 * pr.first, V_ULP), true, cid, "after_big");
            }
        }
        // outside the domain (correspondence only): order < 3, empty input
        for (int n : {0, 1, 2, 3, 4, 9}) {
            ++cid;
            chk_medfilt(n, {}, true, cid, DISTINCT);
            if (n < 3) chk_medfilt(n, {1.0, 2.0, 3.0, 4.0}, true, cid, DISTINCT);
        }
    }

    // ===================================================================== corr
    {
        // all pairs of permutations (x = p, y = q) for n <= NALL; for larger n every permutation y against
        // x = identity, reversed and NX random permutations.  Values: the integers 1..n and random increasing reals.
        const int NALL = T ? 6 : 5;
        const int NEXH = T ? 7 : 6;
        const int NX = T ? 40 : 2;
        for (int n = 2; n <= NEXH; ++n) {
            std::vector<std::vector<int>> perms;
            {
                std::vector<int> p(n);
                std::iota(p.begin(), p.end(), 0);
                do perms.push_back(p); while (std::next_permutation(p.begin(), p.end()));
            }
            out.stat("corr_perms_n" + std::to_string(n), (long long)perms.size());
            std::vector<std::vector<int>> xs;
            if (n <= NALL) xs = perms;
            else {
                xs.push_back(perms.front());
                xs.push_back(perms.back());
                for (int i = 0; i < NX; ++i) xs.push_back(perms[rng.next() % perms.size()]);
            }
            const std::vector<double> ints = inc_values(rng, n, true);
            long long cnt = 0;
            for (const auto& px : xs)
                for (const auto& py : perms) {
                    ++cid; ++cnt;
                    const bool useint = (cnt % 2 == 0);
                    vh::Rng r(a.seed * 1000003ULL + cid);
                    const std::vector<double> vx = useint ? ints : inc_values(r, n, false);
                    const std::vector<double> vy = useint ? ints : inc_values(r, n, false);
                    int mono = 0;
                    bool same = true, rev = true;
                    for (int i = 0; i < n; ++i) { if (px[i] != py[i]) same = false; if (px[i] != n - 1 - py[i]) rev = false; }
                    if (same) mono = 1;
                    if (rev) mono = -1;
                    // correspondence: everything up to n = 4, a thinned subset above
                    const bool corr = (n <= 4) || (n == 5 && cnt % 11 == 0) || (n >= 6 && cnt % (T ? 997 : 211) == 0);
                    chk_corr(apply_perm(px, vx), apply_perm(py, vy), corr, cid, mono, useint);
                }
        }
        // value classes for the rank statistics: samples whose members are 1 (or 1..2) ulps apart -- still tie-free, ranks and
        // concordance are decided in the last bit: nextafter chains from bases at every scale, integers at 2^52, multiples of
        // denorm_min, a chain through zero; random permutations, and the strictly monotone relations (= +-1)
        {
            const int NU = T ? 400 : 80;
            for (int i = 0; i < NU; ++i) {
                vh::Rng r(a.seed * 1000003ULL + (++cid));
                const int n = (i < 10) ? 2 + i : ((i % 3 == 0) ? r.range(401, 2000) : r.range(2, 400));
                auto chain = [&](int kind) {
                    double b;
                    switch (kind) {
                    case 0: b = 1.0; break;
                    case 1: b = TWO52; break;
                    case 2: b = DMIN; break;                          // k * denorm_min
                    case 3: b = step_ulp(-0.0, -(n / 2)); break;      // through zero
                    case 4: b = -2 * TWO52 + 1; break;                // negative integers, rising towards -2^52
                    default: b = (0.5 + r.unit()) * SCALES[r.range(0, 6)] * (r.coin() ? 1 : -1); break;
                    }
                    const bool two = r.coin();
                    std::vector<double> v(n);
                    for (int j = 0; j < n; ++j) { v[j] = b; b = step_ulp(b, two ? r.range(1, 2) : 1); }
                    return v;
                };
                const int kx = i % 6, ky = (i / 6) % 6;
                const std::vector<double> vx = chain(kx), vy = chain(ky);
                const auto px = rand_perm(r, n);
                std::vector<int> py;
                int mono = 0;
                if (i % 4 == 1) { py = px; mono = 1; }
                else if (i % 4 == 3) { py.resize(n); for (int j = 0; j < n; ++j) py[j] = n - 1 - px[j]; mono = -1; }
                else py = rand_perm(r, n);
                const bool inr = spread_in_range(vx) && spread_in_range(vy);
                chk_corr(apply_perm(px, vx), apply_perm(py, vy), n <= 200 && i % 2 == 0, cid, mono, false, inr ? "ulpchain" : "ulpchain_outofrange");
            }
        }
        // scale classes: x and y at absolute scales 1e-300 .. 1e300, all 100 pairs (all three coefficients are scale invariant).  The
        // rank statistics are checked at every scale; Pearson for both scales within 1e-70 .. 1e70, measured only beyond
        {
            static const double CS[10] = {1e-300, 1e-100, 1e-70, 1e-17, 1e-8, 1.0, 1e8, 1e70, 1e100, 1e300};
            const int NS = T ? 100 * 4 : 100;
            for (int i = 0; i < NS; ++i) {
                vh::Rng r(a.seed * 1000003ULL + (++cid));
                const int sx = i % 10, sy = (i / 10) % 10;
                const int n = (i % 5 == 0 && i >= 20) ? r.range(300, 2000) : r.range(2, (i < 20) ? 6 : 60);
                std::vector<double> vx = inc_values(r, n, i % 3 == 0), vy = inc_values(r, n, i % 4 == 0);
                for (auto& v : vx) v *= CS[sx];
                for (auto& v : vy) v *= CS[sy];
                const auto ok = [](int s) { return s >= 2 && s <= 7; };   // 1e-70 .. 1e70: Pearson is held to the reference
                const bool pearson_in_range = ok(sx) && ok(sy);
                const auto px = rand_perm(r, n), py = rand_perm(r, n);
                out.stat(pearson_in_range ? "corr_scale_pair_inside_1e-70_1e70" : "corr_scale_pair_outofrange");
                chk_corr(apply_perm(px, vx), apply_perm(py, vy), n <= 60, cid, 0, false, pearson_in_range ? "scale" : "scale_outofrange");
            }
        }
        // offset classes: x = c + (spread of order n), c = +-1e3 .. +-2^52 (r, rho, tau are translation invariant); random
        // permutations and affine relations y = a x + b (all three = +-1)
        {
            static const double OFFS[6] = {1e3, 1e6, 1e8, 1e12, TWO52, 1e15};
            const int NO = T ? 240 : 48;
            for (int i = 0; i < NO; ++i) {
                vh::Rng r(a.seed * 1000003ULL + (++cid));
                const int n = (i < 6) ? 4 : ((i % 5 == 0) ? r.range(300, 2000) : r.range(2, 60));
                const double c = OFFS[i % 6] * ((i / 6) % 2 ? -1 : 1);
                std::vector<double> vx = inc_values(r, n, true), vy = inc_values(r, n, (i / 12) % 2 == 0);
                for (auto& v : vx) v += c;
                const auto px = rand_perm(r, n);
                int mono = 0;
                std::vector<double> x = apply_perm(px, vx), y;
                if (i % 3 == 0) {   // affine with exactly representable results: y = +-2 x + 3 or y = +-(x - c)
                    mono = (i % 2) ? 1 : -1;
                    y.resize(n);
                    for (int j = 0; j < n; ++j) y[j] = (i % 4 < 2) ? mono * 2 * x[j] + 3 : mono * (x[j] - c);
                } else y = apply_perm(rand_perm(r, n), vy);
                chk_corr(x, y, n <= 60 && i % 2 == 0, cid, mono, true, "offset");
            }
        }
        // lengths just beyond the sweep limit (thorough: also a prime length > 46340)
        {
            std::vector<int> ns = {2001 + int(rng.next() % 2000)};
            if (T) for (int n : {2001, 2048, 4099, 8191, 46349}) ns.push_back(n);
            for (int n : ns) {
                vh::Rng r(a.seed * 1000003ULL + (++cid));
                const std::vector<double> vx = inc_values(r, n, false), vy = inc_values(r, n, n % 2 == 0);
                chk_corr(apply_perm(rand_perm(r, n), vx), apply_perm(rand_perm(r, n), vy), false, cid);
                out.stat("corr_beyond_sweep_length");
            }
        }
        // random permutations of larger length against the O(n^2) definitions
        const int NR = T ? 600 : 120;
        for (int i = 0; i < NR; ++i) {
            vh::Rng r(a.seed * 1000003ULL + (++cid));
            int n;
            if (i % 3 == 0) n = r.range(8, 40);
            else if (i % 3 == 1) n = r.range(41, 400);
            else n = r.range(401, 2000);
            if (i == 1) n = 2000;
            const std::vector<double> vx = inc_values(r, n, i % 5 == 0), vy = inc_values(r, n, i % 7 == 0);
            const auto px = (i % 4 == 0) ? [&] { std::vector<int> p(n); std::iota(p.begin(), p.end(), 0); return p; }() : rand_perm(r, n);
            const auto py = rand_perm(r, n);
            chk_corr(apply_perm(px, vx), apply_perm(py, vy), (n <= 400 && i % 2 == 0) || i == 1, cid);
        }
        // strictly monotone relations: y = f(x), f increasing / decreasing and non-linear (rank statistics = +-1);
        // affine y = a x + b (Pearson = +-1 as well)
        const int NM = T ? 400 : 80;
        for (int i = 0; i < NM; ++i) {
            vh::Rng r(a.seed * 1000003ULL + (++cid));
            const int n = (i < 12) ? 2 + i : ((i % 2) ? r.range(2, 60) : r.range(61, 2000));
            std::vector<double> x(n), y(n);
            for (auto& v : x) v = r.gauss() * 2;
            // distinct x (ties are outside the property)
            std::sort(x.begin(), x.end());
            bool distinct = true;
            for (int j = 1; j < n; ++j) if (x[j] == x[j - 1]) distinct = false;
            if (!distinct) continue;
            const auto p = rand_perm(r, n);
            x = apply_perm(p, x);
            const int sgn = (i % 2) ? 1 : -1;
            const int form = (i / 2) % 4;
            const bool affine = (form == 0);
            const double sa = 0.25 + 3 * r.unit(), sb = r.sym() * 3;
            for (int j = 0; j < n; ++j) {
                double f;
                switch (form) {
                case 0: f = sa * x[j] + sb; break;
                case 1: f = std::exp(0.7 * x[j]); break;
                case 2: f = x[j] * x[j] * x[j] + x[j]; break;
                default: f = std::atan(x[j]); break;
                }
                y[j] = sgn * f;
            }
            bool ydistinct = true;
            { std::vector<double> ys = y; std::sort(ys.begin(), ys.end()); for (int j = 1; j < n; ++j) if (ys[j] == ys[j - 1]) ydistinct = false; }
            if (!ydistinct) continue;
            chk_corr(x, y, n <= 60, cid, sgn, affine);
        }
        // outside the domain (correspondence only): n = 0, 1 (NaN), sizes differ (throws)
        {
            ++cid;
            chk_corr({}, {}, true, cid);
            chk_corr({1.5}, {-2.0}, true, cid);
            for (int k = 0; k < 3; ++k) {
                const arr_real x = {1.0, 2.0, 3.0}, y = {1.0, 2.0};
                bool threw = false;
                vh::set_current("C16:crash:corr-size-mismatch", "{\"op\":\"corr\",\"nx\":3,\"ny\":2}");
                double r = 0;
                try { r = dsplib::corr(x, y, KINDS[k]); } catch (const std::exception&) { threw = true; }
                vh::clear_current();
                out.corr("corr " + std::to_string(k) + " 3 " + vh::hx(1.0) + " " + vh::hx(2.0) + " " + vh::hx(3.0) + " 2 " + vh::hx(1.0) + " " + vh::hx(2.0),
                         threw ? std::string("ERR") : vh::hx(r));
            }
        }
        for (int k = 0; k < 3; ++k) out.stat(std::string("corr_max_abs_err_e18_") + KNAME[k], (long long)(g_maxerr[k] * 1e18L));
    }
    vh::unwatch();
    out.sample("{\"op\":\"corr\",\"kind\":\"kendall\",\"x\":[3,1,2,5,4],\"y\":[1,2,3,4,5],\"note\":\"the pair that exposed the repaired Kendall defect\"}");
    out.sample("{\"op\":\"MedianFilter\",\"order\":4,\"init\":0,\"x\":[1,2,3,4,5],\"framing\":[2,0,3]}");
    out.sample("{\"op\":\"sort\",\"x\":[2,0,2,1,0],\"ascend\":0}");
    out.finish();
    return 0;
}
