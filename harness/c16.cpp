// C16 — sorting, order statistics and rank correlation match their definitions.
//
// ORACLE (on the implementation only, long double / brute force):
//   sort          : values ordered, index vector a permutation, sorted[i] == x[idx[i]] (bitwise)
//   median        : middle order statistic found by counting (n <= 128) / by an independent stable sort
//   MedianFilter  : brute-force median of the last n samples of (init^n ++ stream), any framing
//   medfilt       : brute-force median of the centred, zero-padded window x[k-n/2 .. k+n2]
//   corr          : O(n^2) long-double definitions of Pearson r, Spearman rho, Kendall tau;
//                   symmetry, range, +-1 for strictly monotone (affine for Pearson) relations
// CORR: a representative subset of every class goes to the Lean model (Model/Order.lean).
#include "common.hpp"
#include <algorithm>
#include <numeric>
using namespace dsplib;
typedef long double ld;
static vh::Out out;
static uint64_t g_seed = 1;

// ------------------------------------------------------------------------------------ data classes
enum Cls { DISTINCT = 0, REPEATED, SORTED, REVERSED, CONSTANT, SORTED_REP, REVERSED_REP, NEAR_SORTED, SAW, TWOVAL, NCLS };
static const char* cls_name(int c) {
    static const char* n[] = {"distinct", "repeated", "sorted", "reversed", "constant", "sorted_rep", "reversed_rep", "near_sorted", "saw", "twoval"};
    return n[c];
}

static std::vector<double> gen(vh::Rng& r, int n, int cls) {
    std::vector<double> x(n);
    switch (cls) {
    case DISTINCT: for (auto& v : x) v = r.gauss() * 3; break;
    case REPEATED: { const int k = r.range(1, 6); for (auto& v : x) v = double(r.range(-k, k)); break; }
    case SORTED: for (auto& v : x) v = r.gauss(); std::sort(x.begin(), x.end()); break;
    case REVERSED: for (auto& v : x) v = r.gauss(); std::sort(x.begin(), x.end()); std::reverse(x.begin(), x.end()); break;
    case CONSTANT: { const double c = r.coin() ? 0.0 : double(r.range(-4, 4)) + 0.5; for (auto& v : x) v = c; break; }
    case SORTED_REP: for (auto& v : x) v = double(r.range(-3, 3)); std::sort(x.begin(), x.end()); break;
    case REVERSED_REP: for (auto& v : x) v = double(r.range(-3, 3)); std::sort(x.begin(), x.end()); std::reverse(x.begin(), x.end()); break;
    case NEAR_SORTED:
        for (auto& v : x) v = r.gauss();
        std::sort(x.begin(), x.end());
        if (n >= 2) { const int i = r.range(0, n - 1), j = r.range(0, n - 1); std::swap(x[i], x[j]); }
        break;
    case SAW: { const int p = r.range(2, 9); for (int i = 0; i < n; ++i) x[i] = double(i % p) - 1.0; break; }
    case TWOVAL: { const double a = r.gauss(), b = r.gauss(); for (auto& v : x) v = r.coin() ? a : b; break; }
    }
    for (auto& v : x) if (v == 0) v = 0.0;   // no -0.0: its order against +0.0 is unspecified
    return x;
}

static arr_real to_arr(const std::vector<double>& v) {
    arr_real a(int(v.size()));
    for (size_t i = 0; i < v.size(); ++i) a[int(i)] = v[i];
    return a;
}
static std::string hxv(const std::vector<double>& v) {
    std::string s = std::to_string(v.size());
    for (double d : v) { s += " "; s += vh::hx(d); }
    return s;
}
static std::string jv(const std::vector<double>& v, size_t cap = 48) {
    std::string s = "[";
    for (size_t i = 0; i < v.size() && i < cap; ++i) { if (i) s += ","; s += vh::jnum(v[i]); }
    if (v.size() > cap) s += ",\"...\"";
    return s + "]";
}
static bool same_bits(double a, double b) { return std::memcmp(&a, &b, 8) == 0; }

// witness: generator coordinates (seed, case id, class, n) + the data itself when short
static std::string wit(const char* op, long long caseid, int cls, const std::vector<double>& x, const std::string& extra = "") {
    std::string s = std::string("{\"op\":\"") + op + "\",\"seed\":" + std::to_string(g_seed) + ",\"case\":" + std::to_string(caseid) +
                    ",\"cls\":\"" + (cls >= 0 ? cls_name(cls) : "explicit") + "\",\"n\":" + std::to_string(x.size());
    if (!extra.empty()) s += "," + extra;
    s += ",\"x\":" + jv(x) + "}";
    return s;
}

// ------------------------------------------------------------------------------------ sort
static void chk_sort(const std::vector<double>& xv, bool ascend, bool corr, long long caseid, int cls) {
    const int n = int(xv.size());
    const arr_real x = to_arr(xv);
    const std::string w = wit("sort", caseid, cls, xv, std::string("\"ascend\":") + (ascend ? "1" : "0"));
    vh::set_current("C16:crash:sort", w);
    const auto res = sort(x, ascend ? Direction::Ascend : Direction::Descend);
    vh::clear_current();
    const arr_real& s = res.first;
    const arr_int& idx = res.second;
    out.n_oracle++;
    out.stat(std::string("sort_") + (cls >= 0 ? cls_name(cls) : "explicit"));
    if (s.size() != n || idx.size() != n) { out.fail("C16:sort-size", w); return; }
    std::vector<char> seen(n, 0);
    bool perm = true, gather = true, order = true;
    for (int i = 0; i < n; ++i) {
        const int j = idx[i];
        if (j < 0 || j >= n || seen[j]) { perm = false; break; }
        seen[j] = 1;
        if (!same_bits(s[i], xv[j])) gather = false;
    }
    for (int i = 1; i < n; ++i)
        if (ascend ? !(s[i - 1] <= s[i]) : !(s[i - 1] >= s[i])) order = false;
    if (!perm) out.fail("C16:sort-index-not-permutation", w);
    if (perm && !gather) out.fail("C16:sort-gather", w);
    if (!order) out.fail("C16:sort-order", w);
    bool input_sorted = true;
    for (int i = 1; i < n; ++i) if (ascend ? xv[i] < xv[i - 1] : xv[i] > xv[i - 1]) input_sorted = false;
    out.stat(input_sorted ? "sort_path_already_sorted" : "sort_path_std_sort");
    if (corr) {
        std::vector<double> sv(n);
        for (int i = 0; i < n; ++i) sv[i] = s[i];
        out.corr(std::string("sort ") + (ascend ? "1 " : "0 ") + hxv(xv), hxv(sv));
    }
}

// ------------------------------------------------------------------------------------ median
// k-th order statistic (0-based) by counting: v with #{< v} <= k < #{<= v}
static ld order_stat_count(const std::vector<double>& x, int k) {
    for (double v : x) {
        int lt = 0, le = 0;
        for (double u : x) { lt += (u < v); le += (u <= v); }
        if (lt <= k && k < le) return v;
    }
    return std::nanl("");
}
static ld median_ref(const std::vector<double>& x, ld* scale = nullptr) {
    const int n = int(x.size());
    ld a, b;
    if (n <= 128) {
        a = order_stat_count(x, n / 2);
        b = order_stat_count(x, (n - 1) / 2);
    } else {
        std::vector<ld> r(x.begin(), x.end());
        std::stable_sort(r.begin(), r.end());
        a = r[n / 2];
        b = r[(n - 1) / 2];
    }
    if (scale) *scale = std::max(fabsl(a), fabsl(b));
    return (n % 2 == 1) ? a : (a + b) / 2;
}
// one rounding of a+b (the halving is exact): <= 2^-53 * |a+b| <= 2^-52 * max(|a|,|b|)
static bool med_close(double got, ld ref, ld scale) { return fabsl(ld(got) - ref) <= 4.5e-16L * scale + 1e-300L; }

static void chk_median(const std::vector<double>& xv, bool corr, long long caseid, int cls) {
    const arr_real x = to_arr(xv);
    const std::string w = wit("median", caseid, cls, xv);
    vh::set_current("C16:crash:median", w);
    const double m = median(x);
    vh::clear_current();
    out.n_oracle++;
    out.stat(xv.size() % 2 ? "median_odd" : "median_even");
    ld sc;
    const ld ref = median_ref(xv, &sc);
    if (!med_close(m, ref, sc)) out.fail("C16:median-wrong", w);
    for (int i = 0; i < x.size(); ++i) if (!same_bits(x[i], xv[i])) { out.fail("C16:median-mutates-input", w); break; }
    if (corr) out.corr("median " + hxv(xv), vh::hx(m));
}

// ------------------------------------------------------------------------------------ MedianFilter
// median of the n values w[0..n-1] (brute force: insertion sort of a copy)
static ld window_median(const double* w, int n, ld* scale) {
    double buf[80];
    for (int i = 0; i < n; ++i) {
        double v = w[i];
        int j = i;
        while (j > 0 && buf[j - 1] > v) { buf[j] = buf[j - 1]; --j; }
        buf[j] = v;
    }
    const ld a = buf[n / 2], b = buf[(n - 1) / 2];
    *scale = std::max(fabsl(a), fabsl(b));
    return (n % 2 == 1) ? a : (a + b) / 2;
}

static std::vector<int> gen_frames(vh::Rng& r, int total, int n, int style) {
    std::vector<int> f;
    int left = total;
    while (left > 0) {
        int l;
        switch (style) {
        case 0: l = left; break;                                   // one call
        case 1: l = 1; break;                                      // sample by sample
        case 2: l = r.range(0, 3); break;                          // tiny, incl. empty frames
        case 3: l = r.range(0, 2 * n + 1); break;                  // around the window length
        case 4: l = (r.next() % 4 == 0) ? r.range(n - 1, n + 1) : r.range(1, 500); break;
        default: l = r.range(1, 2000); break;
        }
        if (l > left) l = left;
        f.push_back(l);
        left -= l;
    }
    if (f.empty()) f.push_back(0);
    return f;
}

static void chk_mf(int n, double init, bool default_ctor, const std::vector<double>& xs, const std::vector<int>& frames,
                   bool corr, long long caseid, int cls, int style) {
    const std::string w = wit("MedianFilter", caseid, cls, xs,
                              "\"order\":" + std::to_string(n) + ",\"init\":" + vh::jnum(init) + ",\"framing\":" + std::to_string(style) +
                                  ",\"nframes\":" + std::to_string(frames.size()));
    vh::set_current("C16:crash:MedianFilter", w);
    std::vector<double> y;
    y.reserve(xs.size());
    {
        MedianFilter flt = default_ctor ? MedianFilter(n) : MedianFilter(n, init);
        if (flt.order() != n) out.fail("C16:medianfilter-order", w);
        size_t p = 0;
        bool alt = false;
        for (int l : frames) {
            arr_real fr(l);
            for (int i = 0; i < l; ++i) fr[i] = xs[p + i];
            p += l;
            const arr_real yy = (alt = !alt) ? flt.process(fr) : flt(fr);
            if (yy.size() != l) { out.fail("C16:medianfilter-frame-size", w); vh::clear_current(); return; }
            for (int i = 0; i < l; ++i) y.push_back(yy[i]);
        }
    }
    vh::clear_current();
    out.n_oracle++;
    out.stat(n % 2 ? "mf_order_odd" : "mf_order_even");
    out.stat("mf_samples", (long long)xs.size());
    out.stat("mf_frames", (long long)frames.size());
    out.stat(std::string("mf_framing_") + std::to_string(style));
    out.stat(std::string("mf_") + cls_name(cls));
    // reference: extended stream init^n ++ xs; y[k] = median(ext[k+1 .. k+n])
    std::vector<double> ext(n, init);
    ext.insert(ext.end(), xs.begin(), xs.end());
    for (size_t k = 0; k < xs.size(); ++k) {
        ld sc;
        const ld ref = window_median(&ext[k + 1], n, &sc);
        if (!med_close(y[k], ref, sc)) {
            std::vector<double> win(ext.begin() + k + 1, ext.begin() + k + 1 + n);
            out.fail("C16:medianfilter-wrong",
                     wit("MedianFilter", caseid, cls, xs,
                         "\"order\":" + std::to_string(n) + ",\"init\":" + vh::jnum(init) + ",\"framing\":" + std::to_string(style) + ",\"k\":" +
                             std::to_string(k) + ",\"got\":" + vh::jnum(y[k]) + ",\"want\":" + vh::jnum(double(ref)) + ",\"window\":" + jv(win, 64)));
            break;
        }
    }
    if (corr) {
        std::string lhs = "mf " + std::to_string(n) + " " + vh::hx(init) + " " + std::to_string(frames.size()) + vh::join_ints(frames) + " " + hxv(xs);
        out.corr(lhs, hxv(y));
    }
}

// ------------------------------------------------------------------------------------ medfilt
static void chk_medfilt(int n, const std::vector<double>& xv, bool corr, long long caseid, int cls) {
    arr_real x = to_arr(xv);
    const std::string w = wit("medfilt", caseid, cls, xv, "\"order\":" + std::to_string(n));
    vh::set_current("C16:crash:medfilt", w);
    arr_real y;
    bool threw = false;
    try { y = medfilt(x, n); } catch (const std::exception&) { threw = true; }
    vh::clear_current();
    if (corr) out.corr("medfilt " + std::to_string(n) + " " + hxv(xv), threw ? std::string("ERR") : vh::hxs(y));
    if (n < 3 || xv.empty()) { out.stat(threw ? "medfilt_threw_outside_domain" : "medfilt_ok_outside_domain"); return; }   // outside the property's domain: CORR only
    out.n_oracle++;
    out.stat(n % 2 ? "medfilt_order_odd" : "medfilt_order_even");
    out.stat(int(xv.size()) < n ? "medfilt_shorter_than_window" : "medfilt_longer_than_window");
    if (threw) { out.fail("C16:medfilt-throws", w); return; }
    if (y.size() != int(xv.size())) { out.fail("C16:medfilt-size", w); return; }
    for (int i = 0; i < x.size(); ++i) if (!same_bits(x[i], xv[i])) { out.fail("C16:medfilt-mutates-input", w); break; }
    const int n1 = n / 2, n2 = (n % 2 == 1) ? n / 2 : n / 2 - 1;   // window of output k: x[k-n1 .. k+n2], zeros outside
    const int L = int(xv.size());
    std::vector<double> win(n);
    for (int k = 0; k < L; ++k) {
        for (int j = -n1; j <= n2; ++j) win[j + n1] = (k + j >= 0 && k + j < L) ? xv[k + j] : 0.0;
        ld sc;
        const ld ref = window_median(win.data(), n, &sc);
        if (!med_close(y[k], ref, sc)) {
            out.fail("C16:medfilt-wrong", wit("medfilt", caseid, cls, xv, "\"order\":" + std::to_string(n) + ",\"k\":" + std::to_string(k) + ",\"got\":" +
                                                                              vh::jnum(y[k]) + ",\"want\":" + vh::jnum(double(ref))));
            break;
        }
    }
}

// ------------------------------------------------------------------------------------ corr
static ld pearson_ref(const std::vector<double>& x, const std::vector<double>& y) {
    const int n = int(x.size());
    ld mx = 0, my = 0;
    for (int i = 0; i < n; ++i) { mx += x[i]; my += y[i]; }
    mx /= n; my /= n;
    ld sxy = 0, sxx = 0, syy = 0;
    for (int i = 0; i < n; ++i) { const ld a = x[i] - mx, b = y[i] - my; sxy += a * b; sxx += a * a; syy += b * b; }
    return sxy / sqrtl(sxx * syy);
}
static ld spearman_ref(const std::vector<double>& x, const std::vector<double>& y) {   // tie-free: 1 - 6 sum d^2 / (n (n^2-1)), ranks by counting
    const int n = int(x.size());
    ld sd = 0;
    for (int i = 0; i < n; ++i) {
        long long rx = 0, ry = 0;
        for (int j = 0; j < n; ++j) { rx += (x[j] < x[i]); ry += (y[j] < y[i]); }
        sd += ld(rx - ry) * ld(rx - ry);
    }
    return 1 - 6 * sd / (ld(n) * (ld(n) * n - 1));
}
static ld kendall_ref(const std::vector<double>& x, const std::vector<double>& y) {
    const int n = int(x.size());
    long long s = 0;
    for (int i = 0; i < n; ++i)
        for (int j = i + 1; j < n; ++j) {
            const int a = (x[i] < x[j]) - (x[i] > x[j]), b = (y[i] < y[j]) - (y[i] > y[j]);
            s += a * b;
        }
    return ld(s) / (ld(n) * (n - 1) / 2);
}
static const Correlation KINDS[3] = {Correlation::Pearson, Correlation::Spearman, Correlation::Kendall};
static const char* KNAME[3] = {"pearson", "spearman", "kendall"};
static ld g_maxerr[3] = {0, 0, 0};
static const ld TOL[3] = {1e-9L, 1e-12L, 1e-13L};   // Pearson: rounding of the one-pass moment formula (measured); rank statistics are integer sums

static std::string wit2(const char* what, int kind, long long caseid, const std::vector<double>& x, const std::vector<double>& y, double got, double want) {
    return std::string("{\"op\":\"corr\",\"what\":\"") + what + "\",\"kind\":\"" + KNAME[kind] + "\",\"seed\":" + std::to_string(g_seed) + ",\"case\":" +
           std::to_string(caseid) + ",\"n\":" + std::to_string(x.size()) + ",\"x\":" + jv(x, 24) + ",\"y\":" + jv(y, 24) + ",\"got\":" + vh::jnum(got) +
           ",\"want\":" + vh::jnum(want) + "}";
}

// mono: 0 none, +1 strictly increasing relation (affine when `affine`), -1 strictly decreasing
static void chk_corr(const std::vector<double>& xv, const std::vector<double>& yv, bool corr, long long caseid, int mono = 0, bool affine = false) {
    const arr_real x = to_arr(xv), y = to_arr(yv);
    const int n = int(xv.size());
    for (int k = 0; k < 3; ++k) {
        vh::set_current("C16:crash:corr", wit2("crash", k, caseid, xv, yv, 0, 0));
        const double r = dsplib::corr(x, y, KINDS[k]);
        const double rs = dsplib::corr(y, x, KINDS[k]);
        vh::clear_current();
        if (corr) out.corr("corr " + std::to_string(k) + " " + hxv(xv) + " " + hxv(yv), vh::hx(r));
        if (n < 2) { out.stat("corr_undefined_n_lt_2"); continue; }   // r, rho, tau are undefined: CORR only
        out.n_oracle++;
        out.stat(std::string("corr_") + KNAME[k]);
        const ld ref = (k == 0) ? pearson_ref(xv, yv) : (k == 1) ? spearman_ref(xv, yv) : kendall_ref(xv, yv);
        const ld err = fabsl(ld(r) - ref);
        if (err == err && err > g_maxerr[k]) g_maxerr[k] = err;
        if (!(err <= TOL[k])) out.fail(std::string("C16:corr-") + KNAME[k] + "-wrong", wit2("value", k, caseid, xv, yv, r, double(ref)));
        if (!(fabsl(ld(r) - ld(rs)) <= 1e-12L)) out.fail(std::string("C16:corr-") + KNAME[k] + "-asymmetric", wit2("corr(x,y) vs corr(y,x)", k, caseid, xv, yv, r, rs));
        if (!same_bits(r, rs)) out.stat(std::string("corr_sym_not_bitwise_") + KNAME[k]);
        if (!(r >= -1 - 1e-12 && r <= 1 + 1e-12)) out.fail(std::string("C16:corr-") + KNAME[k] + "-out-of-range", wit2("range", k, caseid, xv, yv, r, 0));
        if (r > 1 || r < -1) out.stat(std::string("corr_exceeds_1_by_rounding_") + KNAME[k]);
        if (mono != 0 && (k != 0 || affine)) {
            const double tol1 = (k == 0) ? 1e-9 : 1e-12;
            out.stat(mono > 0 ? "corr_monotone_increasing" : "corr_monotone_decreasing");
            if (!(std::fabs(r - double(mono)) <= tol1)) out.fail(std::string("C16:corr-") + KNAME[k] + "-monotone-not-pm1", wit2("monotone", k, caseid, xv, yv, r, double(mono)));
            if (r != double(mono)) out.stat(std::string("corr_monotone_not_exactly_pm1_") + KNAME[k]);
        }
    }
}

// strictly increasing map of the ranks 0..n-1 to non-integer values (random positive increments)
static std::vector<double> inc_values(vh::Rng& r, int n, bool integers) {
    std::vector<double> v(n);
    double a = integers ? 1.0 : r.sym() * 2;
    for (int i = 0; i < n; ++i) { v[i] = a; a += integers ? 1.0 : 0.1 + r.unit(); }
    return v;
}
static std::vector<double> apply_perm(const std::vector<int>& p, const std::vector<double>& vals) {
    std::vector<double> x(p.size());
    for (size_t i = 0; i < p.size(); ++i) x[i] = vals[p[i]];
    return x;
}
static std::vector<int> rand_perm(vh::Rng& r, int n) {
    std::vector<int> p(n);
    std::iota(p.begin(), p.end(), 0);
    for (int i = n - 1; i > 0; --i) std::swap(p[i], p[r.range(0, i)]);
    return p;
}

int main(int argc, char** argv) {
    vh::Args a(argc, argv);
    vh::install_guards();
    g_seed = a.seed;
    vh::Rng rng(a.seed);
    const bool T = a.thorough;
    vh::watch(T ? 3000 : 600);
    long long cid = 0;

    // ===================================================================== sort / median
    // every length 1..2000 (thorough: every class at every length, both directions; quick: one class per
    // length in rotation + all classes on a length grid)
    {
        const int NMAX = 2000;
        for (int n = 1; n <= NMAX; ++n) {
            for (int cls = 0; cls < NCLS; ++cls) {
                const bool grid = (n <= 40) || (n % 97 == 0) || n == NMAX || n == NMAX - 1;
                if (!T && !grid && (n + cls) % NCLS != 0) continue;
                vh::Rng r(a.seed * 1000003ULL + (++cid));
                const std::vector<double> x = gen(r, n, cls);
                // correspondence subset: all short ones, a grid of long ones
                const bool corr = (n <= 24) || (n <= 200 && (n + cls) % 7 == 0) || (n % 250 == 0 && cls < 5) || (n == 1999 && cls < 5);
                chk_sort(x, true, corr, cid, cls);
                chk_sort(x, false, corr && (n % 2 == 0 || n <= 24), cid, cls);
                chk_median(x, corr, cid, cls);
            }
        }
        // explicit small cases: all sequences over {0,1,2} of length <= 5 (every tie pattern)
        for (int n = 1; n <= 5; ++n) {
            int tot = 1;
            for (int i = 0; i < n; ++i) tot *= 3;
            for (int c = 0; c < tot; ++c) {
                std::vector<double> x(n);
                int m = c;
                for (int i = 0; i < n; ++i) { x[i] = double(m % 3); m /= 3; }
                ++cid;
                chk_sort(x, true, true, cid, -1);
                chk_sort(x, false, true, cid, -1);
                chk_median(x, true, cid, -1);
            }
        }
        // large magnitudes / denormals / infinities are ordinary ordered values
        {
            std::vector<double> x = {1e308, -1e308, 5e-324, -5e-324, 0.0, 1.0, -1.0, INFINITY, -INFINITY, 1e308, 2.2250738585072014e-308};
            ++cid;
            chk_sort(x, true, true, cid, -1);
            chk_sort(x, false, true, cid, -1);
            std::vector<double> xf(x.begin(), x.begin() + 7);
            chk_median(xf, true, cid, -1);
        }
    }

    // ===================================================================== MedianFilter
    {
        const int LEN = 10000;
        const int mf_classes[] = {DISTINCT, REPEATED, CONSTANT, SORTED, REVERSED, SAW, TWOVAL, SORTED_REP};
        const int NMC = 8;
        for (int n = 3; n <= 64; ++n) {
            for (int ci = 0; ci < NMC; ++ci) {
                const int nstyles = 6;
                for (int style = 0; style < nstyles; ++style) {
                    // quick: five (class, framing) pairs per order in rotation; thorough: every class x every framing
                    bool run;
                    if (T) run = true;   // every class x every framing
                    else run = (ci == n % NMC && style == n % nstyles) || (ci == (n + 3) % NMC && style == (n + 2) % nstyles) ||
                               (ci == (n + 5) % NMC && style == (n + 1) % nstyles) || (ci == 1 && style == (n + 4) % nstyles) || (ci == 0 && style == (n + 3) % nstyles);
                    if (!run) continue;
                    vh::Rng r(a.seed * 1000003ULL + (++cid));
                    const int cls = mf_classes[ci];
                    std::vector<double> xs = gen(r, LEN, cls);
                    // initial history: default (0), explicit 0, a value inside / outside the data range, a value equal to data samples
                    const int im = r.range(0, 4);
                    double init = 0;
                    bool dflt = false;
                    switch (im) {
                    case 0: dflt = true; break;
                    case 1: init = 0.0; break;
                    case 2: init = r.gauss(); break;
                    case 3: init = xs[r.range(0, LEN - 1)]; break;
                    case 4: init = r.coin() ? 1e6 : -1e6; break;
                    }
                    out.stat(std::string("mf_init_mode_") + std::to_string(im));
                    const std::vector<int> frames = gen_frames(r, LEN, n, style);
                    chk_mf(n, init, dflt, xs, frames, false, cid, cls, style);
                    // correspondence: a prefix of the same stream with the same kind of framing
                    const bool corr = T ? (style == (n + ci) % nstyles) : (ci == n % NMC);
                    if (corr) {
                        const int CL = ((n == 3 || n == 4 || n == 63 || n == 64) && ci < 3) ? LEN : (T ? 800 : 400);
                        std::vector<double> xc(xs.begin(), xs.begin() + CL);
                        const std::vector<int> fc = gen_frames(r, CL, n, style == 0 ? 3 : style);
                        chk_mf(n, init, dflt, xc, fc, true, cid, cls, style == 0 ? 3 : style);
                    }
                }
            }
        }
        // short streams: fewer samples than the window (the initial history dominates), incl. zero samples
        for (int n = 3; n <= 64; n += (T ? 1 : 7))
            for (int len : {0, 1, 2, n - 1, n, n + 1}) {
                vh::Rng r(a.seed * 1000003ULL + (++cid));
                std::vector<double> xs = gen(r, len, r.coin() ? DISTINCT : REPEATED);
                const double init = r.coin() ? 0.0 : double(r.range(-2, 2));
                chk_mf(n, init, false, xs, gen_frames(r, len, n, 2), true, cid, DISTINCT, 2);
            }
        // order < 3 must throw
        for (int n : {-1, 0, 1, 2}) {
            bool threw = false;
            vh::set_current("C16:crash:MedianFilter-ctor", "{\"op\":\"MedianFilter\",\"order\":" + std::to_string(n) + "}");
            try { MedianFilter f(n); } catch (const std::exception&) { threw = true; }
            vh::clear_current();
            out.stat(threw ? "mf_small_order_throws" : "mf_small_order_accepted");
        }
    }

    // ===================================================================== medfilt
    {
        for (int n = 3; n <= 64; ++n) {
            std::vector<int> lens = {1, 2, n / 2, n - 1, n, n + 1, 2 * n + 1, 257};
            if (T) { lens.push_back(2000); lens.push_back(1000 + n); }
            else if (n % 8 == 0) lens.push_back(2000);
            for (int len : lens) {
                if (len < 1) continue;
                for (int rep = 0; rep < (T ? 4 : 1); ++rep) {
                    vh::Rng r(a.seed * 1000003ULL + (++cid));
                    const int cls = (rep == 0) ? (n + len) % NCLS : r.range(0, NCLS - 1);
                    const std::vector<double> x = gen(r, len, cls);
                    chk_medfilt(n, x, rep == 0 && (len <= 2 * n + 1 || (n % 8 == 0)), cid, cls);
                }
            }
        }
        // outside the domain (correspondence only): order < 3, empty input
        for (int n : {0, 1, 2, 3, 4, 9}) {
            ++cid;
            chk_medfilt(n, {}, true, cid, DISTINCT);
            if (n < 3) chk_medfilt(n, {1.0, 2.0, 3.0, 4.0}, true, cid, DISTINCT);
        }
    }

    // ===================================================================== corr
    {
        // all pairs of permutations (x = p, y = q) for n <= NALL; for larger n every permutation y against
        // x = identity, reversed and NX random permutations.  Values: the integers 1..n and random increasing reals.
        const int NALL = T ? 6 : 5;
        const int NEXH = T ? 7 : 6;
        const int NX = T ? 40 : 2;
        for (int n = 2; n <= NEXH; ++n) {
            std::vector<std::vector<int>> perms;
            {
                std::vector<int> p(n);
                std::iota(p.begin(), p.end(), 0);
                do perms.push_back(p); while (std::next_permutation(p.begin(), p.end()));
            }
            out.stat("corr_perms_n" + std::to_string(n), (long long)perms.size());
            std::vector<std::vector<int>> xs;
            if (n <= NALL) xs = perms;
            else {
                xs.push_back(perms.front());
                xs.push_back(perms.back());
                for (int i = 0; i < NX; ++i) xs.push_back(perms[rng.next() % perms.size()]);
            }
            const std::vector<double> ints = inc_values(rng, n, true);
            long long cnt = 0;
            for (const auto& px : xs)
                for (const auto& py : perms) {
                    ++cid; ++cnt;
                    const bool useint = (cnt % 2 == 0);
                    vh::Rng r(a.seed * 1000003ULL + cid);
                    const std::vector<double> vx = useint ? ints : inc_values(r, n, false);
                    const std::vector<double> vy = useint ? ints : inc_values(r, n, false);
                    int mono = 0;
                    bool same = true, rev = true;
                    for (int i = 0; i < n; ++i) { if (px[i] != py[i]) same = false; if (px[i] != n - 1 - py[i]) rev = false; }
                    if (same) mono = 1;
                    if (rev) mono = -1;
                    // correspondence: everything up to n = 4, a thinned subset above
                    const bool corr = (n <= 4) || (n == 5 && cnt % 11 == 0) || (n >= 6 && cnt % (T ? 997 : 211) == 0);
                    chk_corr(apply_perm(px, vx), apply_perm(py, vy), corr, cid, mono, useint);
                }
        }
        // random permutations of larger length against the O(n^2) definitions
        const int NR = T ? 600 : 120;
        for (int i = 0; i < NR; ++i) {
            vh::Rng r(a.seed * 1000003ULL + (++cid));
            int n;
            if (i % 3 == 0) n = r.range(8, 40);
            else if (i % 3 == 1) n = r.range(41, 400);
            else n = r.range(401, 2000);
            if (i == 1) n = 2000;
            const std::vector<double> vx = inc_values(r, n, i % 5 == 0), vy = inc_values(r, n, i % 7 == 0);
            const auto px = (i % 4 == 0) ? [&] { std::vector<int> p(n); std::iota(p.begin(), p.end(), 0); return p; }() : rand_perm(r, n);
            const auto py = rand_perm(r, n);
            chk_corr(apply_perm(px, vx), apply_perm(py, vy), (n <= 400 && i % 2 == 0) || i == 1, cid);
        }
        // strictly monotone relations: y = f(x), f increasing / decreasing and non-linear (rank statistics = +-1);
        // affine y = a x + b (Pearson = +-1 as well)
        const int NM = T ? 400 : 80;
        for (int i = 0; i < NM; ++i) {
            vh::Rng r(a.seed * 1000003ULL + (++cid));
            const int n = (i < 12) ? 2 + i : ((i % 2) ? r.range(2, 60) : r.range(61, 2000));
            std::vector<double> x(n), y(n);
            for (auto& v : x) v = r.gauss() * 2;
            // distinct x (ties are outside the property)
            std::sort(x.begin(), x.end());
            bool distinct = true;
            for (int j = 1; j < n; ++j) if (x[j] == x[j - 1]) distinct = false;
            if (!distinct) continue;
            const auto p = rand_perm(r, n);
            x = apply_perm(p, x);
            const int sgn = (i % 2) ? 1 : -1;
            const int form = (i / 2) % 4;
            const bool affine = (form == 0);
            const double sa = 0.25 + 3 * r.unit(), sb = r.sym() * 3;
            for (int j = 0; j < n; ++j) {
                double f;
                switch (form) {
                case 0: f = sa * x[j] + sb; break;
                case 1: f = std::exp(0.7 * x[j]); break;
                case 2: f = x[j] * x[j] * x[j] + x[j]; break;
                default: f = std::atan(x[j]); break;
                }
                y[j] = sgn * f;
            }
            bool ydistinct = true;
            { std::vector<double> ys = y; std::sort(ys.begin(), ys.end()); for (int j = 1; j < n; ++j) if (ys[j] == ys[j - 1]) ydistinct = false; }
            if (!ydistinct) continue;
            chk_corr(x, y, n <= 60, cid, sgn, affine);
        }
        // outside the domain (correspondence only): n = 0, 1 (NaN), sizes differ (throws)
        {
            ++cid;
            chk_corr({}, {}, true, cid);
            chk_corr({1.5}, {-2.0}, true, cid);
            for (int k = 0; k < 3; ++k) {
                const arr_real x = {1.0, 2.0, 3.0}, y = {1.0, 2.0};
                bool threw = false;
                vh::set_current("C16:crash:corr-size-mismatch", "{\"op\":\"corr\",\"nx\":3,\"ny\":2}");
                double r = 0;
                try { r = dsplib::corr(x, y, KINDS[k]); } catch (const std::exception&) { threw = true; }
                vh::clear_current();
                out.corr("corr " + std::to_string(k) + " 3 " + vh::hx(1.0) + " " + vh::hx(2.0) + " " + vh::hx(3.0) + " 2 " + vh::hx(1.0) + " " + vh::hx(2.0),
                         threw ? std::string("ERR") : vh::hx(r));
            }
        }
        for (int k = 0; k < 3; ++k) out.stat(std::string("corr_max_abs_err_e18_") + KNAME[k], (long long)(g_maxerr[k] * 1e18L));
    }
    vh::unwatch();
    out.sample("{\"op\":\"corr\",\"kind\":\"kendall\",\"x\":[3,1,2,5,4],\"y\":[1,2,3,4,5],\"note\":\"the pair that exposed the repaired Kendall defect\"}");
    out.sample("{\"op\":\"MedianFilter\",\"order\":4,\"init\":0,\"x\":[1,2,3,4,5],\"framing\":[2,0,3]}");
    out.sample("{\"op\":\"sort\",\"x\":[2,0,2,1,0],\"ascend\":0}");
    out.finish();
    return 0;
}
