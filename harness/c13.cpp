// C13 — spectral estimates conserve power and label frequencies correctly.
//   welch (real / complex input, Psd / Power scaling, every overload) and mscohere on the real library.
//
// ORACLE (long double, independent of the library's transform):
//   sizes        pxx and f have nfft/2+1 (real) / nfft (complex) entries
//   nonneg       every value finite and >= 0
//   psd-sum      Psd: sum_k pxx[k] = nfft * mean_seg( sum_t |x[t1+t] w[t]|^2 ) / (w.w), evaluated in the TIME domain in long double
//                with an independent segmentation; a-priori rounding bound (nseg + winlen + 16 log2 nfft + 16) eps (relative)
//   power-tone   Power: a bin-centred complex tone A e^{i(2 pi k0 t/nfft + phi)} has peak value A^2 (rounding bound as above);
//                a bin-centred real sinusoid has pxx[k0] = A^2/2 up to the negative-frequency image, whose exact relative size
//                r = |S(2 k0)| / S(0) (S = transform of the window) is computed in long double: |pxx[k0]/(A^2/2) - 1| <= 2r + r^2;
//                (this is exactly the bound of theorem welchR_cos_tone in Props/C13.lean, plus the rounding term);
//                tones with r > 0.004 (bound above 1 %) are counted, not judged
//   labels       real: f[i] = i/nfft; complex: the f[i] are the nfft distinct lattice frequencies in [-1/2, 1/2];
//                tone sweep finer than the bin spacing over (0, 1/2) real and (-1/2, 1/2) complex: the listed frequency of the
//                maximum is the one nearest the tone (circular distance for complex input).  A tone is judged when an independent
//                long-double evaluation of the estimate (radix-2 FFT in long double) has its unique maximum (margin 1e-9) at the
//                nearest bin — i.e. when the statement holds for the exact estimator; the others (ties half-way between bins,
//                real tones whose two images overlap next to DC / Nyquist) are counted as `tones_ambiguous`, for them only the peak
//                value is compared with the reference.
//                Complex input on the current tree: pxx is in transform order, f is the centred axis -> every judged complex tone
//                fails; when the peak position IS the transform-order position of the nearest bin the failure is reported under
//                the recorded key C13:complex-welch-axis, any other misplacement under C13:complex-tone-peak.
//   coherence    mscohere in [0, 1 + 1e-12] for random pairs, scaled copies, filtered copies, independent noise;
//                |mscohere - 1| <= 1e-9 at every frequency for y = c x (broadband x, >= 2 segments)
//   overloads    welch(x, winlen[, noverlap, nfft]), welch(x, win), mscohere(x, y, winlen | win) equal the explicit call bit for bit
// CORR: tags wR wC wRd wCd (pxx), fR fC (frequency axes), coh cohd — replayed by Model/Spectrum.lean through dspdriver_c13,
//   including the guard / boundary classes outside the property's domain (non-power-of-two nfft, noverlap >= winlen, negative
//   noverlap, signal shorter than the window, window longer than nfft, nfft 1/2/4, all-zero window, size mismatch).
#include "common.hpp"
#include <algorithm>
using namespace dsplib;
typedef long double LD;
static vh::Out out;
static const LD PI_L = 3.14159265358979323846264338327950288L;
static const LD EPS = 2.220446049250313e-16L;
static bool g_thorough = false;
static uint64_t g_seed = 1;

static int ilog2(int n) { int p = 0; while ((1 << p) < n) ++p; return p; }

// ------------------------------------------------------------------------------------------------ windows
enum Fam { RECT = 0, HANN, HAMMING, BLACKMAN, BHARRIS, GAUSS, COSINE, TUKEY, KAISER, RANDPOS, NFAM };
static const char* fam_name[NFAM] = {"rect", "hann", "hamming", "blackman", "blackmanharris", "gauss", "cosine", "tukey", "kaiser", "randpos"};

static arr_real make_win(int fam, int n, vh::Rng& r) {
    const bool sym = r.coin();
    switch (fam) {
    case RECT: return ones(n);
    case HANN: return window::hann(n, sym);
    case HAMMING: return window::hamming(n, sym);
    case BLACKMAN: return window::blackman(n, sym);
    case BHARRIS: return window::blackmanharris(n, sym);
    case GAUSS: return window::gauss(n, r.coin() ? 2.5 : 1.0 + 3.0 * r.unit(), sym);
    case COSINE: return window::cosine(n, sym);
    case TUKEY: return window::tukey(n, r.coin() ? 0.5 : r.unit());
    case KAISER: return window::kaiser(n, r.coin() ? 0.5 : 12.0 * r.unit());
    default: {
        arr_real w(n);
        for (int i = 0; i < n; ++i) w[i] = 0.05 + r.unit();
        return w;
    }
    }
}

// a window is usable for the property's clauses when its coefficients are finite and it has weight
static bool win_ok(const arr_real& w) {
    LD s = 0, s2 = 0;
    for (int i = 0; i < w.size(); ++i) {
        if (!std::isfinite(w[i])) return false;
        s += w[i];
        s2 += (LD)w[i] * w[i];
    }
    return w.size() > 0 && s > 1e-3L && s2 > 1e-6L;
}

// ------------------------------------------------------------------------------------------------ signals
static const int NSIGK = 6;
static const char* sig_name[NSIGK] = {"gauss", "scaled", "tone+noise", "impulsive", "dc+noise", "levels"};
static double sig_sample(vh::Rng& r, int kind, int t, int N, double p1, double p2) {
    switch (kind) {
    case 0: return r.gauss();
    case 1: return p1 * r.gauss();
    case 2: return std::cos(2 * M_PI * p2 * t) + 0.1 * r.gauss();
    case 3: return (r.next() % 37 == 0 ? 50.0 : 0.05) * r.gauss();
    case 4: return p1 + 0.01 * r.gauss();
    default: return ((t * 4 / std::max(1, N)) % 2 ? 3.0 : 0.2) * r.gauss();
    }
}
static arr_real gen_real(vh::Rng& r, int N, int kind) {
    const double p1 = std::pow(10.0, 6 * r.unit() - 3), p2 = 0.5 * r.unit();
    arr_real x(N);
    for (int t = 0; t < N; ++t) x[t] = sig_sample(r, kind, t, N, p1, p2);
    return x;
}
static arr_cmplx gen_cmplx(vh::Rng& r, int N, int kind) {
    const double p1 = std::pow(10.0, 6 * r.unit() - 3), p2 = r.unit() - 0.5;
    arr_cmplx x(N);
    for (int t = 0; t < N; ++t) {
        if (kind == 2) {
            x[t].re = std::cos(2 * M_PI * p2 * t) + 0.1 * r.gauss();
            x[t].im = std::sin(2 * M_PI * p2 * t) + 0.1 * r.gauss();
        } else {
            x[t].re = sig_sample(r, kind, t, N, p1, p2);
            x[t].im = sig_sample(r, kind, t, N, p1, p2);
        }
    }
    return x;
}

// ------------------------------------------------------------------------------------------------ long-double reference
struct CL {
    LD re, im;
};
static std::map<int, std::vector<CL>> g_tw;
static const std::vector<CL>& twiddles(int n) {
    auto it = g_tw.find(n);
    if (it != g_tw.end()) return it->second;
    std::vector<CL> t(std::max(1, n / 2));
    for (int i = 0; i < n / 2; ++i) t[i] = CL{cosl(2 * PI_L * i / n), -sinl(2 * PI_L * i / n)};
    return g_tw[n] = t;
}
// in-place radix-2 decimation-in-time, n a power of two
static void fft_ld(std::vector<CL>& a) {
    const int n = (int)a.size();
    if (n <= 1) return;
    for (int i = 1, j = 0; i < n; ++i) {
        int bit = n >> 1;
        for (; j & bit; bit >>= 1) j ^= bit;
        j ^= bit;
        if (i < j) std::swap(a[i], a[j]);
    }
    const std::vector<CL>& tw = twiddles(n);
    for (int len = 2; len <= n; len <<= 1) {
        const int step = n / len;
        for (int i = 0; i < n; i += len) {
            for (int k = 0; k < len / 2; ++k) {
                const CL w = tw[k * step];
                const CL u = a[i + k], v0 = a[i + k + len / 2];
                const CL v = CL{v0.re * w.re - v0.im * w.im, v0.re * w.im + v0.im * w.re};
                a[i + k] = CL{u.re + v.re, u.im + v.im};
                a[i + k + len / 2] = CL{u.re - v.re, u.im - v.im};
            }
        }
    }
}
static inline CL toCL(real_t v) { return CL{v, 0}; }
static inline CL toCL(cmplx_t v) { return CL{v.re, v.im}; }
static inline LD abs2L(real_t v) { return (LD)v * v; }
static inline LD abs2L(cmplx_t v) { return (LD)v.re * v.re + (LD)v.im * v.im; }

static int seg_count(int N, int winlen, int nov) { return (N - winlen) / (winlen - nov) + 1; }   // N >= winlen, nov < winlen

// two-sided reference estimate in transform order (the definition: windowed, zero-padded / truncated segments, squared
// magnitudes averaged, divided by the window compensation)
template<class T>
static std::vector<LD> ref_two_sided(const base_array<T>& x, const arr_real& win, int nov, int nfft, bool psd) {
    const int N = x.size(), L = win.size(), stride = L - nov, nseg = seg_count(N, L, nov);
    LD s = 0, s2 = 0;
    for (int i = 0; i < L; ++i) { s += win[i]; s2 += (LD)win[i] * win[i]; }
    const LD wp = psd ? s2 : s * s;
    std::vector<LD> P(nfft, 0.0L);
    std::vector<CL> a(nfft);
    for (int g = 0; g < nseg; ++g) {
        for (int t = 0; t < nfft; ++t) {
            if (t < L) { CL v = toCL(x[g * stride + t]); a[t] = CL{v.re * win[t], v.im * win[t]}; }
            else a[t] = CL{0, 0};
        }
        fft_ld(a);
        for (int k = 0; k < nfft; ++k) P[k] += a[k].re * a[k].re + a[k].im * a[k].im;
    }
    for (int k = 0; k < nfft; ++k) P[k] = P[k] / wp / nseg;
    return P;
}
static std::vector<LD> fold_one_sided(const std::vector<LD>& P) {
    const int nfft = (int)P.size(), h = nfft / 2;
    std::vector<LD> q(h + 1);
    for (int k = 0; k <= h; ++k) q[k] = (k == 0 || k == h) ? P[k] : P[k] + P[nfft - k];
    return q;
}

// nfft * mean_seg(sum_t |x w|^2) / (w.w), time domain (needs winlen <= nfft)
template<class T>
static LD ref_power_sum(const base_array<T>& x, const arr_real& win, int nov, int nfft) {
    const int N = x.size(), L = win.size(), stride = L - nov, nseg = seg_count(N, L, nov);
    LD s2 = 0;
    for (int i = 0; i < L; ++i) s2 += (LD)win[i] * win[i];
    LD acc = 0;
    for (int g = 0; g < nseg; ++g) {
        LD e = 0;
        for (int t = 0; t < L; ++t) e += abs2L(x[g * stride + t]) * ((LD)win[t] * win[t]);
        acc += e;
    }
    return (LD)nfft * (acc / nseg) / s2;
}

// ------------------------------------------------------------------------------------------------ protocol helpers
static std::string ctx_json(const char* what, bool cx, int nfft, int fam, int L, int nov, int N, int sig, bool psd, long long id) {
    char b[512];
    std::snprintf(b, sizeof b,
                  "{\"what\":\"%s\",\"input\":\"%s\",\"nfft\":%d,\"window\":\"%s\",\"winlen\":%d,\"noverlap\":%d,\"len\":%d,\"signal\":\"%s\",\"scale\":\"%s\",\"seed\":%llu,\"case\":%lld}",
                  what, cx ? "complex" : "real", nfft, fam >= 0 ? fam_name[fam] : "custom", L, nov, N, sig >= 0 ? sig_name[sig] : "tone",
                  psd ? "psd" : "power", (unsigned long long)g_seed, id);
    return b;
}
static std::string add_field(const std::string& js, const std::string& k, const std::string& v) {
    return js.substr(0, js.size() - 1) + ",\"" + k + "\":" + v + "}";
}
static long long g_case = 0;
static LD g_max_sum_ratio = 0, g_max_ctone_ratio = 0, g_max_rtone_ratio = 0, g_max_coh_excess = 0, g_max_coh_dev = 0, g_max_ref_dev = 0;

template<class T> struct Tr;
template<> struct Tr<real_t> { static const bool cx = false; static const char* tag() { return "wR"; } static const char* tagd() { return "wRd"; } };
template<> struct Tr<cmplx_t> { static const bool cx = true; static const char* tag() { return "wC"; } static const char* tagd() { return "wCd"; } };

static std::map<std::pair<bool, int>, int> g_axis_emitted;
static void emit_axis(bool cx, int nfft, const arr_real& f) {
    if (g_axis_emitted[{cx, nfft}]++ >= 3) return;   // the axis depends on nfft only; every call's axis is judged by the oracle
    out.corr(std::string(cx ? "fC " : "fR ") + std::to_string(nfft), vh::hxs(f));
}
template<class T>
static void emit_welch(const base_array<T>& x, const arr_real& win, int nov, int nfft, bool psd, const std::string& rhs) {
    out.corr(std::string(Tr<T>::tag()) + " " + (psd ? "1 " : "0 ") + std::to_string(nov) + " " + std::to_string(nfft) + " " + vh::hxs(x) + " " + vh::hxs(win), rhs);
}

// ------------------------------------------------------------------------------------------------ welch: general clauses
// returns false if the call threw
template<class T>
static bool check_welch(const base_array<T>& x, const arr_real& win, int nov, int nfft, bool psd, const std::string& ctx, bool corr,
                        WelchResult* res_out = nullptr) {
    const bool cx = Tr<T>::cx;
    const int L = win.size(), N = x.size();
    const SpectrumType type = psd ? SpectrumType::Psd : SpectrumType::Power;
    vh::set_current("C13:welch-crash", ctx);
    vh::watch(600);
    arr_real pxx, f;
    try {
        WelchResult r = welch(x, win, nov, nfft, type);
        pxx = r.pxx;
        f = r.f;
    } catch (const std::exception& e) {
        vh::unwatch();
        vh::clear_current();
        out.fail("C13:welch-throws", add_field(ctx, "error", std::string("\"") + e.what() + "\""));
        if (corr) emit_welch(x, win, nov, nfft, psd, "ERR");
        return false;
    }
    vh::unwatch();
    vh::clear_current();
    ++out.n_oracle;
    out.stat(cx ? "welch_complex_calls" : "welch_real_calls");
    if (corr) {
        emit_welch(x, win, nov, nfft, psd, vh::hxs(pxx));
        emit_axis(cx, nfft, f);
    }
    if (res_out) *res_out = WelchResult{pxx, f};
    const int want = cx ? nfft : nfft / 2 + 1;
    if (pxx.size() != want || f.size() != want) {
        out.fail(cx ? "C13:complex-size" : "C13:real-size", add_field(add_field(ctx, "pxx_size", std::to_string(pxx.size())), "f_size", std::to_string(f.size())));
        return true;
    }
    if (!win_ok(win)) { out.stat("degenerate_window_calls"); return true; }
    for (int k = 0; k < want; ++k) {
        if (!(pxx[k] >= 0) || !std::isfinite(pxx[k])) {
            out.fail("C13:negative-or-nonfinite", add_field(add_field(ctx, "bin", std::to_string(k)), "value", vh::jnum(pxx[k])));
            break;
        }
    }
    // frequency axis: real f[i] = i/nfft; complex: nfft distinct lattice points of [-1/2, 1/2]
    if (!cx) {
        for (int i = 0; i < want; ++i)
            if (std::fabs(f[i] - (double)i / nfft) > 1e-15) {
                out.fail("C13:real-freq-axis", add_field(add_field(ctx, "index", std::to_string(i)), "f", vh::jnum(f[i])));
                break;
            }
    } else {
        std::vector<char> seen(nfft, 0);
        for (int i = 0; i < want; ++i) {
            const double m = f[i] * nfft;
            const long long mi = llround(m);
            const int slot = (int)(((mi % nfft) + nfft) % nfft);
            if (std::fabs(m - mi) > 1e-9 || std::fabs(f[i]) > 0.5 + 1e-15 || seen[slot]) {
                out.fail("C13:complex-freq-lattice", add_field(add_field(ctx, "index", std::to_string(i)), "f", vh::jnum(f[i])));
                break;
            }
            seen[slot] = 1;
        }
    }
    // power conservation (density scaling)
    if (psd && L <= nfft && N >= L) {
        LD s = 0;
        for (int k = 0; k < want; ++k) s += pxx[k];
        const LD ref = ref_power_sum(x, win, nov, nfft);
        const int nseg = seg_count(N, L, nov);
        const LD tol = ((LD)nseg + L + 16.0L * ilog2(nfft) + 16.0L) * EPS;
        const LD err = fabsl(s - ref);
        if (ref > 0) g_max_sum_ratio = std::max(g_max_sum_ratio, err / (tol * ref));
        out.stat("psd_sum_checks");
        if (!(err <= tol * ref)) {
            char b[160];
            std::snprintf(b, sizeof b, "%.17Lg", s);
            std::string js = add_field(ctx, "sum", b);
            std::snprintf(b, sizeof b, "%.17Lg", ref);
            out.fail(cx ? "C13:complex-psd-sum" : "C13:real-psd-sum", add_field(add_field(js, "expected", b), "segments", std::to_string(nseg)));
        }
    }
    return true;
}

// deviation from the long-double evaluation of the whole estimate (statistic only: CORR is the element-wise tie)
template<class T>
static void ref_deviation(const base_array<T>& x, const arr_real& win, int nov, int nfft, bool psd, const arr_real& pxx) {
    std::vector<LD> P = ref_two_sided(x, win, nov, nfft, psd);
    if (!Tr<T>::cx) P = fold_one_sided(P);
    if ((int)P.size() != pxx.size()) return;
    LD mx = 0, dev = 0;
    for (size_t k = 0; k < P.size(); ++k) { mx = std::max(mx, P[k]); dev = std::max(dev, fabsl(P[k] - pxx[(int)k])); }
    if (mx > 0) g_max_ref_dev = std::max(g_max_ref_dev, dev / mx);
    out.stat("reference_comparisons");
}

// ------------------------------------------------------------------------------------------------ random-signal sweep
struct Cfg {
    int nfft, fam, L, nov, N, sig;
};

template<class T>
static void run_cfg(vh::Rng& r, const Cfg& c, bool psd, bool corr) {
    arr_real win = make_win(c.fam, c.L, r);
    const long long id = g_case++;
    const std::string ctx = ctx_json("random-signal", Tr<T>::cx, c.nfft, c.fam, c.L, c.nov, c.N, c.sig, psd, id);
    base_array<T> x;
    if constexpr (Tr<T>::cx) x = gen_cmplx(r, c.N, c.sig);
    else x = gen_real(r, c.N, c.sig);
    WelchResult res{arr_real(), arr_real()};
    const bool ok = check_welch(x, win, c.nov, c.nfft, psd, ctx, corr, &res);
    out.stat(std::string("fam_") + fam_name[c.fam]);
    out.stat(std::string("sig_") + sig_name[c.sig]);
    out.stat(std::string("nfft_") + std::to_string(c.nfft));
    out.stat(psd ? "scale_psd" : "scale_power");
    {
        const int stride = c.L - c.nov, nseg = seg_count(c.N, c.L, c.nov);
        out.stat(nseg == 1 ? "segments_1" : nseg <= 4 ? "segments_2_4" : nseg <= 64 ? "segments_5_64" : nseg <= 1024 ? "segments_65_1024" : "segments_gt_1024");
        out.stat(c.nov == 0 ? "overlap_0" : c.nov == c.L - 1 ? "overlap_winlen-1" : c.nov == c.L / 2 ? "overlap_half" : "overlap_other");
        out.stat(c.L == c.nfft ? "winlen_eq_nfft" : "winlen_lt_nfft");
        if ((c.N - c.L) % stride == 0) out.stat("last_segment_ends_at_last_sample");
    }
    if (ok && win_ok(win) && (long long)seg_count(c.N, c.L, c.nov) * c.nfft <= 400000 && (id % 3 == 0)) ref_deviation(x, win, c.nov, c.nfft, psd, res.pxx);
    if (id < 4) out.sample(ctx);
}

static int pick_overlap(vh::Rng& r, int L, int which) {
    switch (which % 6) {
    case 0: return 0;
    case 1: return L - 1;
    case 2: return L / 2;
    case 3: return std::min(L - 1, 1);
    case 4: return std::max(0, L - 2);
    default: return r.range(0, L - 1);
    }
}

static void random_sweep(vh::Rng& r) {
    std::vector<int> nffts;
    for (int n = 8; n <= 4096; n *= 2) nffts.push_back(n);
    // every overlap 0..winlen-1 for small windows (exhaustive), both input types, both scalings
    for (int nfft : {8, 16, 32}) {
        for (int L = 1; L <= nfft; L += (g_thorough ? 1 : (L < 6 ? 1 : 5))) {
            for (int nov = 0; nov < L; ++nov) {
                const int fam = (L < 4) ? (r.coin() ? RECT : RANDPOS) : r.range(0, NFAM - 1);
                const int stride = L - nov;
                const int N = L + stride * r.range(0, 6) + r.range(0, stride - 1);
                Cfg c{nfft, fam, L, nov, N, r.range(0, NSIGK - 1)};
                const bool psd = (nov + L) % 2 == 0;
                const bool corr = g_thorough ? true : (nov % 2 == 0);
                run_cfg<real_t>(r, c, psd, corr);
                run_cfg<cmplx_t>(r, c, !psd, corr);
                out.stat("exhaustive_overlap_cases", 2);
            }
        }
    }
    // all nfft x all families x window lengths x sampled overlaps x signal lengths
    const int reps = g_thorough ? 10 : 1;
    int which = 0;
    for (int rep = 0; rep < reps; ++rep) {
        for (int nfft : nffts) {
            for (int fam = 0; fam < NFAM; ++fam) {
                std::vector<int> Ls = {nfft, nfft - 1, nfft / 2, nfft / 2 + 1, r.range(4, nfft), r.range(4, std::max(4, nfft / 4))};
                if (!g_thorough) Ls = {nfft, (fam % 2) ? nfft - 1 : nfft / 2 + 1, r.range(4, nfft)};
                for (int L : Ls) {
                    const int nov = pick_overlap(r, L, which++);
                    const int stride = L - nov;
                    // segment budget: keep the number of transforms of one call bounded
                    const long long maxseg = std::max<long long>(1, std::min<long long>((100000 - L) / stride + 1, (g_thorough ? 3000000LL : 600000LL) / nfft));
                    int nseg;
                    switch (r.range(0, 4)) {
                    case 0: nseg = 1; break;
                    case 1: nseg = (int)std::min<long long>(maxseg, 2 + r.range(0, 3)); break;
                    default: nseg = (int)std::min<long long>(maxseg, 1 + (long long)(std::pow((double)maxseg, r.unit()))); break;
                    }
                    int N = L + (nseg - 1) * stride;
                    if (r.coin()) N += r.range(0, stride - 1);   // partial last hop: the tail must be ignored
                    N = std::min(N, 100000);
                    Cfg c{nfft, fam, L, nov, N, r.range(0, NSIGK - 1)};
                    const bool psd = r.coin();
                    const bool cxin = r.coin();
                    const bool corr = (long long)seg_count(N, L, nov) * nfft <= (g_thorough ? 300000 : 150000) && N <= (g_thorough ? 2500 : 9000) && (g_thorough ? (which % 5 == 0) : true);
                    if (cxin) { run_cfg<cmplx_t>(r, c, psd, corr); run_cfg<real_t>(r, c, !psd, false); }
                    else { run_cfg<real_t>(r, c, psd, corr); run_cfg<cmplx_t>(r, c, !psd, false); }
                }
            }
        }
    }
    // full-length signals (10^5 samples)
    const int nlong = g_thorough ? 48 : 6;
    for (int i = 0; i < nlong; ++i) {
        const int nfft = nffts[r.range(0, (int)nffts.size() - 1)];
        const int L = r.coin() ? nfft : r.range(std::max(4, nfft / 2), nfft);
        const int minstride = (int)std::max<long long>(1, (100000LL * nfft) / (g_thorough ? 40000000LL : 12000000LL));
        int nov = r.coin() ? L / 2 : r.range(0, L - 1);
        if (L - nov < minstride) nov = std::max(0, L - minstride);
        const int N = (i % 3 == 0) ? 100000 : r.range(60000, 100000);
        Cfg c{nfft, r.range(0, NFAM - 1), L, nov, N, r.range(0, NSIGK - 1)};
        if (i % 2) run_cfg<real_t>(r, c, i % 4 < 2, false);
        else run_cfg<cmplx_t>(r, c, i % 4 < 2, false);
        out.stat("long_signal_cases");
    }
    // the longest budgeted CORR cases: long input with a large hop
    for (int i = 0; i < (g_thorough ? 6 : 2); ++i) {
        const int nfft = (i % 2) ? 256 : 1024;
        const int L = nfft - (i % 3);
        const int nov = (i % 2) ? 0 : -((int)r.range(0, 3000));   // negative overlap: hop larger than the window (legal in the code)
        const int N = r.range(40000, 100000);
        Cfg c{nfft, r.range(0, NFAM - 1), L, nov, N, r.range(0, NSIGK - 1)};
        if (i % 2) run_cfg<real_t>(r, c, true, true);
        else run_cfg<cmplx_t>(r, c, true, true);
        out.stat("long_signal_corr_cases");
    }
}

// ------------------------------------------------------------------------------------------------ tones
// x[t] = A e^{i(2 pi f0 t + phi)} (complex) or A cos(2 pi f0 t + phi) (real), phase reduced in long double
static arr_cmplx tone_c(int N, LD f0, LD A, LD phi) {
    arr_cmplx x(N);
    for (int t = 0; t < N; ++t) {
        LD ph = f0 * t;
        ph -= floorl(ph);
        x[t].re = (double)(A * cosl(2 * PI_L * ph + phi));
        x[t].im = (double)(A * sinl(2 * PI_L * ph + phi));
    }
    return x;
}
static arr_real tone_r(int N, LD f0, LD A, LD phi) {
    arr_real x(N);
    for (int t = 0; t < N; ++t) {
        LD ph = f0 * t;
        ph -= floorl(ph);
        x[t] = (double)(A * cosl(2 * PI_L * ph + phi));
    }
    return x;
}
static LD circ_dist(LD a, LD b) {
    LD d = fabsl(a - b);
    d -= floorl(d);
    return std::min(d, 1 - d);
}
static std::string jld(LD v) {
    char b[64];
    std::snprintf(b, sizeof b, "%.17Lg", v);
    return b;
}

struct ToneStats {
    long long judged = 0, ambiguous = 0, known_axis = 0;
};
static ToneStats g_ts_real, g_ts_cx;

// one tone through welch; label clause
template<class T>
static void tone_label(int nfft, int fam, const arr_real& win, int nov, int nseg, LD f0, LD A, LD phi, bool psd) {
    const bool cx = Tr<T>::cx;
    const int L = win.size(), stride = L - nov, N = L + (nseg - 1) * stride;
    base_array<T> x;
    if constexpr (Tr<T>::cx) x = tone_c(N, f0, A, phi);
    else x = tone_r(N, f0, A, phi);
    std::string ctx = ctx_json("tone", cx, nfft, fam, L, nov, N, -1, psd, g_case++);
    ctx = add_field(add_field(add_field(ctx, "f0", jld(f0)), "amplitude", jld(A)), "phase", jld(phi));
    WelchResult res{arr_real(), arr_real()};
    if (!check_welch(x, win, nov, nfft, psd, ctx, false, &res)) return;
    const arr_real &pxx = res.pxx, &f = res.f;
    const int want = cx ? nfft : nfft / 2 + 1;
    if (pxx.size() != want || f.size() != want) return;
    int j = 0;
    for (int k = 1; k < want; ++k) if (pxx[k] > pxx[j]) j = k;
    // exact estimator
    std::vector<LD> P = ref_two_sided(x, win, nov, nfft, psd);
    if (!cx) P = fold_one_sided(P);
    auto truef = [&](int k) -> LD { return cx ? (k <= nfft / 2 ? (LD)k / nfft : (LD)k / nfft - 1) : (LD)k / nfft; };
    auto dist = [&](LD a) -> LD { return cx ? circ_dist(a, f0) : fabsl(a - f0); };
    int kn = 0, kr = 0;
    for (int k = 1; k < want; ++k) {
        if (dist(truef(k)) < dist(truef(kn))) kn = k;
        if (P[k] > P[kr]) kr = k;
    }
    LD second = 0;
    for (int k = 0; k < want; ++k) if (k != kr) second = std::max(second, P[k]);
    const bool resolvable = (kr == kn) && P[kr] > second * (1 + 1e-9L);
    ToneStats& ts = cx ? g_ts_cx : g_ts_real;
    out.stat(cx ? "tones_complex" : "tones_real");
    // peak VALUE agrees with the exact estimator (any ordering)
    {
        const LD dev = fabsl((LD)pxx[j] - P[kr]);
        if (!(dev <= 1e-10L * P[kr])) out.fail(cx ? "C13:complex-tone-peak-value" : "C13:real-tone-peak-value", add_field(add_field(ctx, "peak", vh::jnum(pxx[j])), "expected", jld(P[kr])));
    }
    if (!resolvable) {
        ++ts.ambiguous;
        out.stat(cx ? "tones_ambiguous_complex" : "tones_ambiguous_real");
        return;
    }
    ++ts.judged;
    const LD dmin = dist(truef(kn));
    if (dist((LD)f[j]) <= dmin + 1e-12L) return;   // the label of the maximum is the nearest listed frequency
    std::string js = add_field(add_field(add_field(ctx, "peak_index", std::to_string(j)), "peak_label", vh::jnum(f[j])), "nearest_bin_frequency", jld(truef(kn)));
    if (!cx) {
        out.fail("C13:real-tone-label", js);
    } else if (j == kn) {
        // the value sits at the transform-order position of the right bin, the label belongs to the centred axis
        ++ts.known_axis;
        out.fail("C13:complex-welch-axis", js);
    } else {
        out.fail("C13:complex-tone-peak", js);
    }
}

static void tone_sweeps(vh::Rng& r) {
    std::vector<int> nffts;
    for (int n = 8; n <= 4096; n *= 2) nffts.push_back(n);
    for (int nfft : nffts) {
        const int nconf = g_thorough ? 5 : 2;
        for (int conf = 0; conf < nconf; ++conf) {
            const int fam = (conf == 0) ? (nfft % 3 == 0 ? HANN : HAMMING) : r.range(0, NFAM - 1);
            int L = (conf % 2 == 0) ? nfft : r.range(std::max(4, nfft / 4), nfft);
            arr_real win = make_win(fam, L, r);
            if (!win_ok(win)) continue;
            const int nov = (conf % 3 == 0) ? L / 2 : r.range(0, L - 1);
            const int nseg = 1 + conf % 3;
            // grid finer than the bin spacing: `sub` offsets per bin, never within 0.02 bin of the half-way point
            const int sub = g_thorough ? 5 : 3;
            long long budget = g_thorough ? (nfft <= 512 ? 1LL << 40 : 5000) : (nfft <= 64 ? 1LL << 40 : 220);
            const long long total = (long long)nfft * sub;
            const double keep = std::min(1.0, (double)budget / (double)total);
            for (int k = 0; k < nfft; ++k) {
                for (int s = 0; s < sub; ++s) {
                    const bool edge = (k < 3 || k >= nfft - 3 || std::abs(k - nfft / 2) < 3 || std::abs(k - nfft / 4) < 2);
                    if (!edge && r.unit() > keep) continue;
                    const LD u = -0.48L + 0.96L * ((LD)s + (LD)r.unit() * 0.9L + 0.05L) / sub;
                    const LD A = std::pow(10.0, 4 * r.unit() - 2), phi = 2 * PI_L * (LD)r.unit();
                    const bool psd = r.coin();
                    // complex: the whole circle (-1/2, 1/2)
                    {
                        LD f0 = ((LD)k + u) / nfft - 0.5L;
                        if (f0 > -0.5L && f0 < 0.5L) tone_label<cmplx_t>(nfft, fam, win, nov, nseg, f0, A, phi, psd);
                    }
                    // real: (0, 1/2)
                    {
                        LD f0 = ((LD)k + u) / (2 * (LD)nfft);   // k/2 bins: twice as fine
                        if (f0 > 0 && f0 < 0.5L) tone_label<real_t>(nfft, fam, win, nov, nseg, f0, A, phi, psd);
                    }
                }
            }
        }
    }
    // the recorded witness: tone at +0.25
    {
        arr_real win = window::hamming(64);
        tone_label<cmplx_t>(64, HAMMING, win, 32, 3, 0.25L, 1.0L, 0.0L, true);
        tone_label<real_t>(64, HAMMING, win, 32, 3, 0.25L, 1.0L, 0.0L, true);
    }
}

// Power scaling: bin-centred tones report their mean-square value at the peak
static void power_tones(vh::Rng& r) {
    std::vector<int> nffts;
    for (int n = 8; n <= 4096; n *= 2) nffts.push_back(n);
    for (int nfft : nffts) {
        for (int fam = 0; fam < NFAM; ++fam) {
            const int nL = g_thorough ? 4 : 2;
            for (int li = 0; li < nL; ++li) {
                const int L = (li == 0) ? nfft : (li == 1 ? r.range(std::max(4, nfft / 2), nfft) : r.range(4, nfft));
                arr_real win = make_win(fam, L, r);
                if (!win_ok(win)) { out.stat("power_tone_degenerate_window"); continue; }
                const int nov = pick_overlap(r, L, li + fam);
                const int stride = L - nov;
                const int nseg = r.range(1, 5);
                const int N = L + (nseg - 1) * stride + (r.coin() ? r.range(0, stride - 1) : 0);
                LD S0 = 0;
                for (int t = 0; t < L; ++t) S0 += win[t];
                const int ntone = g_thorough ? 10 : 4;
                for (int it = 0; it < ntone; ++it) {
                    const LD A = std::pow(10.0, 4 * r.unit() - 2), phi = 2 * PI_L * (LD)r.unit();
                    const LD rnd = ((LD)nseg + L + 16.0L * ilog2(nfft) + 16.0L) * EPS;
                    // complex tone at bin k0 in 0..nfft-1 (frequency k0/nfft mod 1)
                    {
                        const int k0 = (it == 0) ? 0 : (it == 1 ? nfft / 2 : r.range(0, nfft - 1));
                        arr_cmplx x = tone_c(N, (LD)k0 / nfft, A, phi);
                        std::string ctx = add_field(add_field(ctx_json("power-tone", true, nfft, fam, L, nov, N, -1, false, g_case++), "k0", std::to_string(k0)), "amplitude", jld(A));
                        WelchResult res{arr_real(), arr_real()};
                        if (check_welch(x, win, nov, nfft, false, ctx, it == 2 && L <= 1024 && (!g_thorough || li < 2), &res) && res.pxx.size() == nfft) {
                            LD mx = 0;
                            for (int k = 0; k < nfft; ++k) mx = std::max(mx, (LD)res.pxx[k]);
                            const LD err = fabsl(mx - A * A) / (A * A);
                            g_max_ctone_ratio = std::max(g_max_ctone_ratio, err / (rnd + 4 * EPS));
                            out.stat("power_tone_complex_checks");
                            if (!(err <= rnd + 4 * EPS)) out.fail("C13:complex-power-tone", add_field(add_field(ctx, "peak", jld(mx)), "expected", jld(A * A)));
                        }
                    }
                    // real sinusoid at bin k0 in 1..nfft/2-1
                    if (nfft >= 8) {
                        const int k0 = (it == 0) ? nfft / 4 : r.range(1, nfft / 2 - 1);
                        // relative size of the negative-frequency image at +k0: |S(2 k0)| / S(0)
                        LD sr = 0, si = 0;
                        for (int t = 0; t < L; ++t) {
                            const long long m = (2LL * k0 * t) % nfft;
                            sr += win[t] * cosl(2 * PI_L * m / nfft);
                            si -= win[t] * sinl(2 * PI_L * m / nfft);
                        }
                        const LD rr = sqrtl(sr * sr + si * si) / S0;
                        arr_real x = tone_r(N, (LD)k0 / nfft, A, phi);
                        std::string ctx = add_field(add_field(add_field(ctx_json("power-tone", false, nfft, fam, L, nov, N, -1, false, g_case++), "k0", std::to_string(k0)), "amplitude", jld(A)), "image", jld(rr));
                        WelchResult res{arr_real(), arr_real()};
                        if (check_welch(x, win, nov, nfft, false, ctx, it == 2 && L <= 1024 && (!g_thorough || li < 2), &res) && res.pxx.size() == nfft / 2 + 1) {
                            if (rr > 0.004L) { out.stat("power_tone_real_image_above_bound"); continue; }
                            const LD want = A * A / 2;
                            const LD tol = 2 * rr + rr * rr + rnd + 4 * EPS;
                            const LD err = fabsl((LD)res.pxx[k0] - want) / want;
                            g_max_rtone_ratio = std::max(g_max_rtone_ratio, err / tol);
                            out.stat("power_tone_real_checks");
                            if (!(err <= tol)) out.fail("C13:real-power-tone", add_field(add_field(ctx, "value", vh::jnum(res.pxx[k0])), "expected", jld(want)));
                            else if (err > 0.01L) out.fail("C13:real-power-tone-1pct", add_field(ctx, "value", vh::jnum(res.pxx[k0])));
                            // window spanning the transform: the bin of the tone is the maximum
                            if (L == nfft) {
                                int j = 0;
                                for (int k = 1; k <= nfft / 2; ++k) if (res.pxx[k] > res.pxx[j]) j = k;
                                if (j != k0 && !(res.pxx[k0] >= res.pxx[j] * (1 - 1e-12))) out.fail("C13:real-power-tone-peak", add_field(ctx, "peak_index", std::to_string(j)));
                            }
                        }
                    }
                }
            }
        }
    }
}

// ------------------------------------------------------------------------------------------------ overloads
static bool same_bits(const arr_real& a, const arr_real& b) {
    if (a.size() != b.size()) return false;
    for (int i = 0; i < a.size(); ++i)
        if (std::memcmp(&a[i], &b[i], sizeof(double)) != 0) return false;
    return true;
}
static void overloads(vh::Rng& r) {
    const int n = g_thorough ? 60 : 16;
    for (int i = 0; i < n; ++i) {
        static const int fixedL[8] = {4, 5, 8, 9, 16, 17, 100, 128};
        const int L = (i < 8) ? fixedL[i] : r.range(4, 700);
        const int nfft_def = 1 << ilog2(L);
        const int N = L + r.range(0, 6 * L);
        const bool psd = r.coin();
        const SpectrumType type = psd ? SpectrumType::Psd : SpectrumType::Power;
        arr_real ham = window::hamming(L);
        arr_real win = make_win(r.range(0, NFAM - 1), L, r);
        arr_real xr = gen_real(r, N, r.range(0, NSIGK - 1)), yr = gen_real(r, N, 0);
        arr_cmplx xc = gen_cmplx(r, N, r.range(0, NSIGK - 1));
        std::string ctx = ctx_json("overloads", false, nfft_def, -1, L, L / 2, N, -1, psd, g_case++);
        vh::set_current("C13:overload-crash", ctx);
        vh::watch(300);
        try {
            const int nov2 = r.range(0, L - 1), nfft2 = nfft_def * (1 + (int)(r.next() % 2));
            bool ok = true;
            {
                WelchResult a = welch(xr, L, type), b = welch(xr, ham, L / 2, nfft_def, type);
                ok = ok && same_bits(a.pxx, b.pxx) && same_bits(a.f, b.f);
                WelchResult c = welch(xr, win, type), d = welch(xr, win, L / 2, nfft_def, type);
                ok = ok && same_bits(c.pxx, d.pxx) && same_bits(c.f, d.f);
                WelchResult e = welch(xr, L, nov2, nfft2, type), g = welch(xr, ham, nov2, nfft2, type);
                ok = ok && same_bits(e.pxx, g.pxx) && same_bits(e.f, g.f);
                out.corr(std::string("wRd ") + (psd ? "1 " : "0 ") + vh::hxs(xr) + " " + vh::hxs(win), vh::hxs(c.pxx));
            }
            {
                WelchResult a = welch(xc, L, type), b = welch(xc, ham, L / 2, nfft_def, type);
                ok = ok && same_bits(a.pxx, b.pxx) && same_bits(a.f, b.f);
                WelchResult c = welch(xc, win, type), d = welch(xc, win, L / 2, nfft_def, type);
                ok = ok && same_bits(c.pxx, d.pxx) && same_bits(c.f, d.f);
                WelchResult e = welch(xc, L, nov2, nfft2, type), g = welch(xc, ham, nov2, nfft2, type);
                ok = ok && same_bits(e.pxx, g.pxx) && same_bits(e.f, g.f);
                out.corr(std::string("wCd ") + (psd ? "1 " : "0 ") + vh::hxs(xc) + " " + vh::hxs(win), vh::hxs(c.pxx));
            }
            {
                arr_real a = mscohere(xr, yr, L), b = mscohere(xr, yr, ham, L / 2, nfft_def);
                ok = ok && same_bits(a, b);
                arr_real c = mscohere(xr, yr, win), d = mscohere(xr, yr, win, L / 2, nfft_def);
                ok = ok && same_bits(c, d);
                arr_real e = mscohere(xr, yr, L, nov2, nfft2), g = mscohere(xr, yr, ham, nov2, nfft2);
                ok = ok && same_bits(e, g);
                out.corr(std::string("cohd ") + vh::hxs(xr) + " " + vh::hxs(yr) + " " + vh::hxs(win), vh::hxs(c));
            }
            ++out.n_oracle;
            out.stat("overload_checks");
            if (!ok) out.fail("C13:overload-defaults", ctx);
        } catch (const std::exception& e) {
            out.fail("C13:overload-throws", add_field(ctx, "error", std::string("\"") + e.what() + "\""));
        }
        vh::unwatch();
        vh::clear_current();
    }
}

// ------------------------------------------------------------------------------------------------ coherence
static const char* coh_name[] = {"independent", "scaled-copy", "filtered-copy", "noisy-copy", "random-pair-coloured"};
static void coh_case(vh::Rng& r, int nfft, int fam, int L, int nov, int N, int kind, bool corr) {
    arr_real win = make_win(fam, L, r);
    arr_real x = gen_real(r, N, kind == 1 ? (r.coin() ? 0 : 1) : r.range(0, NSIGK - 1));
    arr_real y(N);
    double cfac = 0;
    switch (kind) {
    case 0: y = gen_real(r, N, r.range(0, NSIGK - 1)); break;
    case 1: {
        cfac = (r.coin() ? 1 : -1) * (r.coin() ? std::ldexp(1.0, r.range(-10, 10)) : std::pow(10.0, 6 * r.unit() - 3));
        for (int t = 0; t < N; ++t) y[t] = cfac * x[t];
        break;
    }
    case 2: {
        const int nh = r.range(2, 12);
        std::vector<double> h(nh);
        for (auto& v : h) v = r.gauss();
        for (int t = 0; t < N; ++t) {
            double a = 0;
            for (int k = 0; k < nh && k <= t; ++k) a += h[k] * x[t - k];
            y[t] = a;
        }
        break;
    }
    case 3: {
        const double s = std::pow(10.0, 3 * r.unit() - 2);
        for (int t = 0; t < N; ++t) y[t] = x[t] + s * r.gauss();
        break;
    }
    default: {
        double a = 0, b = 0;
        for (int t = 0; t < N; ++t) {
            a = 0.9 * a + r.gauss();
            b = -0.7 * b + r.gauss();
            x[t] = a;
            y[t] = b;
        }
    }
    }
    std::string ctx = add_field(ctx_json("mscohere", false, nfft, fam, L, nov, N, -1, true, g_case++), "pair", std::string("\"") + coh_name[kind] + "\"");
    if (kind == 1) ctx = add_field(ctx, "c", vh::jnum(cfac));
    vh::set_current("C13:mscohere-crash", ctx);
    vh::watch(600);
    arr_real c;
    try {
        c = mscohere(x, y, win, nov, nfft);
    } catch (const std::exception& e) {
        vh::unwatch();
        vh::clear_current();
        out.fail("C13:mscohere-throws", add_field(ctx, "error", std::string("\"") + e.what() + "\""));
        return;
    }
    vh::unwatch();
    vh::clear_current();
    ++out.n_oracle;
    out.stat(std::string("coh_") + coh_name[kind]);
    if (corr) out.corr(std::string("coh ") + std::to_string(nov) + " " + std::to_string(nfft) + " " + vh::hxs(x) + " " + vh::hxs(y) + " " + vh::hxs(win), vh::hxs(c));
    if (c.size() != nfft / 2 + 1) {
        out.fail("C13:mscohere-size", add_field(ctx, "size", std::to_string(c.size())));
        return;
    }
    if (!win_ok(win)) { out.stat("degenerate_window_calls"); return; }
    const int nseg = seg_count(N, L, nov);
    out.stat(nseg == 1 ? "coh_segments_1" : nseg <= 8 ? "coh_segments_2_8" : "coh_segments_gt_8");
    for (int k = 0; k < c.size(); ++k) {
        if (!(c[k] >= 0) || !(c[k] <= 1 + 1e-12)) {
            out.fail("C13:mscohere-range", add_field(add_field(ctx, "bin", std::to_string(k)), "value", vh::jnum(c[k])));
            break;
        }
        g_max_coh_excess = std::max(g_max_coh_excess, (LD)c[k] - 1);
    }
    if (kind == 1) {
        for (int k = 0; k < c.size(); ++k) {
            g_max_coh_dev = std::max(g_max_coh_dev, fabsl((LD)c[k] - 1));
            if (!(std::fabs(c[k] - 1) <= 1e-9)) {
                out.fail("C13:mscohere-scaled-copy", add_field(add_field(ctx, "bin", std::to_string(k)), "value", vh::jnum(c[k])));
                break;
            }
        }
        out.stat("coh_scaled_copy_checks");
    }
}

static void coherence(vh::Rng& r) {
    std::vector<int> nffts;
    for (int n = 8; n <= 4096; n *= 2) nffts.push_back(n);
    const int reps = g_thorough ? 5 : 1;
    int which = 0;
    for (int rep = 0; rep < reps; ++rep)
        for (int nfft : nffts)
            for (int fam = 0; fam < NFAM; ++fam)
                for (int kind = 0; kind < 5; ++kind) {
                    if (!g_thorough && (fam + kind + ilog2(nfft)) % 2) continue;
                    int L = (which % 3 == 0) ? nfft : r.range(std::max(4, nfft / 4), nfft);
                    if (L < 4) L = 4;
                    const int nov = pick_overlap(r, L, which++);
                    const int stride = L - nov;
                    const long long maxseg = std::max<long long>(2, std::min<long long>((100000 - L) / stride + 1, (g_thorough ? 1500000LL : 300000LL) / nfft));
                    int nseg = (kind == 1) ? (int)std::min<long long>(maxseg, 2 + r.range(0, 30))
                                           : (int)std::min<long long>(maxseg, 1 + (long long)std::pow((double)maxseg, r.unit()));
                    int N = L + (nseg - 1) * stride + (r.coin() ? r.range(0, stride - 1) : 0);
                    N = std::min(N, 100000);
                    const bool corr = (long long)seg_count(N, L, nov) * nfft <= 100000 && N <= (g_thorough ? 2000 : 6000) && (which % (g_thorough ? 4 : 2) == 0);
                    coh_case(r, nfft, fam, L, nov, N, kind, corr);
                }
    // small windows, every overlap
    for (int L = 2; L <= (g_thorough ? 16 : 8); ++L)
        for (int nov = 0; nov < L; ++nov) {
            const int stride = L - nov;
            coh_case(r, 16, L < 4 ? RECT : r.range(0, NFAM - 1), L, nov, L + stride * r.range(1, 9) + r.range(0, stride - 1), r.range(0, 4), true);
        }
    // full-length pairs
    for (int i = 0; i < (g_thorough ? 10 : 3); ++i) {
        const int nfft = nffts[r.range(2, (int)nffts.size() - 1)];
        const int L = r.coin() ? nfft : r.range(nfft / 2, nfft);
        coh_case(r, nfft, r.range(0, NFAM - 1), L, r.coin() ? L / 2 : r.range(0, L / 2), 100000, i % 5, false);
    }
}

// ------------------------------------------------------------------------------------------------ guards / boundary classes (CORR only)
template<class F> static std::string guarded(const std::string& key, const std::string& ctx, F f) {
    vh::set_current(key, ctx);
    vh::watch(120);
    std::string rhs;
    try {
        rhs = vh::hxs(f());
    } catch (const std::exception&) {
        rhs = "ERR";
    }
    vh::unwatch();
    vh::clear_current();
    return rhs;
}
static void guard_cases(vh::Rng& r) {
    struct G { int nfft, L, nov, N; };
    std::vector<G> gs = {
        {0, 8, 4, 64}, {-8, 8, 4, 64}, {3, 8, 4, 64}, {12, 8, 4, 64}, {100, 8, 4, 64}, {24, 16, 0, 64},      // nfft not a power of two
        {16, 8, 8, 64}, {16, 8, 9, 64}, {16, 8, 100, 64}, {8, 1, 1, 9},                                     // noverlap >= winlen
        {16, 8, -1, 64}, {16, 8, -8, 64}, {16, 8, -100, 64}, {32, 5, -3, 41},                               // negative overlap
        {16, 8, 4, 7}, {16, 8, 4, 5}, {16, 8, 4, 4}, {16, 8, 4, 3}, {16, 8, 4, 0}, {16, 8, 7, 7}, {16, 8, 7, 1}, {16, 8, 0, 1},   // signal shorter than the window
        {16, 8, 4, 8}, {16, 8, 4, 9}, {16, 8, 4, 11}, {16, 8, 4, 12}, {16, 8, 4, 13},                        // boundary of the segment count
        {8, 16, 4, 64}, {8, 9, 0, 30}, {16, 100, 50, 400}, {4, 7, 3, 20},                                   // window longer than nfft (truncated)
        {1, 1, 0, 5}, {1, 3, 1, 9}, {2, 2, 0, 8}, {2, 2, 1, 8}, {4, 4, 2, 16}, {4, 3, 0, 10}, {2, 1, 0, 4},  // nfft below the property's range
        {8192, 5000, 2500, 12000},                                                                           // above it
    };
    for (const G& g : gs) {
        for (int psd = 0; psd < 2; ++psd) {
            arr_real win = make_win(g.L < 4 ? RECT : r.range(0, NFAM - 1), g.L, r);
            arr_real xr = gen_real(r, g.N, 0), yr = gen_real(r, g.N, 0);
            arr_cmplx xc = gen_cmplx(r, g.N, 0);
            const SpectrumType type = psd ? SpectrumType::Psd : SpectrumType::Power;
            const std::string ctx = ctx_json("guard", false, g.nfft, -1, g.L, g.nov, g.N, 0, psd, g_case++);
            const std::string args = std::string(psd ? "1 " : "0 ") + std::to_string(g.nov) + " " + std::to_string(g.nfft) + " ";
            out.corr("wR " + args + vh::hxs(xr) + " " + vh::hxs(win), guarded("C13:guard-crash", ctx, [&] { return welch(xr, win, g.nov, g.nfft, type).pxx; }));
            out.corr("wC " + args + vh::hxs(xc) + " " + vh::hxs(win), guarded("C13:guard-crash", ctx, [&] { return welch(xc, win, g.nov, g.nfft, type).pxx; }));
            if (psd)
                out.corr("coh " + std::to_string(g.nov) + " " + std::to_string(g.nfft) + " " + vh::hxs(xr) + " " + vh::hxs(yr) + " " + vh::hxs(win),
                         guarded("C13:guard-crash", ctx, [&] { return mscohere(xr, yr, win, g.nov, g.nfft); }));
            out.stat("guard_cases");
        }
    }
    // all-zero window (division by the window power = 0), size mismatch of the coherence inputs
    {
        arr_real z = zeros(8), xr = gen_real(r, 40, 0), yr = gen_real(r, 39, 0), w8 = window::hamming(8);
        arr_cmplx xc = gen_cmplx(r, 40, 0);
        const std::string ctx = ctx_json("guard", false, 8, -1, 8, 4, 40, 0, true, g_case++);
        for (int psd = 0; psd < 2; ++psd) {
            const SpectrumType type = psd ? SpectrumType::Psd : SpectrumType::Power;
            out.corr(std::string("wR ") + (psd ? "1" : "0") + " 4 8 " + vh::hxs(xr) + " " + vh::hxs(z), guarded("C13:guard-crash", ctx, [&] { return welch(xr, z, 4, 8, type).pxx; }));
            out.corr(std::string("wC ") + (psd ? "1" : "0") + " 4 8 " + vh::hxs(xc) + " " + vh::hxs(z), guarded("C13:guard-crash", ctx, [&] { return welch(xc, z, 4, 8, type).pxx; }));
        }
        out.corr("coh 4 8 " + vh::hxs(xr) + " " + vh::hxs(xr) + " " + vh::hxs(z), guarded("C13:guard-crash", ctx, [&] { return mscohere(xr, xr, z, 4, 8); }));
        out.corr("coh 4 8 " + vh::hxs(xr) + " " + vh::hxs(yr) + " " + vh::hxs(w8), guarded("C13:guard-crash", ctx, [&] { return mscohere(xr, yr, w8, 4, 8); }));
        out.stat("guard_cases", 6);
    }
    // frequency axes of every size used
    for (int n = 1; n <= 8192; n *= 2) {
        arr_real w = ones(std::min(n, 4)), xr = gen_real(r, 16, 0);
        arr_cmplx xc = gen_cmplx(r, 16, 0);
        const std::string ctx = ctx_json("axis", false, n, -1, w.size(), 0, 16, 0, true, g_case++);
        out.corr("fR " + std::to_string(n), guarded("C13:guard-crash", ctx, [&] { return welch(xr, w, 0, n, SpectrumType::Psd).f; }));
        out.corr("fC " + std::to_string(n), guarded("C13:guard-crash", ctx, [&] { return welch(xc, w, 0, n, SpectrumType::Psd).f; }));
    }
}

static long long ppm(LD v) { return (long long)llroundl(std::min((LD)9e15, v * 1e6L)); }

int main(int argc, char** argv) {
    vh::Args args(argc, argv);
    vh::install_guards();
    g_thorough = args.thorough;
    g_seed = args.seed;
    // the state is a hash of the seed: streams of neighbouring seeds sit at unrelated positions of the splitmix cycle
    vh::Rng seeder(args.seed ^ 0xC13C13C13ULL);
    seeder.next();
    vh::Rng r(seeder.next());
    guard_cases(r);
    overloads(r);
    random_sweep(r);
    power_tones(r);
    tone_sweeps(r);
    coherence(r);
    out.stat("tones_judged_real", g_ts_real.judged);
    out.stat("tones_judged_complex", g_ts_cx.judged);
    out.stat("tones_complex_axis_known_finding", g_ts_cx.known_axis);
    out.stat("max_psd_sum_error_ppm_of_bound", ppm(g_max_sum_ratio));
    out.stat("max_complex_power_tone_error_ppm_of_bound", ppm(g_max_ctone_ratio));
    out.stat("max_real_power_tone_error_ppm_of_bound", ppm(g_max_rtone_ratio));
    out.stat("max_coherence_excess_over_1_x1e18", (long long)llroundl(std::max((LD)0, g_max_coh_excess) * 1e18L));
    out.stat("max_scaled_copy_deviation_x1e18", (long long)llroundl(g_max_coh_dev * 1e18L));
    out.stat("max_deviation_from_long_double_estimate_x1e18", (long long)llroundl(g_max_ref_dev * 1e18L));
    out.stat("distinct_nontrivial", out.n_cases + out.n_oracle);
    out.finish();
    return 0;
}
