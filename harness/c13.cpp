// C13 — spectral estimates conserve power and label frequencies correctly.
//   welch (real / complex input, Psd / Power scaling, every overload) and mscohere on the real library.
//
// ORACLE (long double, independent of the library's transform):
//   sizes        pxx and f have nfft/2+1 (real) / nfft (complex) entries
//   nonneg       every value finite and >= 0
//   psd-sum      Psd: sum_k pxx[k] = nfft * mean_seg( sum_t |x[t1+t] w[t]|^2 ) / (w.w), evaluated in the TIME domain in long double
//                with an independent segmentation; a-priori rounding bound (nseg + winlen + 16 log2 nfft + 16) eps (relative)
//   power-tone   Power: a bin-centred complex tone A e^{i(2 pi k0 t/nfft + phi)} has peak value A^2 (rounding bound as above);
//                a bin-centred real sinusoid has pxx[k0] = A^2/2 up to the negative-frequency image, whose exact relative size
//                r = |S(2 k0)| / S(0) (S = transform of the window) is computed in long double: |pxx[k0]/(A^2/2) - 1| <= 2r + r^2;
//                (this is exactly the bound of theorem welchR_cos_tone in Props/C13.lean, plus the rounding term);
//                tones with r > 0.004 (bound above 1 %) are counted, not judged
//   labels       real: f[i] = i/nfft; complex: the f[i] are the nfft distinct lattice frequencies in [-1/2, 1/2];
//                tone sweep finer than the bin spacing over (0, 1/2) real and (-1/2, 1/2) complex: the listed frequency of the
//                maximum is the one nearest the tone (circular distance for complex input).  A tone is judged when an independent
//                long-double evaluation of the estimate (radix-2 FFT in long double) has its unique maximum (margin 1e-9) at the
//                nearest bin — i.e. when the statement holds for the exact estimator; the others (ties half-way between bins,
//                real tones whose two images overlap next to DC / Nyquist) are counted as `tones_ambiguous`, for them only the peak
//                value is compared with the reference.
//                Complex input on the current tree: pxx is in transform order, f is the centred axis -> every judged complex tone
//                fails; when the peak position IS the transform-order position of the nearest bin the failure is reported under
//                the recorded key C13:complex-welch-axis, any other misplacement under C13:complex-tone-peak.
//   coherence    mscohere in [0, 1 + 1e-12] for random pairs, scaled copies, filtered copies, independent noise;
//                |mscohere - 1| <= 1e-9 at every frequency for y = c x (broadband x, >= 2 segments)
//   overloads    welch(x, winlen[, noverlap, nfft]), welch(x, win), mscohere(x, y, winlen | win) equal the explicit call bit for bit
//   round 2 (value-pattern classes, see the section "round 2" below):
//   power-sum    Power: sum_k pxx[k] = nfft * mean_seg( sum_t |x w|^2 ) / (sum w)^2 (the same Parseval identity, other compensation)
//   definition   welch = the long-double evaluation of its definition in every bin (1e-11 of the maximum; for the dynamic-range
//                signals also relative to the bin itself as far as the conditioning of the bin allows) on signals with silent / quiet
//                stretches (exact zeros of both signs, denormals, 1e-170 .. 1e-8) covering one, several, all but one, the first / last,
//                every segment: the average runs over ALL segments; rectangular no-overlap: sum(pxx)/nfft = mean square of the record
//   coh-def      mscohere = |sum X conj Y|^2 / (sum |X|^2 sum |Y|^2) evaluated in long double, bin by bin, tolerance from the
//                conditioning of the bin; exactly 1 (1e-9) at EVERY bin for y = +-2^k x and for a single segment, whatever the level
//                of the bin (spectra spanning > 300 dB); scale classes 1e-150 .. 1e150 for x and y separately; bins where a spectrum
//                is exactly zero: NaN (what the code returns, pinned by CORR) or a value in [0, 1], never anything else
//   scale        welch with signal / window at 1e-300 .. 1e150: relative oracles; powers of two bit for bit; overflow classes CORR only
//   histories    a rejected call (bad nfft, noverlap >= winlen, short signal, size mismatch) changes no later result (bit for bit)
//   aliasing     mscohere(x, x), welch(x, x), mscohere(x, y, x), x = welch(x).pxx; results from temporaries = results from named operands
//   long/prime   single records of 2^16 .. 393216 samples after the short ones, prime lengths > 46340, nfft up to 2^17
// CORR: tags wR wC wRd wCd (pxx), fR fC (frequency axes), coh cohd — replayed by Model/Spectrum.lean through dspdriver_c13,
//   including the guard / boundary classes outside the property's domain (non-power-of-two nfft, noverlap >= winlen, negative
//   noverlap, signal shorter than the window, window longer than nfft, nfft 1/2/4, all-zero window, size mismatch).
#include "common.hpp"
#include <algorithm>
using namespace dsplib;
typedef long double LD;
static vh::Out out;
static const LD PI_L = 3.14159265358979323846264338327950288L;
static const LD EPS = 2.220446049250313e-16L;
static bool g_thorough = false;
static uint64_t g_seed = 1;

static int ilog2(int n) { int p = 0; while ((1 << p) < n) ++p; return p; }

// ------------------------------------------------------------------------------------------------ windows
enum Fam { RECT = 0, HANN, HAMMING, BLACKMAN, BHARRIS, GAUSS, COSINE, TUKEY, KAISER, RANDPOS, NFAM };
static const char* fam_name[NFAM] = {"rect", "hann", "hamming", "blackman", "blackmanharris", "gauss", "cosine", "tukey", "kaiser", "randpos"};

static arr_real make_win(int fam, int n, vh::Rng& r) {
    const bool sym = r.coin();
    switch (fam) {
    case RECT: return ones(n);
    case HANN: return window::hann(n, sym);
    case HAMMING: return window::hamming(n, sym);
    case BLACKMAN: return window::blackman(n, sym);
    case BHARRIS: return window::blackmanharris(n, sym);
    case GAUSS: return window::gauss(n, r.coin() ? 2.5 : 1.0 + 3.0 * r.unit(), sym);
    case COSINE: return window::cosine(n, sym);
    case TUKEY: return window::tukey(n, r.coin() ? 0.5 : r.unit());
    case KAISER: return window::kaiser(n, r.coin() ? 0.5 : 12.0 * r.unit());
    default: {
        arr_real w(n);
        for (int i = 0; i < n; ++i) w[i] = 0.05 + r.unit();
        return w;
    }
    }
}

// a window is usable for the property's clauses when its coefficients are finite and it has weight (relative to its own
// largest coefficient: the estimate does not depend on the absolute scale of the window) and its squares stay in range
static bool win_ok(const arr_real& w) {
    LD m = 0;
    for (int i = 0; i < w.size(); ++i) {
        if (!std::isfinite(w[i])) return false;
        m = std::max(m, fabsl((LD)w[i]));
    }
    if (!(m >= 1e-140L && m <= 1e140L)) return false;
    LD s = 0, s2 = 0;
    for (int i = 0; i < w.size(); ++i) {
        s += w[i] / m;
        s2 += ((LD)w[i] / m) * ((LD)w[i] / m);
    }
    return w.size() > 0 && s > 1e-3L && s2 > 1e-6L;
}

// ------------------------------------------------------------------------------------------------ signals
static const int NSIGK = 6;
static const char* sig_name[NSIGK] = {"gauss", "scaled", "tone+noise", "impulsive", "dc+noise", "levels"};
static double sig_sample(vh::Rng& r, int kind, int t, int N, double p1, double p2) {
    switch (kind) {
    case 0: return r.gauss();
    case 1: return p1 * r.gauss();
    case 2: return std::cos(2 * M_PI * p2 * t) + 0.1 * r.gauss();
    case 3: return (r.next() % 37 == 0 ? 50.0 : 0.05) * r.gauss();
    case 4: return p1 + 0.01 * r.gauss();
    default: return ((t * 4 / std::max(1, N)) % 2 ? 3.0 : 0.2) * r.gauss();
    }
}
static arr_real gen_real(vh::Rng& r, int N, int kind) {
    const double p1 = std::pow(10.0, 6 * r.unit() - 3), p2 = 0.5 * r.unit();
    arr_real x(N);
    for (int t = 0; t < N; ++t) x[t] = sig_sample(r, kind, t, N, p1, p2);
    return x;
}
static arr_cmplx gen_cmplx(vh::Rng& r, int N, int kind) {
    const double p1 = std::pow(10.0, 6 * r.unit() - 3), p2 = r.unit() - 0.5;
    arr_cmplx x(N);
    for (int t = 0; t < N; ++t) {
        if (kind == 2) {
            x[t].re = std::cos(2 * M_PI * p2 * t) + 0.1 * r.gauss();
            x[t].im = std::sin(2 * M_PI * p2 * t) + 0.1 * r.gauss();
        } else {
            x[t].re = sig_sample(r, kind, t, N, p1, p2);
            x[t].im = sig_sample(r, kind, t, N, p1, p2);
        }
    }
    return x;
}

// ------------------------------------------------------------------------------------------------ long-double reference
struct CL {
    LD re, im;
};
static std::map<int, std::vector<CL>> g_tw;
static const std::vector<CL>& twiddles(int n) {
    auto it = g_tw.find(n);
    if (it != g_tw.end()) return it->second;
    std::vector<CL> t(std::max(1, n / 2));
    for (int i = 0; i < n / 2; ++i) t[i] = CL{cosl(2 * PI_L * i / n), -sinl(2 * PI_L * i / n)};
    return g_tw[n] = t;
}
// in-place radix-2 decimation-in-time, n a power of two
static void fft_ld(std::vector<CL>& a) {
    const int n = (int)a.size();
    if (n <= 1) return;
    for (int i = 1, j = 0; i < n; ++i) {
        int bit = n >> 1;
        for (; j & bit; bit >>= 1) j ^= bit;
        j ^= bit;
        if (i < j) std::swap(a[i], a[j]);
    }
    const std::vector<CL>& tw = twiddles(n);
    for (int len = 2; len <= n; len <<= 1) {
        const int step = n / len;
        for (int i = 0; i < n; i += len) {
            for (int k = 0; k < len / 2; ++k) {
                const CL w = tw[k * step];
                const CL u = a[i + k], v0 = a[i + k + len / 2];
                const CL v = CL{v0.re * w.re - v0.im * w.im, v0.re * w.im + v0.im * w.re};
                a[i + k] = CL{u.re + v.re, u.im + v.im};
                a[i + k + len / 2] = CL{u.re - v.re, u.im - v.im};
            }
        }
    }
}
static inline CL toCL(real_t v) { return CL{v, 0}; }
static inline CL toCL(cmplx_t v) { return CL{v.re, v.im}; }
static inline LD abs2L(real_t v) { return (LD)v * v; }
static inline LD abs2L(cmplx_t v) { return (LD)v.re * v.re + (LD)v.im * v.im; }

static int seg_count(int N, int winlen, int nov) { return (N - winlen) / (winlen - nov) + 1; }   // N >= winlen, nov < winlen

// two-sided reference estimate in transform order (the definition: windowed, zero-padded / truncated segments, squared
// magnitudes averaged, divided by the window compensation)
template<class T>
static std::vector<LD> ref_two_sided(const base_array<T>& x, const arr_real& win, int nov, int nfft, bool psd) {
    const int N = x.size(), L = win.size(), stride = L - nov, nseg = seg_count(N, L, nov);
    LD s = 0, s2 = 0;
    for (int i = 0; i < L; ++i) { s += win[i]; s2 += (LD)win[i] * win[i]; }
    const LD wp = psd ? s2 : s * s;
    std::vector<LD> P(nfft, 0.0L);
    std::vector<CL> a(nfft);
    for (int g = 0; g < nseg; ++g) {
        for (int t = 0; t < nfft; ++t) {
            if (t < L) { CL v = toCL(x[g * stride + t]); a[t] = CL{v.re * win[t], v.im * win[t]}; }
            else a[t] = CL{0, 0};
        }
        fft_ld(a);
        for (int k = 0; k < nfft; ++k) P[k] += a[k].re * a[k].re + a[k].im * a[k].im;
    }
    for (int k = 0; k < nfft; ++k) P[k] = P[k] / wp / nseg;
    return P;
}
static std::vector<LD> fold_one_sided(const std::vector<LD>& P) {
    const int nfft = (int)P.size(), h = nfft / 2;
    std::vector<LD> q(h + 1);
    for (int k = 0; k <= h; ++k) q[k] = (k == 0 || k == h) ? P[k] : P[k] + P[nfft - k];
    return q;
}

// nfft * mean_seg(sum_t |x w|^2) / (w.w)   (density)   or   / (sum w)^2   (power), time domain (needs winlen <= nfft)
template<class T>
static LD ref_power_sum(const base_array<T>& x, const arr_real& win, int nov, int nfft, bool psd = true) {
    const int N = x.size(), L = win.size(), stride = L - nov, nseg = seg_count(N, L, nov);
    LD s = 0, s2 = 0;
    for (int i = 0; i < L; ++i) { s += win[i]; s2 += (LD)win[i] * win[i]; }
    LD acc = 0;
    for (int g = 0; g < nseg; ++g) {
        LD e = 0;
        for (int t = 0; t < L; ++t) e += abs2L(x[g * stride + t]) * ((LD)win[t] * win[t]);
        acc += e;
    }
    return (LD)nfft * (acc / nseg) / (psd ? s2 : s * s);
}

// ------------------------------------------------------------------------------------------------ protocol helpers
static std::string ctx_json(const char* what, bool cx, int nfft, int fam, int L, int nov, int N, int sig, bool psd, long long id) {
    char b[512];
    std::snprintf(b, sizeof b,
                  "{\"what\":\"%s\",\"input\":\"%s\",\"nfft\":%d,\"window\":\"%s\",\"winlen\":%d,\"noverlap\":%d,\"len\":%d,\"signal\":\"%s\",\"scale\":\"%s\",\"seed\":%llu,\"case\":%lld}",
                  what, cx ? "complex" : "real", nfft, fam >= 0 ? fam_name[fam] : "custom", L, nov, N, sig >= 0 ? sig_name[sig] : "tone",
                  psd ? "psd" : "power", (unsigned long long)g_seed, id);
    return b;
}
static std::string add_field(const std::string& js, const std::string& k, const std::string& v) {
    return js.substr(0, js.size() - 1) + ",\"" + k + "\":" + v + "}";
}
static long long g_case = 0;
static LD g_max_sum_ratio = 0, g_max_ctone_ratio = 0, g_max_rtone_ratio = 0, g_max_coh_excess = 0, g_max_coh_dev = 0, g_max_ref_dev = 0;

template<class T> struct Tr;
template<> struct Tr<real_t> { static const bool cx = false; static const char* tag() { return "wR"; } static const char* tagd() { return "wRd"; } };
template<> struct Tr<cmplx_t> { static const bool cx = true; static const char* tag() { return "wC"; } static const char* tagd() { return "wCd"; } };

static std::map<std::pair<bool, int>, int> g_axis_emitted;
static void emit_axis(bool cx, int nfft, const arr_real& f) {
    if (g_axis_emitted[{cx, nfft}]++ >= 3) return;   // the axis depends on nfft only; every call's axis is judged by the oracle
    out.corr(std::string(cx ? "fC " : "fR ") + std::to_string(nfft), vh::hxs(f));
}
template<class T>
static void emit_welch(const base_array<T>& x, const arr_real& win, int nov, int nfft, bool psd, const std::string& rhs) {
    out.corr(std::string(Tr<T>::tag()) + " " + (psd ? "1 " : "0 ") + std::to_string(nov) + " " + std::to_string(nfft) + " " + vh::hxs(x) + " " + vh::hxs(win), rhs);
}

// ------------------------------------------------------------------------------------------------ welch: general clauses
// returns false if the call threw
template<class T>
static bool check_welch(const base_array<T>& x, const arr_real& win, int nov, int nfft, bool psd, const std::string& ctx, bool corr,
                        WelchResult* res_out = nullptr) {
    const bool cx = Tr<T>::cx;
    const int L = win.size(), N = x.size();
    const SpectrumType type = psd ? SpectrumType::Psd : SpectrumType::Power;
    vh::set_current("C13:welch-crash", ctx);
    vh::watch(600);
    arr_real pxx, f;
    try {
        WelchResult r = welch(x, win, nov, nfft, type);
        pxx = r.pxx;
        f = r.f;
    } catch (const std::exception& e) {
        vh::unwatch();
        vh::clear_current();
        out.fail("C13:welch-throws", add_field(ctx, "error", std::string("\"") + e.what() + "\""));
        if (corr) emit_welch(x, win, nov, nfft, psd, "ERR");
        return false;
    }
    vh::unwatch();
    vh::clear_current();
    ++out.n_oracle;
    out.stat(cx ? "welch_complex_calls" : "welch_real_calls");
    if (corr) {
        emit_welch(x, win, nov, nfft, psd, vh::hxs(pxx));
        emit_axis(cx, nfft, f);
    }
    if (res_out) *res_out = WelchResult{pxx, f};
    const int want = cx ? nfft : nfft / 2 + 1;
    if (pxx.size() != want || f.size() != want) {
        out.fail(cx ? "C13:complex-size" : "C13:real-size", add_field(add_field(ctx, "pxx_size", std::to_string(pxx.size())), "f_size", std::to_string(f.size())));
        return true;
    }
    if (!win_ok(win)) { out.stat("degenerate_window_calls"); return true; }
    for (int k = 0; k < want; ++k) {
        if (!(pxx[k] >= 0) || !std::isfinite(pxx[k])) {
            out.fail("C13:negative-or-nonfinite", add_field(add_field(ctx, "bin", std::to_string(k)), "value", vh::jnum(pxx[k])));
            break;
        }
    }
    // frequency axis: real f[i] = i/nfft; complex: nfft distinct lattice points of [-1/2, 1/2]
    if (!cx) {
        for (int i = 0; i < want; ++i)
            if (std::fabs(f[i] - (double)i / nfft) > 1e-15) {
                out.fail("C13:real-freq-axis", add_field(add_field(ctx, "index", std::to_string(i)), "f", vh::jnum(f[i])));
                break;
            }
    } else {
        std::vector<char> seen(nfft, 0);
        for (int i = 0; i < want; ++i) {
            const double m = f[i] * nfft;
            const long long mi = llround(m);
            const int slot = (int)(((mi % nfft) + nfft) % nfft);
            if (std::fabs(m - mi) > 1e-9 || std::fabs(f[i]) > 0.5 + 1e-15 || seen[slot]) {
                out.fail("C13:complex-freq-lattice", add_field(add_field(ctx, "index", std::to_string(i)), "f", vh::jnum(f[i])));
                break;
            }
            seen[slot] = 1;
        }
    }
    // power conservation: density scaling (the property's clause, keys *-psd-sum) and, by the same Parseval argument with the
    // other window compensation, power scaling (keys *-power-sum)
    if (L <= nfft && N >= L) {
        LD s = 0;
        for (int k = 0; k < want; ++k) s += pxx[k];
        const LD ref = ref_power_sum(x, win, nov, nfft, psd);
        const int nseg = seg_count(N, L, nov);
        const LD tol = ((LD)nseg + L + 16.0L * ilog2(nfft) + 16.0L) * EPS;
        const LD err = fabsl(s - ref);
        // (sums below 1e-290 — quiet stretches under a window zero — sit in the denormal range, where no relative accuracy exists)
        if (ref > 1e-250L && psd) g_max_sum_ratio = std::max(g_max_sum_ratio, err / (tol * ref));
        out.stat(psd ? "psd_sum_checks" : "power_sum_checks");
        if (!(err <= tol * ref + 1e-290L)) {
            char b[160];
            std::snprintf(b, sizeof b, "%.17Lg", s);
            std::string js = add_field(ctx, "sum", b);
            std::snprintf(b, sizeof b, "%.17Lg", ref);
            out.fail(psd ? (cx ? "C13:complex-psd-sum" : "C13:real-psd-sum") : (cx ? "C13:complex-power-sum" : "C13:real-power-sum"),
                     add_field(add_field(js, "expected", b), "segments", std::to_string(nseg)));
        }
    }
    return true;
}

// deviation from the long-double evaluation of the whole estimate (statistic only: CORR is the element-wise tie)
template<class T>
static void ref_deviation(const base_array<T>& x, const arr_real& win, int nov, int nfft, bool psd, const arr_real& pxx) {
    std::vector<LD> P = ref_two_sided(x, win, nov, nfft, psd);
    if (!Tr<T>::cx) P = fold_one_sided(P);
    if ((int)P.size() != pxx.size()) return;
    LD mx = 0, dev = 0;
    for (size_t k = 0; k < P.size(); ++k) { mx = std::max(mx, P[k]); dev = std::max(dev, fabsl(P[k] - pxx[(int)k])); }
    if (mx > 0) g_max_ref_dev = std::max(g_max_ref_dev, dev / mx);
    out.stat("reference_comparisons");
}

// ------------------------------------------------------------------------------------------------ random-signal sweep
struct Cfg {
    int nfft, fam, L, nov, N, sig;
};

template<class T>
static void run_cfg(vh::Rng& r, const Cfg& c, bool psd, bool corr) {
    arr_real win = make_win(c.fam, c.L, r);
    const long long id = g_case++;
    const std::string ctx = ctx_json("random-signal", Tr<T>::cx, c.nfft, c.fam, c.L, c.nov, c.N, c.sig, psd, id);
    base_array<T> x;
    if constexpr (Tr<T>::cx) x = gen_cmplx(r, c.N, c.sig);
    else x = gen_real(r, c.N, c.sig);
    WelchResult res{arr_real(), arr_real()};
    const bool ok = check_welch(x, win, c.nov, c.nfft, psd, ctx, corr, &res);
    out.stat(std::string("fam_") + fam_name[c.fam]);
    out.stat(std::string("sig_") + sig_name[c.sig]);
    out.stat(std::string("nfft_") + std::to_string(c.nfft));
    out.stat(psd ? "scale_psd" : "scale_power");
    {
        const int stride = c.L - c.nov, nseg = seg_count(c.N, c.L, c.nov);
        out.stat(nseg == 1 ? "segments_1" : nseg <= 4 ? "segments_2_4" : nseg <= 64 ? "segments_5_64" : nseg <= 1024 ? "segments_65_1024" : "segments_gt_1024");
        out.stat(c.nov == 0 ? "overlap_0" : c.nov == c.L - 1 ? "overlap_winlen-1" : c.nov == c.L / 2 ? "overlap_half" : "overlap_other");
        out.stat(c.L == c.nfft ? "winlen_eq_nfft" : "winlen_lt_nfft");
        if ((c.N - c.L) % stride == 0) out.stat("last_segment_ends_at_last_sample");
    }
    if (ok && win_ok(win) && (long long)seg_count(c.N, c.L, c.nov) * c.nfft <= 400000 && (id % 3 == 0)) ref_deviation(x, win, c.nov, c.nfft, psd, res.pxx);
    if (id < 4) out.sample(ctx);
}

static int pick_overlap(vh::Rng& r, int L, int which) {
    switch (which % 6) {
    case 0: return 0;
    case 1: return L - 1;
    case 2: return L / 2;
    case 3: return std::min(L - 1, 1);
    case 4: return std::max(0, L - 2);
    default: return r.range(0, L - 1);
    }
}

static void random_sweep(vh::Rng& r) {
    std::vector<int> nffts;
    for (int n = 8; n <= 4096; n *= 2) nffts.push_back(n);
    // every overlap 0..winlen-1 for small windows (exhaustive), both input types, both scalings
    for (int nfft : {8, 16, 32}) {
        for (int L = 1; L <= nfft; L += (g_thorough ? 1 : (L < 6 ? 1 : 5))) {
            for (int nov = 0; nov < L; ++nov) {
                const int fam = (L < 4) ? (r.coin() ? RECT : RANDPOS) : r.range(0, NFAM - 1);
                const int stride = L - nov;
                const int N = L + stride * r.range(0, 6) + r.range(0, stride - 1);
                Cfg c{nfft, fam, L, nov, N, r.range(0, NSIGK - 1)};
                const bool psd = (nov + L) % 2 == 0;
                const bool corr = g_thorough ? true : (nov % 2 == 0);
                run_cfg<real_t>(r, c, psd, corr);
                run_cfg<cmplx_t>(r, c, !psd, corr);
                out.stat("exhaustive_overlap_cases", 2);
            }
        }
    }
    // all nfft x all families x window lengths x sampled overlaps x signal lengths
    const int reps = g_thorough ? 10 : 1;
    int which = 0;
    for (int rep = 0; rep < reps; ++rep) {
        for (int nfft : nffts) {
            for (int fam = 0; fam < NFAM; ++fam) {
                std::vector<int> Ls = {nfft, nfft - 1, nfft / 2, nfft / 2 + 1, r.range(4, nfft), r.range(4, std::max(4, nfft / 4))};
                if (!g_thorough) Ls = {nfft, (fam % 2) ? nfft - 1 : nfft / 2 + 1, r.range(4, nfft)};
                for (int L : Ls) {
                    const int nov = pick_overlap(r, L, which++);
                    const int stride = L - nov;
                    // segment budget: keep the number of transforms of one call bounded
                    const long long maxseg = std::max<long long>(1, std::min<long long>((100000 - L) / stride + 1, (g_thorough ? 3000000LL : 600000LL) / nfft));
                    int nseg;
                    switch (r.range(0, 4)) {
                    case 0: nseg = 1; break;
                    case 1: nseg = (int)std::min<long long>(maxseg, 2 + r.range(0, 3)); break;
                    default: nseg = (int)std::min<long long>(maxseg, 1 + (long long)(std::pow((double)maxseg, r.unit()))); break;
                    }
                    int N = L + (nseg - 1) * stride;
                    if (r.coin()) N += r.range(0, stride - 1);   // partial last hop: the tail must be ignored
                    N = std::min(N, 100000);
                    Cfg c{nfft, fam, L, nov, N, r.range(0, NSIGK - 1)};
                    const bool psd = r.coin();
                    const bool cxin = r.coin();
                    const bool corr = (long long)seg_count(N, L, nov) * nfft <= (g_thorough ? 300000 : 150000) && N <= (g_thorough ? 2500 : 9000) && (g_thorough ? (which % 5 == 0) : true);
                    if (cxin) { run_cfg<cmplx_t>(r, c, psd, corr); run_cfg<real_t>(r, c, !psd, false); }
                    else { run_cfg<real_t>(r, c, psd, corr); run_cfg<cmplx_t>(r, c, !psd, false); }
                }
            }
        }
    }
    // full-length signals (10^5 samples)
    const int nlong = g_thorough ? 48 : 6;
    for (int i = 0; i < nlong; ++i) {
        const int nfft = nffts[r.range(0, (int)nffts.size() - 1)];
        const int L = r.coin() ? nfft : r.range(std::max(4, nfft / 2), nfft);
        const int minstride = (int)std::max<long long>(1, (100000LL * nfft) / (g_thorough ? 40000000LL : 12000000LL));
        int nov = r.coin() ? L / 2 : r.range(0, L - 1);
        if (L - nov < minstride) nov = std::max(0, L - minstride);
        const int N = (i % 3 == 0) ? 100000 : r.range(60000, 100000);
        Cfg c{nfft, r.range(0, NFAM - 1), L, nov, N, r.range(0, NSIGK - 1)};
        if (i % 2) run_cfg<real_t>(r, c, i % 4 < 2, false);
        else run_cfg<cmplx_t>(r, c, i % 4 < 2, false);
        out.stat("long_signal_cases");
    }
    // the longest budgeted CORR cases: long input with a large hop
    for (int i = 0; i < (g_thorough ? 6 : 2); ++i) {
        const int nfft = (i % 2) ? 256 : 1024;
        const int L = nfft - (i % 3);
        const int nov = (i % 2) ? 0 : -((int)r.range(0, 3000));   // negative overlap: hop larger than the window (legal in the code)
        const int N = r.range(40000, 100000);
        Cfg c{nfft, r.range(0, NFAM - 1), L, nov, N, r.range(0, NSIGK - 1)};
        if (i % 2) run_cfg<real_t>(r, c, true, true);
        else run_cfg<cmplx_t>(r, c, true, true);
        out.stat("long_signal_corr_cases");
    }
}

// ------------------------------------------------------------------------------------------------ tones
// x[t] = A e^{i(2 pi f0 t + phi)} (complex) or A cos(2 pi f0 t + phi) (real), phase reduced in long double
static arr_cmplx tone_c(int N, LD f0, LD A, LD phi) {
    arr_cmplx x(N);
    for (int t = 0; t < N; ++t) {
        LD ph = f0 * t;
        ph -= floorl(ph);
        x[t].re = (double)(A * cosl(2 * PI_L * ph + phi));
        x[t].im = (double)(A * sinl(2 * PI_L * ph + phi));
    }
    return x;
}
static arr_real tone_r(int N, LD f0, LD A, LD phi) {
    arr_real x(N);
    for (int t = 0; t < N; ++t) {
        LD ph = f0 * t;
        ph -= floorl(ph);
        x[t] = (double)(A * cosl(2 * PI_L * ph + phi));
    }
    return x;
}
static LD circ_dist(LD a, LD b) {
    LD d = fabsl(a - b);
    d -= floorl(d);
    return std::min(d, 1 - d);
}
static std::string jld(LD v) {
    char b[64];
    std::snprintf(b, sizeof b, "%.17Lg", v);
    return b;
}

struct ToneStats {
    long long judged = 0, ambiguous = 0, known_axis = 0;
};
static ToneStats g_ts_real, g_ts_cx;

// one tone through welch; label clause
template<class T>
static void tone_label(int nfft, int fam, const arr_real& win, int nov, int nseg, LD f0, LD A, LD phi, bool psd) {
    const bool cx = Tr<T>::cx;
    const int L = win.size(), stride = L - nov, N = L + (nseg - 1) * stride;
    base_array<T> x;
    if constexpr (Tr<T>::cx) x = tone_c(N, f0, A, phi);
    else x = tone_r(N, f0, A, phi);
    std::string ctx = ctx_json("tone", cx, nfft, fam, L, nov, N, -1, psd, g_case++);
    ctx = add_field(add_field(add_field(ctx, "f0", jld(f0)), "amplitude", jld(A)), "phase", jld(phi));
    WelchResult res{arr_real(), arr_real()};
    if (!check_welch(x, win, nov, nfft, psd, ctx, false, &res)) return;
    const arr_real &pxx = res.pxx, &f = res.f;
    const int want = cx ? nfft : nfft / 2 + 1;
    if (pxx.size() != want || f.size() != want) return;
    int j = 0;
    for (int k = 1; k < want; ++k) if (pxx[k] > pxx[j]) j = k;
    // exact estimator
    std::vector<LD> P = ref_two_sided(x, win, nov, nfft, psd);
    if (!cx) P = fold_one_sided(P);
    auto truef = [&](int k) -> LD { return cx ? (k <= nfft / 2 ? (LD)k / nfft : (LD)k / nfft - 1) : (LD)k / nfft; };
    auto dist = [&](LD a) -> LD { return cx ? circ_dist(a, f0) : fabsl(a - f0); };
    int kn = 0, kr = 0;
    for (int k = 1; k < want; ++k) {
        if (dist(truef(k)) < dist(truef(kn))) kn = k;
        if (P[k] > P[kr]) kr = k;
    }
    LD second = 0;
    for (int k = 0; k < want; ++k) if (k != kr) second = std::max(second, P[k]);
    const bool resolvable = (kr == kn) && P[kr] > second * (1 + 1e-9L);
    ToneStats& ts = cx ? g_ts_cx : g_ts_real;
    out.stat(cx ? "tones_complex" : "tones_real");
    // peak VALUE agrees with the exact estimator (any ordering)
    {
        const LD dev = fabsl((LD)pxx[j] - P[kr]);
        if (!(dev <= 1e-10L * P[kr])) out.fail(cx ? "C13:complex-tone-peak-value" : "C13:real-tone-peak-value", add_field(add_field(ctx, "peak", vh::jnum(pxx[j])), "expected", jld(P[kr])));
    }
    if (!resolvable) {
        ++ts.ambiguous;
        out.stat(cx ? "tones_ambiguous_complex" : "tones_ambiguous_real");
        return;
    }
    ++ts.judged;
    const LD dmin = dist(truef(kn));
    if (dist((LD)f[j]) <= dmin + 1e-12L) return;   // the label of the maximum is the nearest listed frequency
    std::string js = add_field(add_field(add_field(ctx, "peak_index", std::to_string(j)), "peak_label", vh::jnum(f[j])), "nearest_bin_frequency", jld(truef(kn)));
    if (!cx) {
        out.fail("C13:real-tone-label", js);
    } else if (j == kn) {
        // the value sits at the transform-order position of the right bin, the label belongs to the centred axis
        ++ts.known_axis;
        out.fail("C13:complex-welch-axis", js);
    } else {
        out.fail("C13:complex-tone-peak", js);
    }
}

static void tone_sweeps(vh::Rng& r) {
    std::vector<int> nffts;
    for (int n = 8; n <= 4096; n *= 2) nffts.push_back(n);
    for (int nfft : nffts) {
        const int nconf = g_thorough ? 5 : 2;
        for (int conf = 0; conf < nconf; ++conf) {
            const int fam = (conf == 0) ? (nfft % 3 == 0 ? HANN : HAMMING) : r.range(0, NFAM - 1);
            int L = (conf % 2 == 0) ? nfft : r.range(std::max(4, nfft / 4), nfft);
            arr_real win = make_win(fam, L, r);
            if (!win_ok(win)) continue;
            const int nov = (conf % 3 == 0) ? L / 2 : r.range(0, L - 1);
            const int nseg = 1 + conf % 3;
            // grid finer than the bin spacing: `sub` offsets per bin, never within 0.02 bin of the half-way point
            const int sub = g_thorough ? 5 : 3;
            long long budget = g_thorough ? (nfft <= 512 ? 1LL << 40 : 5000) : (nfft <= 64 ? 1LL << 40 : 220);
            const long long total = (long long)nfft * sub;
            const double keep = std::min(1.0, (double)budget / (double)total);
            for (int k = 0; k < nfft; ++k) {
                for (int s = 0; s < sub; ++s) {
                    const bool edge = (k < 3 || k >= nfft - 3 || std::abs(k - nfft / 2) < 3 || std::abs(k - nfft / 4) < 2);
                    if (!edge && r.unit() > keep) continue;
                    const LD u = -0.48L + 0.96L * ((LD)s + (LD)r.unit() * 0.9L + 0.05L) / sub;
                    const LD A = std::pow(10.0, 4 * r.unit() - 2), phi = 2 * PI_L * (LD)r.unit();
                    const bool psd = r.coin();
                    // complex: the whole circle (-1/2, 1/2)
                    {
                        LD f0 = ((LD)k + u) / nfft - 0.5L;
                        if (f0 > -0.5L && f0 < 0.5L) tone_label<cmplx_t>(nfft, fam, win, nov, nseg, f0, A, phi, psd);
                    }
                    // real: (0, 1/2)
                    {
                        LD f0 = ((LD)k + u) / (2 * (LD)nfft);   // k/2 bins: twice as fine
                        if (f0 > 0 && f0 < 0.5L) tone_label<real_t>(nfft, fam, win, nov, nseg, f0, A, phi, psd);
                    }
                }
            }
        }
    }
    // the recorded witness: tone at +0.25
    {
        arr_real win = window::hamming(64);
        tone_label<cmplx_t>(64, HAMMING, win, 32, 3, 0.25L, 1.0L, 0.0L, true);
        tone_label<real_t>(64, HAMMING, win, 32, 3, 0.25L, 1.0L, 0.0L, true);
    }
}

// Power scaling: bin-centred tones report their mean-square value at the peak
static void power_tones(vh::Rng& r) {
    std::vector<int> nffts;
    for (int n = 8; n <= 4096; n *= 2) nffts.push_back(n);
    for (int nfft : nffts) {
        for (int fam = 0; fam < NFAM; ++fam) {
            const int nL = g_thorough ? 4 : 2;
            for (int li = 0; li < nL; ++li) {
                const int L = (li == 0) ? nfft : (li == 1 ? r.range(std::max(4, nfft / 2), nfft) : r.range(4, nfft));
                arr_real win = make_win(fam, L, r);
                if (!win_ok(win)) { out.stat("power_tone_degenerate_window"); continue; }
                const int nov = pick_overlap(r, L, li + fam);
                const int stride = L - nov;
                const int nseg = r.range(1, 5);
                const int N = L + (nseg - 1) * stride + (r.coin() ? r.range(0, stride - 1) : 0);
                LD S0 = 0;
                for (int t = 0; t < L; ++t) S0 += win[t];
                const int ntone = g_thorough ? 10 : 4;
                for (int it = 0; it < ntone; ++it) {
                    const LD A = std::pow(10.0, 4 * r.unit() - 2), phi = 2 * PI_L * (LD)r.unit();
                    const LD rnd = ((LD)nseg + L + 16.0L * ilog2(nfft) + 16.0L) * EPS;
                    // complex tone at bin k0 in 0..nfft-1 (frequency k0/nfft mod 1)
                    {
                        const int k0 = (it == 0) ? 0 : (it == 1 ? nfft / 2 : r.range(0, nfft - 1));
                        arr_cmplx x = tone_c(N, (LD)k0 / nfft, A, phi);
                        std::string ctx = add_field(add_field(ctx_json("power-tone", true, nfft, fam, L, nov, N, -1, false, g_case++), "k0", std::to_string(k0)), "amplitude", jld(A));
                        WelchResult res{arr_real(), arr_real()};
                        if (check_welch(x, win, nov, nfft, false, ctx, it == 2 && L <= 1024 && (!g_thorough || li < 2), &res) && res.pxx.size() == nfft) {
                            LD mx = 0;
                            for (int k = 0; k < nfft; ++k) mx = std::max(mx, (LD)res.pxx[k]);
                            const LD err = fabsl(mx - A * A) / (A * A);
                            g_max_ctone_ratio = std::max(g_max_ctone_ratio, err / (rnd + 4 * EPS));
                            out.stat("power_tone_complex_checks");
                            if (!(err <= rnd + 4 * EPS)) out.fail("C13:complex-power-tone", add_field(add_field(ctx, "peak", jld(mx)), "expected", jld(A * A)));
                        }
                    }
                    // real sinusoid at bin k0 in 1..nfft/2-1
                    if (nfft >= 8) {
                        const int k0 = (it == 0) ? nfft / 4 : r.range(1, nfft / 2 - 1);
                        // relative size of the negative-frequency image at +k0: |S(2 k0)| / S(0)
                        LD sr = 0, si = 0;
                        for (int t = 0; t < L; ++t) {
                            const long long m = (2LL * k0 * t) % nfft;
                            sr += win[t] * cosl(2 * PI_L * m / nfft);
                            si -= win[t] * sinl(2 * PI_L * m / nfft);
                        }
                        const LD rr = sqrtl(sr * sr + si * si) / S0;
                        arr_real x = tone_r(N, (LD)k0 / nfft, A, phi);
                        std::string ctx = add_field(add_field(add_field(ctx_json("power-tone", false, nfft, fam, L, nov, N, -1, false, g_case++), "k0", std::to_string(k0)), "amplitude", jld(A)), "image", jld(rr));
                        WelchResult res{arr_real(), arr_real()};
                        if (check_welch(x, win, nov, nfft, false, ctx, it == 2 && L <= 1024 && (!g_thorough || li < 2), &res) && res.pxx.size() == nfft / 2 + 1) {
                            if (rr > 0.004L) { out.stat("power_tone_real_image_above_bound"); continue; }
                            const LD want = A * A / 2;
                            const LD tol = 2 * rr + rr * rr + rnd + 4 * EPS;
                            const LD err = fabsl((LD)res.pxx[k0] - want) / want;
                            g_max_rtone_ratio = std::max(g_max_rtone_ratio, err / tol);
                            out.stat("power_tone_real_checks");
                            if (!(err <= tol)) out.fail("C13:real-power-tone", add_field(add_field(ctx, "value", vh::jnum(res.pxx[k0])), "expected", jld(want)));
                            else if (err > 0.01L) out.fail("C13:real-power-tone-1pct", add_field(ctx, "value", vh::jnum(res.pxx[k0])));
                            // window spanning the transform: the bin of the tone is the maximum
                            if (L == nfft) {
                                int j = 0;
                                for (int k = 1; k <= nfft / 2; ++k) if (res.pxx[k] > res.pxx[j]) j = k;
                                if (j != k0 && !(res.pxx[k0] >= res.pxx[j] * (1 - 1e-12))) out.fail("C13:real-power-tone-peak", add_field(ctx, "peak_index", std::to_string(j)));
                            }
                        }
                    }
                }
            }
        }
    }
}

// ------------------------------------------------------------------------------------------------ overloads
static bool same_bits(const arr_real& a, const arr_real& b) {
    if (a.size() != b.size()) return false;
    for (int i = 0; i < a.size(); ++i)
        if (std::memcmp(&a[i], &b[i], sizeof(double)) != 0) return false;
    return true;
}
static void overloads(vh::Rng& r) {
    const int n = g_thorough ? 60 : 16;
    for (int i = 0; i < n; ++i) {
        static const int fixedL[8] = {4, 5, 8, 9, 16, 17, 100, 128};
        const int L = (i < 8) ? fixedL[i] : r.range(4, 700);
        const int nfft_def = 1 << ilog2(L);
        const int N = L + r.range(0, 6 * L);
        const bool psd = r.coin();
        const SpectrumType type = psd ? SpectrumType::Psd : SpectrumType::Power;
        arr_real ham = window::hamming(L);
        arr_real win = make_win(r.range(0, NFAM - 1), L, r);
        arr_real xr = gen_real(r, N, r.range(0, NSIGK - 1)), yr = gen_real(r, N, 0);
        arr_cmplx xc = gen_cmplx(r, N, r.range(0, NSIGK - 1));
        std::string ctx = ctx_json("overloads", false, nfft_def, -1, L, L / 2, N, -1, psd, g_case++);
        vh::set_current("C13:overload-crash", ctx);
        vh::watch(300);
        try {
            const int nov2 = r.range(0, L - 1), nfft2 = nfft_def * (1 + (int)(r.next() % 2));
            bool ok = true;
            {
                WelchResult a = welch(xr, L, type), b = welch(xr, ham, L / 2, nfft_def, type);
                ok = ok && same_bits(a.pxx, b.pxx) && same_bits(a.f, b.f);
                WelchResult c = welch(xr, win, type), d = welch(xr, win, L / 2, nfft_def, type);
                ok = ok && same_bits(c.pxx, d.pxx) && same_bits(c.f, d.f);
                WelchResult e = welch(xr, L, nov2, nfft2, type), g = welch(xr, ham, nov2, nfft2, type);
                ok = ok && same_bits(e.pxx, g.pxx) && same_bits(e.f, g.f);
                out.corr(std::string("wRd ") + (psd ? "1 " : "0 ") + vh::hxs(xr) + " " + vh::hxs(win), vh::hxs(c.pxx));
            }
            {
                WelchResult a = welch(xc, L, type), b = welch(xc, ham, L / 2, nfft_def, type);
                ok = ok && same_bits(a.pxx, b.pxx) && same_bits(a.f, b.f);
                WelchResult c = welch(xc, win, type), d = welch(xc, win, L / 2, nfft_def, type);
                ok = ok && same_bits(c.pxx, d.pxx) && same_bits(c.f, d.f);
                WelchResult e = welch(xc, L, nov2, nfft2, type), g = welch(xc, ham, nov2, nfft2, type);
                ok = ok && same_bits(e.pxx, g.pxx) && same_bits(e.f, g.f);
                out.corr(std::string("wCd ") + (psd ? "1 " : "0 ") + vh::hxs(xc) + " " + vh::hxs(win), vh::hxs(c.pxx));
            }
            {
                arr_real a = mscohere(xr, yr, L), b = mscohere(xr, yr, ham, L / 2, nfft_def);
                ok = ok && same_bits(a, b);
                arr_real c = mscohere(xr, yr, win), d = mscohere(xr, yr, win, L / 2, nfft_def);
                ok = ok && same_bits(c, d);
                arr_real e = mscohere(xr, yr, L, nov2, nfft2), g = mscohere(xr, yr, ham, nov2, nfft2);
                ok = ok && same_bits(e, g);
                out.corr(std::string("cohd ") + vh::hxs(xr) + " " + vh::hxs(yr) + " " + vh::hxs(win), vh::hxs(c));
            }
            ++out.n_oracle;
            out.stat("overload_checks");
            if (!ok) out.fail("C13:overload-defaults", ctx);
        } catch (const std::exception& e) {
            out.fail("C13:overload-throws", add_field(ctx, "error", std::string("\"") + e.what() + "\""));
        }
        vh::unwatch();
        vh::clear_current();
    }
}

// ------------------------------------------------------------------------------------------------ coherence
static const char* coh_name[] = {"independent", "scaled-copy", "filtered-copy", "noisy-copy", "random-pair-coloured"};
static void coh_case(vh::Rng& r, int nfft, int fam, int L, int nov, int N, int kind, bool corr) {
    arr_real win = make_win(fam, L, r);
    arr_real x = gen_real(r, N, kind == 1 ? (r.coin() ? 0 : 1) : r.range(0, NSIGK - 1));
    arr_real y(N);
    double cfac = 0;
    switch (kind) {
    case 0: y = gen_real(r, N, r.range(0, NSIGK - 1)); break;
    case 1: {
        cfac = (r.coin() ? 1 : -1) * (r.coin() ? std::ldexp(1.0, r.range(-10, 10)) : std::pow(10.0, 6 * r.unit() - 3));
        for (int t = 0; t < N; ++t) y[t] = cfac * x[t];
        break;
    }
    case 2: {
        const int nh = r.range(2, 12);
        std::vector<double> h(nh);
        for (auto& v : h) v = r.gauss();
        for (int t = 0; t < N; ++t) {
            double a = 0;
            for (int k = 0; k < nh && k <= t; ++k) a += h[k] * x[t - k];
            y[t] = a;
        }
        break;
    }
    case 3: {
        const double s = std::pow(10.0, 3 * r.unit() - 2);
        for (int t = 0; t < N; ++t) y[t] = x[t] + s * r.gauss();
        break;
    }
    default: {
        double a = 0, b = 0;
        for (int t = 0; t < N; ++t) {
            a = 0.9 * a + r.gauss();
            b = -0.7 * b + r.gauss();
            x[t] = a;
            y[t] = b;
        }
    }
    }
    std::string ctx = add_field(ctx_json("mscohere", false, nfft, fam, L, nov, N, -1, true, g_case++), "pair", std::string("\"") + coh_name[kind] + "\"");
    if (kind == 1) ctx = add_field(ctx, "c", vh::jnum(cfac));
    vh::set_current("C13:mscohere-crash", ctx);
    vh::watch(600);
    arr_real c;
    try {
        c = mscohere(x, y, win, nov, nfft);
    } catch (const std::exception& e) {
        vh::unwatch();
        vh::clear_current();
        out.fail("C13:mscohere-throws", add_field(ctx, "error", std::string("\"") + e.what() + "\""));
        return;
    }
    vh::unwatch();
    vh::clear_current();
    ++out.n_oracle;
    out.stat(std::string("coh_") + coh_name[kind]);
    if (corr) out.corr(std::string("coh ") + std::to_string(nov) + " " + std::to_string(nfft) + " " + vh::hxs(x) + " " + vh::hxs(y) + " " + vh::hxs(win), vh::hxs(c));
    if (c.size() != nfft / 2 + 1) {
        out.fail("C13:mscohere-size", add_field(ctx, "size", std::to_string(c.size())));
        return;
    }
    if (!win_ok(win)) { out.stat("degenerate_window_calls"); return; }
    const int nseg = seg_count(N, L, nov);
    out.stat(nseg == 1 ? "coh_segments_1" : nseg <= 8 ? "coh_segments_2_8" : "coh_segments_gt_8");
    for (int k = 0; k < c.size(); ++k) {
        if (!(c[k] >= 0) || !(c[k] <= 1 + 1e-12)) {
            out.fail("C13:mscohere-range", add_field(add_field(ctx, "bin", std::to_string(k)), "value", vh::jnum(c[k])));
            break;
        }
        g_max_coh_excess = std::max(g_max_coh_excess, (LD)c[k] - 1);
    }
    if (kind == 1) {
        for (int k = 0; k < c.size(); ++k) {
            g_max_coh_dev = std::max(g_max_coh_dev, fabsl((LD)c[k] - 1));
            if (!(std::fabs(c[k] - 1) <= 1e-9)) {
                out.fail("C13:mscohere-scaled-copy", add_field(add_field(ctx, "bin", std::to_string(k)), "value", vh::jnum(c[k])));
                break;
            }
        }
        out.stat("coh_scaled_copy_checks");
    }
}

static void coherence(vh::Rng& r) {
    std::vector<int> nffts;
    for (int n = 8; n <= 4096; n *= 2) nffts.push_back(n);
    const int reps = g_thorough ? 5 : 1;
    int which = 0;
    for (int rep = 0; rep < reps; ++rep)
        for (int nfft : nffts)
            for (int fam = 0; fam < NFAM; ++fam)
                for (int kind = 0; kind < 5; ++kind) {
                    if (!g_thorough && (fam + kind + ilog2(nfft)) % 2) continue;
                    int L = (which % 3 == 0) ? nfft : r.range(std::max(4, nfft / 4), nfft);
                    if (L < 4) L = 4;
                    const int nov = pick_overlap(r, L, which++);
                    const int stride = L - nov;
                    const long long maxseg = std::max<long long>(2, std::min<long long>((100000 - L) / stride + 1, (g_thorough ? 1500000LL : 300000LL) / nfft));
                    int nseg = (kind == 1) ? (int)std::min<long long>(maxseg, 2 + r.range(0, 30))
                                           : (int)std::min<long long>(maxseg, 1 + (long long)std::pow((double)maxseg, r.unit()));
                    int N = L + (nseg - 1) * stride + (r.coin() ? r.range(0, stride - 1) : 0);
                    N = std::min(N, 100000);
                    const bool corr = (long long)seg_count(N, L, nov) * nfft <= 100000 && N <= (g_thorough ? 2000 : 6000) && (which % (g_thorough ? 4 : 2) == 0);
                    coh_case(r, nfft, fam, L, nov, N, kind, corr);
                }
    // small windows, every overlap
    for (int L = 2; L <= (g_thorough ? 16 : 8); ++L)
        for (int nov = 0; nov < L; ++nov) {
            const int stride = L - nov;
            coh_case(r, 16, L < 4 ? RECT : r.range(0, NFAM - 1), L, nov, L + stride * r.range(1, 9) + r.range(0, stride - 1), r.range(0, 4), true);
        }
    // full-length pairs
    for (int i = 0; i < (g_thorough ? 10 : 3); ++i) {
        const int nfft = nffts[r.range(2, (int)nffts.size() - 1)];
        const int L = r.coin() ? nfft : r.range(nfft / 2, nfft);
        coh_case(r, nfft, r.range(0, NFAM - 1), L, r.coin() ? L / 2 : r.range(0, L / 2), 100000, i % 5, false);
    }
}

// ------------------------------------------------------------------------------------------------ guards / boundary classes (CORR only)
template<class F> static std::string guarded(const std::string& key, const std::string& ctx, F f) {
    vh::set_current(key, ctx);
    vh::watch(120);
    std::string rhs;
    try {
        rhs = vh::hxs(f());
    } catch (const std::exception&) {
        rhs = "ERR";
    }
    vh::unwatch();
    vh::clear_current();
    return rhs;
}
static void guard_cases(vh::Rng& r) {
    struct G { int nfft, L, nov, N; };
    std::vector<G> gs = {
        {0, 8, 4, 64}, {-8, 8, 4, 64}, {3, 8, 4, 64}, {12, 8, 4, 64}, {100, 8, 4, 64}, {24, 16, 0, 64},      // nfft not a power of two
        {16, 8, 8, 64}, {16, 8, 9, 64}, {16, 8, 100, 64}, {8, 1, 1, 9},                                     // noverlap >= winlen
        {16, 8, -1, 64}, {16, 8, -8, 64}, {16, 8, -100, 64}, {32, 5, -3, 41},                               // negative overlap
        {16, 8, 4, 7}, {16, 8, 4, 5}, {16, 8, 4, 4}, {16, 8, 4, 3}, {16, 8, 4, 0}, {16, 8, 7, 7}, {16, 8, 7, 1}, {16, 8, 0, 1},   // signal shorter than the window
        {16, 8, 4, 8}, {16, 8, 4, 9}, {16, 8, 4, 11}, {16, 8, 4, 12}, {16, 8, 4, 13},                        // boundary of the segment count
        {8, 16, 4, 64}, {8, 9, 0, 30}, {16, 100, 50, 400}, {4, 7, 3, 20},                                   // window longer than nfft (truncated)
        {1, 1, 0, 5}, {1, 3, 1, 9}, {2, 2, 0, 8}, {2, 2, 1, 8}, {4, 4, 2, 16}, {4, 3, 0, 10}, {2, 1, 0, 4},  // nfft below the property's range
        {8192, 5000, 2500, 12000},                                                                           // above it
    };
    for (const G& g : gs) {
        for (int psd = 0; psd < 2; ++psd) {
            arr_real win = make_win(g.L < 4 ? RECT : r.range(0, NFAM - 1), g.L, r);
            arr_real xr = gen_real(r, g.N, 0), yr = gen_real(r, g.N, 0);
            arr_cmplx xc = gen_cmplx(r, g.N, 0);
            const SpectrumType type = psd ? SpectrumType::Psd : SpectrumType::Power;
            const std::string ctx = ctx_json("guard", false, g.nfft, -1, g.L, g.nov, g.N, 0, psd, g_case++);
            const std::string args = std::string(psd ? "1 " : "0 ") + std::to_string(g.nov) + " " + std::to_string(g.nfft) + " ";
            out.corr("wR " + args + vh::hxs(xr) + " " + vh::hxs(win), guarded("C13:guard-crash", ctx, [&] { return welch(xr, win, g.nov, g.nfft, type).pxx; }));
            out.corr("wC " + args + vh::hxs(xc) + " " + vh::hxs(win), guarded("C13:guard-crash", ctx, [&] { return welch(xc, win, g.nov, g.nfft, type).pxx; }));
            if (psd)
                out.corr("coh " + std::to_string(g.nov) + " " + std::to_string(g.nfft) + " " + vh::hxs(xr) + " " + vh::hxs(yr) + " " + vh::hxs(win),
                         guarded("C13:guard-crash", ctx, [&] { return mscohere(xr, yr, win, g.nov, g.nfft); }));
            out.stat("guard_cases");
        }
    }
    // all-zero window (division by the window power = 0), size mismatch of the coherence inputs
    {
        arr_real z = zeros(8), xr = gen_real(r, 40, 0), yr = gen_real(r, 39, 0), w8 = window::hamming(8);
        arr_cmplx xc = gen_cmplx(r, 40, 0);
        const std::string ctx = ctx_json("guard", false, 8, -1, 8, 4, 40, 0, true, g_case++);
        for (int psd = 0; psd < 2; ++psd) {
            const SpectrumType type = psd ? SpectrumType::Psd : SpectrumType::Power;
            out.corr(std::string("wR ") + (psd ? "1" : "0") + " 4 8 " + vh::hxs(xr) + " " + vh::hxs(z), guarded("C13:guard-crash", ctx, [&] { return welch(xr, z, 4, 8, type).pxx; }));
            out.corr(std::string("wC ") + (psd ? "1" : "0") + " 4 8 " + vh::hxs(xc) + " " + vh::hxs(z), guarded("C13:guard-crash", ctx, [&] { return welch(xc, z, 4, 8, type).pxx; }));
        }
        out.corr("coh 4 8 " + vh::hxs(xr) + " " + vh::hxs(xr) + " " + vh::hxs(z), guarded("C13:guard-crash", ctx, [&] { return mscohere(xr, xr, z, 4, 8); }));
        out.corr("coh 4 8 " + vh::hxs(xr) + " " + vh::hxs(yr) + " " + vh::hxs(w8), guarded("C13:guard-crash", ctx, [&] { return mscohere(xr, yr, w8, 4, 8); }));
        out.stat("guard_cases", 6);
    }
    // frequency axes of every size used
    for (int n = 1; n <= 8192; n *= 2) {
        arr_real w = ones(std::min(n, 4)), xr = gen_real(r, 16, 0);
        arr_cmplx xc = gen_cmplx(r, 16, 0);
        const std::string ctx = ctx_json("axis", false, n, -1, w.size(), 0, 16, 0, true, g_case++);
        out.corr("fR " + std::to_string(n), guarded("C13:guard-crash", ctx, [&] { return welch(xr, w, 0, n, SpectrumType::Psd).f; }));
        out.corr("fC " + std::to_string(n), guarded("C13:guard-crash", ctx, [&] { return welch(xc, w, 0, n, SpectrumType::Psd).f; }));
    }
}

// ================================================================================================ round 2: value-pattern classes
// (a) signals with silent / quiet stretches, (b) coherence against its definition over a huge dynamic range, scale classes of every
// numeric input, long single records after short ones, failed calls in the history, large prime lengths, aliasing, temporaries.

// element-wise: the returned estimate equals the definition (long-double evaluation), |pxx[k] - P[k]| <= 1e-11 max(P);
// with `perbin` also relative to the bin itself, as far as the conditioning of the bin allows: a transform computed in double carries
// an error of about eps sqrt(log2 nfft) |segment| in every bin, i.e. eps log2(nfft) sqrt(P[k] mean(P)) in the estimate
static LD g_max_bin_ratio = 0;
template<class T>
static void check_definition(const base_array<T>& x, const arr_real& win, int nov, int nfft, bool psd, const arr_real& pxx, const std::string& ctx, bool perbin = false) {
    std::vector<LD> P = ref_two_sided(x, win, nov, nfft, psd);
    if (!Tr<T>::cx) P = fold_one_sided(P);
    if ((int)P.size() != pxx.size()) return;
    LD mx = 0, mn = 1e4000L, pbar = 0;
    for (size_t k = 0; k < P.size(); ++k) { mx = std::max(mx, P[k]); pbar += P[k]; if (P[k] > 0) mn = std::min(mn, P[k]); }
    pbar /= nfft;
    out.stat("definition_checks");
    for (size_t k = 0; k < P.size(); ++k) {
        const LD dev = fabsl(P[k] - (LD)pxx[(int)k]);
        if (mx > 1e-250L) g_max_ref_dev = std::max(g_max_ref_dev, dev / mx);
        if (!(dev <= 1e-11L * mx + 1e-290L)) {
            out.fail(Tr<T>::cx ? "C13:complex-welch-definition" : "C13:real-welch-definition",
                     add_field(add_field(add_field(ctx, "bin", std::to_string(k)), "value", vh::jnum(pxx[(int)k])), "expected", jld(P[k])));
            return;
        }
    }
    if (!perbin || !(mx > 1e-250L)) return;
    const LD u = 32.0L * EPS * ilog2(nfft);
    const LD span = 10 * log10l(mx / mn);
    out.stat(span < 100 ? "welch_span_lt_100dB" : span < 157 ? "welch_span_100_157dB" : span < 250 ? "welch_span_157_250dB" : "welch_span_gt_250dB");
    for (size_t k = 0; k < P.size(); ++k) {
        const LD tol = 1e-11L * P[k] + u * sqrtl(P[k] * pbar) + u * u * pbar;
        if (!(tol <= 0.05L * P[k])) { out.stat("welch_bins_below_rounding_floor"); continue; }
        const LD dev = fabsl(P[k] - (LD)pxx[(int)k]);
        g_max_bin_ratio = std::max(g_max_bin_ratio, dev / tol);
        out.stat("welch_bins_judged_relative");
        if (!(dev <= tol)) {
            out.fail(Tr<T>::cx ? "C13:complex-welch-definition-bin" : "C13:real-welch-definition-bin",
                     add_field(add_field(add_field(add_field(ctx, "bin", std::to_string(k)), "value", vh::jnum(pxx[(int)k])), "expected", jld(P[k])), "bin_level_db", jld(10 * log10l(P[k] / mx))));
            return;
        }
    }
}

// ------------------------------------------------------------------------------------------------ (a) silent stretches
enum { QZ_POS = 0, QZ_NEG, QZ_MIX, QZ_DENORM, QZ_E310, QZ_E170, QZ_E120, QZ_E17, QZ_E8, NQZ };
static const char* qz_name[NQZ] = {"+0", "-0", "mixed-zeros", "denormal-min", "denormal-1e-310", "1e-170", "1e-120", "1e-17", "1e-8"};
static double quiet_value(vh::Rng& r, int q) {
    switch (q) {
    case QZ_POS: return 0.0;
    case QZ_NEG: return -0.0;
    case QZ_MIX: return r.coin() ? 0.0 : -0.0;
    case QZ_DENORM: return (r.coin() ? 1.0 : -1.0) * 4.9406564584124654e-324 * r.range(1, 1000);
    case QZ_E310: return 1e-310 * r.sym();
    case QZ_E170: return 1e-170 * r.gauss();
    case QZ_E120: return 1e-120 * r.gauss();
    case QZ_E17: return 1e-17 * r.gauss();
    default: return 1e-8 * r.gauss();
    }
}
static void set_quiet(vh::Rng& r, real_t& v, int q) { v = quiet_value(r, q); }
static void set_quiet(vh::Rng& r, cmplx_t& v, int q) { v.re = quiet_value(r, q); v.im = quiet_value(r, q); }
template<class T>
static void quiet_range(vh::Rng& r, base_array<T>& x, long long a, long long b, int q) {
    a = std::max(0LL, a);
    b = std::min<long long>(x.size(), b);
    for (long long t = a; t < b; ++t) set_quiet(r, x[(int)t], q);
}
static bool is_zero_energy(real_t v) { return v * v == 0; }
static bool is_zero_energy(cmplx_t v) { return v.re * v.re + v.im * v.im == 0; }
static void set_one(real_t& v) { v = 1.0; }
static void set_one(cmplx_t& v) { v.re = 0.6; v.im = -0.8; }

enum { SP_ONE = 0, SP_FIRST, SP_LAST, SP_RANGE, SP_ALLBUTONE, SP_PADTAIL, SP_LEAD, SP_GATED, SP_IMPULSE, SP_NEARMISS, SP_ALL, NSP };
static const char* sp_name[NSP] = {"one-segment", "first-segment", "last-segment", "segment-range", "all-but-one-window", "zero-padded-tail", "leading-silence",
                                   "gated-bursts", "single-sample", "near-miss", "whole-record"};
template<class T>
static void apply_silence(vh::Rng& r, base_array<T>& x, int L, int stride, int nseg, int pat, int q) {
    const long long N = x.size();
    auto at = [&](int g) { return (long long)g * stride; };
    switch (pat) {
    case SP_ONE: { const int g = r.range(0, nseg - 1); quiet_range(r, x, at(g), at(g) + L, q); break; }
    case SP_FIRST: quiet_range(r, x, 0, L + (r.coin() ? r.range(0, stride - 1) : 0), q); break;
    case SP_LAST: quiet_range(r, x, at(nseg - 1) - (r.coin() ? r.range(0, stride - 1) : 0), N, q); break;
    case SP_RANGE: { const int g1 = r.range(0, nseg - 1), g2 = r.range(g1, nseg - 1); quiet_range(r, x, at(g1), at(g2) + L, q); break; }
    case SP_ALLBUTONE: { const int g = r.range(0, nseg - 1); quiet_range(r, x, 0, at(g), q); quiet_range(r, x, at(g) + L, N, q); break; }
    case SP_PADTAIL: quiet_range(r, x, r.range(1, (int)N - 1), N, q); break;
    case SP_LEAD: quiet_range(r, x, 0, r.range(1, (int)N - 1), q); break;
    case SP_GATED: {
        bool on = r.coin();
        for (long long t = 0; t < N; on = !on) {
            const int len = r.range(1, 3 * L);
            if (!on) quiet_range(r, x, t, t + len, q);
            t += len;
        }
        break;
    }
    case SP_IMPULSE: {
        const int keep = r.range(0, (int)N - 1);
        T v = x[keep];
        if (is_zero_energy(v)) set_one(v);
        quiet_range(r, x, 0, N, q);
        x[keep] = v;
        break;
    }
    case SP_NEARMISS: {
        const int g = r.range(0, nseg - 1);
        if (stride > 1 && r.coin()) quiet_range(r, x, at(g) + 1, at(g) + 1 + L, q);   // a window length of silence, one sample off the grid
        else quiet_range(r, x, at(g), at(g) + L - 1, q);                              // on the grid, one sample short
        break;
    }
    default: quiet_range(r, x, 0, N, q); break;
    }
}
template<class T>
static int count_silent_segments(const base_array<T>& x, int L, int stride, int nseg) {
    int n = 0;
    for (int g = 0; g < nseg; ++g) {
        bool sil = true;
        for (int t = 0; t < L && sil; ++t) sil = is_zero_energy(x[g * stride + t]);
        n += sil;
    }
    return n;
}

// quiet non-zero values (denormals, 1e-170) in EVERY segment: all squares underflow, the estimate is 0 where the exact value is 1e-340 —
// outside a relative oracle.  Such a record is turned into one of exact zeros (both signs), which is judged: the estimate must be 0.
template<class T>
static int settle_all_quiet(vh::Rng& r, base_array<T>& x, int L, int stride, int nseg, int q) {
    const int nsil = count_silent_segments(x, L, stride, nseg);
    if (nsil == nseg && q > QZ_MIX)
        for (int t = 0; t < x.size(); ++t)
            if (is_zero_energy(x[t])) set_quiet(r, x[t], q % 3);
    return nsil;
}

template<class T>
static void run_silent(vh::Rng& r, const Cfg& c, bool psd, bool corr, int pat, int q, bool defcheck) {
    if (pat == SP_ALL && q > QZ_MIX) q = q % 3;   // a wholly quiet record of non-zeros underflows: outside the relative oracle
    arr_real win = make_win(c.fam, c.L, r);
    const long long id = g_case++;
    std::string ctx = ctx_json("silent-stretch", Tr<T>::cx, c.nfft, c.fam, c.L, c.nov, c.N, c.sig, psd, id);
    ctx = add_field(add_field(ctx, "pattern", std::string("\"") + sp_name[pat] + "\""), "quiet_value", std::string("\"") + qz_name[q] + "\"");
    base_array<T> x;
    if constexpr (Tr<T>::cx) x = gen_cmplx(r, c.N, c.sig);
    else x = gen_real(r, c.N, c.sig);
    const int stride = c.L - c.nov, nseg = seg_count(c.N, c.L, c.nov);
    apply_silence(r, x, c.L, stride, nseg, pat, q);
    const int nsil = settle_all_quiet(r, x, c.L, stride, nseg, q);
    ctx = add_field(add_field(ctx, "segments", std::to_string(nseg)), "zero_energy_segments", std::to_string(nsil));
    WelchResult res{arr_real(), arr_real()};
    const bool ok = check_welch(x, win, c.nov, c.nfft, psd, ctx, corr, &res);
    out.stat("silent_cases");
    out.stat(std::string("silent_pattern_") + sp_name[pat]);
    out.stat(std::string("silent_value_") + qz_name[q]);
    out.stat(nsil == 0 ? "silent_cases_no_zero_energy_segment" : nsil == nseg ? "silent_cases_every_segment_zero_energy" : nsil == nseg - 1 ? "silent_cases_all_but_one_segment_zero_energy" : "silent_cases_some_segments_zero_energy");
    out.stat("zero_energy_segments_total", nsil);
    if (ok && win_ok(win) && defcheck && c.L <= c.nfft) check_definition(x, win, c.nov, c.nfft, psd, res.pxx, ctx);
}

static void silent_sweep(vh::Rng& r) {
    std::vector<int> nffts;
    for (int n = 8; n <= 4096; n *= 2) nffts.push_back(n);
    int which = 0;
    // every overlap 0..winlen-1 for small windows, both input types, both scalings; patterns and quiet values rotate
    for (int nfft : {8, 16, 32}) {
        for (int L = 1; L <= nfft; L += (g_thorough ? 1 : (L < 6 ? 1 : 5))) {
            for (int nov = 0; nov < L; ++nov) {
                const int fam = (L < 4) ? (r.coin() ? RECT : RANDPOS) : r.range(0, NFAM - 1);
                const int stride = L - nov;
                const int N = L + stride * r.range(1, 7) + (r.coin() ? r.range(0, stride - 1) : 0);
                Cfg c{nfft, fam, L, nov, N, r.range(0, NSIGK - 1)};
                const bool psd = (nov + L) % 2 == 0;
                const bool corr = (which % (g_thorough ? 2 : 3)) == 0;
                run_silent<real_t>(r, c, psd, corr, which % NSP, (which / NSP + which) % NQZ, true);
                run_silent<cmplx_t>(r, c, !psd, corr, (which + 5) % NSP, (which / NSP + which + 4) % NQZ, true);
                ++which;
            }
        }
    }
    // all nfft x all families x window lengths x sampled overlaps
    const int reps = g_thorough ? 6 : 1;
    for (int rep = 0; rep < reps; ++rep)
        for (int nfft : nffts)
            for (int fam = 0; fam < NFAM; ++fam) {
                std::vector<int> Ls = {nfft, nfft - 1, nfft / 2 + 1, r.range(4, nfft)};
                if (!g_thorough) Ls = {(fam % 2) ? nfft : nfft - 1, r.range(4, nfft)};
                for (int L : Ls) {
                    const int nov = pick_overlap(r, L, which);
                    const int stride = L - nov;
                    const long long maxseg = std::max<long long>(2, std::min<long long>((100000 - L) / stride + 1, (g_thorough ? 1200000LL : 300000LL) / nfft));
                    const int nseg = (int)std::min<long long>(maxseg, (which % 4 == 0) ? 2 + r.range(0, 2) : 2 + (long long)std::pow((double)maxseg, r.unit()));
                    int N = L + (nseg - 1) * stride + (r.coin() ? r.range(0, stride - 1) : 0);
                    N = std::min(N, 100000);
                    Cfg c{nfft, fam, L, nov, N, r.range(0, NSIGK - 1)};
                    const bool corr = (long long)seg_count(N, L, nov) * nfft <= 100000 && N <= 5000 && (which % (g_thorough ? 6 : 3) == 0);
                    const int pat = which % NSP, q = (which / NSP + which) % NQZ;
                    if (which % 2) run_silent<cmplx_t>(r, c, r.coin(), corr, pat, q, true);
                    else run_silent<real_t>(r, c, r.coin(), corr, pat, q, true);
                    ++which;
                }
            }
    // Parseval against the mean square of the whole record: rectangular window spanning the transform, no overlap, N = nseg * nfft:
    // sum(pxx) / nfft = (1/N) sum_t |x[t]|^2, silent stretches included
    for (int nfft : nffts) {
        for (int v = 0; v < (g_thorough ? 6 : 2); ++v) {
            const int nseg = r.range(2, std::max(2, std::min(60, 60000 / nfft)));
            const int N = nseg * nfft;
            const int pat = which % NSP;
            int q = (which / NSP + which) % NQZ;
            if (pat == SP_ALL && q > QZ_MIX) q %= 3;
            ++which;
            arr_real win = ones(nfft);
            auto one = [&](auto x) {
                typedef typename std::decay<decltype(x[0])>::type T;
                apply_silence(r, x, nfft, nfft, nseg, pat, q);
                settle_all_quiet(r, x, nfft, nfft, nseg, q);
                std::string ctx = ctx_json("parseval-mean-square", Tr<T>::cx, nfft, RECT, nfft, 0, N, -1, true, g_case++);
                ctx = add_field(add_field(ctx, "pattern", std::string("\"") + sp_name[pat] + "\""), "quiet_value", std::string("\"") + qz_name[q] + "\"");
                WelchResult res{arr_real(), arr_real()};
                if (!check_welch(x, win, 0, nfft, true, ctx, false, &res)) return;
                LD ms = 0, s = 0;
                for (int t = 0; t < N; ++t) ms += abs2L(x[t]);
                ms /= N;
                for (int k = 0; k < res.pxx.size(); ++k) s += res.pxx[k];
                s /= nfft;
                out.stat("parseval_mean_square_checks");
                if (!(fabsl(s - ms) <= ((LD)nseg + nfft + 16.0L * ilog2(nfft) + 16.0L) * EPS * ms))
                    out.fail(Tr<T>::cx ? "C13:complex-parseval-mean-square" : "C13:real-parseval-mean-square", add_field(add_field(ctx, "sum_over_nfft", jld(s)), "mean_square", jld(ms)));
            };
            if (v % 2) one(gen_cmplx(r, N, r.range(0, NSIGK - 1)));
            else one(gen_real(r, N, r.range(0, NSIGK - 1)));
        }
    }
}

// ------------------------------------------------------------------------------------------------ (b) coherence against its definition
struct CohRef {
    std::vector<LD> pxx, pyy, cre, cim;
    LD ex = 0, ey = 0;   // sum over the segments of the energy of the windowed segment
};
static CohRef coh_ref(const arr_real& x, const arr_real& y, const arr_real& win, int nov, int nfft) {
    const int N = x.size(), L = win.size(), stride = L - nov, nseg = seg_count(N, L, nov), m = nfft / 2 + 1;
    CohRef R;
    R.pxx.assign(m, 0);
    R.pyy.assign(m, 0);
    R.cre.assign(m, 0);
    R.cim.assign(m, 0);
    std::vector<CL> a(nfft), b(nfft);
    for (int g = 0; g < nseg; ++g) {
        for (int t = 0; t < nfft; ++t) {
            if (t < L) {
                a[t] = CL{(LD)x[g * stride + t] * win[t], 0};
                b[t] = CL{(LD)y[g * stride + t] * win[t], 0};
                R.ex += a[t].re * a[t].re;
                R.ey += b[t].re * b[t].re;
            } else a[t] = b[t] = CL{0, 0};
        }
        fft_ld(a);
        fft_ld(b);
        for (int k = 0; k < m; ++k) {
            R.pxx[k] += a[k].re * a[k].re + a[k].im * a[k].im;
            R.pyy[k] += b[k].re * b[k].re + b[k].im * b[k].im;
            R.cre[k] += a[k].re * b[k].re + a[k].im * b[k].im;   // X conj(Y)
            R.cim[k] += a[k].im * b[k].re - a[k].re * b[k].im;
        }
    }
    return R;
}

static LD g_max_cohdef_ratio = 0, g_max_cohone_dev = 0;
struct CohFlags {
    bool exact_copy = false;   // y = +-2^k x sample for sample: every transform of y is the scaled transform of x bit for bit
    bool copy = false;         // y = fl(c x)
    bool zero_x = false, zero_y = false;   // the signal is exactly zero over the whole record
};
// returns false if the call threw
static bool coh_check(const arr_real& x, const arr_real& y, const arr_real& win, int nov, int nfft, const std::string& ctx, const CohFlags& fl, bool corr, bool refcheck = true) {
    const int N = x.size(), L = win.size();
    vh::set_current("C13:mscohere-crash", ctx);
    vh::watch(600);
    arr_real c;
    try {
        c = mscohere(x, y, win, nov, nfft);
    } catch (const std::exception& e) {
        vh::unwatch();
        vh::clear_current();
        out.fail("C13:mscohere-throws", add_field(ctx, "error", std::string("\"") + e.what() + "\""));
        return false;
    }
    vh::unwatch();
    vh::clear_current();
    ++out.n_oracle;
    out.stat("cohdef_cases");
    if (corr) out.corr(std::string("coh ") + std::to_string(nov) + " " + std::to_string(nfft) + " " + vh::hxs(x) + " " + vh::hxs(y) + " " + vh::hxs(win), vh::hxs(c));
    const int m = nfft / 2 + 1;
    if (c.size() != m) {
        out.fail("C13:mscohere-size", add_field(ctx, "size", std::to_string(c.size())));
        return true;
    }
    if (!win_ok(win) || L > nfft || !refcheck) return true;
    const int nseg = seg_count(N, L, nov);
    out.stat(nseg == 1 ? "cohdef_segments_1" : nseg <= 8 ? "cohdef_segments_2_8" : "cohdef_segments_gt_8");
    const CohRef R = coh_ref(x, y, win, nov, nfft);
    const LD rtol = 1e-12L + 8.0L * nseg * EPS;
    LD mxden = 0, mnden = 1e4000L;
    for (int k = 0; k < m; ++k) {
        const LD den = R.pxx[k] * R.pyy[k];
        if (den > 0) { mxden = std::max(mxden, den); mnden = std::min(mnden, den); }
    }
    bool failed_def = false, failed_one = false, failed_rng = false, failed_zero = false;
    for (int k = 0; k < m; ++k) {
        const LD den = R.pxx[k] * R.pyy[k];
        const double v = c[k];
        if (!(den > 0)) {
            // one spectrum is exactly zero at this bin: the definition is 0/0.  The unchanged code returns NaN there (pinned bit for bit by
            // CORR); what no implementation may return is a value outside [0, 1] or an infinity
            out.stat("cohdef_bins_zero_spectrum");
            if (std::isnan(v)) out.stat("cohdef_bins_zero_spectrum_nan");
            else if (!(v >= 0 && v <= 1 + rtol) && !failed_zero) {
                failed_zero = true;
                out.fail("C13:mscohere-zero-spectrum", add_field(add_field(ctx, "bin", std::to_string(k)), "value", vh::jnum(v)));
            }
            continue;
        }
        const LD cref = (R.cre[k] * R.cre[k] + R.cim[k] * R.cim[k]) / den;
        // conditioning of the bin: a transform computed in double carries an error of about eps * sqrt(log2 nfft) * |segment| in every bin
        const LD cond = sqrtl(R.ex / R.pxx[k]) + sqrtl(R.ey / R.pyy[k]);
        const LD tol = 1e-10L + 16.0L * EPS * ilog2(nfft) * cond;
        const bool below = !(tol <= 0.05L);   // more than ~245 dB below the energy of the segments: rounding decides what the code sees
        const LD dev = fabsl((LD)v - cref);
        if (below && std::isnan(v)) {
            // the computed spectrum may be exactly zero here (e.g. the alternating sum of a signal without Nyquist component): 0/0
            out.stat("cohdef_bins_below_rounding_floor_nan");
            continue;
        }
        if ((!(v >= 0) || !(v <= 1 + rtol)) && !failed_rng) {
            failed_rng = true;
            out.fail("C13:mscohere-range", add_field(add_field(add_field(ctx, "bin", std::to_string(k)), "value", vh::jnum(v)), "definition", jld(cref)));
        }
        if (nseg == 1 || fl.exact_copy) {
            // |X conj(Y)|^2 / (|X|^2 |Y|^2) of the SAME computed transforms (one segment), or Y = c X bit for bit: 1 whatever the conditioning
            g_max_cohone_dev = std::max(g_max_cohone_dev, fabsl((LD)v - 1));
            out.stat("cohdef_bins_must_be_one");
            if (!(fabsl((LD)v - 1) <= 1e-9L) && !failed_one) {
                failed_one = true;
                out.fail(nseg == 1 ? "C13:mscohere-single-segment" : "C13:mscohere-scaled-copy",
                         add_field(add_field(add_field(ctx, "bin", std::to_string(k)), "value", vh::jnum(v)), "bin_level_db_of_PxxPyy", jld(10 * log10l(den / mxden))));
            }
            continue;
        }
        if (!below) {
            g_max_cohdef_ratio = std::max(g_max_cohdef_ratio, dev / tol);
            out.stat("cohdef_bins_judged");
            if (!(dev <= tol) && !failed_def) {
                failed_def = true;
                out.fail("C13:mscohere-definition", add_field(add_field(add_field(add_field(ctx, "bin", std::to_string(k)), "value", vh::jnum(v)), "definition", jld(cref)), "tolerance", jld(tol)));
            }
            if (fl.copy && tol + fabsl(cref - 1) <= 5e-10L) {
                out.stat("cohdef_bins_copy_must_be_one");
                if (!(fabsl((LD)v - 1) <= 1e-9L) && !failed_one) {
                    failed_one = true;
                    out.fail("C13:mscohere-scaled-copy", add_field(add_field(ctx, "bin", std::to_string(k)), "value", vh::jnum(v)));
                }
            }
        } else out.stat("cohdef_bins_below_rounding_floor");
    }
    if (mxden > 0) {
        const LD span = 10 * log10l(mxden / mnden);   // dynamic range of Pxx * Pyy over the bins, dB
        out.stat(span < 100 ? "cohdef_span_lt_100dB" : span < 157 ? "cohdef_span_100_157dB" : span < 300 ? "cohdef_span_157_300dB" : span < 450 ? "cohdef_span_300_450dB" : "cohdef_span_gt_450dB");
    }
    return true;
}

// signals whose spectrum spans a huge dynamic range
enum { HD_TONE_DITHER = 0, HD_BINTONE_DITHER, HD_MULTISINE, HD_IIR, HD_QUANT16, HD_IMPULSE_DITHER, HD_WHITE, NHD };
static const char* hd_name[NHD] = {"tone+dither", "bin-centred-tone+dither", "decaying-multisine", "cascaded-one-pole-noise", "16-bit-quantised-tone", "impulses+dither", "white"};
static arr_real gen_hdr(vh::Rng& r, int N, int nfft, int kind) {
    arr_real x(N);
    if (kind == HD_MULTISINE && nfft > 256) kind = HD_IIR;
    switch (kind) {
    case HD_TONE_DITHER:
    case HD_BINTONE_DITHER: {
        const int ntone = r.range(1, 3);
        const double d = std::pow(10.0, -(3 + 12 * r.unit()));
        std::vector<LD> f(ntone), ph(ntone);
        for (int i = 0; i < ntone; ++i) {
            f[i] = (kind == HD_BINTONE_DITHER) ? (LD)r.range(1, nfft / 2 - 1) / nfft : 0.02L + 0.46L * (LD)r.unit();
            ph[i] = 2 * PI_L * (LD)r.unit();
        }
        for (int t = 0; t < N; ++t) {
            LD a = 0;
            for (int i = 0; i < ntone; ++i) { LD p = f[i] * t; p -= floorl(p); a += cosl(2 * PI_L * p + ph[i]); }
            x[t] = (double)a + d * r.gauss();
        }
        break;
    }
    case HD_MULTISINE: {
        const int h = nfft / 2;
        const double D = 100 + 220 * r.unit();   // dB between the first and the last line
        std::vector<LD> amp(h), ph(h), per(nfft, 0);
        for (int k = 1; k < h; ++k) { amp[k] = powl(10.0L, -(LD)D * k / h / 20); ph[k] = 2 * PI_L * (LD)r.unit(); }
        for (int t = 0; t < nfft; ++t)
            for (int k = 1; k < h; ++k) per[t] += amp[k] * cosl(2 * PI_L * ((long long)k * t % nfft) / nfft + ph[k]);
        for (int t = 0; t < N; ++t) x[t] = (double)per[t % nfft];
        break;
    }
    case HD_IIR: {
        const int stages = r.range(2, 8);
        const double pole = (r.coin() ? 1 : -1) * (0.9 + 0.095 * r.unit());
        std::vector<double> st(stages, 0.0);
        for (int t = -400; t < N; ++t) {
            double v = r.gauss();
            for (int s = 0; s < stages; ++s) { st[s] = pole * st[s] + (1 - std::fabs(pole)) * v; v = st[s]; }
            if (t >= 0) x[t] = v;
        }
        break;
    }
    case HD_QUANT16: {
        const double f0 = 0.01 + 0.48 * r.unit(), A = 1000 + 31000 * r.unit();
        for (int t = 0; t < N; ++t) x[t] = std::round(A * std::sin(2 * M_PI * f0 * t)) / 32768.0;
        break;
    }
    case HD_IMPULSE_DITHER: {
        const double d = std::pow(10.0, -(3 + 12 * r.unit()));
        for (int t = 0; t < N; ++t) x[t] = d * r.gauss() + ((r.next() % 61 == 0) ? 1.0 : 0.0);
        break;
    }
    default:
        for (int t = 0; t < N; ++t) x[t] = r.gauss();
    }
    return x;
}
// windows for the dynamic-range cases: low-sidelobe families at strong shape parameters next to the ordinary ones
static arr_real make_win_hdr(vh::Rng& r, int L, int& fam, std::string& desc) {
    char b[64];
    switch (r.range(0, 6)) {
    case 0: fam = BHARRIS; desc = "blackmanharris"; return window::blackmanharris(L, r.coin());
    case 1: { const double beta = 12 + 28 * r.unit(); fam = KAISER; std::snprintf(b, sizeof b, "kaiser(%.3f)", beta); desc = b; return window::kaiser(L, beta); }
    case 2: { const double al = 4 + 4 * r.unit(); fam = GAUSS; std::snprintf(b, sizeof b, "gauss(%.3f)", al); desc = b; return window::gauss(L, al, r.coin()); }
    case 3: fam = RECT; desc = "rect"; return ones(L);
    case 4: fam = HANN; desc = "hann-periodic"; return window::hann(L, false);
    default: fam = r.range(0, NFAM - 1); desc = fam_name[fam]; return make_win(fam, L, r);
    }
}

enum { YK_POW2 = 0, YK_SCALED, YK_FIR, YK_IIR, YK_INDEP, YK_NOISY, YK_SELF_SHIFT, NYK };
static const char* yk_name[NYK] = {"copy-times-power-of-two", "scaled-copy", "strongly-coloured-fir-copy", "iir-filtered-copy", "independent", "copy+tiny-noise", "delayed-copy"};
static arr_real make_partner(vh::Rng& r, const arr_real& x, int nfft, int kind, CohFlags& fl, std::string& desc) {
    const int N = x.size();
    arr_real y(N);
    char b[96];
    switch (kind) {
    case YK_POW2: {
        const int e = r.range(-40, 40);
        const double c = (r.coin() ? 1 : -1) * std::ldexp(1.0, e);
        for (int t = 0; t < N; ++t) y[t] = c * x[t];
        fl.exact_copy = true;
        std::snprintf(b, sizeof b, "c=%g", c);
        break;
    }
    case YK_SCALED: {
        const double c = (r.coin() ? 1 : -1) * std::pow(10.0, 6 * r.unit() - 3);
        for (int t = 0; t < N; ++t) y[t] = c * x[t];
        fl.copy = true;
        std::snprintf(b, sizeof b, "c=%.17g", c);
        break;
    }
    case YK_FIR: {
        // (1 + s z^-1)^p: a zero of multiplicity p at Nyquist (s = 1) or DC (s = -1), 6 p dB per octave
        const int p = r.range(1, 12);
        const double sgn = r.coin() ? 1 : -1;
        std::vector<double> h(1, 1.0);
        for (int i = 0; i < p; ++i) {
            std::vector<double> g(h.size() + 1, 0.0);
            for (size_t j = 0; j < h.size(); ++j) { g[j] += h[j]; g[j + 1] += sgn * h[j]; }
            h = g;
        }
        for (int t = 0; t < N; ++t) {
            double a = 0;
            for (size_t k = 0; k < h.size() && (int)k <= t; ++k) a += h[k] * x[t - (int)k];
            y[t] = a;
        }
        std::snprintf(b, sizeof b, "(1%+gz)^%d", sgn, p);
        break;
    }
    case YK_IIR: {
        const int stages = r.range(1, 6);
        const double pole = (r.coin() ? 1 : -1) * (0.8 + 0.19 * r.unit());
        std::vector<double> st(stages, 0.0);
        for (int t = 0; t < N; ++t) {
            double v = x[t];
            for (int s = 0; s < stages; ++s) { st[s] = pole * st[s] + v; v = st[s]; }
            y[t] = v;
        }
        std::snprintf(b, sizeof b, "pole=%.4f^%d", pole, stages);
        break;
    }
    case YK_INDEP: {
        const int hk = r.range(0, NHD - 1);
        y = gen_hdr(r, N, nfft, hk);
        std::snprintf(b, sizeof b, "%s", hd_name[hk]);
        break;
    }
    case YK_NOISY: {
        const double s = std::pow(10.0, -(2 + 10 * r.unit()));
        for (int t = 0; t < N; ++t) y[t] = x[t] + s * r.gauss();
        std::snprintf(b, sizeof b, "noise=%.3g", s);
        break;
    }
    default: {
        const int d = r.range(1, 5);
        for (int t = 0; t < N; ++t) y[t] = (t >= d) ? x[t - d] : 0.0;
        std::snprintf(b, sizeof b, "delay=%d", d);
    }
    }
    desc = std::string(yk_name[kind]) + " " + b;
    return y;
}

static std::string coh_ctx(const char* what, int nfft, int fam, int L, int nov, int N, const std::string& wdesc, const std::string& xdesc, const std::string& ydesc) {
    std::string ctx = ctx_json(what, false, nfft, fam, L, nov, N, -1, true, g_case++);
    ctx = add_field(ctx, "window_detail", "\"" + wdesc + "\"");
    ctx = add_field(ctx, "x", "\"" + xdesc + "\"");
    return add_field(ctx, "y", "\"" + ydesc + "\"");
}

static void coherence_definition(vh::Rng& r) {
    std::vector<int> nffts;
    for (int n = 8; n <= 4096; n *= 2) nffts.push_back(n);
    int which = 0;
    const int reps = g_thorough ? 4 : 1;
    // dynamic range x partner x window x segment count
    for (int rep = 0; rep < reps; ++rep)
        for (int nfft : nffts)
            for (int hk = 0; hk < NHD; ++hk)
                for (int yk = 0; yk < NYK; ++yk) {
                    if (!g_thorough && (hk + yk + ilog2(nfft) + (int)g_seed) % 3 && !(yk == YK_POW2 && hk <= HD_BINTONE_DITHER)) { ++which; continue; }
                    int L = (which % 3 == 0) ? nfft : r.range(std::max(4, nfft / 2), nfft);
                    if (hk == HD_MULTISINE || hk == HD_BINTONE_DITHER) L = (which % 2) ? nfft : L;
                    int fam;
                    std::string wdesc, ydesc;
                    arr_real win = make_win_hdr(r, L, fam, wdesc);
                    const int nov = pick_overlap(r, L, which);
                    const int stride = L - nov;
                    const long long maxseg = std::max<long long>(1, std::min<long long>((60000 - L) / stride + 1, (g_thorough ? 400000LL : 120000LL) / nfft));
                    int nseg = (which % 5 == 0) ? 1 : (int)std::min<long long>(maxseg, 2 + r.range(0, 30));
                    const int N = L + (nseg - 1) * stride + (r.coin() ? r.range(0, stride - 1) : 0);
                    arr_real x = gen_hdr(r, N, nfft, hk);
                    CohFlags fl;
                    arr_real y = make_partner(r, x, nfft, yk, fl, ydesc);
                    const bool corr = N <= 4000 && (long long)nseg * nfft <= 60000 && (which % (g_thorough ? 8 : 4) == 0);
                    coh_check(x, y, win, nov, nfft, coh_ctx("mscohere-definition", nfft, fam, L, nov, N, wdesc, hd_name[hk], ydesc), fl, corr);
                    out.stat(std::string("cohdef_x_") + hd_name[hk]);
                    out.stat(std::string("cohdef_y_") + yk_name[yk]);
                    ++which;
                }
    // scale classes, each input separately (the coherence does not depend on either scale); the pairs whose squares leave the double
    // range (both 1e100, both 1e-100 ...) go through CORR only: there the code returns inf / NaN / 0 and the model must reproduce it
    {
        static const double sc[] = {1e-100, 1e-17, 1e-8, 1.0, 1e8, 1e17, 1e100, 0x1p-300, 0x1p300, 1e-150, 1e150};
        const int nsc = sizeof sc / sizeof sc[0];
        for (int i = 0; i < nsc; ++i)
            for (int j = 0; j < nsc; ++j) {
                if (!g_thorough && ((i * nsc + j + (int)g_seed) % 4) && !(i == 0 && j == 6) && !(i == 6 && j == 3)) continue;
                const int nfft = nffts[r.range(0, 6)];
                const int L = r.coin() ? nfft : r.range(std::max(4, nfft / 2), nfft);
                int fam;
                std::string wdesc, ydesc;
                arr_real win = make_win_hdr(r, L, fam, wdesc);
                const int nov = pick_overlap(r, L, which++);
                const int stride = L - nov;
                const int nseg = r.range(1, 12);
                const int N = L + (nseg - 1) * stride;
                const int hk = r.range(0, NHD - 1), yk = r.range(0, NYK - 1);
                arr_real x = gen_hdr(r, N, nfft, hk);
                CohFlags fl;
                arr_real y = make_partner(r, x, nfft, yk, fl, ydesc);
                fl.exact_copy = fl.exact_copy && std::frexp(sc[i], &fam) == 0.5 && std::frexp(sc[j], &fam) == 0.5;
                if (!fl.exact_copy && yk == YK_POW2) fl.copy = true;
                fam = -1;
                for (int t = 0; t < N; ++t) { x[t] *= sc[i]; y[t] *= sc[j]; }
                const double lx = std::log10(sc[i]), ly = std::log10(sc[j]);
                const bool in_range = std::fabs(lx) <= 130 && std::fabs(ly) <= 130 && std::fabs(lx + ly) <= 110;
                char b[64];
                std::snprintf(b, sizeof b, " scaled by %g", sc[i]);
                std::string xd = std::string(hd_name[hk]) + b;
                std::snprintf(b, sizeof b, " scaled by %g", sc[j]);
                coh_check(x, y, win, nov, nfft, coh_ctx("mscohere-scale-classes", nfft, fam, L, nov, N, wdesc, xd, ydesc + b), fl, N <= 1500 && (!in_range || (i + j) % 3 == 0), in_range);
                out.stat(in_range ? "cohdef_scale_pairs_judged" : "cohdef_scale_pairs_corr_only");
            }
    }
    // exactly zero spectra and silent stretches: x == 0, y == 0, both, one signal silent where the other is not, alternating-sign signals
    // whose transform is exactly zero away from Nyquist
    for (int v = 0; v < (g_thorough ? 60 : 14); ++v) {
        const int nfft = nffts[r.range(0, 6)];
        const int L = (v % 7 == 6) ? nfft : r.range(std::max(4, nfft / 2), nfft);
        int fam = (v % 7 == 6) ? RECT : r.range(0, NFAM - 1);
        arr_real win = make_win(fam, L, r);
        const int nov = (v % 7 == 6) ? ((v % 2) ? 0 : L / 2) : pick_overlap(r, L, which++);
        const int stride = L - nov, nseg = r.range(2, 12), N = L + (nseg - 1) * stride + r.range(0, stride - 1);
        arr_real x = gen_real(r, N, r.range(0, NSIGK - 1)), y = gen_real(r, N, r.range(0, NSIGK - 1));
        CohFlags fl;
        std::string xd = "random", yd = "random";
        const int q = v % 3;   // exact zeros of both signs
        switch (v % 7) {
        case 0: quiet_range(r, x, 0, N, q); fl.zero_x = true; xd = "all-zero"; break;
        case 1: quiet_range(r, y, 0, N, q); fl.zero_y = true; yd = "all-zero"; break;
        case 2: quiet_range(r, x, 0, N, q); quiet_range(r, y, 0, N, (q + 1) % 3); fl.zero_x = fl.zero_y = true; xd = yd = "all-zero"; break;
        case 3: { const int qq = r.range(0, NQZ - 1); apply_silence(r, x, L, stride, nseg, r.range(0, NSP - 2), qq); settle_all_quiet(r, x, L, stride, nseg, qq); xd = "silent stretches"; break; }
        case 4: {
            const int q1 = r.range(0, NQZ - 1), q2 = r.range(0, NQZ - 1);
            apply_silence(r, x, L, stride, nseg, r.range(0, NSP - 2), q1);
            settle_all_quiet(r, x, L, stride, nseg, q1);
            apply_silence(r, y, L, stride, nseg, r.range(0, NSP - 2), q2);
            settle_all_quiet(r, y, L, stride, nseg, q2);
            xd = yd = "silent stretches";
            break;
        }
        case 5: { y = x; apply_silence(r, y, L, stride, nseg, r.range(0, SP_GATED), r.range(0, 2)); yd = "copy of x with silent stretches"; break; }
        default: for (int t = 0; t < N; ++t) x[t] = (t % 2) ? -1.0 : 1.0; xd = "alternating +-1 (Nyquist only)"; break;
        }
        coh_check(x, y, win, nov, nfft, coh_ctx("mscohere-zero-spectra", nfft, fam, L, nov, N, fam_name[fam], xd, yd), fl, N <= 3000);
        out.stat("cohdef_zero_and_silent_cases");
    }
}

// welch of signals whose spectrum spans a huge dynamic range: every bin equals the definition relative to ITSELF (a floor, a gate or a
// clean-up of small bins is not part of the definition), sums and sizes as everywhere
static void welch_dynamic_range(vh::Rng& r) {
    std::vector<int> nffts;
    for (int n = 8; n <= 4096; n *= 2) nffts.push_back(n);
    int which = 0;
    for (int rep = 0; rep < (g_thorough ? 4 : 1); ++rep)
        for (int nfft : nffts)
            for (int hk = 0; hk < NHD; ++hk) {
                ++which;
                if (!g_thorough && (which + (int)g_seed) % 2) continue;
                int L = (which % 3 == 0) ? nfft : r.range(std::max(4, nfft / 2), nfft);
                if (hk == HD_MULTISINE || hk == HD_BINTONE_DITHER) L = (which % 2) ? nfft : L;
                int fam;
                std::string wdesc;
                arr_real win = make_win_hdr(r, L, fam, wdesc);
                const int nov = pick_overlap(r, L, which);
                const int stride = L - nov;
                const long long maxseg = std::max<long long>(1, std::min<long long>((60000 - L) / stride + 1, (g_thorough ? 400000LL : 120000LL) / nfft));
                const int nseg = (int)std::min<long long>(maxseg, 1 + r.range(0, 30));
                const int N = L + (nseg - 1) * stride + (r.coin() ? r.range(0, stride - 1) : 0);
                const bool psd = r.coin();
                const bool corr = N <= 3000 && which % (g_thorough ? 8 : 4) == 0;
                auto run = [&](auto x) {
                    typedef typename std::decay<decltype(x[0])>::type T;
                    std::string ctx = ctx_json("dynamic-range", Tr<T>::cx, nfft, fam, L, nov, N, -1, psd, g_case++);
                    ctx = add_field(add_field(ctx, "window_detail", "\"" + wdesc + "\""), "x", std::string("\"") + hd_name[hk] + "\"");
                    WelchResult res{arr_real(), arr_real()};
                    if (check_welch(x, win, nov, nfft, psd, ctx, corr, &res) && win_ok(win)) check_definition(x, win, nov, nfft, psd, res.pxx, ctx, true);
                    out.stat("welch_dynamic_range_cases");
                };
                arr_real a = gen_hdr(r, N, nfft, hk);
                if (which % 4 < 2) run(a);
                else {
                    arr_real b = gen_hdr(r, N, nfft, r.coin() ? hk : r.range(0, NHD - 1));
                    arr_cmplx z(N);
                    for (int t = 0; t < N; ++t) { z[t].re = a[t]; z[t].im = b[t]; }
                    run(z);
                }
            }
}

// ------------------------------------------------------------------------------------------------ scale classes of signal and window (welch)
static bool is_pow2_double(double v) { int e; return std::frexp(std::fabs(v), &e) == 0.5; }
template<class T>
static void welch_scale_case(vh::Rng& r, int nfft, int fam, int L, int nov, int N, double sx, double sw, bool psd, bool corr) {
    arr_real win0 = make_win(fam, L, r);
    base_array<T> x0;
    if constexpr (Tr<T>::cx) x0 = gen_cmplx(r, N, 0);
    else x0 = gen_real(r, N, 0);
    // a few special elements: negative zero, a denormal, exact powers of two
    if (N >= 4) { set_quiet(r, x0[r.range(0, N - 1)], QZ_NEG); set_quiet(r, x0[r.range(0, N - 1)], QZ_DENORM); }
    base_array<T> x = x0 * sx;
    arr_real win = win0 * sw;
    std::string ctx = ctx_json("scale-classes", Tr<T>::cx, nfft, fam, L, nov, N, 0, psd, g_case++);
    ctx = add_field(add_field(ctx, "signal_scale", vh::jnum(sx)), "window_scale", vh::jnum(sw));
    const double l = std::log10(sx) + std::log10(sw);
    const bool in_range = std::fabs(l) <= 125 && std::fabs(std::log10(sw)) <= 135 && std::fabs(std::log10(sx)) <= 140;
    out.stat(in_range ? "scale_cases_judged" : "scale_cases_corr_only");
    if (!in_range) {
        // squares overflow / underflow: outside the property's domain, pinned by the model only
        const SpectrumType type = psd ? SpectrumType::Psd : SpectrumType::Power;
        emit_welch(x, win, nov, nfft, psd, guarded("C13:guard-crash", ctx, [&] { return welch(x, win, nov, nfft, type).pxx; }));
        return;
    }
    WelchResult res{arr_real(), arr_real()};
    if (!check_welch(x, win, nov, nfft, psd, ctx, corr, &res)) return;
    if (!win_ok(win)) return;
    if (L <= nfft) check_definition(x, win, nov, nfft, psd, res.pxx, ctx);
    // scaling by powers of two is exact: the window scale cancels bit for bit, the signal scale comes out squared bit for bit
    if (is_pow2_double(sx) && is_pow2_double(sw)) {
        WelchResult base = welch(x0, win0, nov, nfft, psd ? SpectrumType::Psd : SpectrumType::Power);
        bool same = base.pxx.size() == res.pxx.size();
        for (int k = 0; same && k < base.pxx.size(); ++k) {
            const double want = base.pxx[k] * sx * sx;
            same = (want == res.pxx[k]) || (std::fabs(want) < 1e-290);   // (denormal element of x: its products may round differently far below)
        }
        out.stat("scale_equivariance_checks");
        if (!same) out.fail(Tr<T>::cx ? "C13:complex-scale-equivariance" : "C13:real-scale-equivariance", ctx);
    }
}
static void welch_scale_classes(vh::Rng& r) {
    static const double sc[] = {1e-100, 1e-17, 1e-8, 1.0, 1e8, 1e17, 1e100, 0x1p-200, 0x1p-30, 0x1p40, 0x1p200, 1e-300, 1e150, 1e-160};
    const int nsc = sizeof sc / sizeof sc[0];
    int which = 0;
    for (int i = 0; i < nsc; ++i)
        for (int j = 0; j < nsc; ++j) {
            ++which;
            if (!g_thorough && ((which + (int)g_seed) % 3) && !(sc[i] == 1e100 && sc[j] == 1.0) && !(sc[i] == 1.0 && sc[j] == 1e-100)) continue;
            const int nfft = 8 << r.range(0, 6);
            const int L = r.coin() ? nfft : r.range(std::max(2, nfft / 4), nfft);
            const int nov = pick_overlap(r, L, which);
            const int stride = L - nov, nseg = r.range(1, 9), N = L + (nseg - 1) * stride + r.range(0, stride - 1);
            const int fam = L < 4 ? RANDPOS : r.range(0, NFAM - 1);
            const bool corr = N <= 1200 && which % 2 == 0;
            if (which % 2) welch_scale_case<real_t>(r, nfft, fam, L, nov, N, sc[i], sc[j], r.coin(), corr);
            else welch_scale_case<cmplx_t>(r, nfft, fam, L, nov, N, sc[i], sc[j], r.coin(), corr);
        }
    // finite magnitudes near the top of the range whose squared transform is still finite: |x| ~ 1e150, winlen 8, unit window
    for (int v = 0; v < (g_thorough ? 12 : 3); ++v) {
        if (v % 2) welch_scale_case<real_t>(r, 8 << (v % 3), RECT, 8, v % 8, 8 + (8 - v % 8) * r.range(0, 5), 1e150, 1.0, v % 4 < 2, true);
        else welch_scale_case<cmplx_t>(r, 8 << (v % 3), RECT, 8, v % 8, 8 + (8 - v % 8) * r.range(0, 5), 1e150, 1.0, v % 4 < 2, true);
    }
}

// ------------------------------------------------------------------------------------------------ long single records, large primes
static bool is_prime_ll(long long n) {
    if (n < 2) return false;
    for (long long d = 2; d * d <= n; ++d) if (n % d == 0) return false;
    return true;
}
static int next_prime(int n) { while (!is_prime_ll(n)) ++n; return n; }

template<class T>
static void long_case(vh::Rng& r, const char* what, int nfft, int fam, int L, int nov, int N, bool psd, bool defcheck) {
    arr_real win = make_win(fam, L, r);
    base_array<T> x;
    const int sig = r.range(0, NSIGK - 1);
    if constexpr (Tr<T>::cx) x = gen_cmplx(r, N, sig);
    else x = gen_real(r, N, sig);
    const std::string ctx = ctx_json(what, Tr<T>::cx, nfft, fam, L, nov, N, sig, psd, g_case++);
    WelchResult res{arr_real(), arr_real()};
    if (!check_welch(x, win, nov, nfft, psd, ctx, false, &res)) return;
    if (defcheck && win_ok(win) && L <= nfft) check_definition(x, win, nov, nfft, psd, res.pxx, ctx);
    out.stat(std::string(what) + "_cases");
}
static void long_and_prime(vh::Rng& r) {
    // single records above 2^16 / 2^17 samples arriving after the short ones of the sweeps above; exact multiples of 49152 and 65536
    std::vector<int> Ns = {65536, 65537, 98304, 131071, 131072, 131073, 147456, 196608, 262144, 262145, 294912, 393216, next_prime(200000), 3 * 65536 + 1};
    const int cnt = g_thorough ? (int)Ns.size() : 4;
    for (int i = 0; i < cnt; ++i) {
        const int N = g_thorough ? Ns[i] : Ns[(i * 5 + (int)g_seed * 3 + (i == 0 ? 4 : 0)) % Ns.size()];
        const int nfft = 64 << r.range(0, 5);
        const int L = r.coin() ? nfft : r.range(nfft / 2, nfft);
        const int nov = r.coin() ? L / 2 : r.range(0, L / 2);
        const int fam = r.range(0, NFAM - 1);
        if (i % 2) long_case<real_t>(r, "long-record", nfft, fam, L, nov, N, i % 4 < 2, true);
        else long_case<cmplx_t>(r, "long-record", nfft, fam, L, nov, N, i % 4 < 2, true);
        // the coherence of a long pair: a filtered copy plus noise, against the definition
        if (i % 2 == 0 || g_thorough) {
            arr_real x = gen_real(r, N, 0), y(N);
            for (int t = 0; t < N; ++t) y[t] = x[t] + 0.5 * (t ? x[t - 1] : 0.0) + 0.3 * r.gauss();
            arr_real win = make_win(fam, L, r);
            CohFlags fl;
            coh_check(x, y, win, nov, nfft, coh_ctx("long-record-coherence", nfft, fam, L, nov, N, fam_name[fam], "gauss", "fir copy + noise"), fl, false);
            out.stat("long-record-coherence_cases");
        }
    }
    // lengths with large prime factors (> 46340: k * k overflows a 32-bit int): prime signal length, prime window length, prime hop;
    // transforms beyond the sweep limit (8192 .. 2^17)
    struct P { int nfft, L, nov, N; };
    const int p1 = next_prime(46341 + (int)(g_seed % 50) * 10), p2 = next_prime(65537 + (int)(g_seed % 20) * 4), p3 = next_prime(99990 - (int)(g_seed % 30) * 10);
    std::vector<P> ps = {
        {256, 200, 100, p1}, {1024, 1000, 0, p3}, {512, 509, 509 - 251, p2},
        {65536, p1, 0, 2 * p1 + 17}, {65536, p1, p1 / 2, 2 * p1 + 1}, {131072, 65537, 1, 65537 + 2 * 65536},
        {8192, 4099, 4099 - 4093, 4099 + 4093 * 5}, {16384, 16381, 8191, 16381 + 3 * 8190 + 7}, {32768, 32768, 16384, 32768 * 3},
    };
    const int np = g_thorough ? (int)ps.size() : 5;
    for (int i = 0; i < np; ++i) {
        const P& p = ps[g_thorough ? i : (i < 3 ? i : 3 + (i - 3 + (int)g_seed) % 6)];
        const int fam = r.range(0, NFAM - 1);
        if ((i + g_seed) % 2) long_case<real_t>(r, "prime-length", p.nfft, fam, p.L, p.nov, p.N, i % 3 != 0, true);
        else long_case<cmplx_t>(r, "prime-length", p.nfft, fam, p.L, p.nov, p.N, i % 3 != 0, true);
    }
}

// ------------------------------------------------------------------------------------------------ histories, aliasing, temporaries
template<class F> static bool throws(F f) {
    try { f(); } catch (const std::exception&) { return true; }
    return false;
}
static void histories(vh::Rng& r) {
    const int n = g_thorough ? 40 : 8;
    for (int i = 0; i < n; ++i) {
        const int nfft = 8 << r.range(0, 7);
        const int L = r.coin() ? nfft : r.range(std::max(2, nfft / 2), nfft);
        const int nov = pick_overlap(r, L, i);
        const int stride = L - nov, nseg = r.range(1, 7), N = L + (nseg - 1) * stride + r.range(0, stride - 1);
        const int fam = L < 4 ? RECT : r.range(0, NFAM - 1);
        const bool psd = r.coin();
        const SpectrumType type = psd ? SpectrumType::Psd : SpectrumType::Power;
        arr_real win = make_win(fam, L, r), xr = gen_real(r, N, r.range(0, NSIGK - 1)), yr = gen_real(r, N, 0);
        arr_cmplx xc = gen_cmplx(r, N, r.range(0, NSIGK - 1));
        arr_real xshort = gen_real(r, std::max(0, L - 1 - r.range(0, L - 1)), 0), ylong = gen_real(r, N + 1 + r.range(0, 5), 0);
        arr_cmplx cshort = gen_cmplx(r, xshort.size(), 0);
        std::string ctx = ctx_json("failed-call-history", false, nfft, fam, L, nov, N, -1, psd, g_case++);
        vh::set_current("C13:history-crash", ctx);
        vh::watch(300);
        try {
            const WelchResult a0 = welch(xr, win, nov, nfft, type), c0 = welch(xc, win, nov, nfft, type);
            const arr_real m0 = mscohere(xr, yr, win, nov, nfft);
            int nthrown = 0, k = 0;
            const int bad_nfft[] = {nfft + 1, nfft - 1, 3 * nfft / 2 + (nfft == 8 ? 1 : 0), 0, -nfft, 12, 100};
            auto recheck = [&](const char* after) {
                const WelchResult a1 = welch(xr, win, nov, nfft, type), c1 = welch(xc, win, nov, nfft, type);
                const arr_real m1 = mscohere(xr, yr, win, nov, nfft);
                out.stat("failed_call_rechecks");
                if (!(same_bits(a0.pxx, a1.pxx) && same_bits(a0.f, a1.f) && same_bits(c0.pxx, c1.pxx) && same_bits(c0.f, c1.f) && same_bits(m0, m1)))
                    out.fail("C13:failed-call-history", add_field(ctx, "after", std::string("\"") + after + "\""));
            };
            for (int bn : bad_nfft) {
                if (bn > 0 && (bn & (bn - 1)) == 0) continue;
                switch (k++ % 3) {
                case 0: nthrown += throws([&] { welch(xr, win, nov, bn, type); }); break;
                case 1: nthrown += throws([&] { welch(xc, win, nov, bn, type); }); break;
                default: nthrown += throws([&] { mscohere(xr, yr, win, nov, bn); });
                }
                recheck("transform size not a power of two");
            }
            nthrown += throws([&] { welch(xr, win, L + r.range(0, 3), nfft, type); });
            recheck("noverlap >= winlen (real)");
            nthrown += throws([&] { welch(xc, win, L, nfft, type); });
            recheck("noverlap >= winlen (complex)");
            nthrown += throws([&] { mscohere(xr, yr, win, L + 5, nfft); });
            recheck("noverlap >= winlen (mscohere)");
            nthrown += throws([&] { welch(xshort, win, nov, nfft, type); });
            recheck("signal shorter than the window (real)");
            nthrown += throws([&] { welch(cshort, win, nov, nfft, type); });
            recheck("signal shorter than the window (complex)");
            nthrown += throws([&] { mscohere(xshort, xshort, win, nov, nfft); });
            recheck("signals shorter than the window (mscohere)");
            nthrown += throws([&] { mscohere(xr, ylong, win, nov, nfft); });
            recheck("size mismatch (mscohere)");
            nthrown += throws([&] { mscohere(ylong, yr, win, nov, nfft); });
            recheck("size mismatch (mscohere, first longer)");
            out.stat("failed_calls_thrown", nthrown);
            ++out.n_oracle;
        } catch (const std::exception& e) {
            out.fail("C13:history-throws", add_field(ctx, "error", std::string("\"") + e.what() + "\""));
        }
        vh::unwatch();
        vh::clear_current();
    }
}

static bool same_bits_nan(const arr_real& a, const arr_real& b) {   // NaN payloads / signs are not part of the contract
    if (a.size() != b.size()) return false;
    for (int i = 0; i < a.size(); ++i) {
        if (std::isnan(a[i]) && std::isnan(b[i])) continue;
        if (std::memcmp(&a[i], &b[i], sizeof(double)) != 0) return false;
    }
    return true;
}
static void aliasing_and_temporaries(vh::Rng& r) {
    const int n = g_thorough ? 40 : 8;
    for (int i = 0; i < n; ++i) {
        const int nfft = 8 << r.range(0, 7);
        const int L = r.coin() ? nfft : r.range(std::max(2, nfft / 2), nfft);
        const int nov = pick_overlap(r, L, i);
        const int stride = L - nov, nseg = r.range(1, 7), N = L + (nseg - 1) * stride + r.range(0, stride - 1);
        const int fam = L < 4 ? RECT : r.range(0, NFAM - 1);
        const bool psd = r.coin();
        const SpectrumType type = psd ? SpectrumType::Psd : SpectrumType::Power;
        arr_real win = make_win(fam, L, r), xr = gen_real(r, N, r.range(0, NSIGK - 1)), yr = gen_real(r, N, 0);
        if (i % 3 == 0) apply_silence(r, xr, L, stride, nseg, r.range(0, NSP - 2), r.range(0, 2));
        arr_cmplx xc = gen_cmplx(r, N, r.range(0, NSIGK - 1));
        std::string ctx = ctx_json("aliasing", false, nfft, fam, L, nov, N, -1, psd, g_case++);
        vh::set_current("C13:aliasing-crash", ctx);
        vh::watch(300);
        try {
            std::string bad;
            // the same object for both signals of the coherence == an equal but distinct copy; and it is 1 (or 0/0) at every bin
            {
                const arr_real xcopy = xr;
                const arr_real a = mscohere(xr, xr, win, nov, nfft), b = mscohere(xr, xcopy, win, nov, nfft);
                if (!same_bits_nan(a, b)) bad += " mscohere(x,x)";
                if (win_ok(win))
                    for (int k = 0; k < a.size(); ++k)
                        if (!std::isnan(a[k]) && !(std::fabs(a[k] - 1) <= 1e-9)) { bad += " mscohere(x,x)!=1"; break; }
            }
            // the window object is also a signal: welch(x, x) with the record as its own window (one segment); mscohere(x, y, x)
            if (N <= nfft * 4) {
                int nf = nfft;
                while (nf < N) nf *= 2;
                const arr_real wcopy = xr;
                const WelchResult a = welch(xr, xr, 0, nf, type), b = welch(xr, wcopy, 0, nf, type);
                if (!same_bits_nan(a.pxx, b.pxx)) bad += " welch(x,x)";
                const arr_real c = mscohere(xr, yr, xr, 0, nf), d = mscohere(xr, yr, wcopy, 0, nf);
                if (!same_bits_nan(c, d)) bad += " mscohere(x,y,x)";
                const arr_real e = mscohere(yr, xr, xr, 0, nf), f = mscohere(yr, wcopy, wcopy, 0, nf);
                if (!same_bits_nan(e, f)) bad += " mscohere(y,x,x)";
            }
            // the operand is also the destination
            {
                const WelchResult ref = welch(xr, win, nov, nfft, type);
                arr_real z = xr;
                z = welch(z, win, nov, nfft, type).pxx;
                if (!same_bits(z, ref.pxx)) bad += " x=welch(x).pxx";
                WelchResult w2 = ref;
                const int l2 = std::min<int>(ref.pxx.size(), 8);
                const WelchResult ref2 = welch(ref.pxx, ones(l2), 0, 8, type);
                w2 = welch(w2.pxx, ones(l2), 0, 8, type);
                if (!same_bits(w2.pxx, ref2.pxx) || !same_bits(w2.f, ref2.f)) bad += " r=welch(r.pxx)";
                arr_real m = xr;
                const arr_real mref = mscohere(xr, yr, win, nov, nfft);
                m = mscohere(m, yr, win, nov, nfft);
                if (!same_bits_nan(m, mref)) bad += " x=mscohere(x,y)";
            }
            // temporaries: rvalue operands, nested expressions, results bound to const& / iterated in place
            {
                const WelchResult ref = welch(xr, win, nov, nfft, type), refc = welch(xc, win, nov, nfft, type);
                const arr_real& p1 = welch(xr * 1.0, win * 1.0, nov, nfft, type).pxx;
                if (!same_bits(p1, ref.pxx)) bad += " welch(temporaries)";
                const arr_real& p2 = welch(arr_cmplx(xc), arr_real(win), nov, nfft, type).pxx;
                if (!same_bits(p2, refc.pxx)) bad += " welch(complex temporaries)";
                int k = 0;
                bool eq = true;
                for (const real_t& v : welch(arr_real(xr), arr_real(win), nov, nfft, type).f) { eq = eq && (std::memcmp(&v, &ref.f[k], 8) == 0); ++k; }
                if (!eq || k != ref.f.size()) bad += " range-for over welch(...).f";
                const arr_real mref = mscohere(xr, yr, win, nov, nfft);
                const arr_real& m1 = mscohere(xr + 0.0, yr * 1.0, arr_real(win), nov, nfft);
                // x + 0.0 turns -0 into +0: only the sign of zero samples changes, the value of every product stays the same
                if (!same_bits_nan(m1, mref)) bad += " mscohere(temporaries)";
                if (L >= 4) {
                    const WelchResult h1 = welch(arr_real(xr), window::hamming(L), nov, nfft, type), h2 = welch(xr, L, nov, nfft, type);
                    if (!same_bits(h1.pxx, h2.pxx)) bad += " welch(x, hamming temporary)";
                }
            }
            out.stat("aliasing_and_temporary_checks");
            ++out.n_oracle;
            if (!bad.empty()) out.fail("C13:aliasing-or-temporaries", add_field(ctx, "differs", "\"" + bad + "\""));
        } catch (const std::exception& e) {
            out.fail("C13:aliasing-throws", add_field(ctx, "error", std::string("\"") + e.what() + "\""));
        }
        vh::unwatch();
        vh::clear_current();
    }
}

static long long ppm(LD v) { return (long long)llroundl(std::min((LD)9e15, v * 1e6L)); }

int main(int argc, char** argv) {
    vh::Args args(argc, argv);
    vh::install_guards();
    g_thorough = args.thorough;
    g_seed = args.seed;
    // the state is a hash of the seed: streams of neighbouring seeds sit at unrelated positions of the splitmix cycle
    vh::Rng seeder(args.seed ^ 0xC13C13C13ULL);
    seeder.next();
    vh::Rng r(seeder.next());
    guard_cases(r);
    overloads(r);
    random_sweep(r);
    power_tones(r);
    tone_sweeps(r);
    coherence(r);
    // round 2 (after the sweeps above: the long records arrive after short ones)
    silent_sweep(r);
    coherence_definition(r);
    welch_dynamic_range(r);
    welch_scale_classes(r);
    histories(r);
    aliasing_and_temporaries(r);
    long_and_prime(r);
    out.stat("tones_judged_real", g_ts_real.judged);
    out.stat("tones_judged_complex", g_ts_cx.judged);
    out.stat("tones_complex_axis_known_finding", g_ts_cx.known_axis);
    out.stat("max_psd_sum_error_ppm_of_bound", ppm(g_max_sum_ratio));
    out.stat("max_complex_power_tone_error_ppm_of_bound", ppm(g_max_ctone_ratio));
    out.stat("max_real_power_tone_error_ppm_of_bound", ppm(g_max_rtone_ratio));
    out.stat("max_coherence_excess_over_1_x1e18", (long long)llroundl(std::max((LD)0, g_max_coh_excess) * 1e18L));
    out.stat("max_scaled_copy_deviation_x1e18", (long long)llroundl(g_max_coh_dev * 1e18L));
    out.stat("max_coherence_definition_error_ppm_of_bound", ppm(g_max_cohdef_ratio));
    out.stat("max_welch_bin_error_ppm_of_bound", ppm(g_max_bin_ratio));
    out.stat("max_single_segment_or_exact_copy_deviation_x1e18", (long long)llroundl(std::min((LD)9.0L, g_max_cohone_dev) * 1e18L));
    out.stat("max_deviation_from_long_double_estimate_x1e18", (long long)llroundl(g_max_ref_dev * 1e18L));
    out.stat("distinct_nontrivial", out.n_cases + out.n_oracle);
    out.finish();
    return 0;
}
