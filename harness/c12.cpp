// C12 — adaptive filters (LmsFilter<T>: LMS / NLMS, RlsFilter<T>; T real and complex) report a-priori
// errors, honour the lock, and converge.
//
// ORACLE (on the real library; references in long double):
//   every process() call of every scenario
//     * e[k] == d[k] - y[k] BIT-EXACTLY (the implementation's own outputs)                 C12:error-not-d-minus-y
//     * y[0] of the call == sum_j c_j x(k-j) with c = coeffs() snapshot taken BEFORE the call
//       (every sample, in the single-sample framings)                                       C12:apriori-output
//     * locked: coeffs() bit-identical before/after, every y[k] == sum_j c_j x(k-j)          C12:locked-coeffs-changed / C12:locked-not-fir
//     * sample-by-sample agreement of y, e and (after each call) coeffs() with the
//       extended-precision reference recursion (a-priori output, update after the output)  C12:reference-output / C12:reference-coeffs
//     * a size mismatch throws and leaves the filter untouched                              C12:size-mismatch
//   convergence: white Gaussian input, desired = unknown FIR system (length <= filter length), noise-free:
//     normalised misalignment ||c - h||^2 / ||h||^2 < 1e-6 for NLMS (mu grid in (0,2), leak 1) and RLS
//     (lambda 0.9..1, diagonal load 1e-2..1e4), lengths 2..64, real and complex               C12:not-converged
//   real RLS == exponentially weighted, diagonally regularised least squares (normal equations solved by
//     Cholesky in long double; locked samples do not enter the sums), at check points of short horizons C12:rls-not-wls
// CORR: the scenarios are replayed by the Lean model (Model/Adaptive.lean) through dspdriver_c12:
//     tags `lms` / `rls`, full outputs (y, e, coeffs after every call) or, for long runs, the final coeffs only.
#include "common.hpp"
#include <algorithm>
#include <complex>
#include <memory>
using namespace dsplib;
typedef long double LD;
typedef std::complex<LD> LC;
static vh::Out out;
static const LD EPSD = 2.220446049250313080847263336181640625e-16L;   // eps() = 2^-52

// ------------------------------------------------------------------------------------------------ scalars
static inline LC toL(real_t v) { return LC(v, 0); }
static inline LC toL(cmplx_t v) { return LC(v.re, v.im); }
static inline void fromL(LC v, real_t& o) { o = (double)v.real(); }
static inline void fromL(LC v, cmplx_t& o) { o.re = (double)v.real(); o.im = (double)v.imag(); }
static inline bool same_bits(real_t a, real_t b) { return std::memcmp(&a, &b, 8) == 0; }
static inline bool same_bits(cmplx_t a, cmplx_t b) { return same_bits(a.re, b.re) && same_bits(a.im, b.im); }
static inline bool finiteT(real_t v) { return std::isfinite(v); }
static inline bool finiteT(cmplx_t v) { return std::isfinite(v.re) && std::isfinite(v.im); }
static inline void rnd(vh::Rng& r, real_t& v) { v = r.gauss(); }
static inline void rnd(vh::Rng& r, cmplx_t& v) { v.re = r.gauss() * 0.7071067811865476; v.im = r.gauss() * 0.7071067811865476; }
static inline void scl(real_t& v, double s) { v *= s; }
static inline void scl(cmplx_t& v, double s) { v.re *= s; v.im *= s; }
template<class T> struct Tr;
template<> struct Tr<real_t> { static const int cx = 0; };
template<> struct Tr<cmplx_t> { static const int cx = 1; };

enum Kind { K_LMS = 0, K_NLMS = 1, K_RLS = 2 };
static const char* KN[] = {"lms", "nlms", "rls"};

struct Params {
    Kind kind = K_LMS;
    int L = 2;
    double mu = 0.1, leak = 1;       // LMS / NLMS
    double lam = 0.99, delta = 1;    // RLS
};

static std::string pjson(const Params& p, int cx, uint64_t cseed) {
    std::string s = std::string("{\"filter\":\"") + KN[p.kind] + "\",\"complex\":" + std::to_string(cx) + ",\"len\":" + std::to_string(p.L);
    if (p.kind == K_RLS) s += ",\"forget\":" + vh::jnum(p.lam) + ",\"diag_load\":" + vh::jnum(p.delta);
    else s += ",\"step\":" + vh::jnum(p.mu) + ",\"leak\":" + vh::jnum(p.leak);
    s += ",\"case_seed\":" + std::to_string(cseed);
    return s;   // caller appends more fields and the closing brace
}

// ------------------------------------------------------------------------------------------------ implementation wrapper
template<class T> struct Impl {
    std::unique_ptr<LmsFilter<T>> lms;
    std::unique_ptr<RlsFilter<T>> rls;
    explicit Impl(const Params& p) {
        if (p.kind == K_RLS) rls.reset(new RlsFilter<T>(p.L, p.lam, p.delta));
        else lms.reset(new LmsFilter<T>(p.L, p.mu, p.kind == K_NLMS ? LmsType::NLMS : LmsType::LMS, p.leak));
    }
    void process(const base_array<T>& x, const base_array<T>& d, base_array<T>& y, base_array<T>& e) {
        if (rls) { auto r = rls->process(x, d); y = r.y; e = r.e; }
        else { auto r = (*lms)(x, d); y = r.y; e = r.e; }
    }
    void lock(bool f) { if (rls) rls->set_lock_coeffs(f); else lms->set_lock_coeffs(f); }
    bool locked() const { return rls ? rls->coeffs_locked() : lms->coeffs_locked(); }
    base_array<T> coeffs() const { return rls ? base_array<T>(rls->coeffs()) : lms->coeffs(); }
};

// ------------------------------------------------------------------------------------------------ extended-precision reference recursion
// coefficient c[j] multiplies x(k-j); r[j] = x(k-j).  Output first (a-priori), update afterwards.
struct Ref {
    Params p;
    std::vector<LC> c, r, P, Pu, uP, g, R;
    LD kappa = 1;   // RLS: running max of ||P||_F ||R||_F (>= condition number of the weighted Gram matrix R = P^-1)
    bool locked = false;
    explicit Ref(const Params& q) : p(q), c(q.L, LC(0)), r(q.L, LC(0)) {
        if (p.kind == K_RLS) {
            P.assign(size_t(p.L) * p.L, LC(0));
            for (int i = 0; i < p.L; ++i) P[size_t(i) * p.L + i] = LC(p.delta);
            Pu.resize(p.L); uP.resize(p.L); g.resize(p.L);
            R.assign(size_t(p.L) * p.L, LC(0));
            for (int i = 0; i < p.L; ++i) R[size_t(i) * p.L + i] = LC(1 / LD(p.delta));
            kappa = p.L;
        }
    }
    void step(LC x, LC d, LC& y, LC& e) {
        const int n = p.L;
        for (int j = n - 1; j > 0; --j) r[j] = r[j - 1];
        r[0] = x;
        y = LC(0);
        for (int j = 0; j < n; ++j) y += c[j] * r[j];
        e = d - y;
        if (locked) return;
        if (p.kind != K_RLS) {
            LD nrm = 1;
            if (p.kind == K_NLMS) {
                LD pu = 0;
                for (int j = 0; j < n; ++j) pu += std::norm(r[j]);
                nrm = pu + EPSD;
            }
            for (int j = 0; j < n; ++j) c[j] = c[j] * LD(p.leak) + (LD(p.mu) * e) * std::conj(r[j]) / nrm;
            return;
        }
        const LD lam = p.lam;
        for (int i = 0; i < n; ++i) {
            LC a(0), b(0);
            for (int k = 0; k < n; ++k) { a += P[size_t(i) * n + k] * r[k]; b += std::conj(r[k]) * P[size_t(k) * n + i]; }
            Pu[i] = a; uP[i] = b;
        }
        LC den(lam);
        for (int i = 0; i < n; ++i) den += uP[i] * r[i];
        for (int i = 0; i < n; ++i) g[i] = Pu[i] / den;
        for (int i = 0; i < n; ++i)
            for (int k = 0; k < n; ++k) P[size_t(i) * n + k] = (LD(1) / lam) * (P[size_t(i) * n + k] - g[i] * uP[k]);
        for (int i = 0; i < n; ++i) c[i] += std::conj(g[i]) * e;
        LD fp = 0, fr = 0;
        for (int i = 0; i < n; ++i)
            for (int k = 0; k < n; ++k) {
                R[size_t(i) * n + k] = lam * R[size_t(i) * n + k] + r[i] * std::conj(r[k]);
                fp += std::norm(P[size_t(i) * n + k]);
                fr += std::norm(R[size_t(i) * n + k]);
            }
        kappa = std::max(kappa, sqrtl(fp) * sqrtl(fr));
    }
};

// ------------------------------------------------------------------------------------------------ scenario
template<class T> struct Frame {
    bool lock = false;
    bool mismatch = false;   // len(x) != len(d): must throw, state untouched
    base_array<T> x, d;
};

// comparison with the reference recursion: LMS/NLMS relative 1e-9; RLS relative 1e-12 x kappa, kappa = running max of
// ||P||_F ||R||_F (conditioning of the weighted Gram matrix, evaluated in the reference)
static const LD TOL_LMS = 1e-9L, TOL_RLS = 1e-12L;
static const LD TOL_WLS_FWD = 1e-7L, TOL_WLS_BWD = 1e-9L;
static long long worst_wls_fwd_e15 = 0, worst_rls_out_e18 = 0, worst_rls_coef_e18 = 0;
static long long worst_ref_out_e15 = 0, worst_ref_coef_e15 = 0, worst_fir_ratio_e3 = 0, worst_wls_e15 = 0, worst_mis_e12 = 0;
static void upd(long long& w, LD v, LD unit) {
    LD q = v / unit;
    long long z = q > 9e18L ? (long long)9e18 : (long long)q;
    if (z > w) w = z;
}

template<class T> static std::string corr_lhs(const Params& p, const std::vector<Frame<T>>& fr, int mode) {
    std::string s;
    if (p.kind == K_RLS) s = "rls " + std::to_string(Tr<T>::cx) + " " + std::to_string(p.L) + " " + vh::hx(p.lam) + " " + vh::hx(p.delta);
    else s = "lms " + std::to_string(Tr<T>::cx) + " " + std::to_string(p.kind == K_NLMS ? 1 : 0) + " " + std::to_string(p.L) + " " + vh::hx(p.mu) + " " + vh::hx(p.leak);
    s += " " + std::to_string(mode) + " " + std::to_string(fr.size());
    for (auto& f : fr) s += std::string(" ") + (f.lock ? "1" : "0") + " " + vh::hxs(f.x) + " " + vh::hxs(f.d);
    return s;
}

template<class T> static std::string frames_json(const std::vector<Frame<T>>& fr) {
    std::string s = "[";
    for (size_t i = 0; i < fr.size() && i < 40; ++i) {
        if (i) s += ",";
        s += "[" + std::to_string(fr[i].lock ? 1 : 0) + "," + std::to_string(fr[i].x.size()) + "," + std::to_string(fr[i].d.size()) + "]";
    }
    return s + (fr.size() > 40 ? ",\"...\"]" : "]");
}

// FIR value sum_j c_j x(k-j) and the magnitude sum, from the complete input history `hist` (hist.back() = x(k))
static void fir_at(const std::vector<LC>& c, const std::vector<LC>& hist, size_t k, LC& v, LD& mag) {
    v = LC(0); mag = 0;
    for (size_t j = 0; j < c.size() && j <= k; ++j) { v += c[j] * hist[k - j]; mag += std::abs(c[j]) * std::abs(hist[k - j]); }
}

// runs one scenario on the implementation with all per-call oracles; emits the CORR line if mode >= 0.
// tolref: relative tolerance of the comparison with the reference recursion (<= 0: skip that comparison)
template<class T>
static void run_scenario(const Params& p, const std::vector<Frame<T>>& fr, uint64_t cseed, int corr_mode, LD tolref, const char* what) {
    const std::string kn = KN[p.kind];
    const std::string js0 = pjson(p, Tr<T>::cx, cseed) + ",\"scenario\":\"" + what + "\",\"frames_lock_nx_nd\":" + frames_json(fr);
    vh::set_current("C12:hang-or-crash:" + kn, js0 + "}");
    vh::watch(120);
    Impl<T> f(p);
    Ref ref(p);
    std::vector<LC> hist;
    std::string rhs;
    LD scale = 1e-300L;
    bool failed_ref = false;
    out.stat(std::string("scen_") + kn + (Tr<T>::cx ? "_cx" : "_re"));
    out.stat("len_bucket_" + std::to_string(p.L <= 4 ? 4 : p.L <= 8 ? 8 : p.L <= 16 ? 16 : p.L <= 32 ? 32 : 64));
    for (size_t fi = 0; fi < fr.size(); ++fi) {
        const Frame<T>& F = fr[fi];
        const int n = F.x.size();
        const std::string js = js0 + ",\"frame\":" + std::to_string(fi);
        f.lock(F.lock);
        ref.locked = F.lock;
        if (f.locked() != F.lock) out.fail("C12:lock-flag:" + kn, js + "}");
        const base_array<T> c0 = f.coeffs();
        if (c0.size() != p.L) { out.fail("C12:coeffs-size:" + kn, js + ",\"got\":" + std::to_string(c0.size()) + "}"); break; }
        std::vector<LC> c0L(p.L);
        for (int j = 0; j < p.L; ++j) c0L[j] = toL(c0[j]);
        base_array<T> y, e;
        out.n_oracle++;
        if (F.mismatch) {
            bool threw = false;
            try { f.process(F.x, F.d, y, e); } catch (const std::exception&) { threw = true; }
            const base_array<T> c1 = f.coeffs();
            bool same = c1.size() == c0.size();
            for (int j = 0; same && j < p.L; ++j) same = same_bits(c0[j], c1[j]);
            if (!threw || !same) out.fail("C12:size-mismatch:" + kn, js + ",\"threw\":" + (threw ? "1" : "0") + "}");
            out.stat("frames_mismatch");
            if (corr_mode == 0) rhs += std::string(threw ? " ERR " : " NOERR ") + vh::hxs(c1);
            continue;
        }
        try {
            f.process(F.x, F.d, y, e);
        } catch (const std::exception& ex) {
            out.fail("C12:threw:" + kn, js + ",\"what\":\"" + std::string(ex.what()).substr(0, 80) + "\"}");
            if (corr_mode == 0) rhs += " ERR " + vh::hxs(f.coeffs());
            continue;
        }
        const base_array<T> c1 = f.coeffs();
        out.stat(F.lock ? "frames_locked" : "frames_adapting");
        out.stat(n == 0 ? "frame_n0" : n == 1 ? "frame_n1" : n < p.L - 1 ? "frame_lt_len-1" : n == p.L - 1 ? "frame_eq_len-1" : n <= p.L ? "frame_eq_len" : "frame_gt_len");
        out.stat("samples", n);
        if (corr_mode == 0) rhs += " " + vh::hxs(y) + " " + vh::hxs(e) + " " + vh::hxs(c1);
        if (y.size() != n || e.size() != n) { out.fail("C12:result-size:" + kn, js + "}"); break; }
        // --- e = d - y exactly; finiteness
        for (int k = 0; k < n; ++k) {
            const T dmy = F.d[k] - y[k];
            if (!same_bits(e[k], dmy)) { out.fail("C12:error-not-d-minus-y:" + kn, js + ",\"k\":" + std::to_string(k) + "}"); break; }
            if (!finiteT(y[k]) || !finiteT(e[k])) { out.fail("C12:non-finite:" + kn, js + ",\"k\":" + std::to_string(k) + "}"); break; }
        }
        // --- lock: coefficients bit-identical
        if (F.lock) {
            for (int j = 0; j < p.L; ++j)
                if (!same_bits(c0[j], c1[j])) { out.fail("C12:locked-coeffs-changed:" + kn, js + ",\"j\":" + std::to_string(j) + "}"); break; }
        }
        // --- per sample: FIR with the snapshot (k = 0, or every k when locked), reference recursion
        for (int k = 0; k < n; ++k) {
            hist.push_back(toL(F.x[k]));
            const size_t kk = hist.size() - 1;
            if (k == 0 || F.lock) {
                LC v; LD mag;
                fir_at(c0L, hist, kk, v, mag);
                const LD err = std::abs(v - toL(y[k]));
                const LD bound = 4 * (p.L + 2) * EPSD * mag + 1e-300L;
                upd(worst_fir_ratio_e3, err / bound, 1e-3L);
                if (!(err <= bound))
                    out.fail(std::string(F.lock ? "C12:locked-not-fir:" : "C12:apriori-output:") + kn,
                             js + ",\"k\":" + std::to_string(k) + ",\"err\":" + vh::jnum((double)err) + ",\"bound\":" + vh::jnum((double)bound) + "}");
                out.stat(F.lock ? "chk_locked_fir" : "chk_apriori_snapshot");
            }
            LC yr, er;
            ref.step(toL(F.x[k]), toL(F.d[k]), yr, er);
            scale = std::max(scale, std::max(std::abs(toL(F.d[k])), std::abs(yr)));
            if (tolref > 0 && !failed_ref) {
                const LD err = std::max(std::abs(yr - toL(y[k])), std::abs(er - toL(e[k])));
                upd(p.kind == K_RLS ? worst_rls_out_e18 : worst_ref_out_e15, err / (scale * ref.kappa), p.kind == K_RLS ? 1e-18L : 1e-15L);
                if (!(err <= tolref * ref.kappa * scale)) {
                    failed_ref = true;
                    out.fail("C12:reference-output:" + kn, js + ",\"k\":" + std::to_string(k) + ",\"err\":" + vh::jnum((double)err) + ",\"scale\":" + vh::jnum((double)scale) + "}");
                }
            }
        }
        if (tolref > 0 && !failed_ref) {
            LD cs = 1e-300L, ce = 0;
            for (int j = 0; j < p.L; ++j) { cs = std::max(cs, std::abs(ref.c[j])); ce = std::max(ce, std::abs(ref.c[j] - toL(c1[j]))); }
            upd(p.kind == K_RLS ? worst_rls_coef_e18 : worst_ref_coef_e15, ce / (cs * ref.kappa), p.kind == K_RLS ? 1e-18L : 1e-15L);
            if (!(ce <= tolref * ref.kappa * cs)) {
                failed_ref = true;
                out.fail("C12:reference-coeffs:" + kn, js + ",\"err\":" + vh::jnum((double)ce) + ",\"scale\":" + vh::jnum((double)cs) + "}");
            }
        }
    }
    vh::unwatch();
    vh::clear_current();
    if (corr_mode == 1) rhs = " " + vh::hxs(f.coeffs());
    if (corr_mode >= 0) out.corr(corr_lhs(p, fr, corr_mode), rhs.empty() ? "" : rhs.substr(1));
    out.sample(js0 + "}");
}

// ------------------------------------------------------------------------------------------------ generators
static const int LENS_EDGE[] = {2, 3, 4, 5, 7, 8, 16, 31, 32, 33, 63, 64};
static int pick_len(vh::Rng& r, int maxL) {
    int L = r.coin() ? LENS_EDGE[r.range(0, 11)] : r.range(2, 64);
    while (L > maxL) L = std::max(2, L / 2);
    return L;
}
static const double NLMS_MU[] = {0.01, 0.05, 0.25, 0.5, 1.0, 1.5, 1.9, 1.99};
static const double LEAKS[] = {1.0, 1.0, 0.9999, 0.99, 0.9};
static const double LAMS[] = {0.9, 0.95, 0.98, 0.99, 0.999, 1.0};
static const double DELTAS[] = {1e-2, 1e-1, 1.0, 1e1, 1e2, 1e3, 1e4};

static Params gen_params(vh::Rng& r, Kind k, int maxL, double xpow) {
    Params p;
    p.kind = k;
    p.L = pick_len(r, maxL);
    if (k == K_NLMS) p.mu = r.coin() ? NLMS_MU[r.range(0, 7)] : 0.01 + 1.98 * r.unit();
    if (k == K_LMS) {   // stable range of LMS for white input of power xpow: 0 < mu < 2 / (3 L xpow)
        static const double F[] = {0.01, 0.1, 0.3, 0.6, 0.9};
        const double f = r.coin() ? F[r.range(0, 4)] : 0.01 + 0.9 * r.unit();
        p.mu = f * 2.0 / (3.0 * p.L * xpow);
    }
    p.leak = LEAKS[r.range(0, 4)];
    p.lam = r.coin() ? LAMS[r.range(0, 5)] : 0.9 + 0.1 * r.unit();
    p.delta = r.coin() ? DELTAS[r.range(0, 6)] : std::pow(10.0, -2 + 6 * r.unit());
    return p;
}

template<class T> static std::vector<LC> gen_system(vh::Rng& r, int L, int& m) {
    m = r.coin() ? L : r.range(1, L);   // unknown system no longer than the filter
    std::vector<LC> h(L, LC(0));
    for (int j = 0; j < m; ++j) { T v; rnd(r, v); h[j] = toL(v); }
    if (std::abs(h[m - 1]) < 1e-3L) h[m - 1] = LC(0.5L);
    return h;
}

// frame sizes: random framing of `total` samples; style 0 = all single samples, 1 = small, 2 = around len, 3 = large
static std::vector<int> gen_framing(vh::Rng& r, int total, int L, int style) {
    std::vector<int> v;
    int left = total;
    while (left > 0) {
        int n;
        switch (style) {
        case 0: n = 1; break;
        case 1: n = r.range(0, 3); break;
        case 2: { static const int dl[] = {-2, -1, 0, 1, 2}; n = std::max(0, L + dl[r.range(0, 4)] - (r.coin() ? 1 : 0)); break; }
        default: n = r.range(1, std::max(2, total)); break;
        }
        n = std::min(n, left);
        v.push_back(n);
        left -= n;
    }
    if (v.empty() || r.range(0, 5) == 0) v.insert(v.begin() + r.range(0, (int)v.size()), 0);   // an empty call
    return v;
}

// input kinds of the arbitrary-pair scenarios
static const char* XK[] = {"white", "white-scaled", "with-zero-stretches", "impulsive", "dc"};
template<class T>
static std::vector<Frame<T>> gen_frames(vh::Rng& r, const Params& p, int total, int fstyle, int xkind, double xscale, int dkind, bool locks, bool mism) {
    std::vector<int> sz = gen_framing(r, total, p.L, fstyle);
    int msys;
    std::vector<LC> h = gen_system<T>(r, p.L, msys);
    std::vector<LC> hist;
    std::vector<Frame<T>> fr;
    bool lock = false;
    bool zero_run = false;
    for (size_t i = 0; i < sz.size(); ++i) {
        Frame<T> F;
        if (locks && r.range(0, 3) == 0) lock = !lock;
        F.lock = lock;
        F.x = base_array<T>(sz[i]);
        F.d = base_array<T>(sz[i]);
        for (int k = 0; k < sz[i]; ++k) {
            T v{};
            switch (xkind) {
            case 0: rnd(r, v); break;
            case 1: rnd(r, v); scl(v, xscale); break;
            case 2: if (r.range(0, 9) == 0) zero_run = !zero_run; if (!zero_run) rnd(r, v); break;
            case 3: if (r.range(0, 7) == 0) { rnd(r, v); scl(v, 4); } break;
            default: v = T(1); scl(v, xscale); break;
            }
            F.x[k] = v;
            hist.push_back(toL(v));
            LC dv(0);
            for (int j = 0; j < p.L && j < (int)hist.size(); ++j) dv += h[j] * hist[hist.size() - 1 - j];
            T dn; rnd(r, dn);
            if (dkind == 0) fromL(dv, F.d[k]);                       // noise-free system output
            else if (dkind == 1) { fromL(dv, F.d[k]); scl(dn, 0.1 * (xkind == 1 || xkind == 4 ? xscale : 1)); F.d[k] = F.d[k] + dn; }   // noisy
            else { scl(dn, (xkind == 1 || xkind == 4 ? xscale : 1)); F.d[k] = dn; }   // unrelated desired signal
        }
        fr.push_back(F);
        if (mism && r.range(0, 6) == 0) {
            Frame<T> M;
            M.lock = lock;
            M.mismatch = true;
            M.x = base_array<T>(r.range(0, 4));
            M.d = base_array<T>(M.x.size() + 1 + r.range(0, 2));
            if (r.coin()) std::swap(M.x, M.d);
            for (int k = 0; k < M.x.size(); ++k) rnd(r, M.x[k]);
            for (int k = 0; k < M.d.size(); ++k) rnd(r, M.d[k]);
            fr.push_back(M);
        }
    }
    return fr;
}

// ------------------------------------------------------------------------------------------------ arbitrary input/desired pairs, short horizons
template<class T> static void arbitrary_pairs(vh::Rng& top, int count, int maxL, int corr_every) {
    for (int it = 0; it < count; ++it) {
        const uint64_t cseed = top.next();
        vh::Rng r(cseed);
        const Kind k = Kind(it % 3);
        const int xkind = (it / 3) % 5;
        double xscale = 1;
        if (xkind == 1 || xkind == 4) xscale = std::pow(10.0, r.range(-3, 3));
        double xpow = xkind == 1 ? xscale * xscale : xkind == 4 ? xscale * xscale : xkind == 3 ? 2.0 : 1.0;
        Params p = gen_params(r, k, maxL, xpow);
        if (k == K_LMS && xkind == 4) p.mu *= 0.5;
        const int total = r.range(1, 3 * p.L + 24);
        const int fstyle = r.range(0, 3);
        const int dkind = r.range(0, 2);
        auto fr = gen_frames<T>(r, p, total, fstyle, xkind, xscale, dkind, r.range(0, 2) != 0, r.range(0, 3) == 0);
        out.stat(std::string("xkind_") + XK[xkind]);
        out.stat("framing_style_" + std::to_string(fstyle));
        out.stat("dkind_" + std::to_string(dkind));
        // the RLS recursion amplifies rounding by the conditioning of the weighted Gram matrix; short horizons
        const LD tol = k == K_RLS ? TOL_RLS : TOL_LMS;
        run_scenario<T>(p, fr, cseed, (it % corr_every) == 0 ? 0 : -1, tol, "arbitrary-pair");
    }
}

// ------------------------------------------------------------------------------------------------ convergence (system identification)
template<class T> static void convergence_case(vh::Rng& top, Kind k, int L, double par1, double par2, int corr_mode) {
    const uint64_t cseed = top.next();
    vh::Rng r(cseed);
    Params p;
    p.kind = k;
    p.L = L;
    p.leak = 1;
    long long N;
    if (k == K_NLMS) {
        p.mu = par1;
        // misalignment contracts by about 1 - mu(2-mu)/L per sample: 1e-6 needs 13.8 L / (mu(2-mu)); x3 margin
        N = (long long)(3 * 13.8 * L / (p.mu * (2 - p.mu))) + 50;
    } else {
        p.lam = par1;
        p.delta = par2;
        // regularisation lam^k / delta against the data term sum_{i<k} lam^i (unit input power): relative bias
        // (lam^k/delta) / sum lam^i must fall below 1e-3 (squared: 1e-6); x10 margin, at least 6 L + 40 samples
        N = 6 * L + 40;
        for (long long kk = 1;; ++kk) {
            const double reg = std::pow(p.lam, (double)kk) / p.delta;
            const double dat = p.lam < 1 ? (1 - std::pow(p.lam, (double)kk)) / (1 - p.lam) : (double)kk;
            if (reg / dat < 1e-3 / 10) { N = std::max<long long>(N, kk + 4 * L); break; }
        }
    }
    int msys;
    std::vector<LC> h = gen_system<T>(r, L, msys);
    const std::string js0 = pjson(p, Tr<T>::cx, cseed) + ",\"scenario\":\"convergence\",\"system_len\":" + std::to_string(msys) + ",\"samples\":" + std::to_string(N);
    vh::set_current(std::string("C12:hang-or-crash:") + KN[k], js0 + "}");
    vh::watch(600);
    Impl<T> f(p);
    std::vector<LC> hist(L, LC(0));   // circular: last L inputs
    std::vector<Frame<T>> frs;
    long long done = 0;
    size_t pos = 0;
    bool bad_e = false;
    while (done < N) {
        const int n = (int)std::min<long long>(N - done, r.range(1, 4) == 1 ? r.range(1, 2 * L) : r.range(1, 400));
        Frame<T> F;
        F.x = base_array<T>(n);
        F.d = base_array<T>(n);
        for (int i = 0; i < n; ++i) {
            T v; rnd(r, v);
            F.x[i] = v;
            hist[pos % L] = toL(v);
            LC dv(0);
            for (int j = 0; j < L; ++j) dv += h[j] * hist[(pos + L - j) % L];
            ++pos;
            fromL(dv, F.d[i]);
        }
        base_array<T> y, e;
        f.process(F.x, F.d, y, e);
        out.n_oracle++;
        for (int i = 0; i < n && !bad_e; ++i) {
            const T dmy = F.d[i] - y[i];
            if (!same_bits(e[i], dmy)) { bad_e = true; out.fail(std::string("C12:error-not-d-minus-y:") + KN[k], js0 + ",\"at\":" + std::to_string(done + i) + "}"); }
        }
        if (corr_mode >= 0) frs.push_back(F);
        done += n;
    }
    vh::unwatch();
    vh::clear_current();
    const base_array<T> c = f.coeffs();
    LD num = 0, den = 0;
    bool fin = true;
    for (int j = 0; j < L; ++j) { num += std::norm(toL(c[j]) - h[j]); den += std::norm(h[j]); fin = fin && finiteT(c[j]); }
    const LD mis = num / den;
    upd(worst_mis_e12, mis, 1e-12L);
    out.stat(std::string("conv_") + KN[k] + (Tr<T>::cx ? "_cx" : "_re"));
    out.stat("conv_samples", N);
    if (!fin || !(mis < 1e-6L))
        out.fail(std::string("C12:not-converged:") + KN[k], js0 + ",\"misalignment\":" + vh::jnum((double)mis) + "}");
    if (corr_mode >= 0) out.corr(corr_lhs(p, frs, 1), vh::hxs(c));
}

template<class T> static void convergence(vh::Rng& top, bool thorough) {
    std::vector<int> Ls = thorough ? std::vector<int>{2, 3, 4, 5, 8, 11, 16, 24, 32, 47, 64} : std::vector<int>{2, 3, 8, 16, 64};
    for (int L : Ls) {
        for (double mu : NLMS_MU) {
            const long long N = (long long)(3 * 13.8 * L / (mu * (2 - mu))) + 50;
            convergence_case<T>(top, K_NLMS, L, mu, 0, (L <= 8 && N <= 3000) ? 1 : -1);
        }
        for (int t = 0; t < (thorough ? 6 : 2); ++t) convergence_case<T>(top, K_NLMS, L, 0.02 + 1.96 * top.unit(), 0, -1);
    }
    for (int L : Ls) {
        for (double lam : LAMS)
            for (double dl : DELTAS) {
                const bool slow = lam == 1.0 && dl < 1;   // 1e5..1e6 samples
                if (slow && L > (thorough ? 16 : 8) && !(thorough && L == 64 && dl == 0.1)) continue;
                convergence_case<T>(top, K_RLS, L, lam, dl, (L <= 4 && !slow && lam >= 0.98 && dl == 1.0) ? 1 : -1);
            }
        for (int t = 0; t < (thorough ? 6 : 2); ++t) {
            const double lam = 0.9 + 0.1 * top.unit(), dl = std::pow(10.0, -2 + 6 * top.unit());
            if (lam > 0.9995 && dl < 1 && L > 8) continue;
            convergence_case<T>(top, K_RLS, L, lam, dl, -1);
        }
    }
}

// ------------------------------------------------------------------------------------------------ real RLS = weighted least squares
// solves A w = b (A symmetric positive definite, n x n) by Cholesky in long double; false if not SPD
static bool chol_solve(std::vector<LD> A, std::vector<LD> b, int n, std::vector<LD>& w) {
    for (int j = 0; j < n; ++j) {
        LD s = A[size_t(j) * n + j];
        for (int k = 0; k < j; ++k) s -= A[size_t(j) * n + k] * A[size_t(j) * n + k];
        if (!(s > 0)) return false;
        const LD ljj = sqrtl(s);
        A[size_t(j) * n + j] = ljj;
        for (int i = j + 1; i < n; ++i) {
            LD t = A[size_t(i) * n + j];
            for (int k = 0; k < j; ++k) t -= A[size_t(i) * n + k] * A[size_t(j) * n + k];
            A[size_t(i) * n + j] = t / ljj;
        }
    }
    w = b;
    for (int i = 0; i < n; ++i) {
        LD t = w[i];
        for (int k = 0; k < i; ++k) t -= A[size_t(i) * n + k] * w[k];
        w[i] = t / A[size_t(i) * n + i];
    }
    for (int i = n - 1; i >= 0; --i) {
        LD t = w[i];
        for (int k = i + 1; k < n; ++k) t -= A[size_t(k) * n + i] * w[k];
        w[i] = t / A[size_t(i) * n + i];
    }
    return true;
}

static void rls_wls_case(vh::Rng& top, int maxL, bool corr) {
    const uint64_t cseed = top.next();
    vh::Rng r(cseed);
    Params p = gen_params(r, K_RLS, maxL, 1.0);
    const int L = p.L;
    const int total = r.range(1, 4 * L + 8);
    const int dkind = r.range(0, 2);
    const int xkind = r.range(0, 3) == 0 ? 2 : 0;
    auto fr = gen_frames<real_t>(r, p, total, r.range(0, 3), xkind, 1.0, dkind, r.coin(), false);
    const std::string js0 = pjson(p, 0, cseed) + ",\"scenario\":\"rls-vs-batch-wls\",\"frames_lock_nx_nd\":" + frames_json(fr);
    vh::set_current("C12:hang-or-crash:rls", js0 + "}");
    vh::watch(120);
    RlsFilter<real_t> f(L, p.lam, p.delta);
    // batch accumulators: A = lam^M / delta I + sum lam^(M-m) u u^T,  b = sum lam^(M-m) d u   (unlocked samples only)
    std::vector<LD> A(size_t(L) * L, 0), b(L, 0), u(L, 0), w;
    for (int i = 0; i < L; ++i) A[size_t(i) * L + i] = 1 / LD(p.delta);
    const int every = L <= 8 ? 1 : std::max(1, total / 8);
    int seen = 0;
    bool failed = false;
    auto check = [&]() {
        out.n_oracle++;
        out.stat("chk_rls_wls");
        if (!chol_solve(A, b, L, w)) { out.fail("C12:wls-reference-not-spd", js0 + "}"); failed = true; return; }
        const arr_real& c = f.coeffs();
        LD num = 0, den = 0;
        for (int j = 0; j < L; ++j) { num += (LD(c[j]) - w[j]) * (LD(c[j]) - w[j]); den += w[j] * w[j]; }
        // backward measure as well: residual of the normal equations at the implementation's coefficients
        LD rs = 0, rn = 0;
        for (int a = 0; a < L; ++a) {
            LD t = -b[a], s = fabsl(b[a]);
            for (int cc = 0; cc < L; ++cc) { t += A[size_t(a) * L + cc] * LD(c[cc]); s += fabsl(A[size_t(a) * L + cc] * LD(c[cc])); }
            rs = std::max(rs, fabsl(t));
            rn = std::max(rn, s);
        }
        const LD fwd = sqrtl(num) / std::max(sqrtl(den), 1e-300L);
        const LD bwd = rs / std::max(rn, 1e-300L);
        upd(worst_wls_fwd_e15, fwd, 1e-15L);
        upd(worst_wls_e15, std::min(fwd, bwd), 1e-15L);
        // the solution is reproduced when the forward error or the normal-equation residual is at rounding
        // level (the forward error of ANY double computation scales with the conditioning of A)
        if (!(fwd <= TOL_WLS_FWD || bwd <= TOL_WLS_BWD)) {
            failed = true;
            out.fail("C12:rls-not-wls", js0 + ",\"after_samples\":" + std::to_string(seen) + ",\"forward_err\":" + vh::jnum((double)fwd) + ",\"residual\":" + vh::jnum((double)bwd) + "}");
        }
    };
    for (size_t fi = 0; fi < fr.size() && !failed; ++fi) {
        f.set_lock_coeffs(fr[fi].lock);
        const int n = fr[fi].x.size();
        if (n == 0) { f.process(arr_real(0), arr_real(0)); continue; }
        int k0 = 0;
        while (k0 < n && !failed) {   // chunks ending at the check points
            int k1 = k0 + 1;
            while (k1 < n && ((seen + (k1 - k0)) % every) != 0) ++k1;
            const int m = k1 - k0;
            arr_real xs(m), ds(m);
            for (int i = 0; i < m; ++i) { xs[i] = fr[fi].x[k0 + i]; ds[i] = fr[fi].d[k0 + i]; }
            f.process(xs, ds);
            for (int i = 0; i < m; ++i) {
                for (int j = L - 1; j > 0; --j) u[j] = u[j - 1];
                u[0] = xs[i];
                if (!fr[fi].lock) {
                    for (int a = 0; a < L; ++a) {
                        for (int c = 0; c < L; ++c) A[size_t(a) * L + c] = LD(p.lam) * A[size_t(a) * L + c] + u[a] * u[c];
                        b[a] = LD(p.lam) * b[a] + LD(ds[i]) * u[a];
                    }
                }
            }
            seen += m;
            k0 = k1;
            if ((seen % every) == 0) check();
        }
    }
    if (!failed) check();
    out.stat("scen_rls_wls");
    vh::unwatch();
    vh::clear_current();
    (void)corr;
}

// ------------------------------------------------------------------------------------------------ fixed boundary scenarios
template<class T> static void boundary(vh::Rng& top) {
    // all-zero input (NLMS normalisation by pu + eps), zero desired, first call empty, frame == len-1, lock from the start
    for (int kind = 0; kind < 3; ++kind)
        for (int L : {2, 3, 8}) {
            for (int variant = 0; variant < 4; ++variant) {
                const uint64_t cseed = top.next();
                vh::Rng r(cseed);
                Params p = gen_params(r, Kind(kind), 64, 1.0);
                p.L = L;
                if (kind == K_LMS) p.mu = 0.3 * 2.0 / (3.0 * L);
                std::vector<Frame<T>> fr;
                auto mk = [&](int n, bool lock, int xz, int dz) {
                    Frame<T> F;
                    F.lock = lock;
                    F.x = base_array<T>(n);
                    F.d = base_array<T>(n);
                    for (int i = 0; i < n; ++i) {
                        if (!xz) rnd(r, F.x[i]);
                        if (!dz) rnd(r, F.d[i]);
                    }
                    fr.push_back(F);
                };
                switch (variant) {
                case 0: mk(0, false, 0, 0); mk(L + 2, false, 1, 0); mk(3, false, 0, 0); mk(L, false, 1, 1); mk(2, false, 0, 0); break;   // zero input stretches
                case 1: mk(L - 1, true, 0, 0); mk(L - 1, false, 0, 0); mk(L, true, 0, 0); mk(1, false, 0, 0); mk(L + 1, true, 0, 0); break;   // locked from the start
                case 2: for (int i = 0; i < 3 * L; ++i) mk(1, (i / 3) % 2 == 1, 0, 0); break;   // single samples, lock toggling
                default: mk(2 * L + 1, false, 0, 1); mk(0, true, 0, 0); mk(L - 1, false, 0, 0); mk(L + 1, false, 0, 0); break;
                }
                run_scenario<T>(p, fr, cseed, 0, Kind(kind) == K_RLS ? TOL_RLS : TOL_LMS, "boundary");
            }
        }
}

int main(int argc, char** argv) {
    vh::Args a(argc, argv);
    vh::install_guards();
    vh::Rng top(a.seed * 0x9e3779b97f4a7c15ULL + 12);
    out.max_samples = 8;

    boundary<real_t>(top);
    boundary<cmplx_t>(top);
    // arbitrary pairs on short horizons: small lengths densely, the whole 2..64 range
    arbitrary_pairs<real_t>(top, a.thorough ? 6000 : 240, 8, a.thorough ? 15 : 3);
    arbitrary_pairs<cmplx_t>(top, a.thorough ? 6000 : 240, 8, a.thorough ? 15 : 3);
    arbitrary_pairs<real_t>(top, a.thorough ? 3600 : 150, 64, a.thorough ? 30 : 6);
    arbitrary_pairs<cmplx_t>(top, a.thorough ? 3600 : 150, 64, a.thorough ? 30 : 6);
    // real RLS against the batch normal equations
    for (int i = 0; i < (a.thorough ? 5000 : 200); ++i) rls_wls_case(top, i % 3 == 0 ? 64 : 12, false);
    // convergence
    convergence<real_t>(top, a.thorough);
    convergence<cmplx_t>(top, a.thorough);

    out.stat("worst_reference_output_err_1e-15", worst_ref_out_e15);
    out.stat("worst_reference_coeffs_err_1e-15", worst_ref_coef_e15);
    out.stat("worst_fir_err_over_bound_1e-3", worst_fir_ratio_e3);
    out.stat("worst_rls_reference_output_err_over_kappa_1e-18", worst_rls_out_e18);
    out.stat("worst_rls_reference_coeffs_err_over_kappa_1e-18", worst_rls_coef_e18);
    out.stat("worst_rls_wls_err_1e-15", worst_wls_e15);
    out.stat("worst_rls_wls_forward_err_1e-15", worst_wls_fwd_e15);
    out.stat("worst_misalignment_1e-12", worst_mis_e12);
    out.stat("distinct_nontrivial", out.n_cases);
    out.finish();
    return 0;
}
