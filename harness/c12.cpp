// C12 — adaptive filters (LmsFilter<T>: LMS / NLMS, RlsFilter<T>; T real and complex) report a-priori
// errors, honour the lock, and converge.
//
// ORACLE (on the real library; references in long double):
//   every process() call of every scenario
//     * e[k] == d[k] - y[k] BIT-EXACTLY (the implementation's own outputs)                 C12:error-not-d-minus-y
//     * y[0] of the call == sum_j c_j x(k-j) with c = coeffs() snapshot taken BEFORE the call
//       (every sample, in the single-sample framings)                                       C12:apriori-output
//     * locked: coeffs() bit-identical before/after, every y[k] == sum_j c_j x(k-j)          C12:locked-coeffs-changed / C12:locked-not-fir
//     * sample-by-sample agreement of y, e and (after each call) coeffs() with the
//       extended-precision reference recursion (a-priori output, update after the output)  C12:reference-output / C12:reference-coeffs
//     * a size mismatch throws and leaves the filter untouched                              C12:size-mismatch
//   convergence: white Gaussian input, desired = unknown FIR system (length <= filter length), noise-free:
//     normalised misalignment ||c - h||^2 / ||h||^2 < 1e-6 for NLMS (mu grid in (0,2), leak 1) and RLS
//     (lambda 0.9..1, diagonal load 1e-2..1e4), lengths 2..64, real and complex               C12:not-converged
//   real RLS == exponentially weighted, diagonally regularised least squares (normal equations solved by
//     Cholesky in long double; locked samples do not enter the sums), at check points of short horizons C12:rls-not-wls
//   long single calls (one process() call of more than 2^16 / 2^17 / 2^18 samples, exact multiples of 49152 / 65536, the long
//     call first or after small ones, a locked long call, rejected long calls in between): every per-call oracle above, the
//     reference recursion over the whole call, convergence, and BIT-identity of y, e, coeffs() with the same stream fed in
//     small frames to a second filter                                                         C12:framing-dependence
//   scale classes: input at absolute scales 1e-300 .. 1e100 (1e140 for RLS with the matching diagonal load), unknown system
//     at 1e-8 / 1 / 1e8, step sizes from denormal to 2 (NLMS) / 1e-300 .. 0.9 of the stable bound (LMS), leakage 0 .. 1,
//     forgetting 0.9 .. 1 incl. 1 - 2^-53, exact-zero / negative-zero runs longer than the delay line, denormal and
//     power-of-two samples: every per-call oracle + reference recursion (relative; absolute floor 1e-280)
//   NLMS, leak 1, noise-free: the normalised misalignment never increases from call to call     C12:misalignment-increased
//   copies (copy-construct, vector(n, proto), copy-assign, returned temporary) taken mid-stream continue bit-identically
//     to an uncopied filter while the original is fed other data                                C12:copy-differs
//   a Result kept alive is not changed by later calls                                           C12:result-aliased
//   rejected calls (size mismatch, also long / empty-vs-non-empty / first call) interleaved: later calls as if never made
// CORR: the scenarios are replayed by the Lean model (Model/Adaptive.lean) through dspdriver_c12:
//     tags `lms` / `rls`, full outputs (y, e, coeffs after every call) or, for long runs, the final coeffs only (mode 1)
//     or every 4093rd and the last y, e of each call plus the final coeffs (mode 2, the long single calls).
#include "common.hpp"
#include <algorithm>
#include <complex>
#include <memory>
using namespace dsplib;
typedef long double LD;
typedef std::complex<LD> LC;
static vh::Out out;
static const LD EPSD = 2.220446049250313080847263336181640625e-16L;   // eps() = 2^-52

// ------------------------------------------------------------------------------------------------ scalars
static inline LC toL(real_t v) { return LC(v, 0); }
static inline LC toL(cmplx_t v) { return LC(v.re, v.im); }
static inline void fromL(LC v, real_t& o) { o = (double)v.real(); }
static inline void fromL(LC v, cmplx_t& o) { o.re = (double)v.real(); o.im = (double)v.imag(); }
static inline bool same_bits(real_t a, real_t b) { return std::memcmp(&a, &b, 8) == 0; }
static inline bool same_bits(cmplx_t a, cmplx_t b) { return same_bits(a.re, b.re) && same_bits(a.im, b.im); }
static inline bool finiteT(real_t v) { return std::isfinite(v); }
static inline bool finiteT(cmplx_t v) { return std::isfinite(v.re) && std::isfinite(v.im); }
static inline void rnd(vh::Rng& r, real_t& v) { v = r.gauss(); }
static inline void rnd(vh::Rng& r, cmplx_t& v) { v.re = r.gauss() * 0.7071067811865476; v.im = r.gauss() * 0.7071067811865476; }
static inline void scl(real_t& v, double s) { v *= s; }
static inline void scl(cmplx_t& v, double s) { v.re *= s; v.im *= s; }
template<class T> struct Tr;
template<> struct Tr<real_t> { static const int cx = 0; };
template<> struct Tr<cmplx_t> { static const int cx = 1; };

enum Kind { K_LMS = 0, K_NLMS = 1, K_RLS = 2 };
static const char* KN[] = {"lms", "nlms", "rls"};

struct Params {
    Kind kind = K_LMS;
    int L = 2;
    double mu = 0.1, leak = 1;       // LMS / NLMS
    double lam = 0.99, delta = 1;    // RLS
};

static std::string pjson(const Params& p, int cx, uint64_t cseed) {
    std::string s = std::string("{\"filter\":\"") + KN[p.kind] + "\",\"complex\":" + std::to_string(cx) + ",\"len\":" + std::to_string(p.L);
    if (p.kind == K_RLS) s += ",\"forget\":" + vh::jnum(p.lam) + ",\"diag_load\":" + vh::jnum(p.delta);
    else s += ",\"step\":" + vh::jnum(p.mu) + ",\"leak\":" + vh::jnum(p.leak);
    s += ",\"case_seed\":" + std::to_string(cseed);
    return s;   // caller appends more fields and the closing brace
}

// ------------------------------------------------------------------------------------------------ implementation wrapper
template<class T> struct Impl {
    std::unique_ptr<LmsFilter<T>> lms;
    std::unique_ptr<RlsFilter<T>> rls;
    bool via_temp = false;   // operands passed as temporaries built from slices, result bound to a const reference
    // the Result of the previous call is kept alive (moved, same storage) next to a bit copy: later calls must not change it
    base_array<T> keep_y, keep_e;
    std::vector<T> snap_y, snap_e;
    bool aliased = false;
    explicit Impl(const Params& p) {
        if (p.kind == K_RLS) rls.reset(new RlsFilter<T>(p.L, p.lam, p.delta));
        else lms.reset(new LmsFilter<T>(p.L, p.mu, p.kind == K_NLMS ? LmsType::NLMS : LmsType::LMS, p.leak));
    }
    // copies of the filter object; style 0 copy-construct, 1 vector(n, proto), 2 copy-assign over a used filter of another
    // configuration, 3 returned temporary
    Impl(const Impl& o, int style, vh::Rng& r) {
        via_temp = o.via_temp;
        if (o.lms) lms.reset(copy_of(*o.lms, style, r));
        if (o.rls) rls.reset(copy_of(*o.rls, style, r));
    }
    static LmsFilter<T>* other(const LmsFilter<T>&, int L) { return new LmsFilter<T>(L, 0.37, LmsType::NLMS, 0.5); }
    static RlsFilter<T>* other(const RlsFilter<T>&, int L) { return new RlsFilter<T>(L, 0.93, 7.0); }
    template<class F> static F* copy_of(const F& src, int style, vh::Rng& r) {
        switch (style) {
        case 0: return new F(src);
        case 1: { std::vector<F> v(3, src); return new F(v[r.range(0, 2)]); }
        case 2: {
            const int L2 = r.range(2, 9);
            F* f = other(src, L2);
            base_array<T> gx(L2 + 3), gd(L2 + 3);
            for (int i = 0; i < gx.size(); ++i) { rnd(r, gx[i]); rnd(r, gd[i]); }
            f->process(gx, gd);
            f->set_lock_coeffs(true);
            *f = src;
            return f;
        }
        default: { auto mk = [&]() { F t(src); return t; }; return new F(mk()); }
        }
    }
    void process(const base_array<T>& x, const base_array<T>& d, base_array<T>& y, base_array<T>& e) {
        const int n = x.size();
        base_array<T> ny, ne;
        if (via_temp && n > 0 && d.size() == n) {
            if (rls) { const auto& r = rls->process(x.slice(0, n), base_array<T>(d)); y = r.y; e = r.e; ny = r.y; ne = r.e; }
            else { const auto& r = (*lms)(base_array<T>(x), d.slice(0, n)); y = r.y; e = r.e; ny = r.y; ne = r.e; }
        } else if (rls) { auto r = rls->process(x, d); y = r.y; e = r.e; ny = std::move(r.y); ne = std::move(r.e); }
        else { auto r = (*lms)(x, d); y = r.y; e = r.e; ny = std::move(r.y); ne = std::move(r.e); }
        if (keep_y.size() != (int)snap_y.size() || keep_e.size() != (int)snap_e.size()) aliased = true;
        for (int i = 0; i < keep_y.size() && !aliased; ++i) aliased = !same_bits(keep_y[i], snap_y[i]);
        for (int i = 0; i < keep_e.size() && !aliased; ++i) aliased = !same_bits(keep_e[i], snap_e[i]);
        keep_y = std::move(ny);
        keep_e = std::move(ne);
        snap_y.assign(keep_y.begin(), keep_y.end());
        snap_e.assign(keep_e.begin(), keep_e.end());
    }
    void lock(bool f) { if (rls) rls->set_lock_coeffs(f); else lms->set_lock_coeffs(f); }
    bool locked() const { return rls ? rls->coeffs_locked() : lms->coeffs_locked(); }
    base_array<T> coeffs() const { return rls ? base_array<T>(rls->coeffs()) : lms->coeffs(); }
};

// ------------------------------------------------------------------------------------------------ extended-precision reference recursion
// coefficient c[j] multiplies x(k-j); r[j] = x(k-j).  Output first (a-priori), update afterwards.
struct Ref {
    Params p;
    std::vector<LC> c, r, P, Pu, uP, g, R;
    LD kappa = 1;   // RLS: running max of ||P||_F ||R||_F (>= condition number of the weighted Gram matrix R = P^-1)
    LD cscale = 0;  // LMS/NLMS: running maximum over the whole history of |c[j]| and of every update term |mu e conj(r[j]) / nrm| (what the coefficients' rounding errors are relative to)
    LD min_inter = 1e4000L;   // LMS/NLMS: smallest NON-ZERO magnitude among the products a double evaluation forms (e, mu e, mu e conj(r), leak c, c r): below ~1e-290 the double
                              // computation underflows where this long-double reference (wider exponent range) does not, and no comparison is meaningful
    bool locked = false;
    explicit Ref(const Params& q) : p(q), c(q.L, LC(0)), r(q.L, LC(0)) {
        if (p.kind == K_RLS) {
            P.assign(size_t(p.L) * p.L, LC(0));
            for (int i = 0; i < p.L; ++i) P[size_t(i) * p.L + i] = LC(p.delta);
            Pu.resize(p.L); uP.resize(p.L); g.resize(p.L);
            R.assign(size_t(p.L) * p.L, LC(0));
            for (int i = 0; i < p.L; ++i) R[size_t(i) * p.L + i] = LC(1 / LD(p.delta));
            kappa = p.L;
        }
    }
    void step(LC x, LC d, LC& y, LC& e) {
        const int n = p.L;
        for (int j = n - 1; j > 0; --j) r[j] = r[j - 1];
        r[0] = x;
        y = LC(0);
        for (int j = 0; j < n; ++j) y += c[j] * r[j];
        e = d - y;
        if (locked) return;
        if (p.kind != K_RLS) {
            LD nrm = 1;
            if (p.kind == K_NLMS) {
                LD pu = 0;
                for (int j = 0; j < n; ++j) pu += std::norm(r[j]);
                nrm = pu + EPSD;
            }
            auto seen = [&](LD m) { if (m > 0 && m < min_inter) min_inter = m; };
            seen(std::abs(e)); seen(std::abs(LD(p.mu) * e));
            for (int j = 0; j < n; ++j) {
                const LC du = (LD(p.mu) * e) * std::conj(r[j]) / nrm;
                seen(std::abs(du)); seen(std::abs(du) * nrm); seen(std::abs(c[j] * LD(p.leak))); seen(std::abs(c[j] * r[j])); seen(std::norm(r[j]));
                c[j] = c[j] * LD(p.leak) + du;
                cscale = std::max(cscale, std::max(std::abs(du), std::abs(c[j])));
            }
            return;
        }
        const LD lam = p.lam;
        for (int i = 0; i < n; ++i) {
            LC a(0), b(0);
            for (int k = 0; k < n; ++k) { a += P[size_t(i) * n + k] * r[k]; b += std::conj(r[k]) * P[size_t(k) * n + i]; }
            Pu[i] = a; uP[i] = b;
        }
        LC den(lam);
        for (int i = 0; i < n; ++i) den += uP[i] * r[i];
        for (int i = 0; i < n; ++i) g[i] = Pu[i] / den;
        for (int i = 0; i < n; ++i)
            for (int k = 0; k < n; ++k) P[size_t(i) * n + k] = (LD(1) / lam) * (P[size_t(i) * n + k] - g[i] * uP[k]);
        for (int i = 0; i < n; ++i) c[i] += std::conj(g[i]) * e;
        LD fp = 0, fr = 0;
        for (int i = 0; i < n; ++i)
            for (int k = 0; k < n; ++k) {
                R[size_t(i) * n + k] = lam * R[size_t(i) * n + k] + r[i] * std::conj(r[k]);
                fp += std::norm(P[size_t(i) * n + k]);
                fr += std::norm(R[size_t(i) * n + k]);
            }
        kappa = std::max(kappa, sqrtl(fp) * sqrtl(fr));
    }
};

// ------------------------------------------------------------------------------------------------ scenario
template<class T> struct Frame {
    bool lock = false;
    bool mismatch = false;   // len(x) != len(d): must throw, state untouched
    base_array<T> x, d;
};

// comparison with the reference recursion: LMS/NLMS relative 1e-9; RLS relative 1e-12 x kappa, kappa = running max of
// ||P||_F ||R||_F (conditioning of the weighted Gram matrix, evaluated in the reference)
static const LD TOL_LMS = 1e-9L, TOL_RLS = 1e-12L;
// absolute floor of the reference comparisons: next to the underflow threshold (scale classes 1e-150, 1e-300) products become
// denormal and no relative statement holds; there the bit-exact correspondence with the model (CORR) is the check
static const LD ABS_FLOOR = 1e-280L;
static const int DIGEST_STRIDE = 4093;
static const LD TOL_WLS_FWD = 1e-7L, TOL_WLS_BWD = 1e-9L;
static long long worst_wls_fwd_e15 = 0, worst_rls_out_e18 = 0, worst_rls_coef_e18 = 0;
static long long worst_ref_out_e15 = 0, worst_ref_coef_e15 = 0, worst_fir_ratio_e3 = 0, worst_wls_e15 = 0, worst_mis_e12 = 0;
static void upd(long long& w, LD v, LD unit) {
    LD q = v / unit;
    long long z = q > 9e18L ? (long long)9e18 : (long long)q;
    if (z > w) w = z;
}

template<class T> static std::string corr_lhs(const Params& p, const std::vector<Frame<T>>& fr, int mode) {
    std::string s;
    if (p.kind == K_RLS) s = "rls " + std::to_string(Tr<T>::cx) + " " + std::to_string(p.L) + " " + vh::hx(p.lam) + " " + vh::hx(p.delta);
    else s = "lms " + std::to_string(Tr<T>::cx) + " " + std::to_string(p.kind == K_NLMS ? 1 : 0) + " " + std::to_string(p.L) + " " + vh::hx(p.mu) + " " + vh::hx(p.leak);
    s += " " + std::to_string(mode) + " " + std::to_string(fr.size());
    for (auto& f : fr) s += std::string(" ") + (f.lock ? "1" : "0") + " " + vh::hxs(f.x) + " " + vh::hxs(f.d);
    return s;
}

template<class T> static std::string frames_json(const std::vector<Frame<T>>& fr) {
    std::string s = "[";
    for (size_t i = 0; i < fr.size() && i < 40; ++i) {
        if (i) s += ",";
        s += "[" + std::to_string(fr[i].lock ? 1 : 0) + "," + std::to_string(fr[i].x.size()) + "," + std::to_string(fr[i].d.size()) + "]";
    }
    return s + (fr.size() > 40 ? ",\"...\"]" : "]");
}

// FIR value sum_j c_j x(k-j) and the magnitude sum, from the complete input history `hist` (hist.back() = x(k))
static void fir_at(const std::vector<LC>& c, const std::vector<LC>& hist, size_t k, LC& v, LD& mag) {
    v = LC(0); mag = 0;
    for (size_t j = 0; j < c.size() && j <= k; ++j) { v += c[j] * hist[k - j]; mag += std::abs(c[j]) * std::abs(hist[k - j]); }
}

// CORR mode 2: every DIGEST_STRIDE-th and the last element
template<class T> static base_array<T> digest(const base_array<T>& a) {
    std::vector<T> v;
    const int n = a.size();
    for (int k = 0; k < n; k += DIGEST_STRIDE) v.push_back(a[k]);
    if (n > 0 && (n - 1) % DIGEST_STRIDE != 0) v.push_back(a[n - 1]);
    base_array<T> r((int)v.size());
    for (size_t i = 0; i < v.size(); ++i) r[i] = v[i];
    return r;
}

// captured outputs of a scenario (all accepted calls concatenated) for bit comparisons between scenarios
template<class T> struct Cap {
    std::vector<T> y, e;
    std::vector<T> c;
    bool complete = true;
};
struct Opt {
    const std::vector<LC>* h = nullptr;   // desired = this unknown system, noise-free: NLMS with leak 1 must not increase the misalignment
    bool no_ref = false;                  // skip the reference recursion (the scenario is bit-compared with one that ran it)
    bool via_temp = false;
    unsigned watch = 120;
    // copy test: before frame `copy_at` the filter is replaced by a copy of itself (style), the original then processes
    // other data and is destroyed
    int copy_at = -1, copy_style = 0;
};

static LD misalign(const std::vector<LC>& h, const std::vector<LC>& c) {
    LD num = 0, den = 0;
    for (size_t j = 0; j < h.size(); ++j) { num += std::norm(c[j] - h[j]); den += std::norm(h[j]); }
    return num / std::max(den, 1e-4000L);
}

// runs one scenario on the implementation with all per-call oracles; emits the CORR line if mode >= 0.
// tolref: relative tolerance of the comparison with the reference recursion (<= 0: skip that comparison)
template<class T>
static void run_scenario(const Params& p, const std::vector<Frame<T>>& fr, uint64_t cseed, int corr_mode, LD tolref, const char* what,
                         Cap<T>* cap = nullptr, const Opt& opt = Opt()) {
    const std::string kn = KN[p.kind];
    const std::string js0 = pjson(p, Tr<T>::cx, cseed) + ",\"scenario\":\"" + what + "\",\"frames_lock_nx_nd\":" + frames_json(fr);
    vh::set_current("C12:hang-or-crash:" + kn, js0 + "}");
    vh::watch(opt.watch);
    std::unique_ptr<Impl<T>> fp(new Impl<T>(p));
    fp->via_temp = opt.via_temp;
    Ref ref(p);
    std::vector<LC> hist;
    std::string rhs;
    if (opt.no_ref) tolref = 0;
    const bool lock_always = (cseed & 1) != 0;
    bool cur_lock = false;
    out.stat(lock_always ? "lock_set_before_every_call" : "lock_set_on_change_only");
    LD scale = 1e-300L;
    bool failed_ref = false;
    out.stat(std::string("scen_") + kn + (Tr<T>::cx ? "_cx" : "_re"));
    out.stat("len_bucket_" + std::to_string(p.L <= 4 ? 4 : p.L <= 8 ? 8 : p.L <= 16 ? 16 : p.L <= 32 ? 32 : 64));
    for (size_t fi = 0; fi < fr.size(); ++fi) {
        const Frame<T>& F = fr[fi];
        const int n = F.x.size();
        const std::string js = js0 + ",\"frame\":" + std::to_string(fi);
        if ((int)fi == opt.copy_at) {
            vh::Rng cr(cseed ^ 0x5bd1e995u);
            std::unique_ptr<Impl<T>> cp(new Impl<T>(*fp, opt.copy_style, cr));
            if (cp->locked() != fp->locked()) out.fail("C12:copy-differs:" + kn, js + ",\"what\":\"lock flag\"}");
            // the original goes on with other data, then dies; the copy must not notice
            base_array<T> gx(p.L + 5), gd(p.L + 5), gy, ge;
            for (int i = 0; i < gx.size(); ++i) { rnd(cr, gx[i]); rnd(cr, gd[i]); }
            fp->lock(false);
            fp->process(gx, gd, gy, ge);
            fp = std::move(cp);
            out.stat("copies_style_" + std::to_string(opt.copy_style));
        }
        Impl<T>& f = *fp;
        // set_lock_coeffs before every call, or (every other scenario) only when the schedule changes - then a call in between,
        // accepted or rejected, must not have touched the flag
        if (lock_always || F.lock != cur_lock) f.lock(F.lock);
        cur_lock = F.lock;
        ref.locked = F.lock;
        if (f.locked() != F.lock) out.fail("C12:lock-flag:" + kn, js + "}");
        const base_array<T> c0 = f.coeffs();
        if (c0.size() != p.L) { out.fail("C12:coeffs-size:" + kn, js + ",\"got\":" + std::to_string(c0.size()) + "}"); break; }
        std::vector<LC> c0L(p.L);
        for (int j = 0; j < p.L; ++j) c0L[j] = toL(c0[j]);
        base_array<T> y, e;
        out.n_oracle++;
        if (F.mismatch) {
            bool threw = false;
            try { f.process(F.x, F.d, y, e); } catch (const std::exception&) { threw = true; }
            const base_array<T> c1 = f.coeffs();
            bool same = c1.size() == c0.size();
            for (int j = 0; same && j < p.L; ++j) same = same_bits(c0[j], c1[j]);
            if (!threw || !same) out.fail("C12:size-mismatch:" + kn, js + ",\"threw\":" + (threw ? "1" : "0") + "}");
            out.stat("frames_mismatch");
            if (corr_mode == 0) rhs += std::string(threw ? " ERR " : " NOERR ") + vh::hxs(c1);
            if (corr_mode == 2) rhs += threw ? " ERR" : " NOERR";
            out.stat(F.x.size() > 65536 || F.d.size() > 65536 ? "frames_mismatch_long" : F.x.size() == 0 || F.d.size() == 0 ? "frames_mismatch_one_empty" : "frames_mismatch_short");
            if (fi == 0) out.stat("frames_mismatch_first_call");
            continue;
        }
        try {
            f.process(F.x, F.d, y, e);
        } catch (const std::exception& ex) {
            out.fail("C12:threw:" + kn, js + ",\"what\":\"" + std::string(ex.what()).substr(0, 80) + "\"}");
            if (corr_mode == 0) rhs += " ERR " + vh::hxs(f.coeffs());
            if (corr_mode == 2) rhs += " ERR";
            if (cap) cap->complete = false;
            continue;
        }
        const base_array<T> c1 = f.coeffs();
        if (cap) { cap->y.insert(cap->y.end(), y.begin(), y.end()); cap->e.insert(cap->e.end(), e.begin(), e.end()); }
        if (n > 262144) out.stat("frame_gt_2^18"); else if (n > 131072) out.stat("frame_gt_2^17"); else if (n > 65536) out.stat("frame_gt_2^16");
        if (n > 65536 && n % 65536 == 0) out.stat("frame_multiple_of_65536");
        if (n > 65536 && n % 49152 == 0) out.stat("frame_multiple_of_49152");
        if (n > 65536) out.stat(fi == 0 ? "long_frame_first_call" : "long_frame_after_others");
        if (n > 65536 && F.lock) out.stat("long_frame_locked");
        out.stat(F.lock ? "frames_locked" : "frames_adapting");
        out.stat(n == 0 ? "frame_n0" : n == 1 ? "frame_n1" : n < p.L - 1 ? "frame_lt_len-1" : n == p.L - 1 ? "frame_eq_len-1" : n <= p.L ? "frame_eq_len" : "frame_gt_len");
        out.stat("samples", n);
        if (corr_mode == 0) rhs += " " + vh::hxs(y) + " " + vh::hxs(e) + " " + vh::hxs(c1);
        if (corr_mode == 2) rhs += " " + vh::hxs(digest(y)) + " " + vh::hxs(digest(e));
        if (y.size() != n || e.size() != n) { out.fail("C12:result-size:" + kn, js + "}"); break; }
        // --- e = d - y exactly; finiteness
        for (int k = 0; k < n; ++k) {
            const T dmy = F.d[k] - y[k];
            if (!same_bits(e[k], dmy)) { out.fail("C12:error-not-d-minus-y:" + kn, js + ",\"k\":" + std::to_string(k) + "}"); break; }
            if (!finiteT(y[k]) || !finiteT(e[k])) { out.fail("C12:non-finite:" + kn, js + ",\"k\":" + std::to_string(k) + "}"); break; }
        }
        // --- lock: coefficients bit-identical
        if (F.lock) {
            for (int j = 0; j < p.L; ++j)
                if (!same_bits(c0[j], c1[j])) { out.fail("C12:locked-coeffs-changed:" + kn, js + ",\"j\":" + std::to_string(j) + "}"); break; }
        }
        // --- per sample: FIR with the snapshot (k = 0, or every k when locked), reference recursion
        for (int k = 0; k < n; ++k) {
            hist.push_back(toL(F.x[k]));
            const size_t kk = hist.size() - 1;
            if (k == 0 || F.lock) {
                LC v; LD mag;
                fir_at(c0L, hist, kk, v, mag);
                const LD err = std::abs(v - toL(y[k]));
                const LD bound = 4 * (p.L + 2) * EPSD * mag + 1e-300L;
                upd(worst_fir_ratio_e3, err / bound, 1e-3L);
                if (!(err <= bound))
                    out.fail(std::string(F.lock ? "C12:locked-not-fir:" : "C12:apriori-output:") + kn,
                             js + ",\"k\":" + std::to_string(k) + ",\"err\":" + vh::jnum((double)err) + ",\"bound\":" + vh::jnum((double)bound) + "}");
                out.stat(F.lock ? "chk_locked_fir" : "chk_apriori_snapshot");
            }
            if (opt.no_ref) continue;
            LC yr, er;
            ref.step(toL(F.x[k]), toL(F.d[k]), yr, er);
            scale = std::max(scale, std::max(std::abs(toL(F.d[k])), std::abs(yr)));
            if (tolref > 0 && !failed_ref && p.kind != K_RLS && ref.min_inter < 1e-290L) { failed_ref = true; out.stat("ref_comparison_skipped_underflowing_products"); }
            if (tolref > 0 && !failed_ref) {
                const LD err = std::max(std::abs(yr - toL(y[k])), std::abs(er - toL(e[k])));
                if (err > ABS_FLOOR) upd(p.kind == K_RLS ? worst_rls_out_e18 : worst_ref_out_e15, err / (scale * ref.kappa), p.kind == K_RLS ? 1e-18L : 1e-15L);
                if (!(err <= tolref * ref.kappa * scale + ABS_FLOOR)) {
                    failed_ref = true;
                    out.fail("C12:reference-output:" + kn, js + ",\"k\":" + std::to_string(k) + ",\"err\":" + vh::jnum((double)err) + ",\"scale\":" + vh::jnum((double)scale) + "}");
                }
            }
        }
        if (tolref > 0 && !failed_ref) {
            LD cs = 1e-300L, ce = 0;
            for (int j = 0; j < p.L; ++j) { cs = std::max(cs, std::abs(ref.c[j])); ce = std::max(ce, std::abs(ref.c[j] - toL(c1[j]))); }
            // coefficients that have shrunk (leakage, cancelling updates) keep the rounding errors of the larger terms they were formed from
            if (p.kind != K_RLS) cs = std::max(cs, ref.cscale);
            if (ce > ABS_FLOOR) upd(p.kind == K_RLS ? worst_rls_coef_e18 : worst_ref_coef_e15, ce / (cs * ref.kappa), p.kind == K_RLS ? 1e-18L : 1e-15L);
            if (!(ce <= tolref * ref.kappa * cs + ABS_FLOOR)) {
                failed_ref = true;
                out.fail("C12:reference-coeffs:" + kn, js + ",\"err\":" + vh::jnum((double)ce) + ",\"scale\":" + vh::jnum((double)cs) + "}");
            }
        }
        // --- NLMS, leak 1, noise-free desired signal of the system h: the misalignment does not increase (exact over R and C for
        //     0 < mu < 2, every sample; here from call to call, within rounding)
        if (opt.h && p.kind == K_NLMS && p.leak == 1 && p.mu >= 0 && p.mu <= 2 && !F.lock) {
            std::vector<LC> c1L(p.L);
            for (int j = 0; j < p.L; ++j) c1L[j] = toL(c1[j]);
            const LD m0 = misalign(*opt.h, c0L), m1 = misalign(*opt.h, c1L);
            out.stat("chk_misalignment_monotone");
            if (!(m1 <= m0 * (1 + 1e-9L) + 1e-24L))
                out.fail("C12:misalignment-increased:" + kn, js + ",\"before\":" + vh::jnum((double)m0) + ",\"after\":" + vh::jnum((double)m1) + "}");
        }
        if (f.aliased) { out.fail("C12:result-aliased:" + kn, js + "}"); f.aliased = false; }
    }
    vh::unwatch();
    vh::clear_current();
    if (cap) { const base_array<T> cN = fp->coeffs(); cap->c.assign(cN.begin(), cN.end()); }
    if (corr_mode == 2) rhs += " " + vh::hxs(fp->coeffs());
    if (corr_mode == 1) rhs = " " + vh::hxs(fp->coeffs());
    if (corr_mode >= 0) out.corr(corr_lhs(p, fr, corr_mode), rhs.empty() ? "" : rhs.substr(1));
    out.sample(js0 + "}");
}

// ------------------------------------------------------------------------------------------------ generators
static const int LENS_EDGE[] = {2, 3, 4, 5, 7, 8, 16, 31, 32, 33, 63, 64};
static int pick_len(vh::Rng& r, int maxL) {
    int L = r.coin() ? LENS_EDGE[r.range(0, 11)] : r.range(2, 64);
    while (L > maxL) L = std::max(2, L / 2);
    return L;
}
static const double NLMS_MU[] = {0.01, 0.05, 0.25, 0.5, 1.0, 1.5, 1.9, 1.99};
static const double LEAKS[] = {1.0, 1.0, 0.9999, 0.99, 0.9};
static const double LAMS[] = {0.9, 0.95, 0.98, 0.99, 0.999, 1.0};
static const double DELTAS[] = {1e-2, 1e-1, 1.0, 1e1, 1e2, 1e3, 1e4};

static Params gen_params(vh::Rng& r, Kind k, int maxL, double xpow) {
    Params p;
    p.kind = k;
    p.L = pick_len(r, maxL);
    if (k == K_NLMS) p.mu = r.coin() ? NLMS_MU[r.range(0, 7)] : 0.01 + 1.98 * r.unit();
    if (k == K_LMS) {   // stable range of LMS for white input of power xpow: 0 < mu < 2 / (3 L xpow)
        static const double F[] = {0.01, 0.1, 0.3, 0.6, 0.9};
        const double f = r.coin() ? F[r.range(0, 4)] : 0.01 + 0.9 * r.unit();
        p.mu = f * 2.0 / (3.0 * p.L * xpow);
    }
    p.leak = LEAKS[r.range(0, 4)];
    p.lam = r.coin() ? LAMS[r.range(0, 5)] : 0.9 + 0.1 * r.unit();
    p.delta = r.coin() ? DELTAS[r.range(0, 6)] : std::pow(10.0, -2 + 6 * r.unit());
    return p;
}

template<class T> static std::vector<LC> gen_system(vh::Rng& r, int L, int& m) {
    m = r.coin() ? L : r.range(1, L);   // unknown system no longer than the filter
    std::vector<LC> h(L, LC(0));
    for (int j = 0; j < m; ++j) { T v; rnd(r, v); h[j] = toL(v); }
    if (std::abs(h[m - 1]) < 1e-3L) h[m - 1] = LC(0.5L);
    return h;
}

// frame sizes: random framing of `total` samples; style 0 = all single samples, 1 = small, 2 = around len, 3 = large
static std::vector<int> gen_framing(vh::Rng& r, int total, int L, int style) {
    std::vector<int> v;
    int left = total;
    while (left > 0) {
        int n;
        switch (style) {
        case 0: n = 1; break;
        case 1: n = r.range(0, 3); break;
        case 2: { static const int dl[] = {-2, -1, 0, 1, 2}; n = std::max(0, L + dl[r.range(0, 4)] - (r.coin() ? 1 : 0)); break; }
        default: n = r.range(1, std::max(2, total)); break;
        }
        n = std::min(n, left);
        v.push_back(n);
        left -= n;
    }
    if (v.empty() || r.range(0, 5) == 0) v.insert(v.begin() + r.range(0, (int)v.size()), 0);   // an empty call
    return v;
}

// input kinds of the arbitrary-pair scenarios (5..8: the scale-class scenarios)
static const char* XK[] = {"white", "white-scaled", "with-zero-stretches", "impulsive", "dc",
                           "zero-runs-longer-than-delay-line", "negative-zero-runs", "denormals-mixed-in", "powers-of-two"};
static inline void negzero(real_t& v, int) { v = -0.0; }
static inline void negzero(cmplx_t& v, int which) { v.re = (which & 1) ? -0.0 : 0.0; v.im = (which & 2) ? -0.0 : 0.0; }
static inline void pow2(vh::Rng& r, real_t& v, double s2) { v = std::ldexp(r.coin() ? s2 : -s2, r.range(-1, 1)); }
static inline void pow2(vh::Rng& r, cmplx_t& v, double s2) { pow2(r, v.re, s2); if (r.coin()) v.im = 0; else pow2(r, v.im, s2); }
// a rejected call: len(x) != len(d)
template<class T> static Frame<T> gen_mismatch(vh::Rng& r, bool lock, int L, int style) {
    Frame<T> M;
    M.lock = lock;
    M.mismatch = true;
    int nx, nd;
    if (style <= 1) { nx = r.range(0, 4); nd = nx + 1 + r.range(0, 2); }
    else {
        switch (r.range(0, 3)) {
        case 0: nx = 0; nd = r.range(1, 2 * L + 2); break;                 // one side empty
        case 1: nx = r.range(1, 2 * L + 5); nd = nx + 1; break;             // off by one
        case 2: nx = r.range(L, 3 * L + 5); nd = nx - r.range(1, L); break; // differs by up to the delay-line length
        default: nx = r.range(0, 4); nd = nx + 1 + r.range(0, 2); break;
        }
    }
    M.x = base_array<T>(nx);
    M.d = base_array<T>(nd);
    if (r.coin()) std::swap(M.x, M.d);
    for (int k = 0; k < M.x.size(); ++k) rnd(r, M.x[k]);
    for (int k = 0; k < M.d.size(); ++k) rnd(r, M.d[k]);
    return M;
}
// dkind: 0 noise-free output of the unknown system, 1 noisy, 2 unrelated, 3 exact zeros, 4 negative zeros
template<class T>
static std::vector<Frame<T>> gen_frames(vh::Rng& r, const Params& p, int total, int fstyle, int xkind, double xscale, int dkind, bool locks, bool mism,
                                        double hscale = 1, int mism_style = 1, std::vector<LC>* h_out = nullptr) {
    std::vector<int> sz = gen_framing(r, total, p.L, fstyle);
    int msys;
    std::vector<LC> h = gen_system<T>(r, p.L, msys);
    if (hscale != 1) for (auto& v : h) v *= LD(hscale);
    if (h_out) *h_out = h;
    std::vector<LC> hist;
    std::vector<Frame<T>> fr;
    bool lock = false;
    bool zero_run = false;
    int zleft = 0;
    const double xs = (xkind == 1 || xkind >= 4) ? xscale : 1;
    const double s2 = std::ldexp(1.0, (int)std::lround(std::log2(xs)));
    if (mism && mism_style >= 2 && r.range(0, 2) == 0) fr.push_back(gen_mismatch<T>(r, lock, p.L, mism_style));   // the first call is rejected
    for (size_t i = 0; i < sz.size(); ++i) {
        Frame<T> F;
        if (locks && r.range(0, 3) == 0) lock = !lock;
        F.lock = lock;
        F.x = base_array<T>(sz[i]);
        F.d = base_array<T>(sz[i]);
        for (int k = 0; k < sz[i]; ++k) {
            T v{};
            switch (xkind) {
            case 0: rnd(r, v); break;
            case 1: rnd(r, v); scl(v, xscale); break;
            case 2: if (r.range(0, 9) == 0) zero_run = !zero_run; if (!zero_run) rnd(r, v); break;
            case 3: if (r.range(0, 7) == 0) { rnd(r, v); scl(v, 4); } break;
            case 4: v = T(1); scl(v, xscale); break;
            case 5: case 6:   // exact zeros in runs of at least len-1 .. 2 len + 3 samples (longer than any internal history)
                if (zleft == 0 && r.range(0, p.L + 8) == 0) zleft = p.L - 1 + r.range(0, p.L + 4);
                if (zleft > 0) { --zleft; if (xkind == 6) negzero(v, r.range(0, 3)); }
                else { rnd(r, v); scl(v, xscale); }
                break;
            case 7: rnd(r, v); scl(v, r.range(0, 2) == 0 ? 1e-310 : xscale); break;
            default: pow2(r, v, s2); break;
            }
            F.x[k] = v;
            hist.push_back(toL(v));
            LC dv(0);
            for (int j = 0; j < p.L && j < (int)hist.size(); ++j) dv += h[j] * hist[hist.size() - 1 - j];
            T dn; rnd(r, dn);
            if (dkind == 0) fromL(dv, F.d[k]);                       // noise-free system output
            else if (dkind == 1) { fromL(dv, F.d[k]); scl(dn, 0.1 * xs * hscale); F.d[k] = F.d[k] + dn; }   // noisy
            else if (dkind == 2) { scl(dn, xs * hscale); F.d[k] = dn; }   // unrelated desired signal
            else if (dkind == 3) F.d[k] = T{};
            else negzero(F.d[k], r.range(0, 3));
        }
        fr.push_back(F);
        if (mism && r.range(0, mism_style >= 2 ? 2 : 6) == 0) fr.push_back(gen_mismatch<T>(r, lock, p.L, mism_style));
    }
    return fr;
}

// ------------------------------------------------------------------------------------------------ arbitrary input/desired pairs, short horizons
template<class T> static void arbitrary_pairs(vh::Rng& top, int count, int maxL, int corr_every) {
    for (int it = 0; it < count; ++it) {
        const uint64_t cseed = top.next();
        vh::Rng r(cseed);
        const Kind k = Kind(it % 3);
        const int xkind = (it / 3) % 5;
        double xscale = 1;
        if (xkind == 1 || xkind == 4) xscale = std::pow(10.0, r.range(-3, 3));
        double xpow = xkind == 1 ? xscale * xscale : xkind == 4 ? xscale * xscale : xkind == 3 ? 2.0 : 1.0;
        Params p = gen_params(r, k, maxL, xpow);
        if (k == K_LMS && xkind == 4) p.mu *= 0.5;
        const int total = r.range(1, 3 * p.L + 24);
        const int fstyle = r.range(0, 3);
        const int dkind = r.range(0, 2);
        auto fr = gen_frames<T>(r, p, total, fstyle, xkind, xscale, dkind, r.range(0, 2) != 0, r.range(0, 3) == 0);
        out.stat(std::string("xkind_") + XK[xkind]);
        out.stat("framing_style_" + std::to_string(fstyle));
        out.stat("dkind_" + std::to_string(dkind));
        // the RLS recursion amplifies rounding by the conditioning of the weighted Gram matrix; short horizons
        const LD tol = k == K_RLS ? TOL_RLS : TOL_LMS;
        run_scenario<T>(p, fr, cseed, (it % corr_every) == 0 ? 0 : -1, tol, "arbitrary-pair");
    }
}

// ------------------------------------------------------------------------------------------------ scale classes of every numeric input
static const double SX_LMS[] = {1e-300, 1e-150, 1e-17, 1e-8, 1, 1e8, 1e100};          // absolute input scale
static const double SX_RLS[] = {1e-300, 1e-140, 1e-17, 1e-8, 1, 1e8, 1e100, 1e140};
static const double HS[] = {1e-8, 1, 1, 1e8};                                          // scale of the unknown system
static const double MU_NLMS_X[] = {4.9406564584124654e-324, 2.2250738585072014e-308, 1e-300, 1e-17, 2.220446049250313e-16, 1e-8,
                                   0.5, 1.0, 1.9999999999999998, 2.0, 0.0, -0.0};
static const double MU_LMS_F[] = {1e-300, 1e-17, 1e-8, 0.01, 0.3, 0.9, 0.0, -0.0};     // fraction of the stable bound 2 / (3 len power)
static const double LEAK_X[] = {1.0, 1.0, 0.99999999999999989, 0.5, 1e-8, 1e-300, 0.0};
static const double LAM_X[] = {1.0, 0.99999999999999989, 0.999999, 0.95, 0.9};
static const double DELTA0_X[] = {1e-8, 1e-2, 1.0, 1e4, 1e8};                          // diagonal load x input power

template<class T> static void scaled_pairs(vh::Rng& top, int count, int maxL, int corr_every) {
    for (int it = 0; it < count; ++it) {
        const uint64_t cseed = top.next();
        vh::Rng r(cseed);
        const Kind k = Kind(it % 3);
        const int xkind = (5 + (it / 3) % 4 == 8 && r.coin()) ? 1 : 5 + (it / 3) % 4;
        Params p;
        p.kind = k;
        p.L = pick_len(r, maxL);
        const double sx = k == K_RLS ? SX_RLS[r.range(0, 7)] : SX_LMS[r.range(0, 6)];
        double hs = HS[r.range(0, 3)];
        const double xpow = (xkind == 8 ? 4.0 : 1.0) * sx * sx;
        if (k == K_NLMS) { p.mu = MU_NLMS_X[r.range(0, 11)]; p.leak = LEAK_X[r.range(0, 6)]; }
        if (k == K_LMS) {
            p.mu = MU_LMS_F[r.range(0, 7)] * std::min(1e300, 2.0 / (3.0 * p.L * std::max(xpow, 1e-320)));
            p.leak = LEAK_X[r.range(0, 6)];
        }
        bool matched = true;
        if (k == K_RLS) {
            p.lam = LAM_X[r.range(0, 4)];
            // the diagonal load scales with 1 / input power (x -> s x, d -> s d, delta -> delta / s^2 leaves the coefficients alone);
            // at 1e-300 the matching load is not representable: ordinary loads there (everything underflows)
            matched = sx > 1e-200;
            p.delta = matched ? DELTA0_X[r.range(0, 4)] / (sx * sx) : DELTAS[r.range(0, 6)];
            if (sx >= 1e140 && hs > 1) hs = 1;
        }
        const int total = r.range(1, 3 * p.L + 24) + (r.coin() ? 2 * p.L + 8 : 0);
        const int fstyle = r.range(0, 3);
        const int dkind = r.range(0, 5) == 5 ? 0 : r.range(0, 4);
        std::vector<LC> h;
        auto fr = gen_frames<T>(r, p, total, fstyle, xkind, sx, dkind, r.range(0, 2) != 0, r.coin(), hs, 2, &h);
        out.stat(std::string("xkind_") + XK[xkind]);
        out.stat("xscale_1e" + std::to_string((int)std::lround(std::log10(sx))));
        out.stat("dkind_" + std::to_string(dkind));
        if (k == K_NLMS) out.stat(p.mu == 0 ? "nlms_step_zero" : p.mu < 2.3e-16 ? "nlms_step_below_eps" : p.mu >= 1.9999999999999998 ? "nlms_step_at_2" : "nlms_step_inside");
        if (k != K_RLS) out.stat(p.leak == 1 ? "leak_1" : p.leak == 0 ? "leak_0" : p.leak > 0.9 ? "leak_1-ulp" : "leak_small");
        if (k == K_RLS) out.stat(matched ? "rls_load_matched_to_scale" : "rls_load_unmatched");
        Opt o;
        if (dkind == 0) o.h = &h;
        o.via_temp = r.range(0, 3) == 0;
        run_scenario<T>(p, fr, cseed, (it % corr_every) == 0 ? 0 : -1, k == K_RLS ? TOL_RLS : TOL_LMS, "scale-class", nullptr, o);
    }
}

// ------------------------------------------------------------------------------------------------ copies of the stateful objects
template<class T> static void copy_cases(vh::Rng& top, int count) {
    for (int it = 0; it < count; ++it) {
        const uint64_t cseed = top.next();
        vh::Rng r(cseed);
        const Kind k = Kind(it % 3);
        Params p = gen_params(r, k, it % 2 ? 64 : 8, 1.0);
        const int total = r.range(1, 3 * p.L + 24);
        auto fr = gen_frames<T>(r, p, total, r.range(0, 3), r.range(0, 3) == 0 ? 2 : 0, 1.0, r.range(0, 2), r.coin(), false);
        Cap<T> a, b;
        Opt oa, ob;
        ob.no_ref = true;
        ob.copy_at = r.range(0, (int)fr.size() - 1);
        ob.copy_style = (it / 3) % 4;
        run_scenario<T>(p, fr, cseed, -1, k == K_RLS ? TOL_RLS : TOL_LMS, "copy-reference", &a, oa);
        run_scenario<T>(p, fr, cseed, -1, 0, "copy-midstream", &b, ob);
        out.n_oracle++;
        bool same = a.complete && b.complete && a.y.size() == b.y.size() && a.e.size() == b.e.size() && a.c.size() == b.c.size();
        long long at = -1;
        for (size_t i = 0; same && i < a.y.size(); ++i) if (!same_bits(a.y[i], b.y[i]) || !same_bits(a.e[i], b.e[i])) { same = false; at = (long long)i; }
        for (size_t i = 0; same && i < a.c.size(); ++i) if (!same_bits(a.c[i], b.c[i])) { same = false; at = -2 - (long long)i; }
        if (!same)
            out.fail(std::string("C12:copy-differs:") + KN[k], pjson(p, Tr<T>::cx, cseed) + ",\"scenario\":\"copy-midstream\",\"copy_before_frame\":" + std::to_string(ob.copy_at) +
                     ",\"copy_style\":" + std::to_string(ob.copy_style) + ",\"first_difference\":" + std::to_string(at) + ",\"frames_lock_nx_nd\":" + frames_json(fr) + "}");
    }
}

// ------------------------------------------------------------------------------------------------ long single calls
// one process() call of `nlong` samples inside a stream (small calls before it unless `first`, small calls after it, optionally
// rejected long calls around it and a second, locked, long call), against (a) the per-call oracles and the reference recursion
// over the whole stream, (b) the same stream fed to a second filter in small frames: bit-identical y, e, coeffs()
// noisy: desired = system output + noise (the adaptation never settles, so every later bit depends on every update - the sharp form
// of the bit comparison); otherwise noise-free (convergence, misalignment)
template<class T> static void long_call(vh::Rng& top, Kind k, int L, int nlong, int variant, int corr_mode, bool noisy) {
    const uint64_t cseed = top.next();
    vh::Rng r(cseed);
    Params p;
    p.kind = k;
    p.L = L;
    static const double MU_N[] = {0.25, 0.5, 1.0, 1.5};
    static const double MU_F[] = {0.1, 0.3, 0.6};
    static const double LAM_L[] = {0.95, 0.99, 0.999, 1.0};
    static const double DEL_L[] = {1.0, 10.0, 100.0, 0.1};
    if (k == K_NLMS) { p.mu = MU_N[r.range(0, 3)]; p.leak = 1; }
    if (k == K_LMS) { p.mu = MU_F[r.range(0, 2)] * 2.0 / (3.0 * L); p.leak = LEAKS[r.range(0, 4)]; }
    if (k == K_RLS) { p.lam = LAM_L[r.range(0, 3)]; p.delta = DEL_L[r.range(0, p.lam == 1.0 ? 2 : 3)]; }
    const bool first = variant & 1, rejected = variant & 2, second_locked = variant & 4;
    const int dkind = noisy ? 1 : 0;
    out.stat(noisy ? "long_desired_noisy" : "long_desired_noise_free");
    int msys;
    std::vector<LC> h = gen_system<T>(r, L, msys);
    // exact-zero runs longer than the delay line inside the stream; for RLS bounded so that the covariance (growing by
    // 1 / lambda per silent sample - inherent to the algorithm) stays below 1e6 x its level
    const int zmax = (k == K_RLS && p.lam < 1) ? std::max(L + 1, std::min(3000, (int)(13.8 / -std::log(p.lam)))) : 3000;
    std::vector<LC> hist(L, LC(0));
    size_t pos = 0;
    int zleft = 0;
    auto mk = [&](int n, bool lock) {
        Frame<T> F;
        F.lock = lock;
        F.x = base_array<T>(n);
        F.d = base_array<T>(n);
        for (int i = 0; i < n; ++i) {
            T v{};
            if (zleft == 0 && r.range(0, 39999) == 0) zleft = r.range(L, zmax);
            if (zleft > 0) --zleft; else rnd(r, v);
            F.x[i] = v;
            hist[pos % L] = toL(v);
            LC dv(0);
            for (int j = 0; j < L; ++j) dv += h[j] * hist[(pos + L - j) % L];
            ++pos;
            fromL(dv, F.d[i]);
            if (dkind == 1) { T dn; rnd(r, dn); scl(dn, 0.1); F.d[i] = F.d[i] + dn; }
        }
        return F;
    };
    auto reject = [&](int nx, int nd, bool lock) {
        Frame<T> M;
        M.lock = lock;
        M.mismatch = true;
        M.x = base_array<T>(nx);
        M.d = base_array<T>(nd);
        for (int i = 0; i < nx; ++i) rnd(r, M.x[i]);
        for (int i = 0; i < nd; ++i) rnd(r, M.d[i]);
        return M;
    };
    std::vector<Frame<T>> A;
    if (!first) {
        A.push_back(mk(r.range(0, 2 * L), false));
        A.push_back(mk(r.range(1, 300), r.coin()));
        if (r.coin()) A.push_back(mk(0, false));
        A.push_back(mk(L - 1, false));
    }
    if (rejected) A.push_back(r.coin() ? reject(nlong, nlong - 1, false) : reject(nlong, 0, false));
    A.push_back(mk(nlong, false));
    if (rejected) A.push_back(reject(r.range(1, 5), nlong + 1, false));
    A.push_back(mk(L - 1, false));
    A.push_back(mk(1, true));
    A.push_back(mk(r.range(1, 200), false));
    if (second_locked) {
        A.push_back(mk(65536 + r.range(1, 70000), true));
        A.push_back(mk(r.range(1, 2 * L), false));
    }
    // the same stream, same lock schedule, in small frames
    std::vector<Frame<T>> B;
    for (auto& F : A) {
        if (F.mismatch) continue;
        const int n = F.x.size();
        if (n == 0) { B.push_back(F); continue; }
        const int style = r.range(0, 3);
        for (int a = 0; a < n;) {
            const int m = std::min(n - a, style == 0 ? r.range(1, 2 * L) : style == 1 ? 1000 : r.range(1, 1000));
            Frame<T> G;
            G.lock = F.lock;
            G.x = base_array<T>(F.x.slice(a, a + m));
            G.d = base_array<T>(F.d.slice(a, a + m));
            B.push_back(G);
            a += m;
        }
    }
    Cap<T> ca, cb;
    Opt oa, ob;
    oa.watch = ob.watch = 900;
    if (dkind == 0) oa.h = ob.h = &h;
    ob.no_ref = true;
    oa.via_temp = r.range(0, 3) == 0;
    run_scenario<T>(p, A, cseed, corr_mode, k == K_RLS ? TOL_RLS : TOL_LMS, "long-single-call", &ca, oa);
    run_scenario<T>(p, B, cseed, -1, 0, "long-single-call-in-small-frames", &cb, ob);
    const std::string js0 = pjson(p, Tr<T>::cx, cseed) + ",\"scenario\":\"long-single-call\",\"long_call_samples\":" + std::to_string(nlong) +
                            ",\"frames_lock_nx_nd\":" + frames_json(A);
    out.n_oracle++;
    out.stat(std::string("long_") + KN[k] + (Tr<T>::cx ? "_cx" : "_re"));
    bool same = ca.complete && cb.complete && ca.y.size() == cb.y.size() && ca.e.size() == cb.e.size() && ca.c.size() == cb.c.size();
    long long at = -1;
    for (size_t i = 0; same && i < ca.y.size(); ++i) if (!same_bits(ca.y[i], cb.y[i]) || !same_bits(ca.e[i], cb.e[i])) { same = false; at = (long long)i; }
    for (size_t i = 0; same && i < ca.c.size(); ++i) if (!same_bits(ca.c[i], cb.c[i])) { same = false; at = -2 - (long long)i; }
    if (!same)
        out.fail(std::string("C12:framing-dependence:") + KN[k], js0 + ",\"first_differing_stream_sample\":" + std::to_string(at) + "}");
    // convergence (noise-free, white input with silent stretches): NLMS and RLS
    if (dkind == 0 && k != K_LMS && ca.c.size() == (size_t)L) {
        std::vector<LC> c(L);
        for (int j = 0; j < L; ++j) c[j] = toL(ca.c[j]);
        const LD mis = misalign(h, c);
        upd(worst_mis_e12, mis, 1e-12L);
        out.stat("chk_long_converged");
        if (!(mis < 1e-6L)) out.fail(std::string("C12:not-converged:") + KN[k], js0 + ",\"misalignment\":" + vh::jnum((double)mis) + "}");
    }
}

static int long_size(vh::Rng& r, int cls) {
    switch (cls) {
    case 0: return 131072 + r.range(1, 8192);
    case 1: return 262144 + r.range(1, 8192);
    case 2: return 3 * 65536;
    case 3: return 3 * 49152;
    case 4: return 131073;
    case 5: return 65536 + r.range(1, 8192);
    case 6: return 262145;
    case 7: return 65537;
    case 8: return 2 * 65536;
    case 9: return 2 * 49152;
    case 10: return 6 * 49152;
    case 11: return 5 * 65536;
    default: return 1048576 + r.range(1, 8192);
    }
}

template<class T> static void long_calls(vh::Rng& top, bool thorough, uint64_t seed) {
    static const int LQ[] = {2, 3, 5, 8, 16};
    if (!thorough) {
        // quick: two long calls per filter and type - one just above 2^17 (RLS: above 2^16), one above 2^18 or a large multiple of
        // 49152 / 65536 (RLS: above 2^17, len 2), one of them with a noisy desired signal; the size class rotates with the seed;
        // one of the first kind goes through the model (real LMS or NLMS)
        static const int CL_A[] = {0, 3, 4}, CL_B[] = {1, 2, 6, 10}, CL_RA[] = {5, 7, 9}, CL_RB[] = {0, 8, 4};
        for (int k = 0; k < 3; ++k) {
            const int i = int((seed + k + 3 * Tr<T>::cx) % 60);
            const bool noisy = (seed + k + Tr<T>::cx) % 2 == 0;
            const bool corr = Tr<T>::cx == 0 && k == int(seed % 2);
            if (k == K_RLS) {
                long_call<T>(top, K_RLS, 2 + i % 3, long_size(top, CL_RA[i % 3]), i % 8, -1, noisy);
                long_call<T>(top, K_RLS, 2, long_size(top, CL_RB[i % 3]), (i + 3) % 8, -1, !noisy);
            } else {
                long_call<T>(top, Kind(k), LQ[i % 5], corr ? 131072 + top.range(4096, 8192) : long_size(top, CL_A[i % 3]), corr ? i % 4 : i % 8, corr ? 2 : -1, noisy);
                long_call<T>(top, Kind(k), LQ[(i + 2) % 5], long_size(top, CL_B[i % 4]), (i + 3) % 8, -1, !noisy);
            }
        }
        return;
    }
    int n = 0;
    for (int k = 0; k < 3; ++k)
        for (int cls = 0; cls <= 12; ++cls) {
            if (k == K_RLS && cls == 12) continue;
            const int L = k == K_RLS ? (cls == 7 ? 8 : cls == 9 ? 6 : 2 + cls % 4) : (cls == 1 ? 64 : cls == 5 ? 33 : LQ[(cls + k) % 5]);
            // through the model (digest): real LMS above 2^17, real RLS above 2^16, complex NLMS above 2^17
            const bool corr = Tr<T>::cx ? (cls == 0 && k == K_NLMS) : ((cls == 0 && k == K_LMS) || (cls == 5 && k == K_RLS));
            long_call<T>(top, Kind(k), corr && k == K_RLS ? 2 : corr ? 8 : L, long_size(top, cls), corr ? n % 4 : n % 8, corr ? 2 : -1, (n + Tr<T>::cx) % 2 == 0);
            ++n;
        }
}

// ------------------------------------------------------------------------------------------------ convergence (system identification)
// sx: absolute scale of the white input, hs: scale of the unknown system (for RLS par2 is the diagonal load x sx^2)
template<class T> static void convergence_case(vh::Rng& top, Kind k, int L, double par1, double par2, int corr_mode, double sx = 1, double hs = 1) {
    const uint64_t cseed = top.next();
    vh::Rng r(cseed);
    Params p;
    p.kind = k;
    p.L = L;
    p.leak = 1;
    long long N;
    if (k == K_NLMS) {
        p.mu = par1;
        // misalignment contracts by about 1 - mu(2-mu)/L per sample: 1e-6 needs 13.8 L / (mu(2-mu)); x3 margin
        N = (long long)(3 * 13.8 * L / (p.mu * (2 - p.mu))) + 50;
    } else {
        p.lam = par1;
        p.delta = par2 / (sx * sx);
        // regularisation lam^k / delta against the data term sum_{i<k} lam^i (unit input power): relative bias
        // (lam^k/delta) / sum lam^i must fall below 1e-3 (squared: 1e-6); x10 margin, at least 6 L + 40 samples
        N = 6 * L + 40;
        for (long long kk = 1;; ++kk) {
            const double reg = std::pow(p.lam, (double)kk) / par2;
            const double dat = p.lam < 1 ? (1 - std::pow(p.lam, (double)kk)) / (1 - p.lam) : (double)kk;
            if (reg / dat < 1e-3 / 10) { N = std::max<long long>(N, kk + 4 * L); break; }
        }
    }
    int msys;
    std::vector<LC> h = gen_system<T>(r, L, msys);
    if (hs != 1) for (auto& v : h) v *= LD(hs);
    if (sx != 1 || hs != 1) out.stat("conv_scaled");
    const std::string js0 = pjson(p, Tr<T>::cx, cseed) + ",\"scenario\":\"convergence\",\"system_len\":" + std::to_string(msys) + ",\"samples\":" + std::to_string(N) +
                            ",\"input_scale\":" + vh::jnum(sx) + ",\"system_scale\":" + vh::jnum(hs);
    vh::set_current(std::string("C12:hang-or-crash:") + KN[k], js0 + "}");
    vh::watch(600);
    Impl<T> f(p);
    std::vector<LC> hist(L, LC(0));   // circular: last L inputs
    std::vector<Frame<T>> frs;
    long long done = 0;
    size_t pos = 0;
    bool bad_e = false;
    while (done < N) {
        const int n = (int)std::min<long long>(N - done, r.range(1, 4) == 1 ? r.range(1, 2 * L) : r.range(1, 400));
        Frame<T> F;
        F.x = base_array<T>(n);
        F.d = base_array<T>(n);
        for (int i = 0; i < n; ++i) {
            T v; rnd(r, v);
            if (sx != 1) scl(v, sx);
            F.x[i] = v;
            hist[pos % L] = toL(v);
            LC dv(0);
            for (int j = 0; j < L; ++j) dv += h[j] * hist[(pos + L - j) % L];
            ++pos;
            fromL(dv, F.d[i]);
        }
        base_array<T> y, e;
        f.process(F.x, F.d, y, e);
        out.n_oracle++;
        for (int i = 0; i < n && !bad_e; ++i) {
            const T dmy = F.d[i] - y[i];
            if (!same_bits(e[i], dmy)) { bad_e = true; out.fail(std::string("C12:error-not-d-minus-y:") + KN[k], js0 + ",\"at\":" + std::to_string(done + i) + "}"); }
        }
        if (corr_mode >= 0) frs.push_back(F);
        done += n;
    }
    vh::unwatch();
    vh::clear_current();
    const base_array<T> c = f.coeffs();
    LD num = 0, den = 0;
    bool fin = true;
    for (int j = 0; j < L; ++j) { num += std::norm(toL(c[j]) - h[j]); den += std::norm(h[j]); fin = fin && finiteT(c[j]); }
    const LD mis = num / den;
    upd(worst_mis_e12, mis, 1e-12L);
    out.stat(std::string("conv_") + KN[k] + (Tr<T>::cx ? "_cx" : "_re"));
    out.stat("conv_samples", N);
    if (!fin || !(mis < 1e-6L))
        out.fail(std::string("C12:not-converged:") + KN[k], js0 + ",\"misalignment\":" + vh::jnum((double)mis) + "}");
    if (corr_mode >= 0) out.corr(corr_lhs(p, frs, 1), vh::hxs(c));
}

template<class T> static void convergence(vh::Rng& top, bool thorough) {
    std::vector<int> Ls = thorough ? std::vector<int>{2, 3, 4, 5, 8, 11, 16, 24, 32, 47, 64} : std::vector<int>{2, 3, 8, 16, 64};
    for (int L : Ls) {
        for (double mu : NLMS_MU) {
            const long long N = (long long)(3 * 13.8 * L / (mu * (2 - mu))) + 50;
            convergence_case<T>(top, K_NLMS, L, mu, 0, (L <= 8 && N <= 3000) ? 1 : -1);
        }
        for (int t = 0; t < (thorough ? 6 : 2); ++t) convergence_case<T>(top, K_NLMS, L, 0.02 + 1.96 * top.unit(), 0, -1);
    }
    for (int L : Ls) {
        for (double lam : LAMS)
            for (double dl : DELTAS) {
                const bool slow = lam == 1.0 && dl < 1;   // 1e5..1e6 samples
                if (slow && L > (thorough ? 16 : 8) && !(thorough && L == 64 && dl == 0.1)) continue;
                convergence_case<T>(top, K_RLS, L, lam, dl, (L <= 4 && !slow && lam >= 0.98 && dl == 1.0) ? 1 : -1);
            }
        for (int t = 0; t < (thorough ? 6 : 2); ++t) {
            const double lam = 0.9 + 0.1 * top.unit(), dl = std::pow(10.0, -2 + 6 * top.unit());
            if (lam > 0.9995 && dl < 1 && L > 8) continue;
            convergence_case<T>(top, K_RLS, L, lam, dl, -1);
        }
    }
    // the same at other absolute scales: x -> sx x, system -> hs system (NLMS: input power far above eps(); RLS: diagonal load / sx^2)
    static const double SXN[] = {1e-4, 1e8, 1e100}, SXR[] = {1e-100, 1e-8, 1e8, 1e100}, HSC[] = {1e-8, 1.0, 1e8};
    for (int L : thorough ? Ls : std::vector<int>{2, 16}) {
        for (double sx : SXN)
            for (int t = 0; t < (thorough ? 3 : 1); ++t) convergence_case<T>(top, K_NLMS, L, NLMS_MU[2 + top.range(0, 4)], 0, -1, sx, HSC[top.range(0, 2)]);
        for (double sx : SXR)
            for (int t = 0; t < (thorough ? 3 : 1); ++t)
                convergence_case<T>(top, K_RLS, L, LAMS[top.range(0, 4)], DELTAS[top.range(1, 6)], -1, sx, HSC[top.range(0, 2)]);
    }
}

// ------------------------------------------------------------------------------------------------ real RLS = weighted least squares
// solves A w = b (A symmetric positive definite, n x n) by Cholesky in long double; false if not SPD
static bool chol_solve(std::vector<LD> A, std::vector<LD> b, int n, std::vector<LD>& w) {
    for (int j = 0; j < n; ++j) {
        LD s = A[size_t(j) * n + j];
        for (int k = 0; k < j; ++k) s -= A[size_t(j) * n + k] * A[size_t(j) * n + k];
        if (!(s > 0)) return false;
        const LD ljj = sqrtl(s);
        A[size_t(j) * n + j] = ljj;
        for (int i = j + 1; i < n; ++i) {
            LD t = A[size_t(i) * n + j];
            for (int k = 0; k < j; ++k) t -= A[size_t(i) * n + k] * A[size_t(j) * n + k];
            A[size_t(i) * n + j] = t / ljj;
        }
    }
    w = b;
    for (int i = 0; i < n; ++i) {
        LD t = w[i];
        for (int k = 0; k < i; ++k) t -= A[size_t(i) * n + k] * w[k];
        w[i] = t / A[size_t(i) * n + i];
    }
    for (int i = n - 1; i >= 0; --i) {
        LD t = w[i];
        for (int k = i + 1; k < n; ++k) t -= A[size_t(k) * n + i] * w[k];
        w[i] = t / A[size_t(i) * n + i];
    }
    return true;
}

static void rls_wls_case(vh::Rng& top, int maxL, bool corr) {
    const uint64_t cseed = top.next();
    vh::Rng r(cseed);
    Params p = gen_params(r, K_RLS, maxL, 1.0);
    const int L = p.L;
    const int total = r.range(1, 4 * L + 8);
    const int dkind = r.range(0, 2);
    const int xkind = r.range(0, 3) == 0 ? 2 : 0;
    auto fr = gen_frames<real_t>(r, p, total, r.range(0, 3), xkind, 1.0, dkind, r.coin(), false);
    const std::string js0 = pjson(p, 0, cseed) + ",\"scenario\":\"rls-vs-batch-wls\",\"frames_lock_nx_nd\":" + frames_json(fr);
    vh::set_current("C12:hang-or-crash:rls", js0 + "}");
    vh::watch(120);
    RlsFilter<real_t> f(L, p.lam, p.delta);
    // batch accumulators: A = lam^M / delta I + sum lam^(M-m) u u^T,  b = sum lam^(M-m) d u   (unlocked samples only)
    std::vector<LD> A(size_t(L) * L, 0), b(L, 0), u(L, 0), w;
    for (int i = 0; i < L; ++i) A[size_t(i) * L + i] = 1 / LD(p.delta);
    const int every = L <= 8 ? 1 : std::max(1, total / 8);
    int seen = 0;
    bool failed = false;
    auto check = [&]() {
        out.n_oracle++;
        out.stat("chk_rls_wls");
        if (!chol_solve(A, b, L, w)) { out.fail("C12:wls-reference-not-spd", js0 + "}"); failed = true; return; }
        const arr_real& c = f.coeffs();
        LD num = 0, den = 0;
        for (int j = 0; j < L; ++j) { num += (LD(c[j]) - w[j]) * (LD(c[j]) - w[j]); den += w[j] * w[j]; }
        // backward measure as well: residual of the normal equations at the implementation's coefficients
        LD rs = 0, rn = 0;
        for (int a = 0; a < L; ++a) {
            LD t = -b[a], s = fabsl(b[a]);
            for (int cc = 0; cc < L; ++cc) { t += A[size_t(a) * L + cc] * LD(c[cc]); s += fabsl(A[size_t(a) * L + cc] * LD(c[cc])); }
            rs = std::max(rs, fabsl(t));
            rn = std::max(rn, s);
        }
        const LD fwd = sqrtl(num) / std::max(sqrtl(den), 1e-300L);
        const LD bwd = rs / std::max(rn, 1e-300L);
        upd(worst_wls_fwd_e15, fwd, 1e-15L);
        upd(worst_wls_e15, std::min(fwd, bwd), 1e-15L);
        // the solution is reproduced when the forward error or the normal-equation residual is at rounding
        // level (the forward error of ANY double computation scales with the conditioning of A)
        if (!(fwd <= TOL_WLS_FWD || bwd <= TOL_WLS_BWD)) {
            failed = true;
            out.fail("C12:rls-not-wls", js0 + ",\"after_samples\":" + std::to_string(seen) + ",\"forward_err\":" + vh::jnum((double)fwd) + ",\"residual\":" + vh::jnum((double)bwd) + "}");
        }
    };
    for (size_t fi = 0; fi < fr.size() && !failed; ++fi) {
        f.set_lock_coeffs(fr[fi].lock);
        const int n = fr[fi].x.size();
        if (n == 0) { f.process(arr_real(0), arr_real(0)); continue; }
        int k0 = 0;
        while (k0 < n && !failed) {   // chunks ending at the check points
            int k1 = k0 + 1;
            while (k1 < n && ((seen + (k1 - k0)) % every) != 0) ++k1;
            const int m = k1 - k0;
            arr_real xs(m), ds(m);
            for (int i = 0; i < m; ++i) { xs[i] = fr[fi].x[k0 + i]; ds[i] = fr[fi].d[k0 + i]; }
            f.process(xs, ds);
            for (int i = 0; i < m; ++i) {
                for (int j = L - 1; j > 0; --j) u[j] = u[j - 1];
                u[0] = xs[i];
                if (!fr[fi].lock) {
                    for (int a = 0; a < L; ++a) {
                        for (int c = 0; c < L; ++c) A[size_t(a) * L + c] = LD(p.lam) * A[size_t(a) * L + c] + u[a] * u[c];
                        b[a] = LD(p.lam) * b[a] + LD(ds[i]) * u[a];
                    }
                }
            }
            seen += m;
            k0 = k1;
            if ((seen % every) == 0) check();
        }
    }
    if (!failed) check();
    out.stat("scen_rls_wls");
    vh::unwatch();
    vh::clear_current();
    (void)corr;
}

// ------------------------------------------------------------------------------------------------ fixed boundary scenarios
template<class T> static void boundary(vh::Rng& top) {
    // all-zero input (NLMS normalisation by pu + eps), zero desired, first call empty, frame == len-1, lock from the start
    for (int kind = 0; kind < 3; ++kind)
        for (int L : {2, 3, 8}) {
            for (int variant = 0; variant < 4; ++variant) {
                const uint64_t cseed = top.next();
                vh::Rng r(cseed);
                Params p = gen_params(r, Kind(kind), 64, 1.0);
                p.L = L;
                if (kind == K_LMS) p.mu = 0.3 * 2.0 / (3.0 * L);
                std::vector<Frame<T>> fr;
                auto mk = [&](int n, bool lock, int xz, int dz) {
                    Frame<T> F;
                    F.lock = lock;
                    F.x = base_array<T>(n);
                    F.d = base_array<T>(n);
                    for (int i = 0; i < n; ++i) {
                        if (!xz) rnd(r, F.x[i]);
                        if (!dz) rnd(r, F.d[i]);
                    }
                    fr.push_back(F);
                };
                switch (variant) {
                case 0: mk(0, false, 0, 0); mk(L + 2, false, 1, 0); mk(3, false, 0, 0); mk(L, false, 1, 1); mk(2, false, 0, 0); break;   // zero input stretches
                case 1: mk(L - 1, true, 0, 0); mk(L - 1, false, 0, 0); mk(L, true, 0, 0); mk(1, false, 0, 0); mk(L + 1, true, 0, 0); break;   // locked from the start
                case 2: for (int i = 0; i < 3 * L; ++i) mk(1, (i / 3) % 2 == 1, 0, 0); break;   // single samples, lock toggling
                default: mk(2 * L + 1, false, 0, 1); mk(0, true, 0, 0); mk(L - 1, false, 0, 0); mk(L + 1, false, 0, 0); break;
                }
                run_scenario<T>(p, fr, cseed, 0, Kind(kind) == K_RLS ? TOL_RLS : TOL_LMS, "boundary");
            }
        }
}

int main(int argc, char** argv) {
    vh::Args a(argc, argv);
    vh::install_guards();
    vh::Rng top(a.seed * 0x9e3779b97f4a7c15ULL + 12);
    out.max_samples = 8;

    boundary<real_t>(top);
    boundary<cmplx_t>(top);
    // arbitrary pairs on short horizons: small lengths densely, the whole 2..64 range
    // (the filter kind is it % 3: the CORR stride must be coprime to 3 so that LMS, NLMS and RLS scenarios all reach the model)
    arbitrary_pairs<real_t>(top, a.thorough ? 6000 : 240, 8, a.thorough ? 16 : 4);
    arbitrary_pairs<cmplx_t>(top, a.thorough ? 6000 : 240, 8, a.thorough ? 16 : 4);
    arbitrary_pairs<real_t>(top, a.thorough ? 3600 : 150, 64, a.thorough ? 31 : 7);
    arbitrary_pairs<cmplx_t>(top, a.thorough ? 3600 : 150, 64, a.thorough ? 31 : 7);
    // scale classes of inputs and parameters, exact-zero / negative-zero runs, denormals, rejected calls in the histories
    scaled_pairs<real_t>(top, a.thorough ? 6000 : 240, 8, a.thorough ? 16 : 2);
    scaled_pairs<cmplx_t>(top, a.thorough ? 6000 : 240, 8, a.thorough ? 16 : 2);
    scaled_pairs<real_t>(top, a.thorough ? 2400 : 90, 64, a.thorough ? 31 : 4);
    scaled_pairs<cmplx_t>(top, a.thorough ? 2400 : 90, 64, a.thorough ? 31 : 4);
    // copies taken mid-stream
    copy_cases<real_t>(top, a.thorough ? 1200 : 60);
    copy_cases<cmplx_t>(top, a.thorough ? 1200 : 60);
    // single calls longer than 2^16 / 2^17 / 2^18 samples
    long_calls<real_t>(top, a.thorough, a.seed);
    long_calls<cmplx_t>(top, a.thorough, a.seed);
    // real RLS against the batch normal equations
    for (int i = 0; i < (a.thorough ? 5000 : 200); ++i) rls_wls_case(top, i % 3 == 0 ? 64 : 12, false);
    // convergence
    convergence<real_t>(top, a.thorough);
    convergence<cmplx_t>(top, a.thorough);

    out.stat("worst_reference_output_err_1e-15", worst_ref_out_e15);
    out.stat("worst_reference_coeffs_err_1e-15", worst_ref_coef_e15);
    out.stat("worst_fir_err_over_bound_1e-3", worst_fir_ratio_e3);
    out.stat("worst_rls_reference_output_err_over_kappa_1e-18", worst_rls_out_e18);
    out.stat("worst_rls_reference_coeffs_err_over_kappa_1e-18", worst_rls_coef_e18);
    out.stat("worst_rls_wls_err_1e-15", worst_wls_e15);
    out.stat("worst_rls_wls_forward_err_1e-15", worst_wls_fwd_e15);
    out.stat("worst_misalignment_1e-12", worst_mis_e12);
    out.stat("distinct_nontrivial", out.n_cases);
    out.finish();
    return 0;
}
